(* Proofs about the model of mystic/termination.py (Pure/Termination.v). *)
From Coq Require Import ZArith List Bool Lia.
From MV Require Import Common.Num Pure.Termination.
Import ListNotations.
Open Scope Z_scope.

(* ================================================================== Python indexing *)
Section PyListFacts.
  Context {A : Type}.

  Lemma pyget_nil (i : Z) : pyget (@nil A) i = None.
  Proof.
    unfold pyget; cbn [length Z.of_nat].
    destruct (0 <=? i) eqn:H0.
    - destruct (i <? 0) eqn:H1; auto. apply Z.leb_le in H0. apply Z.ltb_lt in H1. lia.
    - destruct (- 0 <=? i) eqn:H1; auto. apply Z.leb_gt in H0. apply Z.leb_le in H1. lia.
  Qed.

  (* l[-0] is l[0] *)
  Lemma pyget_zero (l : list A) : pyget l 0 = nth_error l 0.
  Proof.
    unfold pyget. cbn [Z.leb Z.compare]. destruct l as [|x r]; [reflexivity|].
    destruct (0 <? Z.of_nat (length (x :: r))) eqn:H; [reflexivity|].
    apply Z.ltb_ge in H. cbn [length] in H. lia.
  Qed.

  (* l[-g] for 0 < g <= len is the element g-1 places before the last one *)
  Lemma pyget_neg (l : list A) (g : Z) :
    0 < g <= Z.of_nat (length l) -> pyget l (- g) = nth_error l (Z.to_nat (Z.of_nat (length l) - g)).
  Proof.
    intros H. unfold pyget.
    destruct (0 <=? - g) eqn:H0; [apply Z.leb_le in H0; lia|].
    destruct (- Z.of_nat (length l) <=? - g) eqn:H1.
    - reflexivity.
    - apply Z.leb_gt in H1. lia.
  Qed.

  Lemma pyget_neg_out (l : list A) (g : Z) : Z.of_nat (length l) < g -> pyget l (- g) = None.
  Proof.
    intros H. unfold pyget.
    destruct (0 <=? - g) eqn:H0; [apply Z.leb_le in H0; lia|].
    destruct (- Z.of_nat (length l) <=? - g) eqn:H1; auto. apply Z.leb_le in H1. lia.
  Qed.

  Lemma pyget_window_defined (l : list A) (g : Z) :
    0 <= g < Z.of_nat (length l) -> exists a, pyget l (- g) = Some a.
  Proof.
    intros H. destruct (Z.eq_dec g 0) as [->|Hg].
    - cbn [Z.opp]. rewrite pyget_zero. destruct l; [cbn in H; lia|]. eexists; reflexivity.
    - rewrite pyget_neg by lia.
      destruct (nth_error l (Z.to_nat (Z.of_nat (length l) - g))) eqn:E; [eauto|].
      apply nth_error_None in E. lia.
  Qed.

  Lemma pylast_nil : pylast (@nil A) = None.
  Proof. apply pyget_nil. Qed.

  Lemma pylast_last (l : list A) (d : A) : l <> [] -> pylast l = Some (last l d).
  Proof.
    intros Hl. unfold pylast.
    assert (Hlen : 0 < Z.of_nat (length l)) by (destruct l; [congruence | cbn [length]; lia]).
    change (pyget l (Z.opp 1) = Some (last l d)). rewrite (pyget_neg l 1) by lia.
    replace (Z.to_nat (Z.of_nat (length l) - 1)) with (length l - 1)%nat by lia.
    clear Hlen. induction l as [|x r IH]; [congruence|].
    destruct r as [|y r']; [reflexivity|].
    cbn [length]. replace (S (S (length r')) - 1)%nat with (S (length r')) by lia.
    cbn [nth_error]. change (last (x :: y :: r') d) with (last (y :: r') d).
    rewrite <- IH by congruence. cbn [length]. f_equal. lia.
  Qed.

  Lemma pylast_some (l : list A) : l <> [] -> exists b, pylast l = Some b.
  Proof. destruct l as [|x r]; [congruence|]. intros _. exists (last (x :: r) x). apply pylast_last. congruence. Qed.

  Lemma pylast_none (l : list A) : pylast l = None -> l = [].
  Proof. destruct l as [|x r]; auto. intros H. destruct (pylast_some (x :: r)) as [b Hb]; congruence. Qed.
End PyListFacts.

(* ================================================================== the members dictionary *)
Section DictProofs.
  Definition has_key {V} (k : key) (d : list (key * V)) : bool := existsb (fun kv => key_eqb (fst kv) k) d.

  Lemma dput_fresh {V} (k : key) (v : V) d : has_key k d = false -> dput k v d = d ++ [(k, v)].
  Proof.
    induction d as [|[k' v'] r IH]; cbn; auto.
    intros H. apply orb_false_iff in H. destruct H as [H1 H2]. cbn in H1. rewrite H1. f_equal. auto.
  Qed.

  Lemma distinct_app_mid (xs : list key) k ys :
    distinct_keys (xs ++ k :: ys) = true -> existsb (fun x => key_eqb x k) xs = false.
  Proof.
    induction xs as [|x r IH]; cbn; auto.
    intros H. apply andb_true_iff in H. destruct H as [H1 H2].
    apply negb_true_iff in H1. rewrite existsb_app in H1. apply orb_false_iff in H1. destruct H1 as [_ H1].
    cbn in H1. apply orb_false_iff in H1. destruct H1 as [H1 _]. rewrite H1. cbn. auto.
  Qed.

  Lemma has_key_map {V} k (d : list (key * V)) : has_key k d = existsb (fun x => key_eqb x k) (map fst d).
  Proof. unfold has_key. induction d as [|[k' v'] r IH]; cbn; auto. now rewrite IH. Qed.

  Lemma fold_dput_distinct {V} (l acc : list (key * V)) :
    distinct_keys (map fst acc ++ map fst l) = true ->
    fold_left (fun d kv => dput (fst kv) (snd kv) d) l acc = acc ++ l.
  Proof.
    revert acc. induction l as [|[k v] r IH]; intros acc H; cbn.
    - now rewrite app_nil_r.
    - cbn in H. rewrite dput_fresh.
      + rewrite IH.
        * now rewrite <- app_assoc.
        * rewrite map_app. cbn. rewrite <- app_assoc. exact H.
      + rewrite has_key_map. exact (distinct_app_mid _ _ _ H).
  Qed.

  (* members that are pairwise distinct as keys: the dictionary is the member list *)
  Lemma dict_of_distinct {V} (l : list (key * V)) : distinct_keys (map fst l) = true -> dict_of l = l.
  Proof. intros H. unfold dict_of. now rewrite fold_dput_distinct. Qed.

  Lemma dvalues_distinct {A V} (kf : A -> key) (f : A -> V) (ts : list A) :
    distinct_keys (map kf ts) = true -> dvalues (map (fun m => (kf m, f m)) ts) = map f ts.
  Proof.
    intros H. unfold dvalues. rewrite dict_of_distinct.
    - rewrite map_map. reflexivity.
    - rewrite map_map. exact H.
  Qed.

  (* every stored value is some member's value *)
  Lemma dput_values {V} k (v : V) d x : In x (map snd (dput k v d)) -> x = v \/ In x (map snd d).
  Proof.
    induction d as [|[k' v'] r IH]; cbn.
    - intros [H|[]]; auto.
    - destruct (key_eqb k' k); cbn.
      + intros [H|H]; auto.
      + intros [H|H]; auto. destruct (IH H); auto.
  Qed.
  Lemma fold_dput_values {V} (l acc : list (key * V)) x :
    In x (map snd (fold_left (fun d kv => dput (fst kv) (snd kv) d) l acc)) -> In x (map snd acc) \/ In x (map snd l).
  Proof.
    revert acc. induction l as [|[k v] r IH]; intros acc H; cbn in *; auto.
    destruct (IH _ H) as [H1|H1]; auto.
    destruct (dput_values _ _ _ _ H1); subst; auto.
  Qed.
  Lemma dvalues_subset {V} (l : list (key * V)) x : In x (dvalues l) -> In x (map snd l).
  Proof. intros H. destruct (fold_dput_values l [] x H) as [[]|]; auto. Qed.

  (* mapping over the values commutes with building the dictionary *)
  Lemma dput_map {V W} (g : V -> W) k v d :
    dput k (g v) (map (fun kv => (fst kv, g (snd kv))) d) = map (fun kv => (fst kv, g (snd kv))) (dput k v d).
  Proof.
    induction d as [|[k' v'] r IH]; cbn; auto.
    destruct (key_eqb k' k); cbn; auto. now rewrite IH.
  Qed.
  Lemma fold_dput_map {V W} (g : V -> W) (l acc : list (key * V)) :
    fold_left (fun d kv => dput (fst kv) (snd kv) d) (map (fun kv => (fst kv, g (snd kv))) l)
              (map (fun kv => (fst kv, g (snd kv))) acc)
    = map (fun kv => (fst kv, g (snd kv))) (fold_left (fun d kv => dput (fst kv) (snd kv) d) l acc).
  Proof.
    revert acc. induction l as [|[k v] r IH]; intros acc; cbn; auto.
    rewrite dput_map. apply IH.
  Qed.
  Lemma dvalues_map {A V W} (g : V -> W) (kf : A -> key) (f : A -> V) (ts : list A) :
    dvalues (map (fun m => (kf m, g (f m))) ts) = map g (dvalues (map (fun m => (kf m, f m)) ts)).
  Proof.
    unfold dvalues, dict_of.
    replace (map (fun m => (kf m, g (f m))) ts)
      with (map (fun kv : key * V => (fst kv, g (snd kv))) (map (fun m => (kf m, f m)) ts))
      by (rewrite map_map; reflexivity).
    change (@nil (key * W)) with (map (fun kv : key * V => (fst kv, g (snd kv))) []).
    rewrite fold_dput_map. rewrite !map_map. cbn. reflexivity.
  Qed.

  Lemma dput_nonnil {V} k (v : V) d : dput k v d <> [].
  Proof. destruct d as [|[k' v'] r]; cbn; [discriminate|]. destruct (key_eqb k' k); discriminate. Qed.
  Lemma fold_dput_nonnil {V} (l acc : list (key * V)) :
    acc <> [] -> fold_left (fun d kv => dput (fst kv) (snd kv) d) l acc <> [].
  Proof. revert acc. induction l as [|[k v] r IH]; intros acc H; cbn; auto. apply IH. apply dput_nonnil. Qed.
  Lemma dvalues_nil {V} (l : list (key * V)) : dvalues l = [] -> l = [].
  Proof.
    destruct l as [|[k v] r]; auto. unfold dvalues, dict_of. cbn. intros H.
    apply map_eq_nil in H. exfalso. revert H. apply fold_dput_nonnil. discriminate.
  Qed.
End DictProofs.

(* ================================================================== condition trees *)
Section TreeProofs.
  Variable L : Type.
  Variable out : L -> outcome.

  Fixpoint tree_ind' (P : tree L -> Prop)
      (Hl : forall i c, P (Leaf i c))
      (Hn : forall k ts, Forall P ts -> P (Node k ts)) (t : tree L) : P t :=
    match t with
    | Leaf i c => Hl i c
    | Node k ts =>
        Hn k ts ((fix go (ts : list (tree L)) : Forall P ts :=
                    match ts with
                    | [] => Forall_nil P
                    | x :: r => Forall_cons x (tree_ind' P Hl Hn x) (go r)
                    end) ts)
    end.

  Lemma existsb_id_map {A} (f : A -> bool) l : existsb (fun b => b) (map f l) = existsb f l.
  Proof. induction l; cbn; auto. now rewrite IHl. Qed.
  Lemma forallb_id_map {A} (f : A -> bool) l : forallb (fun b => b) (map f l) = forallb f l.
  Proof. induction l; cbn; auto. now rewrite IHl. Qed.
  Lemma forallb_ext_in {A} (f g : A -> bool) l : Forall (fun x => f x = g x) l -> forallb f l = forallb g l.
  Proof. induction 1; cbn; auto. now rewrite H, IHForall. Qed.
  Lemma existsb_ext_in {A} (f g : A -> bool) l : Forall (fun x => f x = g x) l -> existsb f l = existsb g l.
  Proof. induction 1; cbn; auto. now rewrite H, IHForall. Qed.

  (* ---- one compound whose members are distinct as keys *)
  Lemma eval_node_distinct k ts :
    distinct_keys (map key_of ts) = true ->
    eval out (Node k ts) = match k with KOr => existsb (eval out) ts | _ => forallb (eval out) ts end.
  Proof.
    intros H. cbn [eval]. rewrite (dvalues_distinct key_of (eval out) ts H).
    destruct k; auto using existsb_id_map, forallb_id_map.
  Qed.

  (* ---- any depth: evaluation is the intended all/some/member meaning *)
  Theorem eval_sem t : wf t = true -> eval out t = sem out t.
  Proof.
    induction t as [i c | k ts IH] using tree_ind'; [reflexivity|].
    intros H. cbn [wf] in H. apply andb_true_iff in H. destruct H as [Hd Hw].
    rewrite eval_node_distinct by exact Hd.
    assert (E : Forall (fun m => eval out m = sem out m) ts).
    { rewrite forallb_forall in Hw. rewrite Forall_forall in *. intros m Hm. apply IH; auto. }
    destruct k; cbn [sem]; auto using forallb_ext_in, existsb_ext_in.
  Qed.

  Theorem eval_and_iff ts : wf (Node KAnd ts) = true ->
    (eval out (Node KAnd ts) = true <-> forall m, In m ts -> eval out m = true).
  Proof.
    intros H. cbn [wf] in H. apply andb_true_iff in H. destruct H as [Hd _].
    rewrite eval_node_distinct by exact Hd. apply forallb_forall.
  Qed.
  Theorem eval_when_iff ts : wf (Node KWhen ts) = true ->
    (eval out (Node KWhen ts) = true <-> forall m, In m ts -> eval out m = true).
  Proof.
    intros H. cbn [wf] in H. apply andb_true_iff in H. destruct H as [Hd _].
    rewrite eval_node_distinct by exact Hd. apply forallb_forall.
  Qed.
  Theorem eval_or_iff ts : wf (Node KOr ts) = true ->
    (eval out (Node KOr ts) = true <-> exists m, In m ts /\ eval out m = true).
  Proof.
    intros H. cbn [wf] in H. apply andb_true_iff in H. destruct H as [Hd _].
    rewrite eval_node_distinct by exact Hd. apply existsb_exists.
  Qed.

  (* ---- without the distinctness hypothesis the meaning is lost *)
  Theorem eval_or_collision_refuted :
    forall (a b : L), out a = Sat -> out b = Unsat ->
    let t := Node KOr [Node KOr [Leaf 0 a; Leaf 1 b]; Node KAnd [Leaf 0 a; Leaf 1 b]] in
    eval out t = false /\ sem out t = true.
  Proof. intros a b Ha Hb. cbn. rewrite Ha, Hb. cbn. auto. Qed.
  Theorem eval_and_collision_refuted :
    let t := @Node L KAnd [Node KOr []; Node KAnd []] in eval out t = true /\ sem out t = false.
  Proof. cbn. auto. Qed.

  (* ---- info names only satisfied leaves *)
  Theorem info_sound t i w : In (i, w) (info out t) ->
    exists c, In (i, c) (leaves t) /\ out c = (if w then Warn else Sat).
  Proof.
    revert i w. induction t as [j c | k ts IH] using tree_ind'; intros i w H.
    - cbn in H. destruct (out c) eqn:E; cbn in H; try contradiction;
        destruct H as [H|[]]; inversion H; subst; exists c; cbn; auto.
    - cbn [info] in H.
      assert (H' : In (i, w) (concat (dvalues (map (fun m => (key_of m, info out m)) ts)))).
      { destruct k; auto;
          destruct (forallb nonempty (dvalues (map (fun m => (key_of m, info out m)) ts))); auto; contradiction. }
      apply in_concat in H'. destruct H' as [v [Hv Hin]].
      apply dvalues_subset in Hv. rewrite map_map in Hv. cbn in Hv. apply in_map_iff in Hv.
      destruct Hv as [m [Hm1 Hm2]]. subst v.
      rewrite Forall_forall in IH. destruct (IH m Hm2 _ _ Hin) as [c [Hc1 Hc2]].
      exists c. split; auto. cbn [leaves]. apply in_flat_map. eauto.
  Qed.

  Lemma nonempty_concat {B} (vs : list (list B)) : nonempty (concat vs) = existsb nonempty vs.
  Proof.
    induction vs as [|v r IH]; cbn; auto.
    destruct v; cbn; auto.
  Qed.

  (* ---- info is empty exactly when the condition is not satisfied (no empty And/When inside) *)
  Theorem info_nonempty_eval t : no_empty_all t = true -> nonempty (info out t) = eval out t.
  Proof.
    induction t as [j c | k ts IH] using tree_ind'; intros H.
    - cbn. destruct (out c); reflexivity.
    - cbn [no_empty_all] in H. apply andb_true_iff in H. destruct H as [Hk Hm].
      assert (E : map (fun m => (key_of m, nonempty (info out m))) ts = map (fun m => (key_of m, eval out m)) ts).
      { apply map_ext_in. intros m Hin. f_equal. rewrite Forall_forall in IH. apply IH; auto.
        rewrite forallb_forall in Hm. auto. }
      pose proof (dvalues_map (@nonempty (nat * bool)) key_of (info out) ts) as C. rewrite E in C.
      cbn [info eval]. set (vs := dvalues (map (fun m => (key_of m, info out m)) ts)) in *.
      destruct k.
      + (* When *)
        rewrite C, forallb_id_map.
        destruct (forallb nonempty vs) eqn:F; [|reflexivity].
        rewrite nonempty_concat.
        destruct vs as [|v r] eqn:Ev.
        * subst vs. apply dvalues_nil in Ev. apply map_eq_nil in Ev. subst ts. discriminate.
        * cbn in F |- *. apply andb_true_iff in F. destruct F as [F1 _]. now rewrite F1.
      + (* And *)
        rewrite C, forallb_id_map.
        destruct (forallb nonempty vs) eqn:F; [|reflexivity].
        rewrite nonempty_concat.
        destruct vs as [|v r] eqn:Ev.
        * subst vs. apply dvalues_nil in Ev. apply map_eq_nil in Ev. subst ts. discriminate.
        * cbn in F |- *. apply andb_true_iff in F. destruct F as [F1 _]. now rewrite F1.
      + (* Or *)
        rewrite C, existsb_id_map. apply nonempty_concat.
  Qed.

  Theorem info_empty_iff t : no_empty_all t = true -> (info out t = [] <-> eval out t = false).
  Proof.
    intros H. rewrite <- (info_nonempty_eval t H). destruct (info out t); cbn; split; congruence.
  Qed.

  (* And() is satisfied and names nothing *)
  Theorem info_empty_and_refuted : eval out (@Node L KAnd []) = true /\ info out (@Node L KAnd []) = [].
  Proof. cbn. auto. Qed.

  (* ---- exceptions propagate from any leaf *)
  Theorem run_none_iff t : run out t = None <-> exists i c, In (i, c) (leaves t) /\ out c = Err.
  Proof.
    unfold run, any_err. destruct (existsb _ (leaves t)) eqn:E; split; try congruence.
    - intros _. apply existsb_exists in E. destruct E as [[i c] [H1 H2]]. exists i, c. split; auto.
      cbn in H2. destruct (out c); cbn in H2; congruence.
    - intros [i [c [H1 H2]]]. exfalso.
      assert (existsb (fun ic => raises (out (snd ic))) (leaves t) = true).
      { apply existsb_exists. exists (i, c). cbn. rewrite H2. auto. }
      congruence.
  Qed.
  Theorem run_some t b : run out t = Some b -> b = eval out t.
  Proof. unfold run. destruct (any_err out t); congruence. Qed.

  (* ---- the constructors *)
  Theorem mk_plain k (args : list (tree L)) : (forall k' ts, args <> [Node k' ts]) -> mk k args = Node k args.
  Proof.
    intros H. unfold mk. destruct args as [|a r]; auto. destruct a as [i c|k' ts]; auto.
    destruct r; auto. exfalso. eapply H; reflexivity.
  Qed.

  Theorem mk_and_sem_partial (args : list (tree L)) : (forall ts, args <> [Node KOr ts]) ->
    sem out (mk KAnd args) = forallb (sem out) args.
  Proof.
    intros H. unfold mk. destruct args as [|a r]; auto. destruct a as [i c|k' ts]; auto.
    destruct r; auto. cbn [sem forallb]. rewrite andb_true_r.
    destruct k'; auto. exfalso. eapply H; reflexivity.
  Qed.
  Theorem mk_or_sem_partial (args : list (tree L)) : (forall k ts, k <> KOr -> args <> [Node k ts]) ->
    sem out (mk KOr args) = existsb (sem out) args.
  Proof.
    intros H. unfold mk. destruct args as [|a r]; auto. destruct a as [i c|k' ts]; auto.
    destruct r; auto. cbn [sem existsb]. rewrite orb_false_r.
    destruct k'; auto; exfalso; eapply H; try reflexivity; discriminate.
  Qed.
  Definition when_ok (a : tree L) : bool :=
    match a with
    | Leaf _ _ => true
    | Node _ [m] => match m with Node KOr [_] => true | Node KOr _ => false | _ => true end
    | Node KOr _ => false
    | Node _ _ => true
    end.
  Theorem mk_when_sem_partial a : when_ok a = true -> sem out (mk_when a) = sem out a.
  Proof.
    destruct a as [i c|k ts]; cbn; [now rewrite andb_true_r|].
    destruct ts as [|m r].
    - destruct k; cbn; congruence.
    - destruct r as [|m' r'].
      + destruct m as [j d|k' ts']; cbn.
        * intros _. destruct k; cbn; now rewrite ?andb_true_r, ?orb_false_r.
        * destruct k'; cbn; intros H; destruct k; cbn; rewrite ?andb_true_r, ?orb_false_r; auto;
            destruct ts' as [|x [|y z]]; cbn in *; try congruence; now rewrite ?andb_true_r, ?orb_false_r.
      + destruct k; cbn; congruence.
  Qed.

  Theorem mk_and_flatten_refuted (a b : L) : out a = Sat -> out b = Unsat ->
    let args := [Node KOr [Leaf 0 a; Leaf 1 b]] in
    sem out (mk KAnd args) = false /\ forallb (sem out) args = true.
  Proof. intros Ha Hb. cbn. rewrite Ha, Hb. auto. Qed.
  Theorem mk_or_flatten_refuted (a b : L) : out a = Sat -> out b = Unsat ->
    let args := [Node KAnd [Leaf 0 a; Leaf 1 b]] in
    sem out (mk KOr args) = true /\ existsb (sem out) args = false.
  Proof. intros Ha Hb. cbn. rewrite Ha, Hb. auto. Qed.
  Theorem mk_when_flatten_refuted (a b : L) : out a = Sat -> out b = Unsat ->
    let arg := Node KOr [Leaf 0 a; Leaf 1 b] in
    sem out (mk_when arg) = false /\ sem out arg = true.
  Proof. intros Ha Hb. cbn. rewrite Ha, Hb. auto. Qed.

  (* ---- canonical objects: what the constructors produce *)
  Lemma canonical_mk k (args : list (tree L)) : forallb canonical args = true -> canonical (mk k args) = true.
  Proof.
    intros H. unfold mk. destruct args as [|a r]; auto. destruct a as [i c|k' ts].
    - cbn [canonical]. cbn in H. destruct r; cbn; auto.
    - destruct r as [|a' r'].
      + cbn in H. rewrite andb_true_r in H. cbn [canonical]. exact H.
      + cbn [canonical]. rewrite H. reflexivity.
  Qed.
  Lemma canonical_mk_when (a : tree L) : canonical a = true -> canonical (mk_when a) = true.
  Proof.
    intros H. unfold mk_when. destruct a as [i c|k ts]; [reflexivity|].
    destruct ts as [|m r]; [reflexivity|]. destruct r as [|m' r'].
    - cbn in H. destruct m as [j d|k' ts']; [reflexivity|discriminate].
    - exact H.
  Qed.

  Lemma sequence_map_some {A B} (f : A -> option B) (g : A -> B) l :
    Forall (fun x => f x = Some (g x)) l -> sequence (map f l) = Some (map g l).
  Proof. induction 1; cbn; auto. now rewrite H, IHForall. Qed.

  (* ---- rebuilding from type + state *)
  Theorem rebuild_same (t : tree L) : canonical t = true -> when_single t = true -> build (describe t) = Some t.
  Proof.
    induction t as [i c | k ts IH] using tree_ind'; [reflexivity|].
    intros Hc Hw. cbn [canonical] in Hc. cbn [when_single] in Hw.
    apply andb_true_iff in Hc. destruct Hc as [Hc1 Hc2]. apply andb_true_iff in Hw. destruct Hw as [Hw1 Hw2].
    cbn [describe build]. rewrite map_map.
    rewrite (sequence_map_some (fun x => build (describe x)) (fun x => x)).
    - rewrite map_id. destruct k; cbn [construct].
      + destruct ts as [|a [|b r]]; try discriminate Hw1. destruct a as [j d|k' ts']; [reflexivity|discriminate Hc1].
      + f_equal. unfold mk. destruct ts as [|a r]; auto. destruct a; auto. destruct r; [discriminate Hc1|reflexivity].
      + f_equal. unfold mk. destruct ts as [|a r]; auto. destruct a; auto. destruct r; [discriminate Hc1|reflexivity].
    - rewrite forallb_forall in Hc2, Hw2. rewrite Forall_forall in *. intros m Hm. apply IH; auto.
  Qed.

  Theorem rebuild_when_multi_refuted (a b : L) :
    let t := mk_when (mk KAnd [Leaf 0 a; Leaf 1 b]) in canonical t = true /\ build (describe t) = None.
  Proof. cbn. auto. Qed.
End TreeProofs.

(* ================================================================== primitive conditions, any Num *)
Section PrimProofs.
  Variable N : Num.
  Variable eta : T N.
  Notation E := (T N).

  Lemma b2o_sat b : b2o b = Sat <-> b = true.
  Proof. destruct b; cbn; split; congruence. Qed.
  Lemma b2o_total b : b2o b <> Err /\ b2o b <> Warn.
  Proof. destruct b; cbn; split; congruence. Qed.

  Lemma length_zero_nil {A} (l : list A) : (Z.of_nat (length l) =? 0) = true -> l = [].
  Proof. intros H. apply Z.eqb_eq in H. destruct l; auto. cbn [length] in H. lia. Qed.
  Lemma length_nonzero {A} (l : list A) : (Z.of_nat (length l) =? 0) = false -> l <> [].
  Proof. intros H Hl. subst. cbn in H. discriminate. Qed.

  (* ---- VTR: abs(cost[-1] - target) <= tolerance; an empty history never satisfies *)
  Theorem vtr_iff tol target h :
    vtr N tol target h = Sat <-> exists c, pylast h = Some c /\ leb N (absdiff N c target) tol = true.
  Proof.
    unfold vtr. destruct (pylast h) as [c|].
    - rewrite b2o_sat. split.
      + intros H. exists c. auto.
      + intros [c' [H1 H2]]. inversion H1; subst. auto.
    - split; [discriminate|]. intros [c [H _]]. discriminate.
  Qed.
  Theorem vtr_total tol target h : vtr N tol target h <> Err /\ vtr N tol target h <> Warn.
  Proof. unfold vtr. destruct (pylast h); [apply b2o_total|split; discriminate]. Qed.

  Lemma window_some h gn tol b :
    window N h gn tol = Some b <->
    exists a c, pyget h (- gn) = Some a /\ pylast h = Some c /\ b = (leb N (sub N a c) tol || eqb N a c)%bool.
  Proof.
    unfold window. destruct (pyget h (- gn)) as [a|]; [destruct (pylast h) as [c|]|].
    - split.
      + intros H. inversion H. exists a, c. auto.
      + intros [a' [c' [H1 [H2 H3]]]]. inversion H1; inversion H2; subst. reflexivity.
    - split; [discriminate|]. intros [a' [c' [_ [H _]]]]. discriminate.
    - split; [discriminate|]. intros [a' [c' [H _]]]. discriminate.
  Qed.
  Lemma window_defined h gn tol : 0 <= gn < Z.of_nat (length h) -> window N h gn tol <> None.
  Proof.
    intros H. unfold window. destruct (pyget_window_defined h gn H) as [a Ha]. rewrite Ha.
    destruct (pylast_some h) as [b Hb]; [destruct h; [cbn in H; lia|congruence]|]. rewrite Hb. discriminate.
  Qed.

  (* ---- ChangeOverGeneration: the window must fit strictly inside the history (len > g);
          cost[-g] is h[len-g] (h[0] for g = 0/None); satisfied if the difference is <= tolerance OR the two are equal *)
  Theorem cog_iff tol g h :
    cog N tol g h = Sat <->
    exists a b, gens_of g < Z.of_nat (length h) /\ pyget h (- gens_of g) = Some a /\ pylast h = Some b /\
                (leb N (sub N a b) tol = true \/ eqb N a b = true).
  Proof.
    unfold cog. destruct (Z.of_nat (length h) =? 0) eqn:E0.
    - apply length_zero_nil in E0. subst h. split; [discriminate|].
      intros [a [b [_ [_ [H _]]]]]. rewrite pylast_nil in H. discriminate.
    - destruct (Z.of_nat (length h) <=? gens_of g) eqn:E1.
      + apply Z.leb_le in E1. split; [discriminate|]. intros [a [b [H _]]]. lia.
      + apply Z.leb_gt in E1. destruct (window N h (gens_of g) tol) as [w|] eqn:W.
        * apply window_some in W. destruct W as [a [c [H1 [H2 H3]]]]. rewrite b2o_sat. subst w. split.
          -- intros H. exists a, c. repeat split; auto. now apply orb_true_iff.
          -- intros [a' [c' [_ [H1' [H2' H]]]]]. rewrite H1 in H1'. rewrite H2 in H2'.
             inversion H1'; inversion H2'; subst. now apply orb_true_iff.
        * split; [discriminate|]. intros [a [b [_ [H1 [H2 _]]]]].
          unfold window in W. rewrite H1, H2 in W. discriminate.
  Qed.
  Theorem cog_err tol g h : cog N tol g h = Err -> gens_of g < 0.
  Proof.
    unfold cog. destruct (Z.of_nat (length h) =? 0) eqn:E0; [discriminate|].
    destruct (Z.of_nat (length h) <=? gens_of g) eqn:E1; [discriminate|]. apply Z.leb_gt in E1.
    destruct (window N h (gens_of g) tol) eqn:W; [intros H; exfalso; revert H; apply b2o_total|].
    intros _. destruct (Z_lt_ge_dec (gens_of g) 0); auto. exfalso. revert W. apply window_defined. lia.
  Qed.

  (* ---- NormalizedChangeOverGeneration: equal, or 2(a-b) <= tol(|a|+|b|) + eta *)
  Theorem ncog_iff tol g h :
    ncog N eta tol g h = Sat <->
    exists a b, gens_of g < Z.of_nat (length h) /\ pyget h (- gens_of g) = Some a /\ pylast h = Some b /\
                (eqb N a b = true \/
                 leb N (mul N (two N) (sub N a b)) (add N (mul N tol (add N (abs N a) (abs N b))) eta) = true).
  Proof.
    unfold ncog. destruct (Z.of_nat (length h) =? 0) eqn:E0.
    - apply length_zero_nil in E0. subst h. split; [discriminate|].
      intros [a [b [_ [_ [H _]]]]]. rewrite pylast_nil in H. discriminate.
    - destruct (Z.of_nat (length h) <=? gens_of g) eqn:E1.
      + apply Z.leb_le in E1. split; [discriminate|]. intros [a [b [H _]]]. lia.
      + apply Z.leb_gt in E1.
        destruct (pyget h (- gens_of g)) as [a|] eqn:H1; [destruct (pylast h) as [c|] eqn:H2|].
        * destruct (eqb N a c) eqn:Q.
          -- split; auto. intros _. exists a, c. auto.
          -- rewrite b2o_sat. split.
             ++ intros H. exists a, c. auto.
             ++ intros [a' [c' [_ [H1' [H2' H]]]]]. inversion H1'; inversion H2'; subst.
                destruct H; [congruence|auto].
        * split; [discriminate|]. intros [a' [c' [_ [_ [H _]]]]]. discriminate.
        * split; [discriminate|]. intros [a' [c' [_ [H _]]]]. discriminate.
  Qed.

  (* ---- NormalizedCostTarget *)
  Theorem nct_target_iff f tol g h :
    nct N (Some f) tol g h = Sat <->
    exists c, pylast h = Some c /\ leb N (absdiff N c f) (abs N (mul N tol f)) = true.
  Proof.
    unfold nct. destruct (Z.of_nat (length h) =? 0) eqn:E0.
    - apply length_zero_nil in E0. subst h. split; [discriminate|].
      intros [c [H _]]. rewrite pylast_nil in H. discriminate.
    - destruct (pylast h) as [c|] eqn:H1.
      + rewrite b2o_sat. split; [eauto|]. intros [c' [H2 H3]]. inversion H2; subst. auto.
      + split; [discriminate|]. intros [c [H _]]. discriminate.
  Qed.
  Theorem nct_nowindow g tol h : gens_of g = 0 -> (nct N None tol g h = Sat <-> h <> []).
  Proof.
    intros G. unfold nct. rewrite G. destruct (Z.of_nat (length h) =? 0) eqn:E0.
    - apply length_zero_nil in E0. subst. split; [discriminate|congruence].
    - apply length_nonzero in E0. cbn. split; auto.
  Qed.
  Theorem nct_window_iff g tol h : gens_of g <> 0 ->
    (nct N None tol g h = Sat <->
     exists a b, gens_of g < Z.of_nat (length h) /\ pyget h (- gens_of g) = Some a /\ pylast h = Some b /\
                 (leb N (sub N a b) (zero N) = true \/ eqb N a b = true)).
  Proof.
    intros G. unfold nct. destruct (Z.of_nat (length h) =? 0) eqn:E0.
    - apply length_zero_nil in E0. subst h. split; [discriminate|].
      intros [a [b [_ [_ [H _]]]]]. rewrite pylast_nil in H. discriminate.
    - apply Z.eqb_neq in G. rewrite G. destruct (gens_of g <? Z.of_nat (length h)) eqn:E1.
      + apply Z.ltb_lt in E1. destruct (window N h (gens_of g) (zero N)) as [w|] eqn:W.
        * apply window_some in W. destruct W as [a [c [H1 [H2 H3]]]]. rewrite b2o_sat. subst w. split.
          -- intros H. exists a, c. repeat split; auto. now apply orb_true_iff.
          -- intros [a' [c' [_ [H1' [H2' H]]]]]. rewrite H1 in H1'. rewrite H2 in H2'.
             inversion H1'; inversion H2'; subst. now apply orb_true_iff.
        * split; [discriminate|]. intros [a [b [_ [H1 [H2 _]]]]].
          unfold window in W. rewrite H1, H2 in W. discriminate.
      + apply Z.ltb_ge in E1. split; [discriminate|]. intros [a [b [H _]]]. lia.
  Qed.

  (* ---- VTRChangeOverGeneration: the window clause or the VTR clause *)
  Theorem vtrcog_iff ftol gtol g target h : 0 <= gens_of g ->
    (vtrcog N ftol gtol g target h = Sat <->
     (exists a b, gens_of g < Z.of_nat (length h) /\ pyget h (- gens_of g) = Some a /\ pylast h = Some b /\
                  (leb N (sub N a b) gtol = true \/ eqb N a b = true)) \/
     (exists c, pylast h = Some c /\ leb N (absdiff N c target) ftol = true)).
  Proof.
    intros G. unfold vtrcog. destruct (Z.of_nat (length h) =? 0) eqn:E0.
    - apply length_zero_nil in E0. subst h. split; [discriminate|].
      intros [[a [b [_ [_ [H _]]]]]|[c [H _]]]; rewrite pylast_nil in H; discriminate.
    - destruct (gens_of g <? Z.of_nat (length h)) eqn:E1.
      + apply Z.ltb_lt in E1. destruct (window N h (gens_of g) gtol) as [w|] eqn:W.
        * apply window_some in W. destruct W as [a [c [H1 [H2 H3]]]]. destruct w.
          -- split; auto. intros _. left. exists a, c. repeat split; auto. apply orb_true_iff. auto.
          -- rewrite vtr_iff. split; auto. intros [[a' [c' [_ [H1' [H2' H]]]]]|H]; auto.
             rewrite H1 in H1'. rewrite H2 in H2'. inversion H1'; inversion H2'; subst.
             apply orb_true_iff in H. congruence.
        * exfalso. revert W. apply window_defined. lia.
      + apply Z.ltb_ge in E1. rewrite vtr_iff. split; auto.
        intros [[a [b [H _]]]|H]; auto. lia.
  Qed.

  (* ---- PopulationSpread: every coordinate of every member within |tol * x0| of population[0] *)
  Theorem ps_iff tol s :
    ps N tol s = Sat <->
    exists x0 rest, pop s = x0 :: rest /\
      forall r, In r (pop s) -> forall p, In p (combine r x0) ->
        leb N (absdiff N (fst p) (snd p)) (abs N (mul N tol (snd p))) = true.
  Proof.
    unfold ps. destruct (pop s) as [|x0 rest] eqn:P.
    - split; [discriminate|]. intros [x0 [rest [H _]]]. discriminate.
    - rewrite b2o_sat, forallb_forall. split.
      + intros H. exists x0, rest. split; auto. intros r Hr. specialize (H r Hr). rewrite forallb_forall in H. exact H.
      + intros [x0' [rest' [H1 H2]]]. inversion H1; subst. intros r Hr. apply forallb_forall. intros p Hp. exact (H2 r Hr p Hp).
  Qed.

  (* ---- EvaluationLimits / TimeLimits / SolverInterrupt *)
  Theorem el_iff g e s :
    el N g e s = Sat <-> (exists m, e = Some m /\ m <= fcalls s) \/ (exists m, g = Some m /\ m <= gens s).
  Proof.
    unfold el. rewrite b2o_sat, orb_true_iff. unfold reached. split.
    - intros [H|H]; [left; destruct e as [m|]|right; destruct g as [m|]]; try discriminate;
        exists m; split; auto; now apply Z.leb_le.
    - intros [[m [-> H]]|[m [-> H]]]; [left|right]; now apply Z.leb_le.
  Qed.
  Theorem tl_iff sec s : tl N sec s = Sat <-> leb N (abs N sec) (sub N (tnow s) (tstart s)) = true.
  Proof. unfold tl. apply b2o_sat. Qed.
  Theorem sint_iff s : leaf_eval N eta SINT s = Sat <-> exitflag s = true.
  Proof. cbn. apply b2o_sat. Qed.

  (* ---- SolutionImprovement *)
  Theorem si_vector_iff tol s x : trial s = Trial1 x ->
    (si N tol s = Sat <-> leb N (nsum N (vabsdiff N (best s) x)) tol = true).
  Proof. intros H. unfold si. rewrite H. apply b2o_sat. Qed.
  Theorem si_population_iff tol s xs : trial s = Trial2 xs ->
    (si N tol s = Sat <->
     exists m, pymax N (map (fun r => nsum N (vabsdiff N (best s) r)) xs) = Some m /\ leb N m tol = true).
  Proof.
    intros H. unfold si. rewrite H. destruct (pymax N _) as [m|].
    - rewrite b2o_sat. split; [eauto|]. intros [m' [H1 H2]]. inversion H1; subst; auto.
    - split; [discriminate|]. intros [m [H1 _]]. discriminate.
  Qed.

  (* ---- CandidateRelativeTolerance *)
  Theorem crt_warn_iff xtol ftol s : crt N xtol ftol s = Warn <-> (length (popE s) < 2)%nat.
  Proof.
    unfold crt. destruct (popE s) as [|f0 [|f1 fr]]; cbn [length].
    - split; auto.
    - split; auto.
    - split; [|lia]. destruct (pop s) as [|x0 xr]; [discriminate|].
      destruct (pymax N _) as [mx|]; [|discriminate]. destruct (leb N mx xtol); [|discriminate].
      destruct (pymax N _) as [mf|]; [|discriminate]. intros H. exfalso. revert H. apply b2o_total.
  Qed.
  Theorem crt_iff xtol ftol s f0 f1 fr : popE s = f0 :: f1 :: fr ->
    (crt N xtol ftol s = Sat <->
     exists x0 xr mx mf, pop s = x0 :: xr /\
       pymax N (concat (map (fun r => vabsdiff N r x0) xr)) = Some mx /\ leb N mx xtol = true /\
       pymax N (map (fun f => absdiff N f0 f) (f1 :: fr)) = Some mf /\ leb N mf ftol = true).
  Proof.
    intros HE. unfold crt. rewrite HE. destruct (pop s) as [|x0 xr].
    - split; [discriminate|]. intros [x0 [xr [mx [mf [H _]]]]]. discriminate.
    - destruct (pymax N (concat _)) as [mx|] eqn:M1.
      + destruct (leb N mx xtol) eqn:L1.
        * destruct (pymax N (map _ (f1 :: fr))) as [mf|] eqn:M2.
          -- rewrite b2o_sat. split.
             ++ intros H. exists x0, xr, mx, mf. auto.
             ++ intros [x0' [xr' [mx' [mf' [H1 [H2 [H3 [H4 H5]]]]]]]]. inversion H1; subst.
                congruence.
          -- split; [discriminate|]. intros [x0' [xr' [mx' [mf' [H1 [H2 [H3 [H4 H5]]]]]]]]. congruence.
        * split; [discriminate|]. intros [x0' [xr' [mx' [mf' [H1 [H2 [H3 _]]]]]]]. inversion H1; subst.
          rewrite M1 in H2. inversion H2; subst. congruence.
      + split; [discriminate|]. intros [x0' [xr' [mx' [mf' [H1 [H2 _]]]]]]. inversion H1; subst. congruence.
  Qed.

  (* ---- GradientNormTolerance over the recorded / oracle gradient *)
  Theorem gnt_iff tol k s :
    gnt N tol k s = Sat <-> exists g w, grad_of N s = Some g /\ gnorm N k g = Some w /\ leb N w tol = true.
  Proof.
    unfold gnt. destruct (grad_of N s) as [g|].
    - destruct (gnorm N k g) as [w|] eqn:W.
      + rewrite b2o_sat. split.
        * intros H. exists g, w. auto.
        * intros [g' [w' [H1 [H2 H3]]]]. inversion H1; subst. rewrite W in H2. inversion H2; subst. auto.
      + split; [discriminate|]. intros [g' [w' [H1 [H2 _]]]]. inversion H1; subst. congruence.
    - split; [discriminate|]. intros [g' [w' [H1 _]]]. discriminate.
  Qed.
  Theorem grad_is_last s l : gradient s = Some l -> l <> [] -> forall d, grad_of N s = Some (last l d).
  Proof. intros H Hl d. unfold grad_of. rewrite H. now apply pylast_last. Qed.

  (* ---- Python's max under a strict weak order (no NaN): a member that nothing exceeds *)
  Section Ordered.
    Hypothesis lt_trans : forall x y z : E, ltb N x y = true -> ltb N y z = true -> ltb N x z = true.
    Hypothesis lt_negtrans : forall x y z : E, ltb N x y = false -> ltb N y z = false -> ltb N x z = false.
    Hypothesis lt_irrefl : forall x : E, ltb N x x = false.
    Hypothesis le_lt : forall x y : E, leb N x y = negb (ltb N y x).

    Lemma fold_max_spec (r : list E) (m0 : E) :
      let m := fold_left (fun m y => if ltb N m y then y else m) r m0 in
      (m = m0 \/ In m r) /\ ltb N m m0 = false /\ forall x, In x r -> ltb N m x = false.
    Proof.
      revert m0. induction r as [|y r IH]; intros m0; cbn.
      - split; auto. split; auto. intros x [].
      - destruct (ltb N m0 y) eqn:Q.
        + destruct (IH y) as [H1 [H2 H3]]. split; [destruct H1; auto|]. split.
          * destruct (ltb N (fold_left _ r y) m0) eqn:Q2; auto.
            pose proof (lt_trans _ _ _ Q2 Q) as C. cbn in H2. congruence.
          * intros x [->|Hx]; auto.
        + destruct (IH m0) as [H1 [H2 H3]]. split; [destruct H1; auto|]. split; auto.
          intros x [->|Hx]; auto. apply (lt_negtrans _ m0 _); auto.
    Qed.

    Theorem pymax_spec (l : list E) m : pymax N l = Some m -> In m l /\ forall x, In x l -> ltb N m x = false.
    Proof.
      destruct l as [|x0 r]; [discriminate|]. cbn [pymax]. intros H. inversion H as [H']. clear H.
      destruct (fold_max_spec r x0) as [H1 [H2 H3]]. split.
      - destruct H1 as [H1|H1]; [left; now rewrite H1|right; exact H1].
      - intros x [<-|Hx]; auto.
    Qed.

    (* max(l) <= tol  iff  every element is <= tol *)
    Theorem pymax_le_iff (l : list E) m tol : pymax N l = Some m ->
      (leb N m tol = true <-> forall x, In x l -> leb N x tol = true).
    Proof.
      intros H. destruct (pymax_spec l m H) as [H1 H2]. split.
      - intros L x Hx. rewrite le_lt in *. apply negb_true_iff in L. apply negb_true_iff.
        apply (lt_negtrans _ m _); auto.
      - intros A. auto.
    Qed.
    Lemma pymax_defined (l : list E) : l <> [] -> exists m, pymax N l = Some m.
    Proof. destruct l; [congruence|]. intros _. eexists; reflexivity. Qed.

    Theorem si_population_forall tol s xs : trial s = Trial2 xs -> xs <> [] ->
      (si N tol s = Sat <-> forall r, In r xs -> leb N (nsum N (vabsdiff N (best s) r)) tol = true).
    Proof.
      intros H Hx. rewrite (si_population_iff tol s xs H).
      destruct (pymax_defined (map (fun r => nsum N (vabsdiff N (best s) r)) xs)) as [m Hm].
      { destruct xs; [congruence|discriminate]. }
      split.
      - intros [m' [H1 H2]] r Hr. rewrite (pymax_le_iff _ _ tol H1) in H2. apply H2. apply in_map_iff. exists r. auto.
      - intros A. exists m. split; auto. apply (pymax_le_iff _ _ tol Hm). intros x Hx'.
        apply in_map_iff in Hx'. destruct Hx' as [r [<- Hr]]. auto.
    Qed.

    (* the documented form of CandidateRelativeTolerance: every coordinate of every other candidate within xtol of
       candidate 0 and every other energy within ftol of energy 0 (population of >= 2 non-empty rows) *)
    Theorem crt_forall xtol ftol s f0 f1 fr x0 xr :
      popE s = f0 :: f1 :: fr -> pop s = x0 :: xr -> concat (map (fun r => vabsdiff N r x0) xr) <> [] ->
      (crt N xtol ftol s = Sat <->
       (forall r, In r xr -> forall p, In p (combine r x0) -> leb N (absdiff N (fst p) (snd p)) xtol = true) /\
       (forall f, In f (f1 :: fr) -> leb N (absdiff N f0 f) ftol = true)).
    Proof.
      intros HE HP HC. rewrite (crt_iff xtol ftol s f0 f1 fr HE).
      destruct (pymax_defined _ HC) as [mx Hmx].
      destruct (pymax_defined (map (fun f => absdiff N f0 f) (f1 :: fr))) as [mf Hmf]; [discriminate|].
      split.
      - intros [x0' [xr' [mx' [mf' [H1 [H2 [H3 [H4 H5]]]]]]]]. rewrite HP in H1. inversion H1; subst x0' xr'.
        rewrite (pymax_le_iff _ _ xtol H2) in H3. rewrite (pymax_le_iff _ _ ftol H4) in H5. split.
        + intros r Hr p Hp. apply H3. apply in_concat. exists (vabsdiff N r x0). split.
          * apply in_map_iff. eauto.
          * unfold vabsdiff. apply in_map_iff. eauto.
        + intros f Hf. apply H5. apply in_map_iff. eauto.
      - intros [A B]. exists x0, xr, mx, mf. repeat split; auto.
        + apply (pymax_le_iff _ _ xtol Hmx). intros x Hx. apply in_concat in Hx. destruct Hx as [v [Hv Hx]].
          apply in_map_iff in Hv. destruct Hv as [r [<- Hr]]. unfold vabsdiff in Hx. apply in_map_iff in Hx.
          destruct Hx as [p [<- Hp]]. eauto.
        + apply (pymax_le_iff _ _ ftol Hmf). intros x Hx. apply in_map_iff in Hx. destruct Hx as [f [<- Hf]]. auto.
    Qed.
  End Ordered.
End PrimProofs.

(* ================================================================== the documented inequalities over the reals *)
From Coq Require Import Reals Lra.
From MV Require Import Common.NumR.

Section RealCorollaries.
  Local Open Scope R_scope.

  Lemma R_lt_trans : forall x y z : R, Rltb x y = true -> Rltb y z = true -> Rltb x z = true.
  Proof. intros x y z. rewrite !Rltb_true. lra. Qed.
  Lemma R_lt_negtrans : forall x y z : R, Rltb x y = false -> Rltb y z = false -> Rltb x z = false.
  Proof. intros x y z. rewrite !Rltb_false. lra. Qed.
  Lemma R_lt_irrefl : forall x : R, Rltb x x = false.
  Proof. intros x. rewrite Rltb_false. lra. Qed.
  Lemma R_le_lt : forall x y : R, Rleb x y = negb (Rltb y x).
  Proof.
    intros x y. destruct (Rltb y x) eqn:Q; cbn.
    - apply Rltb_true in Q. apply Rleb_false. lra.
    - apply Rltb_false in Q. apply Rleb_true. lra.
  Qed.

  Lemma div_le_iff a b c : 0 < c -> (a / c <= b <-> a <= b * c).
  Proof.
    intros Hc. split; intros H.
    - replace a with (a / c * c) by (field; lra). apply Rmult_le_compat_r; lra.
    - replace b with (b * c / c) by (field; lra). unfold Rdiv.
      apply Rmult_le_compat_r; [left; apply Rinv_0_lt_compat; lra | exact H].
  Qed.

  Ltac rabs := unfold Rabs; repeat (destruct (Rcase_abs _)); lra.

  Definition window_of (h : list R) (g : option Z) (a b : R) : Prop :=
    (gens_of g < Z.of_nat (length h))%Z /\ pyget h (- gens_of g) = Some a /\ pylast h = Some b.

  (* ---- VTR *)
  Theorem vtr_R tol target (h : list R) :
    vtr NumR tol target h = Sat <-> exists c, pylast h = Some c /\ Rabs (c - target) <= tol.
  Proof.
    rewrite vtr_iff. split; intros [c [H1 H2]]; exists c; split; auto; now apply Rleb_true.
  Qed.

  (* ---- ChangeOverGeneration *)
  Theorem cog_R tol g (h : list R) :
    cog NumR tol g h = Sat <-> exists a b, window_of h g a b /\ (a - b <= tol \/ a = b).
  Proof.
    rewrite cog_iff. unfold window_of. split; intros [a [b H]]; exists a, b.
    - destruct H as [H1 [H2 [H3 [H4|H4]]]]; repeat split; auto; [left; now apply Rleb_true|right; now apply Reqb_true].
    - destruct H as [[H1 [H2 H3]] [H4|H4]]; repeat split; auto; [left; now apply Rleb_true|right; now apply Reqb_true].
  Qed.
  (* the documented inequality, for a non-negative tolerance *)
  Theorem cog_R_documented tol g (h : list R) : 0 <= tol ->
    (cog NumR tol g h = Sat <-> exists a b, window_of h g a b /\ a - b <= tol).
  Proof.
    intros Ht. rewrite cog_R. split; intros [a [b [H1 H2]]]; exists a, b; split; auto.
    destruct H2; auto. subst. lra.
  Qed.
  (* ... and it fails for a negative one on a plateau *)
  Theorem cog_R_refuted :
    exists tol g (h : list R) a b, cog NumR tol g h = Sat /\ window_of h g a b /\ ~ (a - b <= tol).
  Proof.
    exists (-1), (Some 1%Z), [1; 1], 1, 1. split; [|split].
    - apply cog_R. exists 1, 1. split; [|right; reflexivity]. unfold window_of. cbn. repeat split; lia || reflexivity.
    - unfold window_of. cbn. repeat split; lia || reflexivity.
    - lra.
  Qed.

  (* ---- NormalizedChangeOverGeneration *)
  Theorem ncog_R eta tol g (h : list R) :
    ncog NumR eta tol g h = Sat <->
    exists a b, window_of h g a b /\ (a = b \/ 2 * (a - b) <= tol * (Rabs a + Rabs b) + eta).
  Proof.
    rewrite ncog_iff. unfold window_of. cbn [NumR T ltb leb eqb add sub mul abs one two].
    split; intros [a [b H]]; exists a, b.
    - destruct H as [H1 [H2 [H3 [H4|H4]]]]; repeat split; auto; [left; now apply Reqb_true|right].
      apply Rleb_true in H4. unfold two in H4. cbn in H4. lra.
    - destruct H as [[H1 [H2 H3]] [H4|H4]]; repeat split; auto; [left; now apply Reqb_true|right].
      apply Rleb_true. unfold two. cbn. lra.
  Qed.
  (* with eta = 0 and a non-negative tolerance this is the documented normalized change *)
  Theorem ncog_R_documented tol g (h : list R) : 0 <= tol ->
    (ncog NumR 0 tol g h = Sat <->
     exists a b, window_of h g a b /\ (a = b \/ (a <> b /\ (a - b) / (/ 2 * (Rabs a + Rabs b)) <= tol))).
  Proof.
    intros Ht. rewrite ncog_R. split; intros [a [b [H1 H2]]]; exists a, b; split; auto.
    - destruct H2 as [H2|H2]; auto. destruct (Req_dec a b) as [E|E]; auto. right. split; auto.
      assert (S : 0 < / 2 * (Rabs a + Rabs b)).
      { pose proof (Rabs_pos a). pose proof (Rabs_pos b).
        destruct (Req_dec a 0) as [A|A].
        - subst a. assert (b <> 0) by congruence. pose proof (Rabs_pos_lt b H3). lra.
        - pose proof (Rabs_pos_lt a A). lra. }
      apply div_le_iff; auto. lra.
    - destruct H2 as [H2|[E H2]]; auto. right.
      assert (S : 0 < / 2 * (Rabs a + Rabs b)).
      { pose proof (Rabs_pos a). pose proof (Rabs_pos b).
        destruct (Req_dec a 0) as [A|A].
        - subst a. assert (b <> 0) by congruence. pose proof (Rabs_pos_lt b H3). lra.
        - pose proof (Rabs_pos_lt a A). lra. }
      apply div_le_iff in H2; auto. lra.
  Qed.
  (* the constant eta > 0 lets through changes the documented quotient rejects *)
  Theorem ncog_R_eta_refuted :
    exists eta tol g (h : list R) a b, 0 < eta /\ ncog NumR eta tol g h = Sat /\ window_of h g a b /\ a <> b /\
      ~ ((a - b) / (/ 2 * (Rabs a + Rabs b)) <= tol).
  Proof.
    exists 1, 1, (Some 0%Z), [1; 0], 1, 0. split; [lra|]. split; [|split; [|split]].
    - apply ncog_R. exists 1, 0. split.
      + unfold window_of. cbn. repeat split; lia || reflexivity.
      + right. rewrite Rabs_R1, Rabs_R0. lra.
    - unfold window_of. cbn. repeat split; lia || reflexivity.
    - lra.
    - rewrite Rabs_R1, Rabs_R0. intros H. apply div_le_iff in H; lra.
  Qed.
  Theorem ncog_R_plateau_refuted :
    exists tol g (h : list R) a b, ncog NumR 0 tol g h = Sat /\ window_of h g a b /\
      ~ (2 * (a - b) <= tol * (Rabs a + Rabs b)).
  Proof.
    exists (-1), (Some 1%Z), [1; 1], 1, 1. split; [|split].
    - apply ncog_R. exists 1, 1. split; [|left; reflexivity]. unfold window_of. cbn. repeat split; lia || reflexivity.
    - unfold window_of. cbn. repeat split; lia || reflexivity.
    - rewrite Rabs_R1. lra.
  Qed.

  (* ---- NormalizedCostTarget with a target value *)
  Theorem nct_R f tol g (h : list R) :
    nct NumR (Some f) tol g h = Sat <-> exists c, pylast h = Some c /\ Rabs (c - f) <= Rabs (tol * f).
  Proof.
    rewrite nct_target_iff. split; intros [c [H1 H2]]; exists c; split; auto; now apply Rleb_true.
  Qed.
  Theorem nct_R_documented f tol g (h : list R) : 0 < f -> 0 <= tol ->
    (nct NumR (Some f) tol g h = Sat <-> exists c, pylast h = Some c /\ Rabs (c - f) / f <= tol).
  Proof.
    intros Hf Ht. rewrite nct_R.
    assert (E : Rabs (tol * f) = tol * f) by (apply Rabs_pos_eq; nra).
    split; intros [c [H1 H2]]; exists c; split; auto.
    - apply div_le_iff; auto. now rewrite <- E.
    - rewrite E. now apply div_le_iff.
  Qed.
  Theorem nct_R_refuted :
    exists f tol g (h : list R) c, 0 < f /\ nct NumR (Some f) tol g h = Sat /\ pylast h = Some c /\
      ~ (Rabs (c - f) / f <= tol).
  Proof.
    exists 1, (-1), (Some 1%Z), [2], 2. split; [lra|]. split; [|split].
    - apply nct_R. exists 2. split; [reflexivity|].
      rabs.
    - reflexivity.
    - intros H. apply div_le_iff in H; [|lra]. revert H. rabs.
  Qed.
  (* without a target value: "no improvement over g iterations" (g <> 0), always satisfied for g = 0/None *)
  Theorem nct_R_window tol g (h : list R) : gens_of g <> 0%Z ->
    (nct NumR None tol g h = Sat <-> exists a b, window_of h g a b /\ a <= b).
  Proof.
    intros G. rewrite (nct_window_iff NumR g tol h G). unfold window_of.
    split; intros [a [b H]]; exists a, b.
    - destruct H as [H1 [H2 [H3 [H4|H4]]]]; repeat split; auto.
      + apply Rleb_true in H4. cbn in H4. lra.
      + apply Reqb_true in H4. cbn in H4. lra.
    - destruct H as [[H1 [H2 H3]] H4]; repeat split; auto. left. apply Rleb_true. cbn. lra.
  Qed.

  (* ---- PopulationSpread *)
  Theorem ps_R_documented tol (s : view NumR) : 0 <= tol ->
    (ps NumR tol s = Sat <->
     exists x0 rest, pop s = x0 :: rest /\
       forall r, In r (pop s) -> forall p, In p (combine r x0) -> Rabs (fst p - snd p) <= tol * Rabs (snd p)).
  Proof.
    intros Ht. rewrite ps_iff.
    assert (E : forall x, Rabs (tol * x) = tol * Rabs x) by (intros; rewrite Rabs_mult, (Rabs_pos_eq tol); auto).
    split; intros [x0 [rest [H1 H2]]]; exists x0, rest; split; auto; intros r Hr p Hp; specialize (H2 r Hr p Hp).
    - apply Rleb_true in H2. cbn in H2. unfold absdiff in H2. cbn in H2. now rewrite E in H2.
    - apply Rleb_true. cbn. unfold absdiff. cbn. now rewrite E.
  Qed.
  Theorem ps_R_refuted :
    exists tol (s : view NumR) x y, ps NumR tol s = Sat /\ pop s = [[x]; [y]] /\ ~ (Rabs (y - x) <= tol * Rabs x).
  Proof.
    exists (-1), (@mkView NumR [] [[1]; [2]] [] [] (@Trial1 NumR []) 0%Z 0%Z false None [] 0 0), 1, 2.
    split; [|split; [reflexivity|]].
    - apply ps_iff. exists [1], [[2]]. split; [reflexivity|]. cbn [pop].
      intros r [<-|[<-|[]]] p [<-|[]]; cbn; apply Rleb_true; unfold absdiff; cbn.
      + rabs.
      + rabs.
    - rabs.
  Qed.

  (* ---- TimeLimits *)
  Theorem tl_R sec (s : view NumR) : tl NumR sec s = Sat <-> Rabs sec <= tnow s - tstart s.
  Proof. rewrite tl_iff. apply Rleb_true. Qed.
  Theorem tl_R_documented sec (s : view NumR) : 0 <= sec -> (tl NumR sec s = Sat <-> sec <= tnow s - tstart s).
  Proof. intros H. rewrite tl_R, Rabs_pos_eq; tauto. Qed.
  Theorem tl_R_refuted : exists sec (s : view NumR), sec <= tnow s - tstart s /\ tl NumR sec s <> Sat.
  Proof.
    exists (-5), (@mkView NumR [] [] [] [] (@Trial1 NumR []) 0%Z 0%Z false None [] 0 1). split; [cbn; lra|].
    rewrite tl_R. cbn. rabs.
  Qed.

  (* ---- CandidateRelativeTolerance / SolutionImprovement in "for every candidate" form *)
  Theorem crt_R xtol ftol (s : view NumR) f0 f1 fr x0 xr :
    popE s = f0 :: f1 :: fr -> pop s = x0 :: xr -> concat (map (fun r => vabsdiff NumR r x0) xr) <> [] ->
    (crt NumR xtol ftol s = Sat <->
     (forall r, In r xr -> forall p, In p (combine r x0) -> Rabs (fst p - snd p) <= xtol) /\
     (forall f, In f (f1 :: fr) -> Rabs (f0 - f) <= ftol)).
  Proof.
    intros HE HP HC.
    rewrite (crt_forall NumR R_lt_trans R_lt_negtrans R_lt_irrefl R_le_lt xtol ftol s f0 f1 fr x0 xr HE HP HC).
    split; intros [A B]; split.
    - intros r Hr p Hp. apply Rleb_true. exact (A r Hr p Hp).
    - intros f Hf. apply Rleb_true. exact (B f Hf).
    - intros r Hr p Hp. apply Rleb_true. exact (A r Hr p Hp).
    - intros f Hf. apply Rleb_true. exact (B f Hf).
  Qed.
  Theorem si_R tol (s : view NumR) xs : trial s = Trial2 xs -> xs <> [] ->
    (si NumR tol s = Sat <-> forall r, In r xs -> nsum NumR (vabsdiff NumR (best s) r) <= tol).
  Proof.
    intros H Hx. rewrite (si_population_forall NumR R_lt_trans R_lt_negtrans R_lt_irrefl R_le_lt tol s xs H Hx).
    split; intros A r Hr; apply Rleb_true; exact (A r Hr).
  Qed.
End RealCorollaries.
