(* C18 - concrete witnesses (executed in the exact-rational instance of the model) showing that two clauses of the
   property do NOT hold of impose_collapse for every pair selection.  Both reproduce on the real code
   (known_findings.d/C18.txt). *)
From Coq Require Import List ZArith QArith.
From MV Require Import Common.Num Pure.Measures.
Import ListNotations.
Open Scope Q_scope.

(* full statement:  forall pairs x w y wts, impose_collapse pairs x w = Some (y, wts) -> sum wts = sum w.
   Refuted: for the symmetric pair set {(0,1),(1,0)} tools.connected returns {0: {0,1}} and weight 0 is counted twice *)
Lemma impose_collapse_keeps_total_refuted :
  exists (pairs : list (Z * Z)) (x w y wts : list Q),
    impose_collapse NumQ pairs x w = Some (y, wts) /\ ~ (nsum NumQ wts == nsum NumQ w).
Proof.
  exists [(0, 1); (1, 0)]%Z, [1; 2], [1; 1]. eexists. eexists. split.
  - vm_compute. reflexivity.
  - vm_compute. discriminate.
Qed.

(* full statement:  after impose_collapse, of the two ends of every pair (i,j), i<>j, at most one carries weight.
   Refuted: for the chained pairs (0,1),(2,3),(0,2) tools.connected returns {0: {1,2}, 2: {3}} (two entries for one
   component), index 2 is zeroed as a member of the first entry and then refilled as the key of the second *)
Lemma impose_collapse_pair_zeroed_refuted :
  exists (pairs : list (Z * Z)) (x w y wts : list Q) (i j : nat),
    impose_collapse NumQ pairs x w = Some (y, wts) /\
    In (Z.of_nat i, Z.of_nat j) pairs /\ i <> j /\
    ~ (nth i wts 0 == 0) /\ ~ (nth j wts 0 == 0).
Proof.
  exists [(0, 1); (2, 3); (0, 2)]%Z, [1; 2; 3; 4], [1; 1; 1; 1]. eexists. eexists. exists 0%nat, 2%nat. split.
  - vm_compute. reflexivity.
  - split; [right; right; left; reflexivity|]. split; [discriminate|]. split; vm_compute; discriminate.
Qed.

(* non-vacuity of the model itself: one run of every transform on a small weighted sample (exact rationals) *)
Lemma model_runs :
  impose_mean NumQ 5 [1; 2; 3] (Some [1; 0; 1]) = Some [1 + (5 - (0 + 1 * 1 + 2 * 0 + 3 * 1) / (0 + 1 + 0 + 1)); 2 + (5 - (0 + 1 * 1 + 2 * 0 + 3 * 1) / (0 + 1 + 0 + 1)); 3 + (5 - (0 + 1 * 1 + 2 * 0 + 3 * 1) / (0 + 1 + 0 + 1))] /\
  option_map (map Qred) (impose_variance NumQ Qsqrt_approx 4 [1; 2; 3] (Some [1; 0; 1])) = Some [0; 2; 4] /\
  option_map (map Qred) (normalize NumQ [1; 0; 3] 2 false 1) = Some [1 # 2; 0; 3 # 2] /\
  option_map (fun p => map Qred (snd p)) (impose_support NumQ (Some [0; -1]%Z) [1; 2; 3] [1; 2; 1]) = Some [2; 0; 2] /\
  connected [(0, 3); (4, 2); (3, 1); (4, 5); (2, 6)]%nat = [(0, [3; 1]); (4, [2; 5; 6])]%nat.
Proof. vm_compute. repeat split. Qed.
