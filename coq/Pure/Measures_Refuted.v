(* C18 - concrete runs of the executable model in the exact-rational instance (non-vacuity witnesses).
   History: this file used to hold two refutation witnesses for impose_collapse (weight counted twice for the
   symmetric pair set {(0,1),(1,0)}; two dict entries for the chained pairs (0,1),(2,3),(0,2)).  Both defects were
   repaired in /repo (tools.connected now skips self pairs and merges bridged groups); the model follows the repaired
   code, the former witnesses now satisfy the property (first two conjuncts of [collapse_former_witnesses]) and the
   full statements are theorems (Measures_Proofs.impose_collapse_keeps_total / impose_collapse_zeroes_members). *)
From Coq Require Import List ZArith QArith.
From MV Require Import Common.Num Pure.Measures.
Import ListNotations.
Open Scope Q_scope.

Lemma collapse_former_witnesses :
  option_map (fun p => map Qred (snd p)) (impose_collapse NumQ [(0, 1); (1, 0)]%Z [1; 2] [1; 1]) = Some [2; 0] /\
  option_map (fun p => map Qred (snd p)) (impose_collapse NumQ [(0, 1); (2, 3); (0, 2)]%Z [1; 2; 3; 4] [1; 1; 1; 1])
    = Some [4; 0; 0; 0] /\
  connected [(0, 1); (1, 0)]%nat = [(0, [1])]%nat /\
  connected [(0, 1); (2, 3); (0, 2)]%nat = [(0, [1; 3; 2])]%nat /\
  connected [(2, 2)]%nat = [].
Proof. vm_compute. repeat split. Qed.

(* non-vacuity of the model itself: one run of every transform on a small weighted sample (exact rationals) *)
Lemma model_runs :
  impose_mean NumQ 5 [1; 2; 3] (Some [1; 0; 1]) = Some [1 + (5 - (0 + 1 * 1 + 2 * 0 + 3 * 1) / (0 + 1 + 0 + 1)); 2 + (5 - (0 + 1 * 1 + 2 * 0 + 3 * 1) / (0 + 1 + 0 + 1)); 3 + (5 - (0 + 1 * 1 + 2 * 0 + 3 * 1) / (0 + 1 + 0 + 1))] /\
  option_map (map Qred) (impose_variance NumQ Qsqrt_approx 4 [1; 2; 3] (Some [1; 0; 1])) = Some [0; 2; 4] /\
  option_map (map Qred) (normalize NumQ [1; 0; 3] 2 false 1) = Some [1 # 2; 0; 3 # 2] /\
  option_map (fun p => map Qred (snd p)) (impose_support NumQ (Some [0; -1]%Z) [1; 2; 3] [1; 2; 1]) = Some [2; 0; 2] /\
  connected [(0, 3); (4, 2); (3, 1); (4, 5); (2, 6)]%nat = [(0, [3; 1]); (4, [2; 5; 6])]%nat.
Proof. vm_compute. repeat split. Qed.
