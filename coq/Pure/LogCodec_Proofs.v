(* Proofs about the log codec and the parameter-file model (Pure/LogCodec.v). *)
From Coq Require Import List Ascii String Bool Arith ZArith Lia.
From MV Require Import Pure.LogCodec.
Import ListNotations.

(* ================================================================== *)
(* Part A: zip( *rows) transposes, support / converge formats           *)
(* ================================================================== *)
Section Transpose.
  Variable A : Type.
  Notation wrap := (fun a : A => [a]).

  Lemma zipcons_length (r : list A) (m : list (list A)) :
    length (zipcons r m) = Nat.min (length r) (length m).
  Proof.
    revert m; induction r as [|a r IH]; intros [|c m]; cbn [zipcons length Nat.min]; auto.
  Qed.
  Lemma zipstar_cons2 (r r2 : list A) (rs : list (list A)) :
    zipstar (r :: r2 :: rs) = zipcons r (zipstar (r2 :: rs)).
  Proof. reflexivity. Qed.

  (* shape of a transpose of rectangular data *)
  Lemma zipstar_length (n : nat) (X : list (list A)) :
    rect n X -> X <> [] -> length (zipstar X) = n.
  Proof.
    induction X as [|r rs IH]; intros R NE; [congruence|].
    inversion R as [|? ? Hr Rs]; subst.
    destruct rs as [|r2 rs].
    - cbn [zipstar]. now rewrite map_length.
    - rewrite zipstar_cons2, zipcons_length, IH by (auto; discriminate). apply Nat.min_id.
  Qed.
  Lemma zipcons_rows (r : list A) (m : list (list A)) (k : nat) :
    Forall (fun row => length row = k) m -> Forall (fun row => length row = S k) (zipcons r m).
  Proof.
    revert m; induction r as [|a r IH]; intros [|c m] H; cbn [zipcons]; auto.
    inversion H; subst. constructor; [cbn [length]; congruence|auto].
  Qed.
  Lemma zipstar_rows (X : list (list A)) :
    X <> [] -> Forall (fun row => length row = length X) (zipstar X).
  Proof.
    induction X as [|r rs IH]; intros NE; [congruence|].
    destruct rs as [|r2 rs].
    - cbn [zipstar length]. apply Forall_forall. intros row Hin.
      apply in_map_iff in Hin as (a & <- & _). reflexivity.
    - rewrite zipstar_cons2. cbn [length]. apply zipcons_rows. apply IH. discriminate.
  Qed.

  (* a column of 1-tuples zips back to the one row of its values *)
  Lemma zipstar_singletons (x : list A) : x <> [] -> zipstar (map wrap x) = [x].
  Proof.
    induction x as [|a x IH]; [congruence|]. intros _.
    destruct x as [|b x].
    - reflexivity.
    - cbn [map]. rewrite zipstar_cons2. cbn [map] in IH. rewrite IH by discriminate. reflexivity.
  Qed.
  Lemma zipstar_zipcons (r : list A) (M : list (list A)) :
    length r = length M -> r <> [] -> zipstar (zipcons r M) = r :: zipstar M.
  Proof.
    revert M; induction r as [|a r IH]; intros M L NE; [congruence|].
    destruct M as [|c M]; [discriminate|]. cbn [length] in L.
    destruct r as [|a2 r].
    - destruct M; [|discriminate]. reflexivity.
    - destruct M as [|c2 M]; [discriminate|].
      change (zipcons (a :: a2 :: r) (c :: c2 :: M)) with ((a :: c) :: zipcons (a2 :: r) (c2 :: M)).
      assert (E : zipcons (a2 :: r) (c2 :: M) = (a2 :: c2) :: zipcons r M) by reflexivity.
      rewrite E at 1. rewrite zipstar_cons2. rewrite <- E.
      rewrite IH by (try discriminate; cbn [length] in *; lia).
      rewrite (zipstar_cons2 c c2 M). reflexivity.
  Qed.

  (* transpose o transpose = id on rectangular data of positive width *)
  Lemma zipstar_involutive (n : nat) (X : list (list A)) :
    0 < n -> rect n X -> zipstar (zipstar X) = X.
  Proof.
    intros Hn. induction X as [|r rs IH]; intro R; [reflexivity|].
    inversion R as [|? ? Hr Rs]; subst.
    destruct rs as [|r2 rs].
    - cbn [zipstar]. apply zipstar_singletons. destruct r; [cbn in Hn; lia|discriminate].
    - rewrite zipstar_cons2. rewrite zipstar_zipcons.
      + now rewrite IH.
      + symmetry. apply (zipstar_length (length r)); [auto|discriminate].
      + destruct r; [cbn in Hn; lia|discriminate].
  Qed.

  (* transposes commute with elementwise maps *)
  Lemma zipcons_map {B} (f : A -> B) (r : list A) (M : list (list A)) :
    zipcons (map f r) (map (map f) M) = map (map f) (zipcons r M).
  Proof. revert M; induction r as [|a r IH]; intros [|c M]; cbn [zipcons map]; auto. now rewrite IH. Qed.
End Transpose.

Lemma zipstar_map {A B} (f : A -> B) (X : list (list A)) :
  zipstar (map (map f) X) = map (map f) (zipstar X).
Proof.
  induction X as [|r rs IH]; [reflexivity|].
  destruct rs as [|r2 rs].
  - cbn [map zipstar]. rewrite !map_map. reflexivity.
  - change (map (map f) (r :: r2 :: rs)) with (map f r :: map f r2 :: map (map f) rs).
    rewrite !zipstar_cons2. change (map f r2 :: map (map f) rs) with (map (map f) (r2 :: rs)).
    rewrite IH. apply zipcons_map.
Qed.

Section Formats.
  Variable A : Type.

  (* write_converge_file then read_converge_file: every iteration's vector comes back (as one tuple) *)
  Lemma converge_roundtrip (X : traj A) :
    Forall (fun x => x <> []) X -> read_converge (converge_params X) = map (fun x => [x]) X.
  Proof.
    unfold read_converge, converge_params, rezip, wrap1. rewrite map_map.
    induction 1 as [|x X Hx _ IH]; cbn [map]; auto. now rewrite zipstar_singletons, IH.
  Qed.

  (* what write_support_file stores is the transposed trajectory, entries wrapped *)
  Lemma support_params_spec (X : traj A) :
    support_params X = map (map (fun a => [a])) (zipstar X).
  Proof. unfold support_params, conv2supp, wrap1. apply zipstar_map. Qed.

  Lemma read_support_wrapped (T : list (list A)) :
    T <> [] -> Forall (fun row => row <> []) T ->
    read_support (map (map (fun a => [a])) T) = [T].
  Proof.
    intros NE H. unfold read_support, conv2supp, rezip. rewrite map_map.
    replace (map (fun x => zipstar (map (fun a => [a]) x)) T) with (map (fun row => [row]) T).
    - apply zipstar_singletons; auto.
    - clear NE. induction H as [|row T Hr _ IH]; cbn [map]; auto. now rewrite zipstar_singletons, IH.
  Qed.

  (* write_support_file then read_support_file on n-dimensional data (n > 0), at least one iteration:
     the reader returns [transpose X], and transposing again gives back the trajectory *)
  Lemma support_roundtrip (n : nat) (X : traj A) :
    0 < n -> X <> [] -> rect n X ->
    read_support (support_params X) = [zipstar X] /\ zipstar (zipstar X) = X /\
    length (zipstar X) = n /\ rect (length X) (zipstar X).
  Proof.
    intros Hn NE R. rewrite support_params_spec.
    pose proof (zipstar_length _ n X R NE) as L.
    pose proof (zipstar_rows _ X NE) as Rows.
    split; [|split; [|split]]; auto.
    - apply read_support_wrapped.
      + intro E. rewrite E in L. cbn in L. lia.
      + eapply Forall_impl; [|exact Rows]. cbv beta. intros row Hrow E. subst row.
        destruct X; [congruence|discriminate].
    - now apply zipstar_involutive with (n := n).
  Qed.
End Formats.

(* zero-dimensional parameter vectors are lost by the support format *)
Lemma support_zero_dim_lost : zipstar (zipstar ([[]; []] : list (list nat))) <> [[]; []].
Proof. discriminate. Qed.

(* ================================================================== *)
(* Part A2: the id column                                               *)
(* ================================================================== *)
Definition step_id (s : stepid) : option Z := match s with S2 _ id => id | S1 _ => None end.
Definition step_iter (s : stepid) : nat := match s with S2 i _ => i | S1 i => i end.

Lemma count_steps_ids (seen l : list (option Z)) : map step_id (count_steps seen l) = l.
Proof. revert seen; induction l as [|j l IH]; intro seen; cbn [count_steps map step_id]; auto. now rewrite IH. Qed.
Lemma count_steps_length (seen l : list (option Z)) : length (count_steps seen l) = length l.
Proof. revert seen; induction l as [|j l IH]; intro seen; cbn [count_steps length]; auto. Qed.
(* the iteration number of entry i is the number of earlier entries carrying the same id *)
Lemma count_steps_nth (seen l : list (option Z)) (i : nat) (j : option Z) :
  nth_error l i = Some j ->
  nth_error (count_steps seen l) i = Some (S2 (length (filter (oz_eqb j) (seen ++ firstn i l))) j).
Proof.
  revert seen i; induction l as [|a l IH]; intros seen i H; [destruct i; discriminate|].
  destruct i; cbn [nth_error count_steps firstn] in *.
  - inversion H; subst. now rewrite app_nil_r.
  - rewrite (IH _ _ H). now rewrite <- app_assoc.
Qed.

Lemma all_none_spec (l : list (option Z)) : forallb is_noneb l = true -> l = map (fun _ => None) l.
Proof.
  induction l as [|a l IH]; cbn [forallb map]; auto. intro H. apply andb_true_iff in H as [Ha Hl].
  destruct a; [discriminate|]. now rewrite <- IH.
Qed.
Lemma map_const_length {B C} (c : C) (l : list B) (m : list C) :
  length l = length m -> Forall (fun x => x = c) m -> map (fun _ => c) l = m.
Proof.
  revert m; induction l as [|a l IH]; intros [|b m] L H; try discriminate; auto.
  inversion H; subst. cbn [map]. f_equal. apply IH; auto.
Qed.

Lemma count_steps_reduce (seen l : list (option Z)) :
  map (fun s => match s with S2 _ id => id | S1 i => Some (Z.of_nat i) end) (count_steps seen l) = l.
Proof. revert seen; induction l as [|j l IH]; intro seen; cbn [count_steps map]; auto. now rewrite IH. Qed.
Lemma reduce_drop (st : list stepid) : reduce_ids (map drop_id st) = map (fun _ => None) st.
Proof.
  destruct st as [|s st]; [reflexivity|]. destruct s; cbn [map drop_id reduce_ids]; now rewrite !map_map.
Qed.
Lemma all_none_forall (l : list (option Z)) : forallb is_noneb l = true -> Forall (fun x => x = None) l.
Proof.
  induction l as [|a l IH]; cbn [forallb]; auto. intro H. apply andb_true_iff in H as [Ha Hl].
  destruct a; [discriminate|]. constructor; auto.
Qed.

(* _reduce_ids (_process_ids ids, len(ids)) = ids : the id column survives *)
Lemma ids_roundtrip (l : list (option Z)) :
  exists steps, process_ids (IdsList l) (length l) = PList steps /\ reduce_ids steps = l /\
                length steps = length l.
Proof.
  destruct l as [|a l]; [exists []; auto|].
  set (L := a :: l). unfold process_ids. fold L.
  destruct (forallb is_noneb L) eqn:E.
  - eexists. split; [reflexivity|].
    rewrite firstn_all2 by (rewrite map_length, count_steps_length; lia).
    split; [|now rewrite map_length, count_steps_length].
    rewrite reduce_drop. apply map_const_length; [apply count_steps_length|now apply all_none_forall].
  - eexists. split; [reflexivity|].
    rewrite firstn_all2 by (rewrite count_steps_length; lia).
    split; [|now rewrite count_steps_length].
    subst L. rewrite <- (count_steps_reduce [] (a :: l)) at 2. reflexivity.
Qed.
Lemma ids_iterations (l : list (option Z)) (i : nat) (j : option Z) :
  forallb is_noneb l = false -> nth_error l i = Some j ->
  exists steps, process_ids (IdsList l) (length l) = PList steps /\
                nth_error steps i = Some (S2 (length (filter (oz_eqb j) (firstn i l))) j).
Proof.
  intros E H. destruct l as [|a l]; [discriminate|].
  unfold process_ids. rewrite E. eexists. split; [reflexivity|].
  rewrite firstn_all2 by (rewrite count_steps_length; lia).
  now rewrite (count_steps_nth [] _ _ _ H).
Qed.

Lemma forallb_eq_head (a : option Z) (l : list (option Z)) :
  forallb (oz_eqb a) l = true -> Forall (fun x => x = a) l.
Proof.
  induction l as [|b l IH]; cbn [forallb]; auto. intro H. apply andb_true_iff in H as [Hb Hl].
  constructor; auto. destruct a, b; cbn in Hb; try discriminate; auto. apply Z.eqb_eq in Hb. congruence.
Qed.

(* write_raw_file (which compresses the id column) then read_raw_file: the id column survives *)
Lemma file_ids_roundtrip (l : list (option Z)) :
  l <> [] -> exists steps, file_ids l (length l) = PList steps /\ reduce_ids steps = l /\ length steps = length l.
Proof.
  intro NE. destruct l as [|a l]; [congruence|]. unfold file_ids, compress_ids.
  destruct (forallb (oz_eqb a) (a :: l)) eqn:E.
  - apply forallb_eq_head in E. destruct a as [z|]; cbn [process_ids length Nat.eqb].
    + eexists. split; [reflexivity|]. rewrite map_length, seq_length. split; auto.
      cbn [seq map reduce_ids]. f_equal. rewrite map_map. inversion E; subst.
      apply map_const_length; auto. now rewrite seq_length.
    + eexists. split; [reflexivity|]. rewrite map_length, seq_length. split; auto.
      cbn [seq map reduce_ids]. f_equal. rewrite map_map. inversion E; subst.
      apply map_const_length; auto. now rewrite seq_length.
  - apply ids_roundtrip.
Qed.
Lemma file_ids_empty : file_ids [] 0 = PNone.
Proof. reflexivity. Qed.

(* ================================================================== *)
(* Part B: the three-column log codec                                   *)
(* ================================================================== *)
Definition nospb (s : str) : bool := forallb (fun c => negb (is_sp c)) s.
Definition nonlb (s : str) : bool := forallb (fun c => negb (is_nl c)) s.

(* no two adjacent blanks, no trailing blank; [p] = the previous character was a blank *)
Fixpoint tight_from (p : bool) (s : str) : bool :=
  match s with
  | [] => negb p
  | c :: r => if is_sp c then negb p && tight_from true r else tight_from false r
  end.

Lemma tight_tok (t r : str) (p : bool) :
  nospb t = true -> t <> [] -> tight_from p (t ++ r) = tight_from false r.
Proof.
  revert p; induction t as [|c t IH]; intros p H NE; [congruence|].
  cbn [nospb forallb] in H. apply andb_true_iff in H as [Hc Ht]. apply negb_true_iff in Hc.
  cbn [app tight_from]. rewrite Hc. destruct t as [|d t]; [reflexivity|]. apply IH; [exact Ht|discriminate].
Qed.

Lemma starts3_tight (a X : str) (p : bool) :
  tight_from p a = true -> a <> [] -> starts3 (a ++ X) = false.
Proof.
  intros H NE. destruct a as [|c [|d a]]; [congruence| |].
  - cbn [tight_from] in H. destruct (is_sp c) eqn:Ec.
    + rewrite andb_false_r in H. discriminate.
    + cbn [app]. destruct X as [|x1 [|x2 X]]; cbn [starts3]; rewrite ?Ec; reflexivity.
  - cbn [app]. destruct (is_sp c) eqn:Ec.
    + cbn [tight_from] in H. rewrite Ec in H. apply andb_true_iff in H as [_ H].
      destruct (is_sp d) eqn:Ed; [cbn in H; discriminate|].
      destruct (a ++ X); cbn [starts3]; rewrite ?Ec, ?Ed; reflexivity.
    + destruct (a ++ X); cbn [starts3]; rewrite ?Ec; reflexivity.
Qed.

Lemma tight_step (c : ascii) (a : str) (p : bool) :
  tight_from p (c :: a) = true -> tight_from (is_sp c) a = true.
Proof.
  cbn [tight_from]. destruct (is_sp c); [|auto]. intro H. now apply andb_true_iff in H as [_ H].
Qed.

(* a piece followed by the separator is cut off exactly there *)
Lemma split3_piece (a r acc : str) (p : bool) :
  tight_from p a = true ->
  split3 0 (a ++ c_sp :: c_sp :: c_sp :: r) acc = (rev acc ++ a) :: split3 0 r [].
Proof.
  revert p acc; induction a as [|c a IH]; intros p acc H.
  - cbn [app]. rewrite app_nil_r. reflexivity.
  - change ((c :: a) ++ c_sp :: c_sp :: c_sp :: r) with (c :: (a ++ c_sp :: c_sp :: c_sp :: r)).
    cbn [split3].
    change (c :: a ++ c_sp :: c_sp :: c_sp :: r) with ((c :: a) ++ c_sp :: c_sp :: c_sp :: r).
    rewrite (starts3_tight _ _ _ H) by discriminate.
    rewrite (IH _ _ (tight_step _ _ _ H)). cbn [rev]. now rewrite <- app_assoc.
Qed.
Lemma split3_last (a acc : str) (p : bool) :
  tight_from p a = true -> split3 0 a acc = [rev acc ++ a].
Proof.
  revert p acc; induction a as [|c a IH]; intros p acc H.
  - cbn [split3]. now rewrite app_nil_r.
  - cbn [split3]. rewrite <- (app_nil_r (c :: a)) at 1.
    rewrite (starts3_tight _ _ _ H) by discriminate.
    rewrite (IH _ _ (tight_step _ _ _ H)). cbn [rev]. now rewrite <- app_assoc.
Qed.
(* two leading blanks before a non-blank are kept in the piece *)
Lemma split3_lead2 (b : ascii) (rest acc : str) :
  is_sp b = false ->
  split3 0 (c_sp :: c_sp :: b :: rest) acc = split3 0 (b :: rest) (c_sp :: c_sp :: acc).
Proof.
  intro Hb. cbn [split3 starts3]. rewrite Hb. rewrite andb_false_r.
  destruct rest; cbn [starts3]; rewrite ?Hb; rewrite ?andb_false_r; reflexivity.
Qed.

(* ---- ", " splitting ---- *)
Definition head_nosp (r : str) : bool := match r with [] => true | c :: _ => negb (is_sp c) end.
Lemma split_cs_tok (t r acc : str) :
  nospb t = true -> head_nosp r = true -> split_cs 0 (t ++ r) acc = split_cs 0 r (rev t ++ acc).
Proof.
  revert acc; induction t as [|c t IH]; intros acc H Hr; [reflexivity|].
  cbn [nospb forallb] in H. apply andb_true_iff in H as [Hc Ht].
  change ((c :: t) ++ r) with (c :: (t ++ r)). cbn [split_cs].
  assert (E : starts_cs (c :: t ++ r) = false).
  { destruct t as [|d t]; cbn [app].
    - destruct r as [|x r]; cbn [starts_cs]; [reflexivity|]. cbn [head_nosp] in Hr.
      apply negb_true_iff in Hr. rewrite Hr. apply andb_false_r.
    - cbn [nospb forallb] in Ht. apply andb_true_iff in Ht as [Hd _]. apply negb_true_iff in Hd.
      cbn [starts_cs]. rewrite Hd. apply andb_false_r. }
  rewrite E. rewrite IH by auto. cbn [rev]. now rewrite <- app_assoc.
Qed.
Lemma split_cs_sep (r acc : str) :
  split_cs 0 (c_comma :: c_sp :: r) acc = rev acc :: split_cs 0 r [].
Proof. reflexivity. Qed.

Definition tokP (t : str) : Prop := t <> [] /\ nospb t = true.

Lemma split_cs_join (t : str) (ts : list str) (acc : str) :
  Forall tokP (t :: ts) -> split_cs 0 (join (lit ", ") (t :: ts)) acc = (rev acc ++ t) :: ts.
Proof.
  revert t acc; induction ts as [|t2 ts IH]; intros t acc H; inversion H as [|? ? [_ Ht] H2]; subst.
  - cbn [join]. rewrite <- (app_nil_r t) at 1. rewrite split_cs_tok by auto.
    cbn [split_cs]. now rewrite rev_app_distr, rev_involutive.
  - change (join (lit ", ") (t :: t2 :: ts)) with (t ++ c_comma :: c_sp :: join (lit ", ") (t2 :: ts)).
    rewrite split_cs_tok by auto. rewrite split_cs_sep, IH by auto.
    now rewrite rev_app_distr, rev_involutive.
Qed.

Lemma tight_join (ts : list str) (R : str) (p : bool) :
  Forall tokP ts -> ts <> [] -> tight_from false R = true ->
  tight_from p (join (lit ", ") ts ++ R) = true.
Proof.
  intros H NE HR. revert p. induction H as [|t ts [Hne Ht] H IH]; intro p; [congruence|].
  destruct ts as [|t2 ts].
  - cbn [join]. now rewrite tight_tok.
  - change (join (lit ", ") (t :: t2 :: ts)) with (t ++ c_comma :: c_sp :: join (lit ", ") (t2 :: ts)).
    rewrite <- app_assoc. rewrite tight_tok by auto.
    change ((c_comma :: c_sp :: join (lit ", ") (t2 :: ts)) ++ R)
      with (c_comma :: c_sp :: (join (lit ", ") (t2 :: ts) ++ R)).
    cbn [tight_from]. change (is_sp c_comma) with false. change (is_sp c_sp) with true. cbn [negb andb].
    apply IH. discriminate.
Qed.

Lemma strip_brackets_ok (o c : ascii) (inner : str) :
  strip_brackets o c (o :: inner ++ [c]) = Some inner.
Proof.
  unfold strip_brackets. rewrite Ascii.eqb_refl, rev_app_distr. cbn [rev app].
  now rewrite Ascii.eqb_refl, rev_involutive.
Qed.

Lemma nospb_app (a b : str) : nospb (a ++ b) = nospb a && nospb b.
Proof. apply forallb_app. Qed.
Lemma nonlb_app (a b : str) : nonlb (a ++ b) = nonlb a && nonlb b.
Proof. apply forallb_app. Qed.

Section CodecProofs.
  Variable V : Type.
  Variable show : V -> str.
  Variable read : str -> option V.
  Variable showi : Z -> str.
  Variable readi : str -> option Z.
  (* the trusted printer: Python's "%s"/repr and eval *)
  Hypothesis read_show : forall v, read (show v) = Some v.
  Hypothesis show_tok : forall v, show v <> [] /\ nospb (show v) = true /\ nonlb (show v) = true.
  Hypothesis show_nolb : forall v c r, show v = c :: r -> Ascii.eqb c c_lb = false.
  Hypothesis readi_showi : forall z, readi (showi z) = Some z.
  Hypothesis showi_tok : forall z, showi z <> [] /\ nospb (showi z) = true /\ nonlb (showi z) = true.

  Notation entry := (entry V).
  Notation show_list := (show_list V show).
  Notation show_step := (show_step showi).
  Notation show_cost := (show_cost V show).
  Notation format_line := (format_line V show showi).
  Notation parse_list := (parse_list V read).
  Notation parse_cost := (parse_cost V read).
  Notation parse_step := (parse_step readi).
  Notation parse_line := (parse_line V read readi).

  Lemma show_toks (l : list V) : Forall tokP (map show l).
  Proof.
    induction l; cbn [map]; constructor; auto. destruct (show_tok a) as (A & B & _). split; auto.
  Qed.
  Lemma mapM_read_show (l : list V) : mapM read (map show l) = Some l.
  Proof. induction l as [|a l IH]; cbn [map mapM]; auto. now rewrite read_show, IH. Qed.

  Lemma parse_show_list (l : list V) : parse_list (show_list l) = Some l.
  Proof.
    unfold LogCodec.parse_list, LogCodec.show_list. rewrite strip_brackets_ok.
    destruct l as [|a l]; [reflexivity|].
    pose proof (show_toks (a :: l)) as H. cbn [map] in *.
    pose proof (split_cs_join _ _ [] H) as E. cbn [rev app] in E.
    destruct (join (lit ", ") (show a :: map show l)) eqn:J.
    - exfalso. destruct (show_tok a) as (NE & _). destruct (show a) eqn:Sa; [congruence|].
      destruct (map show l); cbn [join] in J; discriminate.
    - rewrite E. apply (mapM_read_show (a :: l)).
  Qed.

  Lemma tight_show_list (l : list V) : tight_from false (show_list l) = true.
  Proof.
    unfold LogCodec.show_list. cbn [tight_from]. change (is_sp c_lb) with false. cbv iota.
    destruct l as [|a l]; [reflexivity|].
    apply tight_join; [apply show_toks|discriminate|reflexivity].
  Qed.
  Lemma tight_show_step (i : Z) (id : option Z) : tight_from false (show_step i id) = true.
  Proof.
    destruct (showi_tok i) as (NEi & Si & _).
    destruct id as [j|]; unfold LogCodec.show_step; cbn [tight_from]; change (is_sp c_lp) with false; cbv iota.
    - destruct (showi_tok j) as (NEj & Sj & _).
      rewrite tight_tok by auto. cbn [lit list_ascii_of_string app tight_from].
      change (is_sp ","%char) with false. change (is_sp " "%char) with true. cbn [negb andb].
      now rewrite tight_tok by auto.
    - now rewrite tight_tok by auto.
  Qed.
  Lemma tight_show_cost (y : costv V) : tight_from false (show_cost y) = true.
  Proof.
    destruct y as [v|l]; cbn [LogCodec.show_cost]; [|apply tight_show_list].
    destruct (show_tok v) as (NE & S & _). rewrite <- (app_nil_r (show v)). now rewrite tight_tok.
  Qed.

  Lemma parse_show_cost (y : costv V) : parse_cost (show_cost y) = Some y.
  Proof.
    destruct y as [v|l]; cbn [LogCodec.show_cost]; unfold LogCodec.parse_cost.
    - destruct (show_tok v) as (NE & _). destruct (show v) as [|c r] eqn:E; [congruence|].
      rewrite (show_nolb v c r E). rewrite <- E, read_show. reflexivity.
    - pose proof (parse_show_list l) as P. unfold LogCodec.show_list in *. rewrite Ascii.eqb_refl.
      now rewrite P.
  Qed.

  Lemma parse_show_step (i : Z) (id : option Z) : parse_step (show_step i id) = Some (i, id).
  Proof.
    destruct (showi_tok i) as (NEi & Si & _).
    unfold LogCodec.parse_step. destruct id as [j|]; unfold LogCodec.show_step.
    - destruct (showi_tok j) as (NEj & Sj & _).
      replace (showi i ++ lit ", " ++ showi j ++ [c_rp]) with ((showi i ++ lit ", " ++ showi j) ++ [c_rp])
        by (now rewrite <- !app_assoc).
      rewrite strip_brackets_ok.
      change (showi i ++ lit ", " ++ showi j) with (join (lit ", ") [showi i; showi j]).
      rewrite split_cs_join by (repeat constructor; auto). cbn [rev app].
      now rewrite !readi_showi.
    - replace (showi i ++ lit ",)") with ((showi i ++ [c_comma]) ++ [c_rp]) by (now rewrite <- app_assoc).
      rewrite strip_brackets_ok.
      change (showi i ++ [c_comma]) with (join (lit ", ") [showi i ++ [c_comma]]).
      rewrite split_cs_join.
      + cbn [rev app]. unfold strip_trailing_comma. rewrite rev_app_distr. cbn [rev app].
        change (is_comma c_comma) with true. cbv iota. now rewrite rev_involutive, readi_showi.
      + repeat constructor; [destruct (showi i); discriminate|].
        rewrite nospb_app, Si. reflexivity.
  Qed.

  Lemma head_of_tight_nonsp (s : str) (c : ascii) (r : str) :
    s = c :: r -> is_sp c = false -> lstrip (c_sp :: c_sp :: s) = s.
  Proof. intros -> H. cbn [lstrip]. change (is_sp c_sp) with true. cbv iota. cbn [lstrip]. now rewrite H. Qed.

  (* logfile_reader parses every line LoggingMonitor writes back to what was logged *)
  Theorem parse_format_line (e : entry) : parse_line (format_line e) = Some e.
  Proof.
    destruct e as [i id y x]. unfold LogCodec.parse_line, LogCodec.format_line. cbn [e_step e_id e_cost e_x].
    pose proof (tight_show_step i id) as TS. pose proof (tight_show_cost y) as TC.
    pose proof (tight_show_list x) as TX.
    assert (HS : exists c r, show_step i id = c :: r /\ is_sp c = false).
    { destruct id; unfold LogCodec.show_step; eexists _, _; split; reflexivity. }
    assert (HC : exists c r, show_cost y = c :: r /\ is_sp c = false).
    { destruct y as [v|l]; cbn [LogCodec.show_cost].
      - destruct (show_tok v) as (NE & S & _). destruct (show v) as [|c r]; [congruence|].
        cbn [nospb forallb] in S. apply andb_true_iff in S as [S _]. apply negb_true_iff in S. eauto.
      - unfold LogCodec.show_list. eexists _, _; split; reflexivity. }
    assert (HX : exists c r, show_list x = c :: r /\ is_sp c = false).
    { unfold LogCodec.show_list. eexists _, _; split; reflexivity. }
    destruct HS as (cs & rs & ES & NS), HC as (cc & rc & EC & NC), HX as (cx & rx & EX & NX).
    set (ST := show_step i id) in *. set (CO := show_cost y) in *. set (XL := show_list x) in *.
    assert (E : split3 0 (lit "  " ++ ST ++ lit "     " ++ CO ++ lit "   " ++ XL) []
                = [c_sp :: c_sp :: ST; c_sp :: c_sp :: CO; XL]).
    { change (lit "  " ++ ST ++ lit "     " ++ CO ++ lit "   " ++ XL)
        with (c_sp :: c_sp :: (ST ++ c_sp :: c_sp :: c_sp :: (c_sp :: c_sp :: (CO ++ c_sp :: c_sp :: c_sp :: XL)))).
      rewrite ES at 1. cbn [app]. rewrite split3_lead2 by auto.
      change (cs :: rs ++ c_sp :: c_sp :: c_sp :: c_sp :: c_sp :: CO ++ c_sp :: c_sp :: c_sp :: XL)
        with ((cs :: rs) ++ c_sp :: c_sp :: c_sp :: (c_sp :: c_sp :: (CO ++ c_sp :: c_sp :: c_sp :: XL))).
      rewrite <- ES. rewrite (split3_piece _ _ _ _ TS). cbn [rev app].
      rewrite EC at 1. cbn [app]. rewrite split3_lead2 by auto.
      change (cc :: rc ++ c_sp :: c_sp :: c_sp :: XL) with ((cc :: rc) ++ c_sp :: c_sp :: c_sp :: XL).
      rewrite <- EC. rewrite (split3_piece _ _ _ _ TC). cbn [rev app].
      rewrite (split3_last _ _ _ TX). reflexivity. }
    rewrite E.
    rewrite (head_of_tight_nonsp _ _ _ ES NS), (head_of_tight_nonsp _ _ _ EC NC).
    assert (LX : lstrip XL = XL) by (rewrite EX; cbn [lstrip]; now rewrite NX).
    rewrite LX. subst ST CO XL.
    now rewrite parse_show_step, parse_show_cost, parse_show_list.
  Qed.

  (* ---- whole files ---- *)
  Lemma split_nl_line (a r acc : str) :
    nonlb a = true -> split_nl (a ++ c_nl :: r) acc = (rev acc ++ a) :: split_nl r [].
  Proof.
    revert acc; induction a as [|c a IH]; intros acc H.
    - cbn [app split_nl]. change (is_nl c_nl) with true. cbv iota. now rewrite app_nil_r.
    - cbn [nonlb forallb] in H. apply andb_true_iff in H as [Hc Ha]. apply negb_true_iff in Hc.
      cbn [app split_nl]. rewrite Hc. rewrite IH by auto. cbn [rev]. now rewrite <- app_assoc.
  Qed.

  Lemma nonlb_join (ts : list str) : Forall (fun t => nonlb t = true) ts -> nonlb (join (lit ", ") ts) = true.
  Proof.
    induction 1 as [|t ts Ht H IH]; [reflexivity|]. destruct ts as [|t2 ts]; [exact Ht|].
    change (join (lit ", ") (t :: t2 :: ts)) with (t ++ lit ", " ++ join (lit ", ") (t2 :: ts)).
    now rewrite !nonlb_app, Ht, IH.
  Qed.
  Lemma nonlb_show_list (l : list V) : nonlb (show_list l) = true.
  Proof.
    unfold LogCodec.show_list. change (c_lb :: join (lit ", ") (map show l) ++ [c_rb])
      with ([c_lb] ++ join (lit ", ") (map show l) ++ [c_rb]).
    rewrite !nonlb_app, nonlb_join; [reflexivity|].
    induction l; cbn [map]; constructor; auto. now destruct (show_tok a) as (_ & _ & ?).
  Qed.
  Lemma nonlb_format_line (e : entry) : nonlb (format_line e) = true.
  Proof.
    destruct e as [i id y x]. unfold LogCodec.format_line. cbn [e_step e_id e_cost e_x].
    rewrite !nonlb_app, nonlb_show_list.
    assert (nonlb (show_step i id) = true) as ->.
    { destruct (showi_tok i) as (_ & _ & Ni). destruct id as [j|]; unfold LogCodec.show_step.
      - destruct (showi_tok j) as (_ & _ & Nj).
        change (c_lp :: showi i ++ lit ", " ++ showi j ++ [c_rp]) with ([c_lp] ++ showi i ++ lit ", " ++ showi j ++ [c_rp]).
        now rewrite !nonlb_app, Ni, Nj.
      - change (c_lp :: showi i ++ lit ",)") with ([c_lp] ++ showi i ++ lit ",)"). now rewrite !nonlb_app, Ni. }
    assert (nonlb (show_cost y) = true) as ->.
    { destruct y as [v|l]; cbn [LogCodec.show_cost]; [now destruct (show_tok v) as (_ & _ & ?)|apply nonlb_show_list]. }
    reflexivity.
  Qed.

  Definition comment_ok (l : fline V) : Prop :=
    match l with LComment s => nonlb s = true | LEntry _ => True end.

  Lemma split_nl_file (ls : list (fline V)) :
    Forall comment_ok ls ->
    split_nl (format_file V show showi ls) [] = map (line_text V show showi) ls ++ [[]].
  Proof.
    induction 1 as [|l ls Hl H IH]; [reflexivity|].
    cbn [format_file flat_map map]. rewrite <- app_assoc. cbn [app].
    rewrite split_nl_line.
    - cbn [rev app]. fold (format_file V show showi ls). now rewrite IH.
    - destruct l as [s|e]; cbn [line_text comment_ok] in *; [|apply nonlb_format_line].
      cbn [nonlb forallb]. change (is_nl c_hash) with false. change (is_nl c_sp) with false. exact Hl.
  Qed.

  Lemma skipped_entry (e : entry) : skipped (format_line e) = false.
  Proof. reflexivity. Qed.
  Lemma skipped_comment (s : str) : skipped (c_hash :: c_sp :: s) = true.
  Proof. reflexivity. Qed.

  (* logfile_reader reads a whole file (header, info lines, entries) back to the logged entries *)
  Theorem parse_format_file (ls : list (fline V)) :
    Forall comment_ok ls ->
    parse_file V read readi (format_file V show showi ls) = Some (entries V ls).
  Proof.
    intro H. unfold parse_file. rewrite split_nl_file by auto. rewrite removelast_last.
    clear H. induction ls as [|l ls IH]; [reflexivity|].
    destruct l as [s|e]; cbn [map line_text filter entries flat_map app].
    - rewrite skipped_comment. cbn [negb]. exact IH.
    - rewrite skipped_entry. cbn [negb mapM]. rewrite parse_format_line. fold (entries V ls).
      unfold entries in IH. now rewrite IH.
  Qed.

  (* which calls a LoggingMonitor(interval) writes: every interval-th, numbered by position *)
  Lemma log_lines_entries_interval1 (ops : list (lop V)) (n : nat) :
    entries V (log_lines V 1 n ops) =
    (fix go (n : nat) (ops : list (lop V)) : list entry :=
       match ops with
       | [] => []
       | LInfo _ :: r => go n r
       | LCall id y x :: r => mkEntry (Z.of_nat n) id y x :: go (S n) r
       end) n ops.
  Proof.
    revert n; induction ops as [|o ops IH]; intro n; [reflexivity|].
    destruct o as [id y x|msg]; cbn [log_lines].
    - unfold entries in *. rewrite flat_map_app. cbn [logged Nat.modulo Nat.divmod fst snd Nat.eqb flat_map app].
      now rewrite IH.
    - unfold entries in *. cbn [flat_map app]. now rewrite IH.
  Qed.
End CodecProofs.
