From Coq Require Import List Arith Bool Lia Reals Lra.
From MV Require Import Common.Num Common.NumR Pure.Discrete.
Import ListNotations.

Section Structure.
  Variable A : Type.
  Notation measure := (measure A).
  Notation pmeasure := (pmeasure A).

  Lemma one_measure_self (m : measure) : one_measure (m_positions m) (m_weights m) = Some m.
  Proof. induction m as [|[w x] m IH]; simpl; auto. now rewrite IH. Qed.

  Lemma compose_self (c : pmeasure) : compose (pos c) (wts c) = Some c.
  Proof.
    unfold compose. induction c as [|m c IH]; simpl; auto.
    now rewrite one_measure_self, IH.
  Qed.

  Lemma firstn_app_exact {B} (l r : list B) : firstn (length l) (l ++ r) = l.
  Proof. induction l; simpl; auto. now rewrite IHl. Qed.
  Lemma skipn_app_exact {B} (l r : list B) : skipn (length l) (l ++ r) = r.
  Proof. induction l; simpl; auto. Qed.

  Lemma firstn_app_len {B} n (l r : list B) : length l = n -> firstn n (l ++ r) = l.
  Proof. intros <-. apply firstn_app_exact. Qed.
  Lemma skipn_app_len {B} n (l r : list B) : length l = n -> skipn n (l ++ r) = r.
  Proof. intros <-. apply skipn_app_exact. Qed.

  Lemma nested_split_flatten (c : pmeasure) (rest : list A) :
    nested_split (flatten c ++ rest) (pts c) = (wts c, pos c).
  Proof.
    induction c as [|m c IH]; auto.
    change (flatten (m :: c)) with ((m_weights m ++ m_positions m) ++ flatten c).
    change (pts (m :: c)) with (length m :: pts c).
    cbn [nested_split]. rewrite <- !app_assoc.
    assert (Hw : length (m_weights m) = length m) by apply map_length.
    assert (Hx : length (m_positions m) = length m) by apply map_length.
    rewrite (firstn_app_len _ _ _ Hw), (skipn_app_len _ _ _ Hw).
    rewrite (firstn_app_len _ _ _ Hx), (skipn_app_len _ _ _ Hx).
    rewrite IH. reflexivity.
  Qed.

  Theorem unflatten_flatten (c : pmeasure) : unflatten (flatten c) (pts c) = Some c.
  Proof.
    unfold unflatten. rewrite <- (app_nil_r (flatten c)), nested_split_flatten. simpl.
    apply compose_self.
  Qed.

  Theorem unflatten_flatten_extra (c : pmeasure) rest : unflatten (flatten c ++ rest) (pts c) = Some c.
  Proof. unfold unflatten. rewrite nested_split_flatten. simpl. apply compose_self. Qed.

  Lemma one_measure_same_length (x w : list A) :
    length x = length w -> exists m, one_measure x w = Some m /\ m_weights m = w /\ m_positions m = x.
  Proof.
    revert w; induction x as [|a x IH]; intros [|b w] H; simpl in *; try discriminate.
    - exists []; auto.
    - injection H as H. destruct (IH w H) as (m & -> & Hw & Hx). exists ((b, a) :: m); simpl.
      now rewrite Hw, Hx.
  Qed.

  Lemma sum_nat_cons n r : sum_nat (n :: r) = n + sum_nat r.
  Proof. reflexivity. Qed.

  Theorem flatten_unflatten (params : list A) (npts : list nat) :
    length params = 2 * sum_nat npts ->
    exists c, unflatten params npts = Some c /\ flatten c = params /\ pts c = npts.
  Proof.
    unfold unflatten, compose. revert params.
    induction npts as [|n r IH]; intros params H.
    - simpl in *. destruct params; simpl in *; try lia. exists []; auto.
    - rewrite sum_nat_cons in H. cbn [nested_split fst snd list_of_measures].
      set (w := firstn n params). set (p1 := skipn n params).
      set (x := firstn n p1). set (p2 := skipn n p1).
      assert (Hw : length w = n) by (subst w; rewrite firstn_length; lia).
      assert (Hp1 : length p1 = n + 2 * sum_nat r) by (subst p1; rewrite skipn_length; lia).
      assert (Hx : length x = n) by (subst x; rewrite firstn_length; lia).
      assert (Hp2 : length p2 = 2 * sum_nat r) by (subst p2; rewrite skipn_length; lia).
      destruct (IH p2 Hp2) as (c & Hc & Hf & Hp).
      destruct (one_measure_same_length x w) as (m & Hm & Hmw & Hmx); [lia|].
      rewrite Hm, Hc. exists (m :: c). split; [reflexivity|]. split.
      + change (flatten (m :: c)) with ((m_weights m ++ m_positions m) ++ flatten c).
        rewrite Hmw, Hmx, Hf. subst w x p2. rewrite <- app_assoc, (firstn_skipn n p1).
        subst p1. apply firstn_skipn.
      + simpl. rewrite Hp. f_equal. unfold m_weights in Hmw.
        rewrite <- (map_length fst m), Hmw. exact Hw.
  Qed.

  Theorem compose_decompose (c : pmeasure) :
    compose (fst (decompose c)) (snd (decompose c)) = Some c.
  Proof.
    unfold decompose. rewrite <- (app_nil_r (flatten c)), nested_split_flatten. simpl.
    apply compose_self.
  Qed.

  Lemma list_of_measures_shape (xs ws : list (list A)) :
    map (@length A) xs = map (@length A) ws ->
    exists c, list_of_measures xs ws = Some c /\ wts c = ws /\ pos c = xs.
  Proof.
    revert ws; induction xs as [|x xs IH]; intros [|w ws] H; simpl in *; try discriminate.
    - exists []; auto.
    - injection H as H1 H2. destruct (IH ws H2) as (c & -> & Hw & Hx).
      destruct (one_measure_same_length x w H1) as (m & -> & Hmw & Hmx).
      exists (m :: c); simpl. now rewrite Hw, Hx, Hmw, Hmx.
  Qed.

  Theorem decompose_compose (xs ws : list (list A)) :
    map (@length A) xs = map (@length A) ws ->
    exists c, compose xs ws = Some c /\ decompose c = (xs, ws).
  Proof.
    intros H. destruct (list_of_measures_shape xs ws H) as (c & Hc & Hw & Hx).
    exists c. split; [exact Hc|].
    unfold decompose. rewrite <- (app_nil_r (flatten c)), nested_split_flatten. simpl.
    now rewrite Hw, Hx.
  Qed.

  Theorem load_appends (c : pmeasure) (params : list A) (npts : list nat) :
    2 * sum_nat npts <= length params ->
    exists c', load c params npts = Some (c ++ c') /\
               flatten c' = firstn (2 * sum_nat npts) params /\ pts c' = npts.
  Proof.
    intros H. unfold load.
    destruct (flatten_unflatten (firstn (2 * sum_nat npts) params) npts) as (c' & -> & Hf & Hp).
    - rewrite firstn_length. lia.
    - exists c'. auto.
  Qed.

  Lemma count_empty_zero (c : pmeasure) :
    Forall (fun n => 0 < n) (pts c) -> count_empty c = 0.
  Proof.
    unfold count_empty. induction c as [|m c IH]; simpl; auto. intros H.
    inversion H as [|? ? Hm Hc]; subst. destruct m; simpl in *; [lia|]. auto.
  Qed.

  Lemma pts_length (c : pmeasure) : length (pts c) = length c.
  Proof. apply map_length. Qed.

  (* update replaces exactly the addressed weights and positions: afterwards the measure has the same
     shape and flattens to the first 2*sum(pts) parameters *)
  Theorem update_exact (c : pmeasure) (params : list A) :
    Forall (fun n => 0 < n) (pts c) -> 2 * sum_nat (pts c) <= length params ->
    exists c', update c params = Some c' /\ pts c' = pts c /\
               flatten c' = firstn (2 * sum_nat (pts c)) params.
  Proof.
    intros Hpos H. unfold update.
    destruct (flatten_unflatten (firstn (2 * sum_nat (pts c)) params) (pts c)) as (c' & -> & Hf & Hp).
    - rewrite firstn_length. lia.
    - assert (Hz : count_empty c' = 0) by (apply count_empty_zero; now rewrite Hp).
      rewrite Hz, !Nat.sub_0_r.
      assert (Hl : length c' = length c) by (rewrite <- !pts_length; now rewrite Hp).
      rewrite <- Hl, firstn_all, Hl, skipn_all, app_nil_r.
      exists c'. auto.
  Qed.

  (* ---- pack / unpack ---- *)

  Lemma pack_length (s : list (list A)) : length (pack s) = fold_right Nat.mul 1 (map (@length A) s).
  Proof.
    induction s as [|x r IH]; simpl; auto.
    rewrite <- IH. generalize (pack r). intros l. induction l as [|t l IHl]; simpl; [lia|].
    rewrite app_length, map_length, IHl. lia.
  Qed.

  Lemma pack_In (s : list (list A)) (p : list A) : In p (pack s) <-> Forall2 (@In A) p s.
  Proof.
    revert p; induction s as [|x r IH]; intros p; simpl.
    - split.
      + intros [<-|[]]. constructor.
      + intros H. inversion H. now left.
    - rewrite in_flat_map. split.
      + intros (t & Ht & Hp). apply in_map_iff in Hp as (a & <- & Ha).
        constructor; auto. now apply IH.
      + intros H. destruct p as [|a t]; [inversion H|].
        assert (Ha : In a x) by (inversion H; auto).
        assert (Ht : Forall2 (@In A) t r) by (inversion H; auto).
        exists t. split; [now apply IH|]. apply in_map_iff. eauto.
  Qed.

  Definition stretch (k : nat) (l : list A) : list A := flat_map (fun a => repeat a k) l.

  Lemma column_app k (l1 l2 : list (list A)) : column k (l1 ++ l2) = column k l1 ++ column k l2.
  Proof. unfold column. apply flat_map_app. Qed.

  Lemma column_0_map_cons (x t : list A) : column 0 (map (fun a => a :: t) x) = x.
  Proof.
    induction x as [|a x IH]; [reflexivity|].
    change (column 0 (map (fun a => a :: t) (a :: x))) with (a :: column 0 (map (fun a => a :: t) x)).
    now rewrite IH.
  Qed.

  Lemma column_S_map_cons i (x t : list A) :
    column (S i) (map (fun a => a :: t) x) =
    match nth_error t i with Some b => repeat b (length x) | None => [] end.
  Proof.
    induction x as [|a x IH]; [now destruct (nth_error t i)|].
    change (column (S i) (map (fun a => a :: t) (a :: x)))
      with ((match nth_error t i with Some b => [b] | None => [] end) ++ column (S i) (map (fun a => a :: t) x)).
    rewrite IH. now destruct (nth_error t i).
  Qed.

  Lemma column_0_pack x r :
    column 0 (pack (x :: r)) = flat_map (fun _ : list A => x) (pack r).
  Proof.
    cbn [pack]. generalize (pack r); intros l.
    induction l as [|t l IH]; cbn [flat_map]; auto.
    now rewrite column_app, IH, column_0_map_cons.
  Qed.

  Lemma column_S_pack i x r :
    column (S i) (pack (x :: r)) = stretch (length x) (column i (pack r)).
  Proof.
    cbn [pack]. generalize (pack r); intros l.
    induction l as [|t l IH]; auto.
    cbn [flat_map]. rewrite column_app, IH, column_S_map_cons.
    change (t :: l) with ([t] ++ l). rewrite column_app. unfold stretch at 2. rewrite flat_map_app.
    f_equal. unfold column. cbn. destruct (nth_error t i); cbn; auto. now rewrite app_nil_r.
  Qed.

  Lemma firstn_stretch k m l : firstn (k * m) (stretch k l) = stretch k (firstn m l).
  Proof.
    revert m; induction l as [|a l IH]; intros m; simpl.
    - now rewrite !firstn_nil.
    - destruct m as [|m]; simpl.
      + now rewrite Nat.mul_0_r.
      + replace (k * S m) with (length (repeat a k) + k * m) by (rewrite repeat_length; lia).
        rewrite firstn_app_2, IH. reflexivity.
  Qed.

  Lemma skipn_stretch k m l : skipn (k * m) (stretch k l) = stretch k (skipn m l).
  Proof.
    revert m; induction l as [|a l IH]; intros m; simpl.
    - now rewrite !skipn_nil.
    - destruct m as [|m]; simpl.
      + now rewrite Nat.mul_0_r.
      + replace (k * S m) with (length (repeat a k) + k * m) by (rewrite repeat_length; lia).
        rewrite skipn_app. rewrite skipn_all2 by lia. simpl.
        replace (length (repeat a k) + k * m - length (repeat a k)) with (k * m) by lia.
        apply IH.
  Qed.

  Lemma stretch_length k l : length (stretch k l) = k * length l.
  Proof.
    induction l as [|a l IH]; simpl; [lia|]. rewrite app_length, repeat_length, IH. lia.
  Qed.

  Lemma every_aux_stretch fuel fuel' k L l :
    0 < k -> 0 < L -> length l <= fuel -> length (stretch k l) <= fuel' ->
    every_aux fuel' (k * L) (stretch k l) = every_aux fuel L l.
  Proof.
    intros Hk HL. revert fuel' l.
    induction fuel as [|fuel IH]; intros fuel' l Hf Hf'.
    - destruct l; simpl in *; try lia. destruct fuel'; reflexivity.
    - destruct l as [|a l].
      + simpl. destruct fuel'; reflexivity.
      + destruct fuel' as [|fuel'].
        * rewrite stretch_length in Hf'. simpl in Hf'. lia.
        * destruct k as [|k]; [lia|].
          change (stretch (S k) (a :: l)) with (a :: repeat a k ++ stretch (S k) l).
          cbn [every_aux]. f_equal.
          change (a :: repeat a k ++ stretch (S k) l) with (stretch (S k) (a :: l)).
          rewrite skipn_stretch.
          apply IH.
          -- rewrite skipn_length. simpl length in *. lia.
          -- rewrite stretch_length, skipn_length.
             rewrite stretch_length in Hf'. simpl in Hf'. simpl length. nia.
  Qed.

  Lemma every_stretch k L l : 0 < k -> 0 < L -> every (k * L) (stretch k l) = every L l.
  Proof. intros; unfold every; apply every_aux_stretch; auto. Qed.

  Lemma unpack_from_pack (x : list A) r i L npts :
    0 < length x -> 0 < L -> Forall (fun n => 0 < n) npts ->
    unpack_from (pack (x :: r)) (S i) (length x * L) npts = unpack_from (pack r) i L npts.
  Proof.
    intros Hx. revert i L. induction npts as [|n npts IH]; intros i L HL Hn; cbn [unpack_from]; auto.
    inversion Hn as [|? ? Hn1 Hn2]; subst.
    rewrite <- Nat.mul_assoc, (IH (S i) (L * n)) by (auto; nia).
    f_equal. rewrite column_S_pack, firstn_stretch. apply every_stretch; auto.
  Qed.

  Lemma every_aux_1 fuel (l : list A) : length l <= fuel -> every_aux fuel 1 l = l.
  Proof.
    revert l; induction fuel as [|fuel IH]; intros l H.
    - destruct l; simpl in *; auto; lia.
    - destruct l as [|a l]; simpl; auto. f_equal. apply IH. simpl in H. lia.
  Qed.
  Lemma every_1 (l : list A) : every 1 l = l.
  Proof. apply every_aux_1; auto. Qed.

  Lemma pack_nonempty (s : list (list A)) : Forall (fun x => 0 < length x) s -> pack s <> [].
  Proof.
    intros H E. assert (P : 0 < length (pack s)); [|rewrite E in P; simpl in P; lia].
    rewrite pack_length. clear E. induction H as [|x r Hx Hr IH]; simpl; [lia|nia].
  Qed.

  Theorem unpack_from_pack_all (s : list (list A)) :
    Forall (fun x => 0 < length x) s -> unpack_from (pack s) 0 1 (map (@length A) s) = s.
  Proof.
    induction s as [|x r IH]; intros H; auto.
    inversion H as [|? ? Hx Hr]; subst.
    cbn [map unpack_from]. f_equal.
    - rewrite column_0_pack, every_1, Nat.mul_1_l.
      pose proof (pack_nonempty r Hr) as Hne. destruct (pack r) as [|t l]; [congruence|].
      simpl. apply firstn_app_exact.
    - rewrite Nat.mul_1_l. rewrite <- (Nat.mul_1_r (length x)).
      rewrite unpack_from_pack; auto.
      clear -Hr. induction Hr; simpl; constructor; auto.
  Qed.

  Theorem unpack_pack (s : list (list A)) :
    s <> [] -> Forall (fun x => 0 < length x) s ->
    unpack (pack s) (map (@length A) s) = Some s.
  Proof.
    intros Hne H. unfold unpack. destruct s as [|x r]; [congruence|].
    remember (x :: r) as s eqn:Es.
    replace (existsb (Nat.eqb 0) (removelast (map (@length A) s))) with false.
    - rewrite unpack_from_pack_all by auto. now subst s.
    - symmetry. apply not_true_is_false. intros E. apply existsb_exists in E as (n & Hin & Hn).
      apply Nat.eqb_eq in Hn. subst n.
      assert (Hin' : In 0 (map (@length A) s)).
      { clear -Hin. revert Hin. generalize (map (@length A) s). intros l.
        induction l as [|a [|b l] IHl]; simpl in *; auto. intros [->|Hr]; auto. }
      apply in_map_iff in Hin' as (y & Hy & Hiny).
      rewrite Forall_forall in H. specialize (H y Hiny). lia.
  Qed.

  (* the other direction, on product-shaped point lists *)
  Corollary pack_unpack (s : list (list A)) :
    s <> [] -> Forall (fun x => 0 < length x) s ->
    option_map (@pack A) (unpack (pack s) (map (@length A) s)) = Some (pack s).
  Proof. intros; now rewrite unpack_pack. Qed.
End Structure.

(* ---- arithmetic facts, over the reals ---- *)
Section Arithmetic.
  Local Open Scope R_scope.
  Notation E := R.

  Definition Rsum (l : list R) : R := fold_right Rplus 0 l.
  Definition Rprod (l : list R) : R := fold_right Rmult 1 l.

  Lemma nsum_acc (l : list R) (a : R) : fold_left Rplus l a = a + Rsum l.
  Proof. revert a; induction l as [|x l IH]; intros a; simpl; [lra|]. rewrite IH. lra. Qed.
  Lemma nsum_Rsum (l : list R) : nsum NumR l = Rsum l.
  Proof. unfold nsum; simpl. rewrite nsum_acc. lra. Qed.
  Lemma nprod_acc (l : list R) (a : R) : fold_left Rmult l a = a * Rprod l.
  Proof. revert a; induction l as [|x l IH]; intros a; simpl; [lra|]. rewrite IH. lra. Qed.
  Lemma nprod_Rprod (l : list R) : nprod NumR l = Rprod l.
  Proof. unfold nprod; simpl. rewrite nprod_acc. lra. Qed.

  Lemma Rsum_cons a l : Rsum (a :: l) = a + Rsum l.
  Proof. reflexivity. Qed.
  Lemma Rsum_app a b : Rsum (a ++ b) = Rsum a + Rsum b.
  Proof. induction a; simpl; lra. Qed.

  Lemma Rsum_map_cons_prod (x : list R) (t : list R) :
    Rsum (map Rprod (map (fun a => a :: t) x)) = Rsum x * Rprod t.
  Proof. induction x as [|a x IH]; simpl; [lra|]. rewrite IH. lra. Qed.

  Lemma Rsum_prod_pack (s : list (list R)) :
    Rsum (map Rprod (pack s)) = Rprod (map Rsum s).
  Proof.
    induction s as [|x r IH]; simpl; [lra|].
    rewrite <- IH. generalize (pack r); intros l.
    induction l as [|t l IHl]; simpl; [lra|].
    rewrite map_app, Rsum_app, IHl, Rsum_map_cons_prod. lra.
  Qed.

  (* total mass of the product measure = product of the factors' masses *)
  Theorem total_mass_is_product (c : pmeasure R) :
    nsum NumR (weights NumR c) = nprod NumR (mass NumR c).
  Proof.
    unfold weights, mass. rewrite nsum_Rsum, nprod_Rprod.
    rewrite (map_ext (nprod NumR) Rprod nprod_Rprod), (map_ext (nsum NumR) Rsum nsum_Rsum).
    apply Rsum_prod_pack.
  Qed.

  (* every point weight is the product of one weight from each factor, in the order of the positions *)
  Theorem weights_positions_aligned (c : pmeasure R) :
    length (weights NumR c) = length (positions c).
  Proof.
    unfold weights, positions. rewrite map_length, !pack_length. unfold wts, pos, m_weights, m_positions.
    rewrite !map_map. f_equal. apply map_ext. intros m. now rewrite !map_length.
  Qed.

  (* expectation: zero-weight points may be skipped or not, the value is sum(f x * w)/sum(w) *)
  Lemma kept_sum (g : list R -> R) (l : list (list R * R)) :
    Rsum (map (fun p => g (fst p) * snd p) (filter (fun p => nonzero NumR (snd p)) l)) =
    Rsum (map (fun p => g (fst p) * snd p) l).
  Proof.
    induction l as [|[x w] l IH]; auto.
    cbn [filter snd fst].
    destruct (nonzero NumR w) eqn:E; cbn [map fst snd]; rewrite ?Rsum_cons, IH; auto.
    unfold nonzero in E. cbn [ltb zero abs NumR] in E. apply Rltb_false in E. assert (w = 0).
    { pose proof (Rabs_pos w). assert (Rabs w = 0) by lra.
      destruct (Req_dec w 0); auto. exfalso. now apply Rabs_no_R0 in H1. }
    subst w. lra.
  Qed.

  Theorem expect_is_explicit_sum (f : list R -> R) (c : pmeasure R) :
    Rsum (weights NumR c) <> 0 ->
    expect NumR f c = Some (wsum NumR f (positions c) (weights NumR c) / Rsum (weights NumR c)).
  Proof.
    intros Hne. unfold expect, expectation, wsum. change (T NumR) with R in *.
    pose proof (weights_positions_aligned c) as Hlen.
    set (l := combine (positions c) (weights NumR c)).
    assert (Hsnd : map snd l = weights NumR c).
    { subst l. clear -Hlen. revert Hlen. generalize (weights NumR c) (positions c).
      intros ws xs; revert ws. induction xs as [|x xs IH]; intros [|w ws] H; simpl in *; auto; try discriminate.
      f_equal. apply IH. lia. }
    assert (Htot : nsum NumR (map snd (filter (fun p => nonzero NumR (snd p)) l)) = Rsum (weights NumR c)).
    { rewrite nsum_Rsum, <- Hsnd.
      pose proof (kept_sum (fun _ => 1) l) as K.
      rewrite !(map_ext (fun p : list R * R => 1 * snd p) snd) in K by (intros; lra). exact K. }
    change (T NumR) with R in *. fold l. rewrite Htot. simpl eqb. unfold Reqb. destruct (Req_EM_T _ _) as [E|_]; [contradiction|].
    rewrite !nsum_Rsum. simpl mul. simpl div. now rewrite kept_sum.
  Qed.

  (* expected variance: the second moment about the weighted mean, whether or not zero-weight points are skipped *)
  Theorem expect_var_is_explicit_sum (f : list R -> R) (c : pmeasure R) :
    Rsum (weights NumR c) <> 0 ->
    let m := wsum NumR f (positions c) (weights NumR c) / Rsum (weights NumR c) in
    expect_var NumR f c =
    Some (wsum NumR (fun x => (f x - m) * (f x - m)) (positions c) (weights NumR c) / Rsum (weights NumR c)).
  Proof.
    intros Hne m. unfold expect_var, expected_variance. subst m. unfold wsum. change (T NumR) with R in *.
    pose proof (weights_positions_aligned c) as Hlen.
    set (l := combine (positions c) (weights NumR c)).
    assert (Hsnd : map snd l = weights NumR c).
    { subst l. clear -Hlen. revert Hlen. generalize (weights NumR c) (positions c).
      intros ws xs; revert ws. induction xs as [|x xs IH]; intros [|w ws] H; simpl in *; auto; try discriminate.
      f_equal. apply IH. lia. }
    assert (Htot : nsum NumR (map snd (filter (fun p => nonzero NumR (snd p)) l)) = Rsum (weights NumR c)).
    { rewrite nsum_Rsum, <- Hsnd.
      pose proof (kept_sum (fun _ => 1) l) as K.
      rewrite !(map_ext (fun p : list R * R => 1 * snd p) snd) in K by (intros; lra). exact K. }
    change (T NumR) with R in *. fold l. rewrite Htot. simpl eqb. unfold Reqb. destruct (Req_EM_T _ _) as [E|_]; [contradiction|].
    rewrite !nsum_Rsum. simpl mul. simpl div. simpl sub.
    pose proof (kept_sum f l) as K1. unfold nonzero in K1. simpl in K1. change (T NumR) with R in *. rewrite K1.
    set (mu := Rsum (map (fun p : list R * R => f (fst p) * snd p) l) / Rsum (weights NumR c)).
    pose proof (kept_sum (fun x => (f x - mu) * (f x - mu)) l) as K2. unfold nonzero in K2. simpl in K2. change (T NumR) with R in *.
    rewrite K2. reflexivity.
  Qed.

  (* pof is the total weight of the failing points *)
  Theorem pof_is_indicator_sum (f : list R -> R) (c : pmeasure R) :
    pof NumR f c =
    Rsum (map (fun p => if Rleb (f (fst p)) 0 then snd p else 0) (combine (positions c) (weights NumR c))).
  Proof.
    unfold pof. rewrite nsum_Rsum. change (T NumR) with R. change (leb NumR) with Rleb. change (zero NumR) with 0.
    match goal with |- context [filter _ ?l0] => generalize l0 end. intros l.
    induction l as [|p l IH]; auto.
    cbn [filter map].
    destruct (Rleb (f (fst p)) 0); rewrite ?map_cons, !Rsum_cons, IH; lra.
  Qed.
End Arithmetic.
