(* C16 -- proofs about the transform models of Pure/Transforms.v.
   The proofs are split by group into Pure/C16_Order.v (sorting, monotonic, clipped, suppressed; any strict weak order),
   Pure/C16_Bounds.v (bounded / impose_bounds; reals), Pure/C16_Nearest.v (discrete over reals; integers / rounded / precision
   over Q), Pure/C16_Surgery.v (impose_at, partial, masked, synchronized; any carrier) and Pure/C16_Moments.v (with_mean,
   with_variance, with_spread, normalized, unique, impose_as; reals).  This file re-exports them and adds the witnesses for the
   two remaining impose_as findings, evaluated on the Q instance of the model. *)
From Coq Require Import ZArith QArith List Bool.
From MV Require Import Common.Num Pure.Transforms.
From MV Require Export Pure.C16_Order Pure.C16_Surgery Pure.C16_Nearest Pure.C16_Bounds Pure.C16_Moments.
Import ListNotations.

Definition qred_result (o : option (list Q)) : option (list Q) := option_map (map Qred) o.

(* FULL STATEMENT (false): for every mask in which each entry tracks at most one partner and no cycle occurs, and every x,
   impose_as mask off x = Some y  implies  y[j] = y[i] + off for every pair (i,j) with both indices in range,
   and impose_as mask off y = Some y.   Two independent counterexamples remain (each reproduced on mystic, see
   known_findings.d/C16.txt).  The third one (a pair bridging two groups of tools.connected) was repaired in /repo: connected() now
   merges the groups (C16_Moments.connected_pair_same_group, connected_wf); the former witness is now tied: *)
Example impose_as_bridging_pair_now_tied :
  qred_result (impose_as NumQ [(2, 3); (0, 1); (1, 2)]%Z 0%Q [9; 8; 7; 6]%Q) = Some [9; 9; 9; 9]%Q.
Proof. vm_compute. reflexivity. Qed.

(* the group root chosen by connected() is itself tracked: a conforming vector drifts by the offset on every application *)
Lemma impose_as_offset_drift_refuted :
  exists mask off x y, qred_result (impose_as NumQ mask off x) = Some y /\
                       (forall i j, In (i, j) mask -> (nth (Z.to_nat j) x 0 == nth (Z.to_nat i) x 0 + off)%Q) /\
                       y <> x /\ qred_result (impose_as NumQ mask off y) <> Some y.
Proof.
  exists [(1, 2); (0, 1)]%Z, 1%Q, [0; 1; 2]%Q, [1; 2; 3]%Q.
  split; [vm_compute; reflexivity|]. split.
  - intros i j [H | [H | []]]; inversion H; subst; vm_compute; reflexivity.
  - split; [discriminate|]. vm_compute. discriminate.
Qed.

(* a tracked entry whose partner index is out of range still receives the offset *)
Lemma impose_as_out_of_range_partner_refuted :
  exists mask off x y, qred_result (impose_as NumQ mask off x) = Some y /\ mask = [(2, 0)]%Z /\
                       norm_idx (length x) 2 = None /\ ~ (nth 0 y 0 == nth 0 x 0)%Q.
Proof.
  exists [(2, 0)]%Z, (1 # 2)%Q, [39 # 4; 1 # 2]%Q, [41 # 4; 1 # 2]%Q.
  split; [vm_compute; reflexivity|]. split; [reflexivity|]. split; [reflexivity|].
  cbn. intro H. discriminate H.
Qed.
