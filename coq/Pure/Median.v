(* C18 - model of the unweighted order statistics of mystic.math.measures: median and impose_median with weights=None.
   Definitions only (executable over any [Num]); proofs are in Median_Proofs.v.

   measures.median:   x,w = _sort(samples, None)      -- numpy.sort of the samples, unit weights
                      s = sum(w)                      -- the number of samples
                      numpy.mean(x[s/2. - numpy.cumsum(w) <= 0][0:2-x.size%2])
   i.e. of the sorted samples whose rank (1-based) is at least n/2 the first one (n odd) or the first two (n even) are averaged;
   numpy.mean of nothing (no samples) is nan: [None].
   measures.impose_median(m, samples):  samples + (m - median(samples)).
   The weighted forms (argsort of a 2-D array: order of tied samples unspecified) stay oracle-only. *)
From Coq Require Import List Arith ZArith Bool.
From MV Require Import Common.Num Pure.Measures.
Import ListNotations.

Section Median.
  Variable N : Num.
  Notation E := (T N).

  Fixpoint insert_s (a : E) (l : list E) : list E :=
    match l with
    | [] => [a]
    | b :: r => if ltb N a b then a :: l else b :: insert_s a r
    end.
  Definition sort_s (l : list E) : list E := fold_right insert_s [] l.

  (* the boolean mask  s/2. - cumsum(w) <= 0  at 0-based position i of n unit-weight samples *)
  Definition upper_half (n i : nat) : bool :=
    leb N (sub N (div N (of_nat N n) (of_nat N 2)) (of_nat N (S i))) (zero N).

  Definition median_u (x : list E) : option E :=
    let n := length x in
    let sel := map snd (filter (fun p => upper_half n (fst p)) (enumerate (sort_s x))) in
    let pick := firstn (2 - n mod 2) sel in
    match pick with
    | [] => None
    | _ => Some (div N (nsum N pick) (of_nat N (length pick)))
    end.

  Definition impose_median_u (m : E) (x : list E) : option (list E) :=
    obind (median_u x) (fun md => Some (map (fun s => add N s (sub N m md)) x)).
End Median.
