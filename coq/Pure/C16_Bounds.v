(* C16 -- constraints.bounded / impose_bounds: proofs over the real-number instance NumR.
   Model: Pure/Transforms.v (bounded, impose_bounds, impose_bounds_dict, clip_nearest, clipo, new_value, draw_in). *)
From Coq Require Import ZArith List Bool Arith Lia Permutation Sorting Reals Lra.
From MV Require Import Common.Num Common.Order Common.NumR Pure.Transforms.
Import ListNotations.

(* ------------------------------------------------------------------ specification predicates *)
Definition nonempty (b : interval NumR) : Prop :=
  match b with (Some l, Some h) => (l <= h)%R | _ => True end.
Definition is_end (bs : list (interval NumR)) (v : R) : Prop :=
  exists b, In b bs /\ (fst b = Some v \/ snd b = Some v).
Definition bsel (idx : index) (p : nat) : Prop :=
  match as_tuple idx with None => True | Some l => In (Z.of_nat p) l end.

(* ------------------------------------------------------------------ list surgery helpers *)
Section BndLists.
  Context {A : Type}.

  Lemma bnd_set_nth_length (l : list A) i v : length (set_nth l i v) = length l.
  Proof. revert i; induction l; intros [|i]; simpl; auto. Qed.

  Lemma bnd_nth_set_nth_same (l : list A) i v d : i < length l -> nth i (set_nth l i v) d = v.
  Proof. revert i; induction l; intros [|i]; simpl; intros; try lia; auto. apply IHl; lia. Qed.

  Lemma bnd_nth_set_nth_other (l : list A) i p v d : p <> i -> nth p (set_nth l i v) d = nth p l d.
  Proof.
    revert i p; induction l; intros [|i] [|p]; simpl; intros; try congruence; auto.
  Qed.

  Lemma bnd_scatter_length (ps : list nat) : forall (x vs : list A), length (scatter x ps vs) = length x.
  Proof.
    induction ps; intros x [|v vs]; simpl; auto. rewrite IHps. apply bnd_set_nth_length.
  Qed.

  Lemma bnd_scatter_other (ps : list nat) : forall (x vs : list A) p d,
    ~ In p ps -> nth p (scatter x ps vs) d = nth p x d.
  Proof.
    induction ps; intros x [|v vs] p d H; simpl; auto.
    rewrite IHps by (intro; apply H; right; auto).
    apply bnd_nth_set_nth_other. intro; apply H; left; auto.
  Qed.

  Lemma bnd_scatter_at (ps : list nat) : forall (x vs : list A) k d,
    NoDup ps -> (forall p, In p ps -> p < length x) -> length vs = length ps -> k < length ps ->
    nth (nth k ps 0) (scatter x ps vs) d = nth k vs d.
  Proof.
    induction ps; intros x vs k d ND Hlt Hlen Hk; simpl in *; [lia|].
    destruct vs as [|v vs]; simpl in *; [lia|].
    inversion ND; subst.
    destruct k.
    - rewrite bnd_scatter_other by auto. apply bnd_nth_set_nth_same. auto.
    - apply IHps; auto; try lia.
      intros p Hp. rewrite bnd_set_nth_length. auto.
  Qed.

  Lemma bnd_enum_length (l : list A) : forall i, length (enum_from i l) = length l.
  Proof. induction l; simpl; auto. Qed.

  Lemma bnd_enum_nth (l : list A) : forall i k dk dv, k < length l ->
    nth k (enum_from i l) (dk, dv) = (i + k, nth k l dv).
  Proof.
    induction l; intros i k dk dv Hk; simpl in *; [lia|].
    destruct k. - f_equal; lia.
    - rewrite IHl by lia. f_equal; lia.
  Qed.

  Lemma bnd_positions_In (f : A -> bool) (l : list A) : forall i p d,
    In p (positions_where f i l) <-> exists j, p = i + j /\ j < length l /\ f (nth j l d) = true.
  Proof.
    induction l; intros i p d; simpl.
    - split; [tauto|]. intros (j & _ & H & _); lia.
    - destruct (f a) eqn:Fa; simpl; rewrite (IHl (S i) p d); split.
      + intros [H | (j & H1 & H2 & H3)].
        * exists 0; repeat split; auto; lia.
        * exists (S j); repeat split; auto; lia.
      + intros (j & H1 & H2 & H3). destruct j; [left; lia|right].
        exists j; repeat split; auto; lia.
      + intros (j & H1 & H2 & H3). exists (S j); repeat split; auto; lia.
      + intros (j & H1 & H2 & H3). destruct j; [simpl in H3; congruence|].
        exists j; repeat split; auto; lia.
  Qed.

  Lemma bnd_positions_NoDup (f : A -> bool) (l : list A) : forall i, NoDup (positions_where f i l).
  Proof.
    induction l; intros i; simpl; [constructor|].
    destruct (f a); auto. constructor; auto.
    intro H. destruct l as [|b l']; [simpl in H; tauto|].
    apply (bnd_positions_In f (b :: l') (S i) i b) in H. destruct H as (j & H & _); lia.
  Qed.
End BndLists.

Lemma bnd_memZ_In z l : memZ z l = true <-> In z l.
Proof.
  unfold memZ. rewrite existsb_exists. split.
  - intros (y & Hy & E). apply Z.eqb_eq in E; subst; auto.
  - intros H; exists z; split; auto. apply Z.eqb_refl.
Qed.

(* ------------------------------------------------------------------ pointwise characterisation of [bounded] *)
Notation iv := (interval NumR).
Notation inR := (in_any NumR).

Lemma bnd_bounded_struct mode (bs : list iv) idx st (x : list R) :
  bs <> [] ->
  exists at_,
    NoDup at_ /\
    (forall p, In p at_ <-> p < length x /\ inR bs (nth p x 0%R) = false /\ bsel idx p) /\
    (at_ = [] -> bounded NumR mode bs idx st x = (x, st)) /\
    fst (bounded NumR mode bs idx st x) =
      scatter x at_ (map (fun kp => new_value NumR mode bs (length at_) (fst kp) st (nth (snd kp) x 0%R))
                         (enum_from 0 at_)) /\
    snd (bounded NumR mode bs idx st x) =
      match at_ with [] => st | _ => consume NumR mode (length bs) (length at_) st end.
Proof.
  intros Hbs. destruct bs as [|b0 bs']; [congruence|]. clear Hbs.
  set (bs := b0 :: bs') in *.
  set (out := positions_where (fun v => negb (inR bs v)) 0 x).
  set (at_ := match as_tuple idx with None => out | Some l => filter (fun p => memZ (Z.of_nat p) l) out end).
  exists at_.
  assert (Hout : forall p, In p out <-> p < length x /\ inR bs (nth p x 0%R) = false).
  { intros p. unfold out. rewrite (bnd_positions_In _ x 0 p 0%R). split.
    - intros (j & -> & H1 & H2). simpl. apply negb_true_iff in H2. auto.
    - intros (H1 & H2). exists p; repeat split; auto. apply negb_true_iff; auto. }
  split; [|split; [|split; [|split]]].
  - unfold at_. destruct (as_tuple idx); [apply NoDup_filter|]; apply bnd_positions_NoDup.
  - intros p. unfold at_, bsel. destruct (as_tuple idx).
    + rewrite filter_In, Hout, bnd_memZ_In. tauto.
    + rewrite Hout. tauto.
  - intros E. unfold bounded. fold bs. unfold bs at 1. fold out. fold at_. rewrite E. reflexivity.
  - unfold bounded. fold bs. unfold bs at 1. fold out. fold at_.
    destruct at_; reflexivity.
  - unfold bounded. fold bs. unfold bs at 1. fold out. fold at_.
    destruct at_; reflexivity.
Qed.

(* the usable form: length, values at selected offending positions, everything else untouched *)
Lemma bnd_bounded_spec mode (bs : list iv) idx st (x : list R) :
  bs <> [] ->
  exists at_,
    NoDup at_ /\
    (forall p, In p at_ <-> p < length x /\ inR bs (nth p x 0%R) = false /\ bsel idx p) /\
    (at_ = [] -> bounded NumR mode bs idx st x = (x, st)) /\
    length (fst (bounded NumR mode bs idx st x)) = length x /\
    (forall k d, k < length at_ ->
       nth (nth k at_ 0) (fst (bounded NumR mode bs idx st x)) d =
       new_value NumR mode bs (length at_) k st (nth (nth k at_ 0) x 0%R)) /\
    (forall p d, ~ In p at_ -> nth p (fst (bounded NumR mode bs idx st x)) d = nth p x d) /\
    length at_ <= length x.
Proof.
  intros Hbs. destruct (bnd_bounded_struct mode bs idx st x Hbs) as (at_ & ND & Hin & Hnil & Hfst & _).
  exists at_. split; auto. split; auto. split; auto.
  rewrite Hfst. split; [apply bnd_scatter_length|]. split; [|split].
  - intros k d Hk. rewrite bnd_scatter_at; auto.
    + rewrite (nth_indep _ d (new_value NumR mode bs (length at_) (fst (0, 0)) st (nth (snd (0, 0)) x 0%R)))
        by (rewrite map_length, bnd_enum_length; auto).
      rewrite (map_nth (fun kp => new_value NumR mode bs (length at_) (fst kp) st (nth (snd kp) x 0%R))).
      rewrite bnd_enum_nth by auto. reflexivity.
    + intros p Hp. apply Hin in Hp. tauto.
    + rewrite map_length, bnd_enum_length; auto.
  - intros p d Hp. apply bnd_scatter_other; auto.
  - rewrite <- (seq_length (length x) 0). apply NoDup_incl_length; auto.
    intros p Hp. apply in_seq. apply Hin in Hp. lia.
Qed.

(* ------------------------------------------------------------------ 1-3: length, unselected, conforming *)
Theorem bounded_length mode (bs : list iv) idx st (x : list R) :
  length (fst (bounded NumR mode bs idx st x)) = length x.
Proof.
  destruct bs as [|b bs']; [reflexivity|].
  destruct (bnd_bounded_spec mode (b :: bs') idx st x) as (at_ & _ & _ & _ & H & _); [discriminate|auto].
Qed.

Theorem bounded_unselected mode (bs : list iv) idx st (x : list R) p d :
  p < length x -> ~ bsel idx p ->
  nth p (fst (bounded NumR mode bs idx st x)) d = nth p x d.
Proof.
  intros Hp Hs. destruct bs as [|b bs']; [reflexivity|].
  destruct (bnd_bounded_spec mode (b :: bs') idx st x) as (at_ & _ & Hin & _ & _ & _ & H & _); [discriminate|].
  apply H. intro Hi. apply Hin in Hi. tauto.
Qed.

Theorem bounded_conforming mode (bs : list iv) idx st (x : list R) p d :
  p < length x -> inR bs (nth p x d) = true ->
  nth p (fst (bounded NumR mode bs idx st x)) d = nth p x d.
Proof.
  intros Hp Hs. destruct bs as [|b bs']; [reflexivity|].
  destruct (bnd_bounded_spec mode (b :: bs') idx st x) as (at_ & _ & Hin & _ & _ & _ & H & _); [discriminate|].
  apply H. intro Hi. apply Hin in Hi. rewrite (nth_indep _ _ d) in Hi by auto. destruct Hi as (_ & Hi & _). congruence.
Qed.

(* nothing selected is outside: the call is the identity and consumes no draws *)
Lemma bounded_noop mode (bs : list iv) idx st (x : list R) :
  (forall p, p < length x -> bsel idx p -> inR bs (nth p x 0%R) = true) ->
  bounded NumR mode bs idx st x = (x, st).
Proof.
  intros H. destruct bs as [|b bs']; [reflexivity|].
  destruct (bnd_bounded_spec mode (b :: bs') idx st x) as (at_ & _ & Hin & Hnil & _); [discriminate|].
  apply Hnil. destruct at_ as [|a r]; auto.
  destruct (Hin a) as [Ha _]. destruct Ha as (H1 & H2 & H3); [left; auto|].
  rewrite H in H2; auto. discriminate.
Qed.

Corollary bounded_all_conforming mode (bs : list iv) idx st (x : list R) :
  Forall (fun v => inR bs v = true) x ->
  bounded NumR mode bs idx st x = (x, st).
Proof.
  intros H. apply bounded_noop. intros p Hp _. rewrite Forall_forall in H. apply H. apply nth_In; auto.
Qed.

(* ------------------------------------------------------------------ olt on option R: a strict weak order with None on top *)
Notation oltR := (olt NumR).

Lemma bnd_olt_SS a b : oltR (Some a) (Some b) = true <-> (a < b)%R.
Proof. cbn. apply Rltb_true. Qed.
Lemma bnd_olt_SS_false a b : oltR (Some a) (Some b) = false <-> (b <= a)%R.
Proof. cbn. apply Rltb_false. Qed.

Lemma bnd_olt_trans a b c : oltR a b = true -> oltR b c = true -> oltR a c = true.
Proof.
  destruct a, b, c; cbn; auto; try discriminate.
  rewrite !Rltb_true. lra.
Qed.
Lemma bnd_olt_asym a b : oltR a b = true -> oltR b a = false.
Proof.
  destruct a, b; cbn; auto; try discriminate.
  rewrite Rltb_true, Rltb_false. lra.
Qed.
Lemma bnd_olt_negtrans a b c : oltR a c = true -> oltR a b = true \/ oltR b c = true.
Proof.
  destruct a, b, c; cbn; auto; try discriminate.
  rewrite !Rltb_true. intros. destruct (Rlt_dec t t0); [left|right]; lra.
Qed.

Lemma bnd_argmin_from_spec (l : list (option R)) : forall best bi i, bi < i ->
  let r := argmin_from NumR best bi i l in
  (r = bi /\ forall j, j < length l -> oltR (nth j l None) best = false) \/
  (i <= r < i + length l /\
   oltR (nth (r - i) l None) best = true /\
   (forall j, j < length l -> oltR (nth j l None) (nth (r - i) l None) = false) /\
   (forall j, j < r - i -> oltR (nth (r - i) l None) (nth j l None) = true)).
Proof.
  induction l as [|d l IH]; intros best bi i Hbi; simpl.
  - left; split; auto. intros; lia.
  - destruct (olt NumR d best) eqn:E.
    + right. destruct (IH d i (S i) ltac:(lia)) as [(Hr & Hall) | (Hr & Hv & Hall & Hpre)].
      * rewrite Hr. replace (i - i) with 0 by lia. split; [lia|]. split; auto. split.
        -- intros [|j] Hj; [destruct d; cbn; auto; apply Rltb_false; lra|]. apply Hall; lia.
        -- intros; lia.
      * set (r := argmin_from NumR d i (S i) l) in *.
        replace (r - i) with (S (r - S i)) by lia. cbn [nth]. split; [lia|]. split; [|split].
        -- eapply bnd_olt_trans; eauto.
        -- intros [|j] Hj; [apply bnd_olt_asym; auto|]. apply Hall; lia.
        -- intros [|j] Hj; auto. apply Hpre; lia.
    + destruct (IH best bi (S i) ltac:(lia)) as [(Hr & Hall) | (Hr & Hv & Hall & Hpre)].
      * left; split; auto. intros [|j] Hj; auto. apply Hall; lia.
      * right. set (r := argmin_from NumR best bi (S i) l) in *.
        replace (r - i) with (S (r - S i)) by lia. cbn [nth]. split; [lia|]. split; auto. split.
        -- intros [|j] Hj; [|apply Hall; lia].
           destruct (olt NumR d (nth (r - S i) l None)) eqn:E2; auto.
           rewrite (bnd_olt_trans _ _ _ E2 Hv) in E. discriminate.
        -- intros [|j] Hj; [|apply Hpre; lia].
           destruct (bnd_olt_negtrans _ d _ Hv) as [H|H]; auto. congruence.
Qed.

(* numpy argmin: a valid position, nothing is smaller, everything before it is strictly larger *)
Lemma bnd_argmin_spec (l : list (option R)) : l <> [] ->
  argmin NumR l < length l /\
  (forall i, i < length l -> oltR (nth i l None) (nth (argmin NumR l) l None) = false) /\
  (forall i, i < argmin NumR l -> oltR (nth (argmin NumR l) l None) (nth i l None) = true).
Proof.
  destruct l as [|d l]; [congruence|]. intros _. unfold argmin.
  destruct (bnd_argmin_from_spec l d 0 1 ltac:(lia)) as [(Hr & Hall) | (Hr & Hv & Hall & Hpre)].
  - rewrite Hr. simpl. split; [lia|]. split; [|intros; lia].
    intros [|j] Hj; [destruct d; cbn; auto; apply Rltb_false; lra|]. apply Hall; simpl in Hj; lia.
  - set (r := argmin_from NumR d 0 1 l) in *. simpl length.
    destruct r as [|r]; [lia|]. replace (S r - 1) with r in * by lia. cbn [nth].
    split; [lia|]. split.
    + intros [|j] Hj; [apply bnd_olt_asym; auto|]. apply Hall; lia.
    + intros [|j] Hj; auto. apply Hpre; lia.
Qed.

(* ------------------------------------------------------------------ 4: clip_nearest lands in the target set *)
Ltac bnd_hyp :=
  repeat match goal with
  | H : (_ && _) = false |- _ => apply andb_false_iff in H; destruct H as [H|H]
  | H : Rltb _ _ = true |- _ => apply Rltb_true in H
  | H : Rltb _ _ = false |- _ => apply Rltb_false in H
  | H : Rleb _ _ = true |- _ => apply Rleb_true in H
  | H : Rleb _ _ = false |- _ => apply Rleb_false in H
  | H : true = false |- _ => discriminate H
  | H : false = true |- _ => discriminate H
  end.

Ltac bnd_goal_lt :=
  repeat match goal with
  | |- context [Rltb ?a ?b] =>
      is_var a; is_var b;
      let E := fresh "E" in destruct (Rltb a b) eqn:E; [apply Rltb_true in E | apply Rltb_false in E]
  end.

Ltac bnd_inb :=
  unfold Rleb;
  repeat match goal with |- context [Rle_dec ?a ?b] => destruct (Rle_dec a b); [|exfalso; lra] end;
  reflexivity.

Ltac bnd_abs :=
  unfold Rabs in *;
  repeat match goal with
  | H : context [Rcase_abs ?a] |- _ => destruct (Rcase_abs a)
  end.

Ltac bnd_core_case :=
  unfold inb, clipo, olt, dist in *; cbn in *; bnd_hyp; bnd_goal_lt;
  first [ left; split; [idtac | reflexivity]; bnd_inb
        | right; split; [idtac | reflexivity]; bnd_inb
        | exfalso; try lra; bnd_abs; lra ].

Lemma bnd_clip_core (bp bq : iv) (v : R) :
  nonempty bp -> nonempty bq -> inb NumR v bp = false -> inb NumR v bq = false ->
  oltR (dist NumR v (fst bq)) (dist NumR v (fst bp)) = false ->
  oltR (dist NumR v (snd bp)) (dist NumR v (snd bq)) = false ->
  (bp = bq \/ oltR (dist NumR v (fst bp)) (dist NumR v (fst bq)) = true
           \/ oltR (dist NumR v (snd bq)) (dist NumR v (snd bp)) = true) ->
  let r := clipo NumR v (fst bp) (snd bq) in
  (inb NumR r bp = true /\ fst bp = Some r) \/ (inb NumR r bq = true /\ snd bq = Some r).
Proof.
  intros Np Nq Op Oq H1 H2 H3.
  destruct H3 as [E | [H3 | H3]].
  - subst bq. clear H1 H2. destruct bp as [[a|] [b|]]; bnd_core_case.
  - destruct bp as [[a|] [b|]], bq as [[e|] [c|]]; bnd_core_case.
  - destruct bp as [[a|] [b|]], bq as [[e|] [c|]]; bnd_core_case.
Qed.

Lemma bnd_nth_fst (bs : list iv) : forall i, nth i (map fst bs) None = fst (nth i bs (None, None)).
Proof. induction bs; destruct i; simpl; auto. Qed.
Lemma bnd_nth_snd (bs : list iv) : forall i, nth i (map snd bs) None = snd (nth i bs (None, None)).
Proof. induction bs; destruct i; simpl; auto. Qed.
Lemma bnd_nth_dist (v : R) (l : list (option R)) : forall i,
  nth i (map (dist NumR v) l) None = dist NumR v (nth i l None).
Proof. induction l; destruct i; simpl; auto. Qed.

Lemma bnd_in_any_false (bs : list iv) v b : inR bs v = false -> In b bs -> inb NumR v b = false.
Proof.
  unfold in_any. intros H Hb. destruct (inb NumR v b) eqn:E; auto.
  assert (existsb (inb NumR v) bs = true) by (apply existsb_exists; eauto). congruence.
Qed.
Lemma bnd_in_any_true (bs : list iv) v b : In b bs -> inb NumR v b = true -> inR bs v = true.
Proof. intros. apply existsb_exists; eauto. Qed.

Theorem clip_nearest_in_target (bs : list iv) (v : R) :
  bs <> [] -> Forall nonempty bs -> inR bs v = false ->
  inR bs (clip_nearest NumR bs v) = true /\ is_end bs (clip_nearest NumR bs v).
Proof.
  intros Hne Hall Hout. unfold clip_nearest.
  set (los := map fst bs). set (his := map snd bs).
  set (p := argmin NumR (map (dist NumR v) los)). set (q := argmin NumR (map (dist NumR v) his)).
  assert (Hl : length bs > 0) by (destruct bs; simpl; [congruence|lia]).
  destruct (bnd_argmin_spec (map (dist NumR v) los)) as (Hp & HpA & HpB).
  { unfold los. destruct bs; simpl; congruence. }
  destruct (bnd_argmin_spec (map (dist NumR v) his)) as (Hq & HqA & HqB).
  { unfold his. destruct bs; simpl; congruence. }
  fold p in Hp, HpA, HpB. fold q in Hq, HqA, HqB.
  unfold los in Hp, HpA; unfold his in Hq, HqA; rewrite !map_length in *.
  set (bp := nth p bs (None, None)). set (bq := nth q bs (None, None)).
  assert (Ibp : In bp bs) by (apply nth_In; auto).
  assert (Ibq : In bq bs) by (apply nth_In; auto).
  rewrite Forall_forall in Hall.
  assert (C := bnd_clip_core bp bq v (Hall _ Ibp) (Hall _ Ibq)
                 (bnd_in_any_false _ _ _ Hout Ibp) (bnd_in_any_false _ _ _ Hout Ibq)).
  unfold los, his. rewrite bnd_nth_fst, bnd_nth_snd. fold bp bq.
  destruct C as [(C1 & C2) | (C1 & C2)].
  - specialize (HpA q Hq). rewrite !bnd_nth_dist in HpA. unfold los in HpA. rewrite !bnd_nth_fst in HpA. exact HpA.
  - specialize (HqA p Hp). rewrite !bnd_nth_dist in HqA. unfold his in HqA. rewrite !bnd_nth_snd in HqA. exact HqA.
  - destruct (lt_eq_lt_dec p q) as [[Hlt | Heq] | Hgt].
    + right; right. specialize (HqB p Hlt). rewrite !bnd_nth_dist in HqB. unfold his in HqB.
      rewrite !bnd_nth_snd in HqB. exact HqB.
    + left. unfold bp, bq. rewrite Heq. reflexivity.
    + right; left. specialize (HpB q Hgt). rewrite !bnd_nth_dist in HpB. unfold los in HpB.
      rewrite !bnd_nth_fst in HpB. exact HpB.
  - split; [apply (bnd_in_any_true bs _ bp); auto|]. unfold is_end. exists bp. split; auto.
  - split; [apply (bnd_in_any_true bs _ bq); auto|]. unfold is_end. exists bq. split; auto.
Qed.

(* ------------------------------------------------------------------ pointwise view of [bounded] *)
Lemma bnd_bounded_pointwise mode (bs : list iv) idx st (x : list R) p d :
  bs <> [] -> p < length x -> inR bs (nth p x d) = false -> bsel idx p ->
  exists m k, k < m /\ m <= length x /\
    nth p (fst (bounded NumR mode bs idx st x)) d = new_value NumR mode bs m k st (nth p x d).
Proof.
  intros Hbs Hp Ho Hs.
  destruct (bnd_bounded_spec mode bs idx st x Hbs) as (at_ & _ & Hin & _ & _ & Hat & _ & Hm).
  assert (Hi : In p at_) by (apply Hin; rewrite (nth_indep _ _ d) by auto; auto).
  destruct (In_nth _ _ 0 Hi) as (k & Hk & E).
  exists (length at_), k. split; auto. split; auto.
  rewrite <- E at 1. rewrite Hat by auto. rewrite E. rewrite (nth_indep _ _ d) by auto. reflexivity.
Qed.

(* ------------------------------------------------------------------ 5: ClipNearest puts every selected entry into the target *)
Theorem bounded_clip_in_target (bs : list iv) idx st (x : list R) p d :
  bs <> [] -> Forall nonempty bs -> p < length x -> bsel idx p ->
  inR bs (nth p (fst (bounded NumR ClipNearest bs idx st x)) d) = true.
Proof.
  intros Hbs Hne Hp Hs. destruct (inR bs (nth p x d)) eqn:E.
  - rewrite bounded_conforming; auto.
  - destruct (bnd_bounded_pointwise ClipNearest bs idx st x p d Hbs Hp E Hs) as (m & k & _ & _ & ->).
    cbn. apply clip_nearest_in_target; auto.
Qed.

Theorem bounded_clip_moved_to_end (bs : list iv) idx st (x : list R) p d :
  bs <> [] -> Forall nonempty bs -> p < length x ->
  nth p (fst (bounded NumR ClipNearest bs idx st x)) d <> nth p x d ->
  is_end bs (nth p (fst (bounded NumR ClipNearest bs idx st x)) d).
Proof.
  intros Hbs Hne Hp Hd. destruct (inR bs (nth p x d)) eqn:E.
  - rewrite bounded_conforming in Hd; auto. congruence.
  - assert (Hs : bsel idx p).
    { unfold bsel. destruct (as_tuple idx) as [l|] eqn:El; auto.
      destruct (in_dec Z.eq_dec (Z.of_nat p) l); auto.
      exfalso. apply Hd. apply bounded_unselected; auto. unfold bsel; rewrite El; auto. }
    destruct (bnd_bounded_pointwise ClipNearest bs idx st x p d Hbs Hp E Hs) as (m & k & _ & _ & ->).
    cbn. apply clip_nearest_in_target; auto.
Qed.

(* ------------------------------------------------------------------ 6: ClipNearest is idempotent (whatever draws are passed) *)
Theorem bounded_clip_idempotent (bs : list iv) idx st st' (x : list R) :
  bs <> [] -> Forall nonempty bs ->
  bounded NumR ClipNearest bs idx st' (fst (bounded NumR ClipNearest bs idx st x)) =
  (fst (bounded NumR ClipNearest bs idx st x), st').
Proof.
  intros Hbs Hne. apply bounded_noop. intros p Hp Hs.
  rewrite bounded_length in Hp. apply bounded_clip_in_target; auto.
Qed.

(* ------------------------------------------------------------------ 7: a single finite interval: numpy.clip *)
Lemma bnd_clip_nearest_single lo hi v : clip_nearest NumR [(lo, hi)] v = clipo NumR v lo hi.
Proof. reflexivity. Qed.

Theorem bounded_single_is_clip (l h : R) idx st (x : list R) p d :
  (l <= h)%R -> p < length x -> bsel idx p ->
  nth p (fst (bounded NumR ClipNearest [(Some l, Some h)] idx st x)) d =
  (if Rlt_dec (nth p x d) l then l else if Rlt_dec h (nth p x d) then h else nth p x d).
Proof.
  intros Hlh Hp Hs. set (v := nth p x d).
  destruct (inR [(Some l, Some h)] v) eqn:E.
  - rewrite bounded_conforming; auto. fold v.
    unfold in_any, inb in E; cbn in E. rewrite orb_false_r in E. apply andb_true_iff in E. destruct E as [E1 E2].
    apply Rleb_true in E1, E2.
    destruct (Rlt_dec v l); [lra|]. destruct (Rlt_dec h v); [lra|]. reflexivity.
  - destruct (bnd_bounded_pointwise ClipNearest [(Some l, Some h)] idx st x p d ltac:(discriminate) Hp E Hs)
      as (m & k & _ & _ & ->). fold v.
    cbn [new_value]. rewrite bnd_clip_nearest_single. unfold clipo; cbn. unfold Rltb.
    destruct (Rlt_dec v l).
    + destruct (Rlt_dec h l); [lra|reflexivity].
    + destruct (Rlt_dec h v); reflexivity.
Qed.

(* a single interval with possibly infinite ends *)
Theorem bounded_single_general (lo hi : option R) idx st (x : list R) p d :
  p < length x -> bsel idx p ->
  nth p (fst (bounded NumR ClipNearest [(lo, hi)] idx st x)) d =
  (if inb NumR (nth p x d) (lo, hi) then nth p x d else clipo NumR (nth p x d) lo hi).
Proof.
  intros Hp Hs. set (v := nth p x d).
  assert (Ei : inR [(lo, hi)] v = inb NumR v (lo, hi)) by (unfold in_any; cbn; apply orb_false_r).
  destruct (inb NumR v (lo, hi)) eqn:E.
  - rewrite bounded_conforming; auto.
  - destruct (bnd_bounded_pointwise ClipNearest [(lo, hi)] idx st x p d ltac:(discriminate) Hp Ei Hs)
      as (m & k & _ & _ & ->). reflexivity.
Qed.

Corollary bounded_clip_idempotent_fst (bs : list iv) idx st (x : list R) :
  bs <> [] -> Forall nonempty bs ->
  fst (bounded NumR ClipNearest bs idx st (fst (bounded NumR ClipNearest bs idx st x))) =
  fst (bounded NumR ClipNearest bs idx st x).
Proof. intros. rewrite bounded_clip_idempotent; auto. Qed.

(* ------------------------------------------------------------------ 8: the random modes *)
Lemma bnd_clipo_in lo hi v : nonempty (lo, hi) -> inb NumR (clipo NumR v lo hi) (lo, hi) = true.
Proof.
  intros Hn. destruct lo as [l|], hi as [h|]; unfold inb, clipo; cbn in *; bnd_goal_lt; bnd_inb.
Qed.

Lemma bnd_pick_lt (bs : list iv) (pk : list nat) k :
  bs <> [] -> Forall (fun j => j < length bs) pk -> nth k pk 0 < length bs.
Proof.
  intros Hbs Hpk. destruct (lt_dec k (length pk)) as [Hk|Hk].
  - rewrite Forall_forall in Hpk. apply Hpk. apply nth_In; auto.
  - rewrite nth_overflow by lia. destruct bs; simpl; [congruence|lia].
Qed.

Theorem bounded_cliprandom_in_target (bs : list iv) idx st (x : list R) p d :
  bs <> [] -> Forall nonempty bs -> Forall (fun j => j < length bs) (picks NumR st) ->
  p < length x -> bsel idx p ->
  inR bs (nth p (fst (bounded NumR ClipRandom bs idx st x)) d) = true.
Proof.
  intros Hbs Hne Hpk Hp Hs. destruct (inR bs (nth p x d)) eqn:E.
  - rewrite bounded_conforming; auto.
  - destruct (bnd_bounded_pointwise ClipRandom bs idx st x p d Hbs Hp E Hs) as (m & k & _ & _ & ->).
    cbn [new_value]. cbv zeta.
    set (b := nth (nth k (picks NumR st) 0) bs (None, None)).
    assert (Ib : In b bs) by (apply nth_In; apply bnd_pick_lt; auto).
    apply (bnd_in_any_true bs _ b); auto.
    rewrite Forall_forall in Hne. specialize (Hne b Ib). destruct b as [lo hi]. apply bnd_clipo_in; auto.
Qed.

Definition finite_nonempty (b : iv) : Prop := exists l h, b = (Some l, Some h) /\ (l <= h)%R.

Lemma bnd_draw_in_range l h u x :
  (0 <= u <= 1)%R -> (l <= h)%R -> inb NumR (draw_in NumR (Some l, Some h) u x) (Some l, Some h) = true.
Proof.
  intros Hu Hlh. unfold inb, draw_in; cbn.
  assert (l <= u * (h - l) + l <= h)%R by nra. bnd_inb.
Qed.

Lemma bnd_draw_index K m n j k : j < K -> k < m -> m <= n -> j * m + k < K * n.
Proof. intros. nia. Qed.

Lemma bnd_draw_core (bs : list iv) (us : list R) j i v :
  Forall finite_nonempty bs -> Forall (fun u => 0 <= u <= 1)%R us ->
  j < length bs -> i < length us ->
  inR bs (draw_in NumR (nth j bs (None, None)) (nth i us v) v) = true.
Proof.
  intros Hfin Hu Hj Hi.
  set (b := nth j bs (None, None)).
  assert (Ib : In b bs) by (apply nth_In; auto).
  apply (bnd_in_any_true bs _ b); auto.
  rewrite Forall_forall in Hfin, Hu. destruct (Hfin b Ib) as (l & h & -> & Hlh).
  apply bnd_draw_in_range; auto. apply Hu. apply nth_In; auto.
Qed.

Theorem bounded_drawnearest_in_target (bs : list iv) idx st (x : list R) p d :
  bs <> [] -> Forall finite_nonempty bs ->
  Forall (fun u => 0 <= u <= 1)%R (unifs NumR st) -> length bs * length x <= length (unifs NumR st) ->
  p < length x -> bsel idx p ->
  inR bs (nth p (fst (bounded NumR DrawNearest bs idx st x)) d) = true.
Proof.
  intros Hbs Hfin Hu Hlen Hp Hs. destruct (inR bs (nth p x d)) eqn:E.
  - rewrite bounded_conforming; auto.
  - destruct (bnd_bounded_pointwise DrawNearest bs idx st x p d Hbs Hp E Hs) as (m & k & Hk & Hm & ->).
    cbn [new_value]. cbv zeta.
    set (j := argmin NumR _).
    assert (Hj : j < length bs).
    { unfold j. match goal with |- argmin NumR ?l < _ => destruct (bnd_argmin_spec l) as (H & _) end.
      - destruct bs; simpl; congruence.
      - rewrite map_length in H. exact H. }
    apply bnd_draw_core; auto.
    eapply Nat.lt_le_trans; [apply (bnd_draw_index (length bs) m (length x)); auto|auto].
Qed.

Theorem bounded_drawrandom_in_target (bs : list iv) idx st (x : list R) p d :
  bs <> [] -> Forall finite_nonempty bs -> Forall (fun j => j < length bs) (picks NumR st) ->
  Forall (fun u => 0 <= u <= 1)%R (unifs NumR st) -> length bs * length x <= length (unifs NumR st) ->
  p < length x -> bsel idx p ->
  inR bs (nth p (fst (bounded NumR DrawRandom bs idx st x)) d) = true.
Proof.
  intros Hbs Hfin Hpk Hu Hlen Hp Hs. destruct (inR bs (nth p x d)) eqn:E.
  - rewrite bounded_conforming; auto.
  - destruct (bnd_bounded_pointwise DrawRandom bs idx st x p d Hbs Hp E Hs) as (m & k & Hk & Hm & ->).
    cbn [new_value]. cbv zeta.
    assert (Hj : nth k (picks NumR st) 0 < length bs) by (apply bnd_pick_lt; auto).
    apply bnd_draw_core; auto.
    eapply Nat.lt_le_trans; [apply (bnd_draw_index (length bs) m (length x)); auto|auto].
Qed.

Theorem bounded_draw_in_target mode (bs : list iv) idx st (x : list R) p d :
  mode = DrawNearest \/ mode = DrawRandom ->
  bs <> [] -> Forall finite_nonempty bs -> Forall (fun j => j < length bs) (picks NumR st) ->
  Forall (fun u => 0 <= u <= 1)%R (unifs NumR st) -> length bs * length x <= length (unifs NumR st) ->
  p < length x -> bsel idx p ->
  inR bs (nth p (fst (bounded NumR mode bs idx st x)) d) = true.
Proof.
  intros [-> | ->]; intros.
  - apply bounded_drawnearest_in_target; auto.
  - apply bounded_drawrandom_in_target; auto.
Qed.

(* ------------------------------------------------------------------ 9: impose_bounds / impose_bounds_dict *)
Lemma bnd_existsb_Zeqb a l : existsb (Z.eqb a) l = true <-> In a l.
Proof.
  rewrite existsb_exists. split.
  - intros (y & Hy & E). apply Z.eqb_eq in E; subst; auto.
  - intros H; exists a; split; auto. apply Z.eqb_refl.
Qed.

Lemma bnd_dedup_In (l : list Z) : forall seen z,
  In z (dedup_by Z.eqb seen l) <-> In z l /\ ~ In z seen.
Proof.
  induction l as [|a l IH]; intros seen z; simpl; [tauto|].
  destruct (existsb (Z.eqb a) seen) eqn:E.
  - apply bnd_existsb_Zeqb in E. rewrite IH. split.
    + tauto.
    + intros [[->|H] Hn]; tauto.
  - assert (Ha : ~ In a seen) by (rewrite <- bnd_existsb_Zeqb; congruence).
    simpl. rewrite IH. simpl. split.
    + intros [->|[H Hn]]; intuition auto.
    + intros [[->|H] Hn]; [left; reflexivity|]. destruct (Z.eq_dec a z); [left; assumption|].
      right; split; auto. intros [?|?]; auto.
Qed.

Lemma bnd_dedupZ_In l z : In z (dedupZ l) <-> In z l.
Proof. unfold dedupZ. rewrite bnd_dedup_In. simpl. tauto. Qed.

Lemma bnd_dedup_NoDup (l : list Z) : forall seen, NoDup (dedup_by Z.eqb seen l).
Proof.
  induction l as [|a l IH]; intros seen; simpl; [constructor|].
  destruct (existsb (Z.eqb a) seen); auto. constructor; auto.
  rewrite bnd_dedup_In. simpl. tauto.
Qed.

Lemma bnd_dedupZ_NoDup l : NoDup (dedupZ l).
Proof. apply bnd_dedup_NoDup. Qed.

(* one [bounded] call per (key, interval list): the common shape of impose_bounds and impose_bounds_dict *)
Definition bnd_dfold (mode : bmode) (D : list (Z * list iv)) (acc : list R * draws NumR) : list R * draws NumR :=
  fold_left (fun acc kv => bounded NumR mode (snd kv) (IInt (fst kv)) (snd acc) (fst acc)) D acc.

Lemma bnd_dfold_cons mode kv D acc :
  bnd_dfold mode (kv :: D) acc =
  bnd_dfold mode D (bounded NumR mode (snd kv) (IInt (fst kv)) (snd acc) (fst acc)).
Proof. reflexivity. Qed.

Lemma bnd_impose_bounds_dfold mode (bs : list iv) idx st x :
  impose_bounds NumR mode bs idx st x =
  match as_tuple idx with
  | None => bounded NumR mode bs INone st x
  | Some l => bnd_dfold mode (map (fun i => (i, bs)) (dedupZ l)) (x, st)
  end.
Proof.
  unfold impose_bounds, bnd_dfold. destruct (as_tuple idx) as [l|]; auto.
  generalize (x, st). induction (dedupZ l) as [|i L IH]; intros acc; simpl; auto.
Qed.

Lemma bnd_impose_bounds_dict_dfold mode (D : list (Z * list iv)) idx st x :
  impose_bounds_dict NumR mode D idx st x =
  bnd_dfold mode (match as_tuple idx with None => D | Some l => filter (fun kv => memZ (fst kv) l) D end) (x, st).
Proof. reflexivity. Qed.

Lemma bnd_bsel_IInt i p : bsel (IInt i) p <-> Z.of_nat p = i.
Proof. unfold bsel; simpl. split; [intros [H|[]]; auto | intros ->; auto]. Qed.

Lemma bnd_dfold_length mode D : forall acc : list R * draws NumR, length (fst (bnd_dfold mode D acc)) = length (fst acc).
Proof.
  induction D as [|kv D IH]; intros acc; [reflexivity|].
  rewrite bnd_dfold_cons, IH. apply bounded_length.
Qed.

(* an entry survives every call whose key is not its position or whose target contains it *)
Lemma bnd_dfold_unchanged mode D p (d : R) : forall acc : list R * draws NumR,
  p < length (fst acc) ->
  (forall kv, In kv D -> fst kv = Z.of_nat p -> inR (snd kv) (nth p (fst acc) d) = true) ->
  nth p (fst (bnd_dfold mode D acc)) d = nth p (fst acc) d.
Proof.
  induction D as [|kv D IH]; intros acc Hp H; auto.
  rewrite bnd_dfold_cons.
  assert (E : nth p (fst (bounded NumR mode (snd kv) (IInt (fst kv)) (snd acc) (fst acc))) d = nth p (fst acc) d).
  { destruct (Z.eq_dec (fst kv) (Z.of_nat p)) as [Ek|Ek].
    - apply bounded_conforming; auto. apply H; simpl; auto.
    - apply bounded_unselected; auto. rewrite bnd_bsel_IInt. congruence. }
  rewrite IH.
  - exact E.
  - rewrite bounded_length; auto.
  - intros kv' Hin Hk. pose proof (H kv' (or_intror Hin) Hk) as H'. rewrite <- E in H'. exact H'.
Qed.

Lemma bnd_dfold_clip_in_target D p bsk (d : R) : forall acc : list R * draws NumR,
  NoDup (map fst D) -> In (Z.of_nat p, bsk) D -> bsk <> [] -> Forall nonempty bsk ->
  p < length (fst acc) ->
  inR bsk (nth p (fst (bnd_dfold ClipNearest D acc)) d) = true.
Proof.
  induction D as [|kv D IH]; intros acc ND Hin Hne Hall Hp; [destruct Hin|].
  simpl in ND. inversion ND as [|? ? Hnk ND']; subst.
  rewrite bnd_dfold_cons. destruct Hin as [-> | Hin].
  - simpl. rewrite bnd_dfold_unchanged.
    + apply bounded_clip_in_target; auto. apply bnd_bsel_IInt; auto.
    + rewrite bounded_length; auto.
    + intros kv' Hin' Hk. exfalso. apply Hnk. simpl. rewrite <- Hk. apply in_map; auto.
  - apply IH; auto. rewrite bounded_length; auto.
Qed.

Lemma bnd_dfold_noop mode D y : forall st,
  (forall kv p, In kv D -> p < length y -> Z.of_nat p = fst kv -> inR (snd kv) (nth p y 0%R) = true) ->
  bnd_dfold mode D (y, st) = (y, st).
Proof.
  induction D as [|kv D IH]; intros st H; auto.
  rewrite bnd_dfold_cons. simpl fst; simpl snd. rewrite bounded_noop.
  - apply IH. intros; apply H; simpl; auto.
  - intros p Hp Hs. apply bnd_bsel_IInt in Hs. apply (H kv p); simpl; auto.
Qed.

Lemma bnd_dfold_clip_idempotent D acc st' :
  NoDup (map fst D) -> Forall (fun kv => snd kv <> [] /\ Forall nonempty (snd kv)) D ->
  bnd_dfold ClipNearest D (fst (bnd_dfold ClipNearest D acc), st') = (fst (bnd_dfold ClipNearest D acc), st').
Proof.
  intros ND HD. apply bnd_dfold_noop. intros [k bsk] p Hin Hp Hk. simpl in *. subst k.
  rewrite bnd_dfold_length in Hp. rewrite Forall_forall in HD. destruct (HD _ Hin) as [H1 H2].
  apply bnd_dfold_clip_in_target; auto.
Qed.

(* ---------------- impose_bounds (one list of intervals for every selected position) *)
Theorem impose_bounds_length mode (bs : list iv) idx st (x : list R) :
  length (fst (impose_bounds NumR mode bs idx st x)) = length x.
Proof.
  rewrite bnd_impose_bounds_dfold. destruct (as_tuple idx).
  - rewrite bnd_dfold_length; auto.
  - apply bounded_length.
Qed.

Theorem impose_bounds_unselected mode (bs : list iv) idx st (x : list R) p d :
  p < length x -> ~ bsel idx p ->
  nth p (fst (impose_bounds NumR mode bs idx st x)) d = nth p x d.
Proof.
  intros Hp Hs. rewrite bnd_impose_bounds_dfold. unfold bsel in Hs. destruct (as_tuple idx) as [l|]; [|tauto].
  rewrite bnd_dfold_unchanged; auto.
  intros kv Hin Hk. exfalso. apply Hs. apply in_map_iff in Hin. destruct Hin as (i & <- & Hi).
  simpl in Hk. subst i. apply bnd_dedupZ_In; auto.
Qed.

Theorem impose_bounds_conforming mode (bs : list iv) idx st (x : list R) p d :
  p < length x -> inR bs (nth p x d) = true ->
  nth p (fst (impose_bounds NumR mode bs idx st x)) d = nth p x d.
Proof.
  intros Hp Hc. rewrite bnd_impose_bounds_dfold. destruct (as_tuple idx) as [l|].
  - rewrite bnd_dfold_unchanged; auto.
    intros kv Hin _. apply in_map_iff in Hin. destruct Hin as (i & <- & Hi). auto.
  - apply bounded_conforming; auto.
Qed.

Lemma bnd_keys_NoDup (bs : list iv) l : NoDup (map fst (map (fun i : Z => (i, bs)) (dedupZ l))).
Proof. rewrite map_map. simpl. rewrite map_id. apply bnd_dedupZ_NoDup. Qed.

Theorem impose_bounds_clip_in_target (bs : list iv) idx st (x : list R) p d :
  bs <> [] -> Forall nonempty bs -> p < length x -> bsel idx p ->
  inR bs (nth p (fst (impose_bounds NumR ClipNearest bs idx st x)) d) = true.
Proof.
  intros Hbs Hne Hp Hs. rewrite bnd_impose_bounds_dfold. unfold bsel in Hs. destruct (as_tuple idx) as [l|].
  - apply bnd_dfold_clip_in_target; auto.
    + apply bnd_keys_NoDup.
    + apply in_map_iff. exists (Z.of_nat p). split; auto. apply bnd_dedupZ_In; auto.
  - apply bounded_clip_in_target; auto.
Qed.

Theorem impose_bounds_clip_idempotent (bs : list iv) idx st st' (x : list R) :
  bs <> [] -> Forall nonempty bs ->
  impose_bounds NumR ClipNearest bs idx st' (fst (impose_bounds NumR ClipNearest bs idx st x)) =
  (fst (impose_bounds NumR ClipNearest bs idx st x), st').
Proof.
  intros Hbs Hne. rewrite !bnd_impose_bounds_dfold. destruct (as_tuple idx) as [l|].
  - apply bnd_dfold_clip_idempotent. + apply bnd_keys_NoDup.
    + apply Forall_forall. intros kv Hin. apply in_map_iff in Hin. destruct Hin as (i & <- & _). simpl; auto.
  - apply bounded_clip_idempotent; auto.
Qed.

Corollary impose_bounds_clip_idempotent_fst (bs : list iv) idx st (x : list R) :
  bs <> [] -> Forall nonempty bs ->
  fst (impose_bounds NumR ClipNearest bs idx st (fst (impose_bounds NumR ClipNearest bs idx st x))) =
  fst (impose_bounds NumR ClipNearest bs idx st x).
Proof. intros. rewrite impose_bounds_clip_idempotent; auto. Qed.

Corollary impose_bounds_all_conforming mode (bs : list iv) idx st (x : list R) :
  Forall (fun v => inR bs v = true) x -> impose_bounds NumR mode bs idx st x = (x, st).
Proof.
  intros H. rewrite bnd_impose_bounds_dfold. destruct (as_tuple idx) as [l|].
  - apply bnd_dfold_noop. intros kv p Hin Hp _. apply in_map_iff in Hin. destruct Hin as (i & <- & _). simpl.
    rewrite Forall_forall in H. apply H. apply nth_In; auto.
  - apply bounded_all_conforming; auto.
Qed.

(* ---------------- impose_bounds_dict (one interval list per key; [idx] filters the keys) *)
Definition bnd_dsel (D : list (Z * list iv)) (idx : index) : list (Z * list iv) :=
  match as_tuple idx with None => D | Some l => filter (fun kv => memZ (fst kv) l) D end.

Lemma bnd_dsel_In D idx k bsk : In (k, bsk) (bnd_dsel D idx) <->
  In (k, bsk) D /\ match as_tuple idx with None => True | Some l => In k l end.
Proof.
  unfold bnd_dsel. destruct (as_tuple idx) as [l|]; [|tauto].
  rewrite filter_In. simpl. rewrite bnd_memZ_In. tauto.
Qed.

Lemma bnd_filter_keys_NoDup (f : Z * list iv -> bool) D : NoDup (map fst D) -> NoDup (map fst (filter f D)).
Proof.
  induction D as [|kv D IH]; simpl; intros ND; auto. inversion ND; subst.
  destruct (f kv); simpl; auto. constructor; auto.
  intro Hin. apply in_map_iff in Hin. destruct Hin as (kv' & E & Hf). apply filter_In in Hf.
  apply H1. rewrite <- E. apply in_map; tauto.
Qed.

Lemma bnd_dsel_NoDup D idx : NoDup (map fst D) -> NoDup (map fst (bnd_dsel D idx)).
Proof. unfold bnd_dsel. destruct (as_tuple idx); auto. apply bnd_filter_keys_NoDup. Qed.

Theorem impose_bounds_dict_length mode (D : list (Z * list iv)) idx st (x : list R) :
  length (fst (impose_bounds_dict NumR mode D idx st x)) = length x.
Proof. rewrite bnd_impose_bounds_dict_dfold, bnd_dfold_length. reflexivity. Qed.

(* a position is left alone unless it is a key (kept by the index) whose target does not contain the entry *)
Theorem impose_bounds_dict_conforming mode (D : list (Z * list iv)) idx st (x : list R) p (d : R) :
  p < length x ->
  (forall bsk, In (Z.of_nat p, bsk) D -> bsel idx p -> inR bsk (nth p x d) = true) ->
  nth p (fst (impose_bounds_dict NumR mode D idx st x)) d = nth p x d.
Proof.
  intros Hp H. rewrite bnd_impose_bounds_dict_dfold. fold (bnd_dsel D idx).
  rewrite bnd_dfold_unchanged; auto.
  intros [k bsk] Hin Hk. simpl in *. subst k. apply bnd_dsel_In in Hin. destruct Hin as [Hin Hs].
  apply H; auto.
Qed.

Theorem impose_bounds_dict_other mode (D : list (Z * list iv)) idx st (x : list R) p (d : R) :
  p < length x -> ~ In (Z.of_nat p) (map fst D) \/ ~ bsel idx p ->
  nth p (fst (impose_bounds_dict NumR mode D idx st x)) d = nth p x d.
Proof.
  intros Hp H. apply impose_bounds_dict_conforming; auto.
  intros bsk Hin Hs. exfalso. destruct H as [H|H]; auto. apply H.
  change (Z.of_nat p) with (fst (Z.of_nat p, bsk)). apply in_map; auto.
Qed.

Theorem impose_bounds_dict_clip_in_target (D : list (Z * list iv)) idx st (x : list R) p bsk (d : R) :
  NoDup (map fst D) -> In (Z.of_nat p, bsk) D -> bsel idx p ->
  bsk <> [] -> Forall nonempty bsk -> p < length x ->
  inR bsk (nth p (fst (impose_bounds_dict NumR ClipNearest D idx st x)) d) = true.
Proof.
  intros ND Hin Hs Hne Hall Hp. rewrite bnd_impose_bounds_dict_dfold. fold (bnd_dsel D idx).
  apply bnd_dfold_clip_in_target; auto.
  - apply bnd_dsel_NoDup; auto.
  - apply bnd_dsel_In. split; auto.
Qed.

Theorem impose_bounds_dict_clip_idempotent (D : list (Z * list iv)) idx st st' (x : list R) :
  NoDup (map fst D) -> Forall (fun kv => snd kv <> [] /\ Forall nonempty (snd kv)) D ->
  impose_bounds_dict NumR ClipNearest D idx st' (fst (impose_bounds_dict NumR ClipNearest D idx st x)) =
  (fst (impose_bounds_dict NumR ClipNearest D idx st x), st').
Proof.
  intros ND HD. rewrite !bnd_impose_bounds_dict_dfold. fold (bnd_dsel D idx).
  apply bnd_dfold_clip_idempotent.
  - apply bnd_dsel_NoDup; auto.
  - rewrite Forall_forall in *. intros [k bsk] Hin. apply bnd_dsel_In in Hin. apply HD. tauto.
Qed.

(* ------------------------------------------------------------------ sharpness of the hypotheses / what is NOT guaranteed *)
Ltac bnd_eval_lt :=
  repeat match goal with
  | |- context [Rltb ?a ?b] =>
      first [ replace (Rltb a b) with true
                by (symmetry; apply Rltb_true; unfold Rabs; repeat destruct (Rcase_abs _); lra)
            | replace (Rltb a b) with false
                by (symmetry; apply Rltb_false; unfold Rabs; repeat destruct (Rcase_abs _); lra) ]
  end.

(* an empty interval (lo > hi) has an empty target: the clipped value cannot be inside *)
Lemma clip_nearest_in_target_needs_nonempty :
  exists (bs : list iv) (v : R), bs <> [] /\ inR bs v = false /\ inR bs (clip_nearest NumR bs v) = false.
Proof.
  exists [(Some 1%R, Some 0%R)], 2%R. split; [discriminate|].
  rewrite bnd_clip_nearest_single. unfold in_any, inb, clipo; cbn. bnd_eval_lt. cbn.
  unfold Rleb. repeat destruct (Rle_dec _ _); try lra; auto.
Qed.

(* the two ends are chosen independently, so the result need not be the nearest point of the target:
   with [0,1] and [10,11] the entry 28/5 (distance 22/5 from 10, 23/5 from 1) is sent to 1 *)
Lemma clip_nearest_not_nearest_point :
  let bs : list iv := [(Some 0%R, Some 1%R); (Some 10%R, Some 11%R)] in
  let v := (28 / 5)%R in
  clip_nearest NumR bs v = 1%R /\ inR bs 10%R = true /\ (Rabs (v - 10) < Rabs (v - 1))%R.
Proof.
  cbv zeta. split; [|split].
  - unfold clip_nearest, argmin, argmin_from, olt, dist, clipo; cbn. bnd_eval_lt. cbn. bnd_eval_lt. reflexivity.
  - unfold in_any, inb; cbn. unfold Rleb. repeat destruct (Rle_dec _ _); try lra; auto.
  - unfold Rabs; repeat destruct (Rcase_abs _); lra.
Qed.
