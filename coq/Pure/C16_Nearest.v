(* C16 -- nearest-member transforms: discrete (over the reals), integers / rounded (over Q).
   Part 0: the common index mask and masked pointwise maps.
   Part B: rounding on Q (round_half_even, integers, rounded).
   Part A: discrete over NumR (nearest sample, ties to the lower member). *)
From Coq Require Import ZArith List Bool Arith Lia Permutation Sorting.
From MV Require Import Common.Num Common.Order Pure.Transforms.
Import ListNotations.

(* ------------------------------------------------------------------ Part 0: masks *)
Definition msel (n : nat) (idx : index) (p : nat) : Prop :=
  match as_tuple idx with None => p < n | Some l => exists ps, norm_all n l = Some ps /\ In p ps end.

Lemma nr_nth_repeat {A} (a d : A) n p : p < n -> nth p (repeat a n) d = a.
Proof. revert p; induction n; intros p H; [lia|]. destruct p; cbn; auto. apply IHn; lia. Qed.

Lemma nr_mask_length n idx : length (np_mask n idx) = n.
Proof.
  unfold np_mask. destruct (as_tuple idx) as [l|]; [|apply repeat_length].
  destruct (norm_all n l); [|apply repeat_length].
  unfold mask_of. now rewrite map_length, seq_length.
Qed.

Lemma nr_mask_nth n idx p : p < n -> (nth p (np_mask n idx) false = true <-> msel n idx p).
Proof.
  intros H. unfold np_mask, msel. destruct (as_tuple idx) as [l|].
  - destruct (norm_all n l) as [ps|].
    + unfold mask_of.
      rewrite (nth_indep _ false (existsb (Nat.eqb 0) ps)) by (now rewrite map_length, seq_length).
      rewrite (map_nth (fun i => existsb (Nat.eqb i) ps) (seq 0 n) 0 p).
      rewrite seq_nth by auto. cbn [plus]. rewrite existsb_exists. split.
      * intros (q & Hin & Heq). apply Nat.eqb_eq in Heq. subst q. exists ps; auto.
      * intros (ps' & Heq & Hin). inversion Heq; subst ps'. exists p; split; auto. apply Nat.eqb_refl.
    + rewrite nr_nth_repeat by auto. split; [discriminate|]. intros (ps & Heq & _); discriminate.
  - rewrite nr_nth_repeat by auto. tauto.
Qed.

Lemma nr_msel_dec n idx p : p < n -> msel n idx p \/ ~ msel n idx p.
Proof.
  intros H. destruct (nth p (np_mask n idx) false) eqn:E.
  - left. now apply nr_mask_nth.
  - right. intros C. apply nr_mask_nth in C; auto. congruence.
Qed.

Section MaskedMap.
  Context {A : Type}.
  Variable g : A -> A.

  Lemma nr_select_len (m : list bool) (x : list A) :
    length m = length x -> length (select m x (map g x)) = length x.
  Proof.
    revert x; induction m as [|b m IH]; intros [|a x] H; cbn in *; try lia. f_equal. apply IH; lia.
  Qed.

  Lemma nr_select_nth_gen (m : list bool) (x : list A) p d :
    length m = length x -> p < length x ->
    nth p (select m x (map g x)) d = if nth p m false then g (nth p x d) else nth p x d.
  Proof.
    revert x p; induction m as [|b m IH]; intros [|a x] p H Hp; cbn in *; try lia.
    destruct p; [destruct b; reflexivity|]. apply IH; lia.
  Qed.

  Lemma nr_select_idem_gen (m : list bool) (x : list A) :
    (forall v, g (g v) = g v) -> length m = length x ->
    select m (select m x (map g x)) (map g (select m x (map g x))) = select m x (map g x).
  Proof.
    intros Hg. revert x; induction m as [|b m IH]; intros [|a x] H; cbn in *; try lia; auto.
    rewrite IH by lia. destruct b; [rewrite Hg|]; reflexivity.
  Qed.

  (* the masked pointwise map of the transforms *)
  Definition nr_mmap (idx : index) (x : list A) : list A := select (np_mask (length x) idx) x (map g x).

  Lemma nr_mmap_length idx x : length (nr_mmap idx x) = length x.
  Proof. apply nr_select_len, nr_mask_length. Qed.

  Lemma nr_mmap_nth idx x p d : p < length x ->
    nth p (nr_mmap idx x) d = if nth p (np_mask (length x) idx) false then g (nth p x d) else nth p x d.
  Proof. intros. apply nr_select_nth_gen; auto. apply nr_mask_length. Qed.

  Lemma nr_mmap_sel idx x p d : p < length x -> msel (length x) idx p -> nth p (nr_mmap idx x) d = g (nth p x d).
  Proof. intros Hp Hs. rewrite nr_mmap_nth by auto. apply nr_mask_nth in Hs; auto. now rewrite Hs. Qed.

  Lemma nr_mmap_unsel idx x p d : p < length x -> ~ msel (length x) idx p -> nth p (nr_mmap idx x) d = nth p x d.
  Proof.
    intros Hp Hs. rewrite nr_mmap_nth by auto. destruct (nth p (np_mask (length x) idx) false) eqn:E; auto.
    apply nr_mask_nth in E; auto. contradiction.
  Qed.

  Lemma nr_mmap_idem idx x : (forall v, g (g v) = g v) -> nr_mmap idx (nr_mmap idx x) = nr_mmap idx x.
  Proof.
    intros Hg. unfold nr_mmap at 1. fold (nr_mmap idx x). rewrite nr_mmap_length. unfold nr_mmap.
    apply nr_select_idem_gen; auto. apply nr_mask_length.
  Qed.

  Lemma nr_select_all_true (x : list A) : select (repeat true (length x)) x (map g x) = map g x.
  Proof. induction x; cbn; congruence. Qed.
End MaskedMap.

Lemma nr_select_same {A} (m : list bool) (x : list A) : length m = length x -> select m x x = x.
Proof. revert x; induction m as [|b m IH]; intros [|a x] H; cbn in *; try lia; auto. rewrite IH by lia. now destruct b. Qed.

(* ------------------------------------------------------------------ Part B: rounding on Q *)
From Coq Require Import QArith Qround Qabs Lqa.

Section Rounding.
Local Open Scope Q_scope.

Lemma rhe_comp q1 q2 : q1 == q2 -> round_half_even q1 = round_half_even q2.
Proof.
  intros H. unfold round_half_even. rewrite (Qfloor_comp _ _ H).
  assert (E : q1 - inject_Z (Qfloor q2) == q2 - inject_Z (Qfloor q2)) by (rewrite H; reflexivity).
  now rewrite (Qcompare_comp _ _ E _ _ (Qeq_refl (1#2))).
Qed.

Lemma nr_floor_bounds q : inject_Z (Qfloor q) <= q /\ q < inject_Z (Qfloor q) + 1.
Proof.
  split; [apply Qfloor_le|]. pose proof (Qlt_floor q) as H. rewrite inject_Z_plus in H. exact H.
Qed.

Lemma rhe_int z : round_half_even (inject_Z z) = z.
Proof.
  unfold round_half_even. rewrite Qfloor_Z.
  destruct (Qcompare_spec (inject_Z z - inject_Z z) (1#2)) as [H|H|H]; auto; exfalso; lra.
Qed.

Lemma rhe_nearest q : Qabs (inject_Z (round_half_even q) - q) <= 1#2.
Proof.
  destruct (nr_floor_bounds q) as [H1 H2]. apply Qabs_Qle_condition. unfold round_half_even.
  destruct (Qcompare_spec (q - inject_Z (Qfloor q)) (1#2)) as [H|H|H];
    [destruct (Z.even (Qfloor q))| |]; rewrite ?inject_Z_plus; change (inject_Z 1) with 1; lra.
Qed.

Lemma rhe_tie_even q : q - inject_Z (Qfloor q) == 1#2 -> Z.even (round_half_even q) = true.
Proof.
  intros H. unfold round_half_even. apply Qeq_alt in H. rewrite H.
  destruct (Z.even (Qfloor q)) eqn:E; auto.
  rewrite Z.add_1_r, Z.even_succ, <- Z.negb_even, E. reflexivity.
Qed.

Lemma rhe_idem q : round_half_even (inject_Z (round_half_even q)) = round_half_even q.
Proof. apply rhe_int. Qed.

Lemma qtrunc_int z : qtrunc (inject_Z z) = z.
Proof. unfold qtrunc. destruct (Qle_bool 0 (inject_Z z)); [apply Qfloor_Z|apply Qceiling_Z]. Qed.

(* -------- integers *)
Definition nr_rnd (q : Q) : Q := inject_Z (round_half_even q).
Definition nr_trunc (q : Q) : Q := inject_Z (qtrunc q).

Lemma nr_integers_false idx x : integers false idx x = nr_mmap nr_rnd idx x.
Proof. reflexivity. Qed.
Lemma nr_integers_true idx x : integers true idx x = map nr_trunc (nr_mmap nr_rnd idx x).
Proof. reflexivity. Qed.

Lemma integers_float_length idx x : length (integers false idx x) = length x.
Proof. apply nr_mmap_length. Qed.

Lemma integers_float_unselected idx x p d :
  (p < length x)%nat -> ~ msel (length x) idx p -> nth p (integers false idx x) d = nth p x d.
Proof. intros. rewrite nr_integers_false. now apply nr_mmap_unsel. Qed.

Lemma integers_float_in_target idx x p d :
  (p < length x)%nat -> msel (length x) idx p ->
  exists z, nth p (integers false idx x) d = inject_Z z /\ Qabs (inject_Z z - nth p x d) <= 1#2.
Proof.
  intros Hp Hs. rewrite nr_integers_false, nr_mmap_sel by auto.
  exists (round_half_even (nth p x d)). split; [reflexivity|apply rhe_nearest].
Qed.

Lemma integers_float_conforming idx x p d z :
  (p < length x)%nat -> nth p x d == inject_Z z -> nth p (integers false idx x) d == nth p x d.
Proof.
  intros Hp Hz. rewrite nr_integers_false, nr_mmap_nth by auto.
  destruct (nth p (np_mask (length x) idx) false); [|reflexivity].
  unfold nr_rnd. rewrite (rhe_comp _ _ Hz), rhe_int. symmetry; exact Hz.
Qed.

Lemma integers_float_idempotent idx x : integers false idx (integers false idx x) = integers false idx x.
Proof. rewrite !nr_integers_false. apply nr_mmap_idem. intros v. unfold nr_rnd. now rewrite rhe_int. Qed.

Definition nr_integral (q : Q) : Prop := exists z, q = inject_Z z.

Lemma nr_map_fix (h : Q -> Q) (l : list Q) :
  (forall z, h (inject_Z z) = inject_Z z) -> Forall nr_integral l -> map h l = l.
Proof. intros Hh H. induction H as [|q l [z ->] _ IH]; cbn; [reflexivity|]. now rewrite Hh, IH. Qed.

Lemma nr_rnd_fix z : nr_rnd (inject_Z z) = inject_Z z.
Proof. unfold nr_rnd. now rewrite rhe_int. Qed.
Lemma nr_trunc_fix z : nr_trunc (inject_Z z) = inject_Z z.
Proof. unfold nr_trunc. now rewrite qtrunc_int. Qed.

Lemma nr_integers_true_integral idx x : Forall nr_integral (integers true idx x).
Proof.
  rewrite nr_integers_true. apply Forall_forall. intros q Hq. apply in_map_iff in Hq.
  destruct Hq as (v & <- & _). now exists (qtrunc v).
Qed.

Lemma integers_int_length idx x : length (integers true idx x) = length x.
Proof. rewrite nr_integers_true, map_length. apply nr_mmap_length. Qed.

Lemma integers_int_all_integral idx x p d :
  (p < length x)%nat -> exists z, nth p (integers true idx x) d = inject_Z z.
Proof.
  intros Hp. pose proof (nr_integers_true_integral idx x) as H. rewrite Forall_forall in H.
  apply H, nth_In. now rewrite integers_int_length.
Qed.

Lemma integers_int_none_eq x : integers true INone x = integers false INone x.
Proof.
  rewrite nr_integers_true, nr_integers_false. unfold nr_mmap, np_mask; cbn [as_tuple].
  rewrite nr_select_all_true. apply nr_map_fix; [apply nr_trunc_fix|].
  apply Forall_forall. intros q Hq. apply in_map_iff in Hq. destruct Hq as (v & <- & _).
  now exists (round_half_even v).
Qed.

Lemma integers_int_unselected_refuted :
  exists idx x p, (p < length x)%nat /\ ~ msel (length x) idx p /\ ~ (nth p (integers true idx x) 0 == nth p x 0).
Proof.
  exists (ITuple [0%Z]), [1#2; 3#2], 1%nat. split; [cbn; lia|]. split.
  - intros (ps & Heq & Hin). cbn in Heq. inversion Heq; subst ps. cbn in Hin. intuition discriminate.
  - vm_compute. discriminate.
Qed.

Lemma nr_map_nth' (h : Q -> Q) (l : list Q) p d : (p < length l)%nat -> nth p (map h l) d = h (nth p l d).
Proof. intros H. rewrite (nth_indep _ d (h d)) by (now rewrite map_length). apply map_nth. Qed.

Lemma integers_int_unselected_partial idx x p d :
  (p < length x)%nat -> ~ msel (length x) idx p ->
  nth p (integers true idx x) d = inject_Z (qtrunc (nth p x d)).
Proof.
  intros Hp Hs. rewrite nr_integers_true, nr_map_nth' by (now rewrite nr_mmap_length).
  now rewrite nr_mmap_unsel by auto.
Qed.

Lemma integers_int_selected idx x p d :
  (p < length x)%nat -> msel (length x) idx p ->
  nth p (integers true idx x) d = inject_Z (round_half_even (nth p x d)).
Proof.
  intros Hp Hs. rewrite nr_integers_true, nr_map_nth' by (now rewrite nr_mmap_length).
  rewrite nr_mmap_sel by auto. apply nr_trunc_fix.
Qed.

Lemma integers_int_idempotent idx x : integers true idx (integers true idx x) = integers true idx x.
Proof.
  pose proof (nr_integers_true_integral idx x) as H. set (o := integers true idx x) in *.
  rewrite nr_integers_true. unfold nr_mmap.
  rewrite (nr_map_fix nr_rnd o nr_rnd_fix H), nr_select_same by apply nr_mask_length.
  apply nr_map_fix; [apply nr_trunc_fix|exact H].
Qed.

(* -------- rounded *)
Lemma pow10_pos d : 0 < pow10 d.
Proof.
  assert (P : forall p, 0 < inject_Z (10 ^ Zpos p)).
  { intros p. change 0 with (inject_Z 0). rewrite <- Zlt_Qlt. apply Z.pow_pos_nonneg; lia. }
  destruct d as [|p|p]; cbn [pow10]; [reflexivity|apply P|].
  apply Qlt_shift_div_l; [apply P|]. lra.
Qed.

Lemma nr_div_mul z P : 0 < P -> inject_Z z / P * P == inject_Z z.
Proof. intros H. field. intros C. rewrite C in H. lra. Qed.

Lemma nr_round_digits_idem d q : round_digits d (round_digits d q) = round_digits d q.
Proof.
  unfold round_digits. rewrite (rhe_comp _ _ (nr_div_mul _ _ (pow10_pos d))). now rewrite rhe_int.
Qed.

Lemma nr_rounded idx d x : rounded d idx x = nr_mmap (round_digits d) idx x.
Proof. reflexivity. Qed.

Lemma rounded_length d idx x : length (rounded d idx x) = length x.
Proof. apply nr_mmap_length. Qed.

Lemma rounded_unselected d idx x p d0 :
  (p < length x)%nat -> ~ msel (length x) idx p -> nth p (rounded d idx x) d0 = nth p x d0.
Proof. intros. rewrite nr_rounded. now apply nr_mmap_unsel. Qed.

Lemma nr_round_digits_near d q : Qabs (round_digits d q - q) <= (1#2) / pow10 d.
Proof.
  pose proof (pow10_pos d) as HP. set (P := pow10 d) in *. unfold round_digits. fold P.
  set (z := round_half_even (q * P)).
  assert (E : inject_Z z / P - q == (inject_Z z - q * P) / P).
  { field. intros C. rewrite C in HP. lra. }
  rewrite E. unfold Qdiv. rewrite Qabs_Qmult.
  assert (HI : 0 < / P) by (apply Qinv_lt_0_compat; exact HP).
  rewrite (Qabs_pos (/ P)) by lra.
  apply Qmult_le_compat_r; [apply rhe_nearest|lra].
Qed.

Lemma rounded_in_target d idx x p d0 :
  (p < length x)%nat -> msel (length x) idx p ->
  exists z, nth p (rounded d idx x) d0 = inject_Z z / pow10 d /\
            Qabs (nth p (rounded d idx x) d0 - nth p x d0) <= (1#2) / pow10 d.
Proof.
  intros Hp Hs. rewrite nr_rounded, nr_mmap_sel by auto.
  exists (round_half_even (nth p x d0 * pow10 d)). split; [reflexivity|apply nr_round_digits_near].
Qed.

Lemma rounded_conforming d idx x p d0 z :
  (p < length x)%nat -> nth p x d0 == inject_Z z / pow10 d -> nth p (rounded d idx x) d0 == nth p x d0.
Proof.
  intros Hp Hz. rewrite nr_rounded, nr_mmap_nth by auto.
  destruct (nth p (np_mask (length x) idx) false); [|reflexivity].
  unfold round_digits.
  assert (E : nth p x d0 * pow10 d == inject_Z z).
  { rewrite Hz. apply nr_div_mul, pow10_pos. }
  rewrite (rhe_comp _ _ E), rhe_int. symmetry; exact Hz.
Qed.

Lemma rounded_idempotent d idx x : rounded d idx (rounded d idx x) = rounded d idx x.
Proof. rewrite !nr_rounded. apply nr_mmap_idem. apply nr_round_digits_idem. Qed.

End Rounding.

(* ------------------------------------------------------------------ Part A: discrete over the reals *)
Local Close Scope Q_scope.
From Coq Require Import Reals Lra.
From MV Require Import Common.NumR.

Section Discrete.
Local Open Scope R_scope.

Lemma nr_insert_perm a l : Permutation (a :: l) (insert_by Rltb a l).
Proof.
  induction l as [|b r IH]; cbn; auto. destruct (Rltb b a); auto.
  eapply perm_trans; [apply perm_swap|]. apply perm_skip, IH.
Qed.

Lemma nr_sort_perm l : Permutation l (sort_by Rltb l).
Proof.
  induction l as [|a l IH]; cbn; auto.
  eapply perm_trans; [apply perm_skip, IH|apply nr_insert_perm].
Qed.

Lemma nr_insert_sorted a l : StronglySorted Rle l -> StronglySorted Rle (insert_by Rltb a l).
Proof.
  induction 1 as [|b r Hs IH Hf]; cbn; [constructor; constructor|].
  destruct (Rltb b a) eqn:E.
  - apply Rltb_true in E. constructor; auto.
    eapply Permutation_Forall; [apply nr_insert_perm|]. constructor; auto. lra.
  - apply Rltb_false in E. constructor; [constructor; auto|]. constructor; auto.
    eapply Forall_impl; [|exact Hf]. intros; cbn in *; lra.
Qed.

Lemma nr_sort_sorted l : StronglySorted Rle (sort_by Rltb l).
Proof. induction l as [|a l IH]; cbn; [constructor|]. now apply nr_insert_sorted. Qed.

Lemma nr_sorted_nth s d : StronglySorted Rle s ->
  forall i j, (i <= j < length s)%nat -> nth i s d <= nth j s d.
Proof.
  induction 1 as [|a r Hs IH Hf]; intros i j Hij; cbn in *; [lia|].
  destruct i, j; try lia; [lra| |apply IH; lia].
  rewrite Forall_forall in Hf. apply Hf, nth_In. lia.
Qed.

Definition nr_cnt (v : R) (s : list R) : nat := length (filter (fun sj => Rltb sj v) s).

Lemma nr_cnt_le v s : (nr_cnt v s <= length s)%nat.
Proof. unfold nr_cnt. induction s as [|a s IH]; cbn; auto. destruct (Rltb a v); cbn; lia. Qed.

Lemma nr_cnt_zero v s : Forall (fun e => v <= e) s -> nr_cnt v s = 0%nat.
Proof.
  unfold nr_cnt. induction 1 as [|a s Ha _ IH]; cbn; auto.
  apply Rltb_false in Ha. now rewrite Ha.
Qed.

Lemma nr_cnt_split v s d : StronglySorted Rle s ->
  (forall i, (i < nr_cnt v s)%nat -> nth i s d < v) /\
  (forall i, (nr_cnt v s <= i < length s)%nat -> v <= nth i s d).
Proof.
  induction 1 as [|a r Hs [IH1 IH2] Hf]; [split; intros i Hi; cbn in *; lia|].
  destruct (Rltb a v) eqn:E.
  - assert (Ec : nr_cnt v (a :: r) = S (nr_cnt v r)) by (unfold nr_cnt; cbn; now rewrite E).
    rewrite Ec. apply Rltb_true in E. split; intros [|i] Hi; cbn in *; try lia; auto.
    + apply IH1; lia.
    + apply IH2; lia.
  - apply Rltb_false in E.
    assert (Hall : Forall (fun e => v <= e) (a :: r)).
    { constructor; auto. eapply Forall_impl; [|exact Hf]. intros; cbn in *; lra. }
    rewrite (nr_cnt_zero _ _ Hall). split; intros i Hi; [lia|].
    rewrite Forall_forall in Hall. apply Hall, nth_In. lia.
Qed.

Ltac nr_abs := unfold Rabs in *; repeat match goal with
  | |- context[Rcase_abs ?x] => destruct (Rcase_abs x)
  | H : context[Rcase_abs ?x] |- _ => destruct (Rcase_abs x) end; lra.

(* the core of _argnear/_near on a sorted non-empty sample list *)
Lemma nr_near1_spec (s : list R) (d v : R) : StronglySorted Rle s -> s <> [] ->
  In (near1 NumR s d v) s /\
  forall e, In e s ->
    Rabs (near1 NumR s d v - v) <= Rabs (e - v) /\
    (Rabs (e - v) = Rabs (near1 NumR s d v - v) -> near1 NumR s d v <= e).
Proof.
  intros Hs Hne.
  assert (Hn : (0 < length s)%nat) by (destruct s; [congruence|cbn; lia]).
  destruct (nr_cnt_split v s d Hs) as [Hlo Hhi].
  pose proof (nr_cnt_le v s) as Hk.
  pose proof (nr_sorted_nth s d Hs) as Hmono.
  unfold near1, count_lt. cbn [ltb sub NumR T]. fold (nr_cnt v s).
  remember (nr_cnt v s) as k eqn:Ek. clear Ek.
  destruct (Nat.eqb_spec k (length s)) as [Hkn|Hkn].
  - (* everything is below v: the last member *)
    assert (Hr : (if Rltb (nth (Nat.pred k) s d - v) (v - nth (Nat.pred k) s d)
                  then nth (Nat.pred k) s d else nth (Nat.pred k) s d) = nth (Nat.pred k) s d)
      by (destruct (Rltb _ _); reflexivity).
    rewrite Hr. split; [apply nth_In; lia|].
    intros e He. destruct (In_nth _ _ d He) as (i & Hi & <-).
    pose proof (Hlo i ltac:(lia)). pose proof (Hlo (Nat.pred k) ltac:(lia)).
    pose proof (Hmono i (Nat.pred k) ltac:(lia)). split; [|intros Ht]; nr_abs.
  - destruct k as [|k']; cbn [Nat.pred].
    + (* nothing is below v: the first member *)
      assert (Hr : (if Rltb (nth 0 s d - v) (v - nth 0 s d) then nth 0 s d else nth 0 s d) = nth 0 s d)
        by (destruct (Rltb _ _); reflexivity).
      rewrite Hr. split; [apply nth_In; lia|].
      intros e He. destruct (In_nth _ _ d He) as (i & Hi & <-).
      pose proof (Hhi i ltac:(lia)). pose proof (Hhi 0%nat ltac:(lia)).
      pose proof (Hmono 0%nat i ltac:(lia)). split; [|intros Ht]; nr_abs.
    + (* lo < v <= hi *)
      pose proof (Hlo k' ltac:(lia)) as Hl. pose proof (Hhi (S k') ltac:(lia)) as Hh.
      assert (Hcase : forall e, In e s -> e <= nth k' s d \/ nth (S k') s d <= e).
      { intros e He. destruct (In_nth _ _ d He) as (i & Hi & <-).
        destruct (le_lt_dec (S k') i); [right|left]; apply Hmono; lia. }
      destruct (Rltb (nth (S k') s d - v) (v - nth k' s d)) eqn:E;
        [apply Rltb_true in E|apply Rltb_false in E]; (split; [apply nth_In; lia|]);
        intros e He; destruct (Hcase e He); (split; [|intros Ht]); nr_abs.
Qed.
Lemma nr_near1_fix (s : list R) (d v : R) : StronglySorted Rle s -> In v s -> near1 NumR s d v = v.
Proof.
  intros Hs Hv. assert (Hne : s <> []) by (intros ->; contradiction).
  destruct (nr_near1_spec s d v Hs Hne) as [_ H]. destruct (H v Hv) as [H1 _].
  change (T NumR) with R in *. revert H1. generalize (near1 NumR s d v). intros r H1. nr_abs.
Qed.

Lemma nr_discrete_unfold (samples : list R) idx (x : list R) :
  discrete NumR samples idx x =
  match sort_by Rltb samples with
  | [] => None
  | d :: l => match x with
              | [] => None
              | _ :: _ => Some (nr_mmap (near1 NumR (d :: l) d) idx x)
              end
  end.
Proof. reflexivity. Qed.

Lemma nr_discrete_inv (samples : list R) idx (x y : list R) : discrete NumR samples idx x = Some y ->
  exists d s', sort_by Rltb samples = d :: s' /\ x <> [] /\ y = nr_mmap (near1 NumR (d :: s') d) idx x.
Proof.
  rewrite nr_discrete_unfold.
  destruct (sort_by Rltb samples) as [|d s'] eqn:E; [intros H; discriminate H|].
  destruct x as [|a x]; [intros H; discriminate H|]. intros H; inversion H.
  exists d, s'. repeat split; auto. discriminate.
Qed.

Theorem discrete_none_iff (samples : list R) idx (x : list R) :
  discrete NumR samples idx x = None <-> samples = [] \/ x = [].
Proof.
  rewrite nr_discrete_unfold. split.
  - destruct (sort_by Rltb samples) as [|d s'] eqn:E.
    + intros _. left. pose proof (nr_sort_perm samples) as P. rewrite E in P.
      apply Permutation_sym, Permutation_nil in P. exact P.
    + destruct x; [auto|intros H; discriminate H].
  - intros [-> | ->]; cbn; [reflexivity|]. now destruct (sort_by Rltb samples).
Qed.

Section DiscreteSome.
  Variables (samples : list R) (idx : index) (x y : list R).
  Hypothesis Hy : discrete NumR samples idx x = Some y.

  Theorem discrete_length : length y = length x.
  Proof. destruct (nr_discrete_inv _ _ _ _ Hy) as (d0 & s' & E & Hx & ->). apply nr_mmap_length. Qed.

  Theorem discrete_unselected p (d : R) :
    (p < length x)%nat -> ~ msel (length x) idx p -> nth p y d = nth p x d.
  Proof. destruct (nr_discrete_inv _ _ _ _ Hy) as (d0 & s' & E & Hx & ->). now apply nr_mmap_unsel. Qed.

  Lemma nr_discrete_sel p (d : R) : (p < length x)%nat -> msel (length x) idx p ->
    In (nth p y d) samples /\
    forall s, In s samples ->
      Rabs (nth p y d - nth p x d) <= Rabs (s - nth p x d) /\
      (Rabs (s - nth p x d) = Rabs (nth p y d - nth p x d) -> nth p y d <= s).
  Proof.
    destruct (nr_discrete_inv _ _ _ _ Hy) as (d0 & s' & E & Hx & ->). intros Hp Hs.
    rewrite nr_mmap_sel by auto.
    pose proof (nr_sort_sorted samples) as Hsort. pose proof (nr_sort_perm samples) as Hperm.
    rewrite E in Hsort, Hperm.
    destruct (nr_near1_spec (d0 :: s') d0 (nth p x d) Hsort ltac:(discriminate)) as [Hin Hall].
    split.
    - eapply Permutation_in; [apply Permutation_sym, Hperm|exact Hin].
    - intros s Hs'. apply Hall. eapply Permutation_in; [exact Hperm|exact Hs'].
  Qed.

  Theorem discrete_in_target p (d : R) :
    (p < length x)%nat -> msel (length x) idx p -> In (nth p y d) samples.
  Proof. intros Hp Hs. apply (nr_discrete_sel p d Hp Hs). Qed.

  Theorem discrete_nearest p (d : R) :
    (p < length x)%nat -> msel (length x) idx p ->
    forall s, In s samples -> Rabs (nth p y d - nth p x d) <= Rabs (s - nth p x d).
  Proof. intros Hp Hs s Hin. apply (nr_discrete_sel p d Hp Hs), Hin. Qed.

  Theorem discrete_tie_lower p (d : R) :
    (p < length x)%nat -> msel (length x) idx p ->
    forall s, In s samples -> Rabs (s - nth p x d) = Rabs (nth p y d - nth p x d) -> nth p y d <= s.
  Proof. intros Hp Hs s Hin. apply (nr_discrete_sel p d Hp Hs), Hin. Qed.

  Theorem discrete_conforming p (d : R) :
    (p < length x)%nat -> In (nth p x d) samples -> nth p y d = nth p x d.
  Proof.
    intros Hp Hin. destruct (nr_msel_dec (length x) idx p Hp) as [Hs|Hs]; [|now apply discrete_unselected].
    pose proof (discrete_nearest p d Hp Hs _ Hin) as H. revert H. generalize (nth p y d), (nth p x d).
    intros a b H. nr_abs.
  Qed.

  Theorem discrete_idempotent : discrete NumR samples idx y = Some y.
  Proof.
    pose proof discrete_length as Hlen.
    destruct (nr_discrete_inv _ _ _ _ Hy) as (d0 & s' & E & Hx & Ey).
    rewrite nr_discrete_unfold. rewrite E.
    destruct y as [|b y'] eqn:Eyy; [destruct x; [congruence|discriminate]|]. rewrite <- Eyy in *.
    f_equal. rewrite Ey.
    apply nr_mmap_idem. intros v.
    pose proof (nr_sort_sorted samples) as Hsort. rewrite E in Hsort.
    apply nr_near1_fix; auto. apply (nr_near1_spec (d0 :: s') d0 v Hsort). discriminate.
  Qed.
End DiscreteSome.
End Discrete.
