(* C16 -- constraint transforms (mystic/constraints.py, mystic/tools.py, mystic/math/measures.py).
   Executable model, definitions only (proofs: Pure/Transforms_Proofs.v and the Pure/C16_*.v files).
   Vectors are lists; Python exceptions are [None]; Python index selections are explicit ([index]).
   Numbers: every function is written once over a [Num] record (executed with NumQ on dyadic inputs, proved with NumR or an
   abstract strict weak order); only the rounding transforms are specific to Q. *)
From Coq Require Import ZArith QArith Qround Qabs List Bool Arith.
From MV Require Import Common.Num.
Import ListNotations.

(* ------------------------------------------------------------------ list surgery *)
Section Lists.
  Context {A : Type}.

  (* x[i] = v   (i already normalised; out of range = no effect, callers treat that case themselves) *)
  Fixpoint set_nth (l : list A) (i : nat) (v : A) : list A :=
    match l, i with
    | [], _ => []
    | _ :: r, O => v :: r
    | a :: r, S k => a :: set_nth r k v
    end.

  (* list.insert(i, v): beyond the end appends *)
  Fixpoint insert_at (l : list A) (i : nat) (v : A) : list A :=
    match i, l with
    | O, _ => v :: l
    | S _, [] => [v]
    | S k, a :: r => a :: insert_at r k v
    end.

  (* numpy.choose(mask, (x, xp)) *)
  Fixpoint select (mask : list bool) (x xp : list A) : list A :=
    match mask, x, xp with
    | b :: m, a :: r, a' :: r' => (if b then a' else a) :: select m r r'
    | _, _, _ => []
    end.

  (* for i, v in zip(ps, vs): x[i] = v      (sequential: a later write to the same position wins) *)
  Fixpoint scatter (x : list A) (ps : list nat) (vs : list A) : list A :=
    match ps, vs with
    | p :: ps', v :: vs' => scatter (set_nth x p v) ps' vs'
    | _, _ => x
    end.

  Definition gather (d : A) (x : list A) (ps : list nat) : list A := map (fun p => nth p x d) ps.

  (* stable insertion sort w.r.t. a strict order [lt] (Python's sorted) *)
  Fixpoint insert_by (lt : A -> A -> bool) (a : A) (l : list A) : list A :=
    match l with
    | [] => [a]
    | b :: r => if lt b a then b :: insert_by lt a r else a :: l
    end.
  Definition sort_by (lt : A -> A -> bool) (l : list A) : list A := fold_right (insert_by lt) [] l.

  Fixpoint dedup_by (eq : A -> A -> bool) (seen : list A) (l : list A) : list A :=
    match l with
    | [] => []
    | a :: r => if existsb (eq a) seen then dedup_by eq seen r else a :: dedup_by eq (a :: seen) r
    end.
End Lists.

(* ------------------------------------------------------------------ Python / numpy index selections *)
Inductive index := INone | IInt (z : Z) | ITuple (l : list Z).

(* `if isinstance(index, Integral): index = (index,)` *)
Definition as_tuple (i : index) : option (list Z) :=
  match i with INone => None | IInt z => Some [z] | ITuple l => Some l end.

(* valid positions are -n <= z < n; anything else is an IndexError *)
Definition norm_idx (n : nat) (z : Z) : option nat :=
  if ((0 <=? z) && (z <? Z.of_nat n))%Z then Some (Z.to_nat z)
  else if ((z <? 0) && (- Z.of_nat n <=? z))%Z then Some (Z.to_nat (Z.of_nat n + z))
  else None.

Fixpoint norm_all (n : nat) (l : list Z) : option (list nat) :=
  match l with
  | [] => Some []
  | z :: r => match norm_idx n z, norm_all n r with
              | Some p, Some ps => Some (p :: ps)
              | _, _ => None
              end
  end.

Definition mask_of (n : nat) (ps : list nat) : list bool :=
  map (fun i => existsb (Nat.eqb i) ps) (seq 0 n).

(* mask = ones(n) if index is None else zeros(n); try: mask[sorted(index, key=abs)] = True; except IndexError: pass
   numpy checks every index before it assigns: one bad index and nothing is selected *)
Definition np_mask (n : nat) (i : index) : list bool :=
  match as_tuple i with
  | None => repeat true n
  | Some l => match norm_all n l with
              | Some ps => mask_of n ps
              | None => repeat false n
              end
  end.

Definition dedupZ (l : list Z) : list Z := dedup_by Z.eqb [] l.
Definition sort_nat (l : list nat) : list nat := sort_by Nat.ltb l.
Definition memZ (z : Z) (l : list Z) : bool := existsb (Z.eqb z) l.

(* ------------------------------------------------------------------ transforms over a Num *)
Section Transforms.
  Variable N : Num.
  Notation T := (T N).
  Let lt := ltb N.
  Let le := leb N.

  Definition mem (v : T) (l : list T) : bool := existsb (eqb N v) l.

  (* ---------------- constraints.sorting / constraints.monotonic *)
  Definition gt (a b : T) : bool := lt b a.
  (* sorted(x, reverse=not ascending): stable both ways *)
  Definition sorted_py (asc : bool) (x : list T) : list T := sort_by (if asc then lt else gt) x.

  (* numpy maximum.accumulate / minimum.accumulate *)
  Fixpoint accum (better : T -> T -> bool) (cur : T) (l : list T) : list T :=
    match l with
    | [] => []
    | a :: r => let c := if better cur a then a else cur in c :: accum better c r
    end.
  Definition mono_py (asc : bool) (x : list T) : list T :=
    match x with [] => [] | a :: r => a :: accum (if asc then lt else gt) a r end.

  (* _isort / _imono: shared index handling.
       idx None -> whole vector; no __len__ (int) or len(idx)==1 -> unchanged; len(x)==1 -> unchanged;
       idx = sorted(itemgetter( *idx)(range(len(x))))   [TypeError on (), IndexError when out of range]
       for i,j in zip(idx, op(itemgetter( *idx)(x))): x[i] = j *)
  Definition indexed_op (op : list T -> list T) (d : T) (idx : index) (x : list T) : option (list T) :=
    match idx with
    | INone => Some (op x)
    | IInt _ => Some x
    | ITuple l =>
        if Nat.eqb (length l) 1 then Some x
        else if Nat.eqb (length x) 1 then Some x
        else match l with
             | [] => None
             | _ => match norm_all (length x) l with
                    | None => None
                    | Some ps => let ps' := sort_nat ps in Some (scatter x ps' (op (gather d x ps')))
                    end
             end
    end.
  Definition sorting (asc : bool) (idx : index) (x : list T) : option (list T) :=
    indexed_op (sorted_py asc) (zero N) idx x.
  Definition monotonic (asc : bool) (idx : index) (x : list T) : option (list T) :=
    indexed_op (mono_py asc) (zero N) idx x.

  (* ---------------- constraints.discrete *)
  (* _argnear: arghi = sum(xi > samples); arglo = max(0, arghi-1); if arghi == len(samples): arghi = arglo
     _near:    hi if hi - xi < xi - lo else lo          (ties go to the lower member) *)
  Definition count_lt (xi : T) (s : list T) : nat := length (filter (fun sj => lt sj xi) s).
  Definition near1 (s : list T) (d : T) (xi : T) : T :=
    let k := count_lt xi s in
    let arglo := Nat.pred k in
    let arghi := if Nat.eqb k (length s) then arglo else k in
    let lo := nth arglo s d in
    let hi := nth arghi s d in
    if lt (sub N hi xi) (sub N xi lo) then hi else lo.
  Definition discrete (samples : list T) (idx : index) (x : list T) : option (list T) :=
    match sort_by lt samples, x with
    | [], _ => None            (* IndexError: samples[0][arglo] on an empty array *)
    | _, [] => None            (* ValueError: arglo, arghi = argnear([]) *)
    | (d :: _) as s, _ => Some (select (np_mask (length x) idx) x (map (near1 s d) x))
    end.

  (* ---------------- constraints.bounded / impose_bounds *)
  Definition interval := (option T * option T)%type.      (* None = -inf / +inf *)
  Definition inb (x : T) (b : interval) : bool :=
    (match fst b with Some l => le l x | None => true end) &&
    (match snd b with Some h => le x h | None => true end).
  Definition in_any (bs : list interval) (x : T) : bool := existsb (inb x) bs.

  (* numpy.clip(x, lo, hi) = minimum(maximum(x, lo), hi)   (lo > hi gives hi) *)
  Definition clipo (x : T) (lo hi : option T) : T :=
    let y := match lo with Some l => if lt x l then l else x | None => x end in
    match hi with Some h => if lt h y then h else y | None => y end.

  (* distances with +inf as None; numpy argmin = first minimum *)
  Definition dist (x : T) (b : option T) : option T :=
    match b with Some v => Some (abs N (sub N x v)) | None => None end.
  Definition olt (a b : option T) : bool :=
    match a, b with Some u, Some v => lt u v | Some _, None => true | None, _ => false end.
  Fixpoint argmin_from (best : option T) (bi i : nat) (l : list (option T)) : nat :=
    match l with
    | [] => bi
    | d :: r => if olt d best then argmin_from d i (S i) r else argmin_from best bi (S i) r
    end.
  Definition argmin (l : list (option T)) : nat :=
    match l with [] => O | d :: r => argmin_from d 0 1 r end.
  Definition omin (a b : option T) : option T := if olt b a then b else a.

  (* seq[at] = clip(seq_at, *(b[abs(seq_at.reshape(-1,1)-b).argmin(axis=1)] for b in bounds)):
     the nearest lower bound and the nearest upper bound are chosen independently *)
  Definition clip_nearest (bs : list interval) (x : T) : T :=
    let los := map fst bs in
    let his := map snd bs in
    clipo x (nth (argmin (map (dist x) los)) los None) (nth (argmin (map (dist x) his)) his None).

  Inductive bmode := ClipNearest | ClipRandom | DrawNearest | DrawRandom.
  Record draws := mkDraws { picks : list nat; unifs : list T }.

  (* uniform(0,1)*(hi-lo)+lo ; unbounded ends are not generated for the drawing modes (1e300 cap not modelled) *)
  Definition draw_in (b : interval) (u x : T) : T :=
    match b with (Some l, Some h) => add N (mul N u (sub N h l)) l | _ => x end.

  Definition new_value (mode : bmode) (bs : list interval) (m k : nat) (st : draws) (x : T) : T :=
    let K := length bs in
    match mode with
    | ClipNearest => clip_nearest bs x
    | ClipRandom => let b := nth (nth k (picks st) O) bs (None, None) in clipo x (fst b) (snd b)
    | DrawNearest =>
        let j := argmin (map (fun b => omin (dist x (fst b)) (dist x (snd b))) bs) in
        draw_in (nth j bs (None, None)) (nth (j * m + k) (unifs st) x) x
    | DrawRandom =>
        let j := nth k (picks st) O in
        draw_in (nth j bs (None, None)) (nth (j * m + k) (unifs st) x) x
    end.

  Definition consume (mode : bmode) (K m : nat) (st : draws) : draws :=
    match mode with
    | ClipNearest => st
    | ClipRandom => mkDraws (skipn m (picks st)) (unifs st)
    | DrawNearest => mkDraws (picks st) (skipn (K * m) (unifs st))
    | DrawRandom => mkDraws (skipn m (picks st)) (skipn (K * m) (unifs st))
    end.

  Fixpoint positions_where {B} (f : B -> bool) (i : nat) (l : list B) : list nat :=
    match l with [] => [] | a :: r => if f a then i :: positions_where f (S i) r else positions_where f (S i) r end.

  Fixpoint enum_from {B} (i : nat) (l : list B) : list (nat * B) :=
    match l with [] => [] | a :: r => (i, a) :: enum_from (S i) r end.

  (* bounded(seq, bounds, index, clip, nearest) *)
  Definition bounded (mode : bmode) (bs : list interval) (idx : index) (st : draws) (x : list T) : list T * draws :=
    match bs with
    | [] => (x, st)
    | _ =>
      let out := positions_where (fun v => negb (in_any bs v)) 0 x in
      let at_ := match as_tuple idx with
                 | None => out
                 | Some l => filter (fun p => memZ (Z.of_nat p) l) out       (* intersect1d(at, index) *)
                 end in
      match at_ with
      | [] => (x, st)
      | _ => let m := length at_ in
             let vals := map (fun kp => new_value mode bs m (fst kp) st (nth (snd kp) x (zero N))) (enum_from 0 at_) in
             (scatter x at_ vals, consume mode (length bs) m st)
      end
    end.

  (* impose_bounds(bounds, index) with bounds a list of intervals:
     index None -> {None: bounds}; else dict((i, bounds) for i in index); then one bounded() call per key *)
  Definition impose_bounds (mode : bmode) (bs : list interval) (idx : index) (st : draws) (x : list T) : list T * draws :=
    match as_tuple idx with
    | None => bounded mode bs INone st x
    | Some l => fold_left (fun acc i => bounded mode bs (IInt i) (snd acc) (fst acc)) (dedupZ l) (x, st)
    end.

  (* impose_bounds({i: bounds_i, ...}, index): index filters the keys *)
  Definition impose_bounds_dict (mode : bmode) (d : list (Z * list interval)) (idx : index) (st : draws) (x : list T)
    : list T * draws :=
    let d' := match as_tuple idx with None => d | Some l => filter (fun kv => memZ (fst kv) l) d end in
    fold_left (fun acc kv => bounded mode (snd kv) (IInt (fst kv)) (snd acc) (fst acc)) d' (x, st).

  (* ---------------- constraints.impose_at *)
  Inductive target := TScalar (v : T) | TList (vs : list T).
  (* x = asarray(list(x))
     list target:   at = [(i,t) for (i,t) in zip(index, target) if i < len(x)]; if at: x[[i for (i,t) in at]] = [t for (i,t) in at]
     scalar target: x[[i for i in index if i < len(x)]] = target
     only i >= len(x) is filtered, so i < -len(x) still raises IndexError (numpy checks every index before assigning) *)
  Definition impose_at (index : list Z) (t : target) (x : list T) : option (list T) :=
    let n := length x in
    match t with
    | TScalar v =>
        match norm_all n (filter (fun i => (i <? Z.of_nat n)%Z) index) with
        | None => None                                 (* IndexError: i < -len(x) *)
        | Some ps => Some (scatter x ps (repeat v (length ps)))
        end
    | TList vs =>
        let at_ := filter (fun iv => (fst iv <? Z.of_nat n)%Z) (combine index vs) in
        match norm_all n (map fst at_) with
        | None => None                                 (* IndexError: i < -len(x) *)
        | Some ps => Some (scatter x ps (map snd at_))
        end
    end.
  (* what the docstring promises: targets are paired with the indices, indices beyond the end are dropped *)
  Definition impose_at_spec (index : list Z) (vs : list T) (x : list T) : list T :=
    fold_left (fun acc iv => match norm_idx (length x) (fst iv) with Some p => set_nth acc p (snd iv) | None => acc end)
              (combine index vs) x.

  (* ---------------- tools.connected / constraints.impose_as *)
  (* tools.connected: a dict {key: set of members} in insertion order.  For each pair (i,j), i <> j: ki / kj = key of the FIRST group
     holding i / j (as key or member); neither -> new group {i: {j}}; one -> the other index joins that group; both and different ->
     collapse[ki].update(collapse.pop(kj)); collapse[ki].add(kj)   (the pair bridges two groups: merge them) *)
  Definition addZ (z : Z) (l : list Z) : list Z := if memZ z l then l else l ++ [z].
  Definition holds (z : Z) (kv : Z * list Z) : bool := (Z.eqb z (fst kv) || memZ z (snd kv))%bool.
  Definition find_key (z : Z) (c : list (Z * list Z)) : option Z := option_map fst (find (holds z) c).
  Definition members_of (k : Z) (c : list (Z * list Z)) : list Z :=
    match find (fun kv => Z.eqb (fst kv) k) c with Some kv => snd kv | None => [] end.
  Definition add_to (k : Z) (zs : list Z) (c : list (Z * list Z)) : list (Z * list Z) :=
    map (fun kv => if Z.eqb (fst kv) k then (fst kv, fold_left (fun v z => addZ z v) zs (snd kv)) else kv) c.
  Definition remove_key (k : Z) (c : list (Z * list Z)) : list (Z * list Z) := filter (fun kv => negb (Z.eqb (fst kv) k)) c.
  Definition connect_step (c : list (Z * list Z)) (ij : Z * Z) : list (Z * list Z) :=
    let (i, j) := ij in
    if Z.eqb i j then c
    else match find_key i c, find_key j c with
         | None, None => c ++ [(i, [j])]
         | Some ki, None => add_to ki [j] c
         | None, Some kj => add_to kj [i] c
         | Some ki, Some kj => if Z.eqb ki kj then c else add_to ki (members_of kj c ++ [kj]) (remove_key kj c)
         end.
  Definition connected (pairs : list (Z * Z)) : list (Z * list Z) := fold_left connect_step pairs [].

  (* try: x[k] = x[i]  except IndexError: pass *)
  Definition copy_entry (x : list T) (k i : Z) : list T :=
    match norm_idx (length x) i, norm_idx (length x) k with
    | Some pi, Some pk => set_nth x pk (nth pi x (zero N))
    | _, _ => x
    end.
  (* try: x[i] += offset  except IndexError: pass *)
  Definition bump (off : T) (x : list T) (i : Z) : list T :=
    match norm_idx (length x) i with
    | Some p => set_nth x p (add N (nth p x (zero N)) off)
    | None => x
    end.
  Fixpoint offset_loop (fuel : nat) (off : T) (pairs : list (Z * Z)) (x : list T) : option (list T) :=
    match pairs with
    | [] => Some x
    | _ => match fuel with
           | O => None                                  (* the real loop would not terminate (cyclic mask) *)
           | S f =>
               let trac := dedupZ (map snd pairs) in
               let x' := fold_left (bump off) trac x in
               let indx := filter (fun t => memZ t (map fst pairs)) trac in
               offset_loop f off (filter (fun m => memZ (fst m) indx) pairs) x'
           end
    end.
  Definition impose_as (mask : list (Z * Z)) (off : T) (x : list T) : option (list T) :=
    let x1 := fold_left (fun acc kv => fold_left (fun a k => copy_entry a k (fst kv)) (snd kv) acc) (connected mask) x in
    offset_loop (S (length mask)) off mask x1.

  (* ---------------- constraints.unique with full = list of allowed values *)
  Definition dedupT (l : list T) : list T := dedup_by (eqb N) [] l.
  Definition diffT (a b : list T) : list T := filter (fun v => negb (mem v b)) a.
  Definition subsetT (a b : list T) : bool := forallb (fun v => mem v b) a.
  (* [shuffled] is `new` after shuffle(new) (recorded); it must be a rearrangement of set(full) - unique *)
  Definition same_set (a b : list T) : bool :=
    (Nat.eqb (length (dedupT a)) (length (dedupT b)) && subsetT a b && subsetT b a)%bool.
  Fixpoint fill_dups (seen : list T) (pool : list T) (l : list T) : option (list T) :=
    match l with
    | [] => Some []
    | a :: r =>
        if mem a seen then
          match pool with
          | [] => None                                   (* IndexError: pop from empty list *)
          | v :: pool' => option_map (cons v) (fill_dups seen pool' r)
          end
        else option_map (cons a) (fill_dups (a :: seen) pool r)
    end.
  Definition unique_list (full : list T) (shuffled : list T) (x : list T) : option (list T) :=
    let u := dedupT x in
    if negb (subsetT u full) then None                    (* ValueError: not in given set *)
    else if Nat.ltb (length full) (length x) then None    (* ValueError: no unique sequence *)
    else if negb (same_set shuffled (diffT (dedupT full) u)) then None
    else fill_dups [] (rev shuffled) x.                   (* new.pop() takes from the end *)

  (* ---------------- tools.insert_missing / masked, partial, synchronized *)
  Definition insert_missing (mask : list (Z * T)) (x : list T) : option (list T) :=
    let keys := map fst mask in
    let first := fold_left Z.min keys 0%Z in
    let last := fold_left Z.max keys (-1)%Z in
    if (first <? 0)%Z then None                                            (* KeyError *)
    else if (Z.of_nat (length x + length mask) - 1 <? last)%Z then None      (* KeyError *)
    else Some (fold_left (fun l kv => insert_at l (Z.to_nat (fst kv)) (snd kv))
                         (sort_by (fun a b => (fst a <? fst b)%Z) mask) x).

  (* for i,j in mask.items(): try: x[i] = j  except IndexError: pass *)
  Definition partial (mask : list (Z * T)) (x : list T) : list T :=
    fold_left (fun acc kv => match norm_idx (length acc) (fst kv) with
                             | Some p => set_nth acc p (snd kv)
                             | None => acc
                             end) mask x.

  Inductive source := SIdx (j : Z) | SMul (j0 : Z) (c : T).     (* {i: j}  |  {i: (j0, c)}, (j0,) meaning c = 1 *)
  (* try: x[i] = x[j]
     except (TypeError, IndexError): if not isinstance(j, tuple): continue; j0,j1 = ...; try: x[i] = j1*x[j0] except IndexError: pass
     (lists raise TypeError, numpy arrays IndexError on a tuple source: both take the tuple branch) *)
  Definition synchronized (mask : list (Z * source)) (x : list T) : list T :=
    fold_left (fun acc kv =>
      let n := length acc in
      match snd kv with
      | SIdx j => match norm_idx n j, norm_idx n (fst kv) with
                  | Some pj, Some pi => set_nth acc pi (nth pj acc (zero N))
                  | _, _ => acc
                  end
      | SMul j0 c => match norm_idx n j0, norm_idx n (fst kv) with
                     | Some pj, Some pi => set_nth acc pi (mul N c (nth pj acc (zero N)))
                     | _, _ => acc
                     end
      end) mask x.

  (* ---------------- tools.suppress / suppressed, clipped *)
  Definition small (tol v : T) : bool := lt (abs N v) tol.
  (* clip=False: n = number of kept entries; if n: kept entries += sum(suppressed)/n   (n = 0: nothing is spread) *)
  Definition suppress (tol : T) (clip : bool) (x : list T) : list T :=
    let cnt := length (filter (fun v => negb (small tol v)) x) in
    let s := fold_left (add N) (filter (small tol) x) (zero N) in
    let shift := div N s (of_Z N (Z.of_nat cnt)) in
    map (fun v => if small tol v then zero N else if clip then v else add N v shift) x.

  Definition clipped (lo hi : option T) (x : list T) : list T := map (fun v => clipo v lo hi) x.

  (* ---------------- with_mean / with_variance / with_spread / normalized  (the impose_ helpers of measures.py) *)
  Definition vsum (x : list T) : T := fold_left (add N) x (zero N).
  Definition lenT (x : list T) : T := of_Z N (Z.of_nat (length x)).
  Definition mean (x : list T) : T := div N (vsum x) (lenT x).
  (* almostEqual(a, b): |a - b| <= tol + rel*|b|  with tol = 1e-18, rel = 1e-7 (passed in as numbers) *)
  Definition almost (tol rel a b : T) : bool := le (abs N (sub N a b)) (add N tol (mul N rel (abs N b))).
  Definition shift_to_mean (m : T) (x : list T) : list T := let s := sub N m (mean x) in map (fun v => add N v s) x.
  Definition with_mean (tol rel m : T) (x : list T) : option (list T) :=
    match x with
    | [] => None                                       (* ZeroDivisionError *)
    | _ => if almost tol rel (mean x) m then Some x else Some (shift_to_mean m x)
    end.
  Definition variance (x : list T) : T := let m := mean x in mean (map (fun s => mul N (sub N s m) (sub N s m)) x).
  (* [sqrtf] is numpy.sqrt: supplied from outside *)
  Definition with_variance (sqrtf : T -> T) (tol rel v : T) (x : list T) : option (list T) :=
    match x with
    | [] => None
    | _ => if almost tol rel (variance x) v then Some x
           else let m := mean x in
                let sv := variance x in
                if eqb N sv (zero N) then (if eqb N v (zero N) then Some x else None)   (* None = list of nan *)
                else let scale := sqrtf (div N v sv) in
                     Some (shift_to_mean m (map (fun s => mul N s scale) x))
    end.
  Definition vmax (a : T) (l : list T) : T := fold_left (fun c v => if lt c v then v else c) l a.
  Definition vmin (a : T) (l : list T) : T := fold_left (fun c v => if lt v c then v else c) l a.
  Definition spread (x : list T) : T := match x with [] => zero N | a :: r => sub N (vmax a r) (vmin a r) end.
  Definition with_spread (tol rel r : T) (x : list T) : option (list T) :=
    match x with
    | [] => None                                       (* ValueError: max() of an empty sequence *)
    | _ => if almost tol rel (spread x) r then Some x
           else let m := mean x in
                let sr := spread x in
                if eqb N sr (zero N) then None          (* list of nan *)
                else let scale := div N r sr in
                     Some (shift_to_mean m (map (fun s => mul N s scale) x))
    end.
  (* normalize(x, mass): w = sum(|x|); x/w; m = sum(x/w); mass*(x/w)/m ; zero w or m -> x*0.0 *)
  Definition normalized (tol rel mass : T) (x : list T) : list T :=
    if almost tol rel (vsum x) mass then x
    else let w := vsum (map (abs N) x) in
         if eqb N w (zero N) then map (fun v => mul N v (zero N)) x
         else let xw := map (fun v => div N v w) x in
              let m := vsum xw in
              if eqb N m (zero N) then map (fun v => mul N v (zero N)) x
              else map (fun v => div N (mul N mass v) m) xw.
End Transforms.

(* ------------------------------------------------------------------ rounding transforms (Q only) *)
(* numpy.round / rint: round half to even *)
Definition round_half_even (q : Q) : Z :=
  let f := Qfloor q in
  match Qcompare (q - inject_Z f) (1 # 2) with
  | Lt => f
  | Gt => (f + 1)%Z
  | Eq => if Z.even f then f else (f + 1)%Z
  end.
(* astype(int): truncation toward zero *)
Definition qtrunc (q : Q) : Z := if Qle_bool 0 q then Qfloor q else Qceiling q.

(* integers(ints, index): xp = round(x); xp = choose(mask, (x, xp)).astype(int or float) *)
Definition integers (as_int : bool) (idx : index) (x : list Q) : list Q :=
  let y := select (np_mask (length x) idx) x (map (fun q => inject_Z (round_half_even q)) x) in
  if as_int then map (fun q => inject_Z (qtrunc q)) y else y.

Definition pow10 (d : Z) : Q :=
  match d with
  | Z0 => 1
  | Zpos p => inject_Z (10 ^ Zpos p)
  | Zneg p => 1 / inject_Z (10 ^ Zpos p)
  end.
(* numpy.round(x, d) = rint(x * 10^d) / 10^d   (d < 0: rint(x / 10^-d) * 10^-d) *)
Definition round_digits (d : Z) (q : Q) : Q := inject_Z (round_half_even (q * pow10 d)) / pow10 d.
(* rounded(digits, index) on the input; precision(digits, index) on the output -- the same map under the identity *)
Definition rounded (d : Z) (idx : index) (x : list Q) : list Q :=
  select (np_mask (length x) idx) x (map (round_digits d) x).

(* an approximate square root on Q, used only to EXECUTE with_variance (|error| < 1e-20 for moderate arguments) *)
Definition qsqrt (q : Q) : Q :=
  if Qle_bool q 0 then 0
  else Z.sqrt (Qnum q * Zpos (Qden q) * 10 ^ 40) # (Qden q * 10 ^ 20).
