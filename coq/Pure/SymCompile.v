(* C13 / C14 - executable model of mystic's text -> function compilers (mystic/symbolic.py):
     constraints_parser / generate_solvers / generate_constraint   (C13)
     symbolic_bounds / constraints.boundsconstrain                 (C13)
     penalty_parser / generate_conditions / generate_penalty       (C14)
   together with mystic.math.approx.tolerance, coupler.inner and the two default penalty kinds of
   mystic/penalty.py (quadratic_equality, quadratic_inequality at iteration n = 0).

   The constraint TEXT is represented by its abstract syntax (the harness prints the same tree once as
   mystic text and once as a Gallina term).  What the model transcribes is what the parsers DO with a line:
   which assignment statement / which condition expression they build (min/max, the tolerance terms,
   the sign, the `!=' nudge, the `neq' list), in which order the compiled lines are applied, and how the
   penalty terms are stacked.  Definitions only; the proofs are in SymCompile_Proofs.v.

   Polymorphic over Common.Num: NumF (binary64, bit-exact execution in the correspondence check),
   NumR (proofs). *)
From Coq Require Import List Bool Arith ZArith.
From MV Require Import Common.Num.
Import ListNotations.

(* the comparator of a line, as found by symbolic.comparator ('==' is treated like '=' by both parsers) *)
Inductive cmp := Clt | Cle | Ceq | Cne | Cge | Cgt.

Definition is_ne (c : cmp) : bool := match c with Cne => true | _ => false end.
Definition is_strict (c : cmp) : bool := match c with Clt | Cgt => true | _ => false end.

Section SymCompile.
  Variable N : Num.
  Local Notation E := (T N).

  Definition vec := list E.

  (* ---------------------------------------------------------------- vectors (python lists, x[i], x[i] = v) *)
  Definition getx (x : vec) (i : nat) : E := nth i x (zero N).

  Fixpoint upd (x : vec) (i : nat) (v : E) : vec :=
    match x, i with
    | nil, _ => nil
    | _ :: r, O => v :: r
    | a :: r, S k => a :: upd r k v
    end.

  (* ---------------------------------------------------------------- python builtins used by the generated code
     builtins max(a,b) returns a unless b > a;  builtins min(a,b) returns a unless b < a
     (`from builtins import *' comes last in the namespace the lines are exec'd in) *)
  Definition pymax (a b : E) : E := if ltb N a b then b else a.
  Definition pymin (a b : E) : E := if ltb N b a then b else a.
  (* float * bool *)
  Definition b2n (b : bool) : E := if b then one N else zero N.
  (* the literal 1.1 *)
  Definition c11 : E := div N (of_Z N 11) (of_Z N 10).

  (* mystic.math.approx.tolerance(x, tol, rel) = tol + abs(x)*rel *)
  Definition tolerance (tol rel x : E) : E := add N tol (mul N (abs N x) rel).

  (* ---------------------------------------------------------------- right-hand sides: expression trees *)
  Inductive expr :=
  | EConst (c : E)                 (* float literal, or the value of a name supplied through `locals' *)
  | EVar (i : nat)                 (* x_i  (text: xI / yI / a name; after replacement: x[I]) *)
  | EAdd (a b : expr) | ESub (a b : expr) | EMul (a b : expr)
  | EDiv (a b : expr)              (* only generated with a non-zero constant denominator; python raises
                                      ZeroDivisionError on a zero denominator - not modelled *)
  | ENeg (a : expr) | EAbs (a : expr)
  | EMin (a b : expr) | EMax (a b : expr).

  Fixpoint eval (e : expr) (x : vec) : E :=
    match e with
    | EConst c => c
    | EVar i => getx x i
    | EAdd a b => add N (eval a x) (eval b x)
    | ESub a b => sub N (eval a x) (eval b x)
    | EMul a b => mul N (eval a x) (eval b x)
    | EDiv a b => div N (eval a x) (eval b x)
    | ENeg a => opp N (eval a x)
    | EAbs a => abs N (eval a x)
    | EMin a b => pymin (eval a x) (eval b x)
    | EMax a b => pymax (eval a x) (eval b x)
    end.

  Fixpoint vars (e : expr) : list nat :=
    match e with
    | EConst _ => nil
    | EVar i => [i]
    | EAdd a b | ESub a b | EMul a b | EDiv a b | EMin a b | EMax a b => vars a ++ vars b
    | ENeg a | EAbs a => vars a
    end.

  (* smallest vector length on which every x[i] of the expression exists (else: IndexError) *)
  Definition need_e (e : expr) : nat := fold_right Nat.max 0 (map S (vars e)).

  Definition expr_is_var (e : expr) (i : nat) : bool :=
    match e with EVar j => Nat.eqb i j | _ => false end.

  (* ================================================================ C13: constraints *)

  (* The new value of the left variable computed by the assignment statement that constraints_parser
     builds for comparator c  (fx = value of the right-hand side, xi = current x[i]):
       '='   x[i] = rhs
       '<='  x[i] = min(rhs - (_tol(rhs,tol,rel) * any(equal(rhs,neq))), x[i])
       '>='  x[i] = max(rhs + (_tol(rhs,tol,rel) * any(equal(rhs,neq))), x[i])
       '<'   x[i] = min(rhs - _tol(rhs,tol,rel) , x[i])
       '>'   x[i] = max(rhs + _tol(rhs,tol,rel) , x[i])
       '!='  x[i] = x[i] + equal(x[i],rhs) * (_tol(rhs,tol,rel) * 1.1)
     eta = any(equal(rhs, neq)) : the right-hand side currently equals one of the values that a `!=' line
     with the same left variable forbids (always false when the text has no such line). *)
  Definition apply_cmp (tol rel : E) (c : cmp) (eta : bool) (fx xi : E) : E :=
    match c with
    | Ceq => fx
    | Cle => pymin (sub N fx (mul N (tolerance tol rel fx) (b2n eta))) xi
    | Cge => pymax (add N fx (mul N (tolerance tol rel fx) (b2n eta))) xi
    | Clt => pymin (sub N fx (tolerance tol rel fx)) xi
    | Cgt => pymax (add N fx (tolerance tol rel fx)) xi
    | Cne => add N xi (mul N (b2n (eqb N xi fx)) (mul N (tolerance tol rel fx) c11))
    end.

  (* one compiled line acting on the vector, for an arbitrary right-hand-side function f *)
  Definition apply_rel (tol rel : E) (c : cmp) (eta : bool) (i : nat) (f : vec -> E) (x : vec) : vec :=
    upd x i (apply_cmp tol rel c eta (f x) (getx x i)).

  (* a line of isolated-form text:  x_lhs  cmp  rhs *)
  Record irel := mkRel { lhs : nat; rcmp : cmp; rhs : expr }.

  Definition need_rel (r : irel) : nat := Nat.max (S (lhs r)) (need_e (rhs r)).
  Definition need_sys (sys : list irel) : nat := fold_right Nat.max 0 (map need_rel sys).

  (* symbolic.py l.1153: values the left variable i must avoid, collected from the `!=' lines:
       [j for (i',j) in zip(xLHS+xRHS, xRHS+xLHS) if lhs == i']
     (string comparison of the processed texts: a right-hand side matches only if it is exactly the variable) *)
  Definition neq_list (sys : list irel) (i : nat) : list expr :=
    map rhs (filter (fun q => is_ne (rcmp q) && Nat.eqb (lhs q) i) sys)
    ++ map (fun q => EVar (lhs q)) (filter (fun q => is_ne (rcmp q) && expr_is_var (rhs q) i) sys).

  (* a parsed line = one assignment statement = one solver function of generate_solvers *)
  Record solver := mkSolver { s_lhs : nat; s_cmp : cmp; s_rhs : expr; s_neq : list expr }.

  Definition parse_line (sys : list irel) (r : irel) : solver :=
    mkSolver (lhs r) (rcmp r) (rhs r) (neq_list sys (lhs r)).

  (* constraints_parser: first pass collects the `!=' lines, second pass the others, result reversed *)
  Definition constraints_parser (sys : list irel) : list solver :=
    rev (map (parse_line sys) (filter (fun r => is_ne (rcmp r)) sys ++ filter (fun r => negb (is_ne (rcmp r))) sys)).

  Definition eta_of (s : solver) (x : vec) : bool :=
    existsb (fun g => eqb N (eval (s_rhs s) x) (eval g x)) (s_neq s).

  (* generate_solvers: def solver(x): exec(line); return x *)
  Definition run_solver (tol rel : E) (s : solver) (x : vec) : vec :=
    apply_rel tol rel (s_cmp s) (eta_of s x) (s_lhs s) (eval (s_rhs s)) x.

  (* generate_constraint with ctype=None: cf = id; for c in solvers: cf = inner(c)(cf),
     coupler.inner(c)(cf) = fun x => cf (c x); hence cf = c_1 o c_2 o ... o c_n *)
  Definition generate_constraint (tol rel : E) (solvers : list solver) (x : vec) : vec :=
    fold_right (fun s acc => run_solver tol rel s acc) x solvers.

  (* generate_constraint(generate_solvers(text, locals={tol,rel}))(x)
     None = the real code raises: ValueError('math domain error') for a negative tol/rel (at compile time),
     IndexError when the vector is shorter than an index used by the text *)
  Definition compiled_constraint (tol rel : E) (sys : list irel) (x : vec) : option vec :=
    if (ltb N tol (zero N) || ltb N rel (zero N))%bool then None
    else if need_sys sys <=? length x then Some (generate_constraint tol rel (constraints_parser sys) x)
    else None.

  (* the same thing as a left fold in text order (`!=' lines first); proved equal in the proofs file *)
  Definition apply_order (sys : list irel) : list solver :=
    map (parse_line sys) (filter (fun r => is_ne (rcmp r)) sys ++ filter (fun r => negb (is_ne (rcmp r))) sys).
  Definition run_in_order (tol rel : E) (l : list solver) (x : vec) : vec :=
    fold_left (fun acc s => run_solver tol rel s acc) l x.

  (* ---------------------------------------------------------------- bounds *)
  (* a bound None / -inf / +inf is absent *)
  Definition clip1 (lo hi : option E) (v : E) : E :=
    let v1 := match lo with Some l => pymax l v | None => v end in
    match hi with Some h => pymin h v1 | None => v1 end.

  Fixpoint bounds_clip (lo hi : list (option E)) (x : vec) : vec :=
    match lo, hi, x with
    | l :: lo', h :: hi', v :: x' => clip1 l h v :: bounds_clip lo' hi' x'
    | _, _, _ => x
    end.

  Definition bad_bound (l h : option E) : bool :=
    match l, h with Some a, Some b => ltb N b a | _, _ => false end.

  (* symbolic.symbolic_bounds(min,max): 'xi >= lo_i' lines, then 'xi <= hi_i' lines; None = ValueError *)
  Fixpoint lower_lines (i : nat) (lo : list (option E)) : list irel :=
    match lo with
    | nil => nil
    | Some l :: r => mkRel i Cge (EConst l) :: lower_lines (S i) r
    | None :: r => lower_lines (S i) r
    end.
  Fixpoint upper_lines (i : nat) (hi : list (option E)) : list irel :=
    match hi with
    | nil => nil
    | Some h :: r => mkRel i Cle (EConst h) :: upper_lines (S i) r
    | None :: r => upper_lines (S i) r
    end.
  Definition symbolic_bounds (lo hi : list (option E)) : option (list irel) :=
    if negb (Nat.eqb (length lo) (length hi)) then None
    else if existsb (fun p => bad_bound (fst p) (snd p)) (combine lo hi) then None
    else Some (lower_lines 0 lo ++ upper_lines 0 hi).

  (* constraints.boundsconstrain(min,max)(x)  (symbolic=True): compile the text of symbolic_bounds
     with the default tolerances *)
  Definition boundsconstrain (tol rel : E) (lo hi : list (option E)) (x : vec) : option vec :=
    match symbolic_bounds lo hi with
    | None => None
    | Some sys => compiled_constraint tol rel sys x
    end.

  (* ================================================================ C14: conditions and penalty *)

  (* a general line  lhs cmp rhs  (penalty_parser does not need an isolated variable) *)
  Record grel := mkG { glhs : expr; gcmp : cmp; grhs : expr }.
  Definition grel_of_rel (r : irel) : grel := mkG (EVar (lhs r)) (rcmp r) (rhs r).

  Definition need_g (g : grel) : nat := Nat.max (need_e (glhs g)) (need_e (grhs g)).
  Definition need_gsys (sys : list grel) : nat := fold_right Nat.max 0 (map need_g sys).

  Inductive kind := Equality | Inequality.

  (* penalty_parser: which tuple the line goes to *)
  Definition cond_kind (c : cmp) : kind :=
    match c with Ceq | Cne => Equality | _ => Inequality end.

  (* penalty_parser: value of the expression built for comparator c (a = value of lhs, b = value of rhs):
       '='   lhs - (rhs)                               '!='  (lhs - (rhs)) == 0     (a python bool)
       '<='  lhs - (rhs)                               '>='  -(lhs - (rhs))
       '<'   lhs - (rhs - _tol(rhs,tol,rel) )          '>'   -(lhs - (rhs + _tol(rhs,tol,rel) )) *)
  Definition cond_value (tol rel : E) (c : cmp) (a b : E) : E :=
    match c with
    | Ceq => sub N a b
    | Cle => sub N a b
    | Clt => sub N a (sub N b (tolerance tol rel b))
    | Cge => opp N (sub N a b)
    | Cgt => opp N (sub N a (add N b (tolerance tol rel b)))
    | Cne => b2n (eqb N (sub N a b) (zero N))
    end.

  Definition condition (tol rel : E) (g : grel) (x : vec) : E :=
    cond_value tol rel (gcmp g) (eval (glhs g) x) (eval (grhs g) x).

  (* generate_conditions returns (inequality functions, equality functions), each in text order;
     generate_penalty flattens that pair: inequalities first *)
  Definition is_ineq (g : grel) : bool := match cond_kind (gcmp g) with Inequality => true | Equality => false end.
  Definition conditions_order (sys : list grel) : list grel :=
    filter is_ineq sys ++ filter (fun g => negb (is_ineq g)) sys.

  (* penalty.quadratic_equality / quadratic_inequality with n = 0:
       float(k)*pf**2          float(2*k)*max(0., pf)**2 *)
  Definition penalty_term (k : E) (kd : kind) (v : E) : E :=
    match kd with
    | Equality => mul N k (mul N v v)
    | Inequality => let m := pymax (zero N) v in mul N (mul N (of_Z N 2) k) (mul N m m)
    end.

  Definition line_term (tol rel k : E) (g : grel) (x : vec) : E :=
    penalty_term k (cond_kind (gcmp g)) (condition tol rel g x).

  (* generate_penalty: pf = lambda x: 0.0; for each condition: pf = ptype(condition)(pf),
     and the decorated function returns  term(x) + pf_previous(x) *)
  Definition generate_penalty (tol rel k : E) (conds : list grel) (x : vec) : E :=
    fold_left (fun acc g => add N (line_term tol rel k g x) acc) conds (zero N).

  (* generate_penalty(generate_conditions(text, locals={tol,rel}), k=k)(x);
     None = ValueError for negative tol/rel, IndexError for a short vector *)
  Definition compiled_penalty (tol rel k : E) (sys : list grel) (x : vec) : option E :=
    if (ltb N tol (zero N) || ltb N rel (zero N))%bool then None
    else if need_gsys sys <=? length x then Some (generate_penalty tol rel k (conditions_order sys) x)
    else None.

  (* the values of the generated condition functions: (inequality values, equality values) *)
  Definition compiled_conditions (tol rel : E) (sys : list grel) (x : vec) : option (list E * list E) :=
    if (ltb N tol (zero N) || ltb N rel (zero N))%bool then None
    else if need_gsys sys <=? length x then
      Some (map (fun g => condition tol rel g x) (filter is_ineq sys),
            map (fun g => condition tol rel g x) (filter (fun g => negb (is_ineq g)) sys))
    else None.

End SymCompile.

Arguments EConst {N} c.
Arguments EVar {N} i.
Arguments EAdd {N} a b.
Arguments ESub {N} a b.
Arguments EMul {N} a b.
Arguments EDiv {N} a b.
Arguments ENeg {N} a.
Arguments EAbs {N} a.
Arguments EMin {N} a b.
Arguments EMax {N} a b.
Arguments mkRel {N} lhs rcmp rhs.
Arguments mkG {N} glhs gcmp grhs.
Arguments lhs {N} _.
Arguments rcmp {N} _.
Arguments rhs {N} _.
Arguments glhs {N} _.
Arguments gcmp {N} _.
Arguments grhs {N} _.
