(* C18 - proofs about the model in Pure/Measures.v, instantiated at the reals (NumR).
   sqrt is a section variable with the two facts used (sqrt a * sqrt a = a and 0 <= sqrt a for 0 <= a). *)
From Coq Require Import List Arith ZArith Bool Lia Reals Lra.
From MV Require Import Common.Num Common.NumR Common.C18_Sums Pure.Measures.
Import ListNotations.
Open Scope R_scope.

(* ------------------------------------------------------------------ NumR plumbing *)
(* after [f_equal] on [Some _ = Some _] the equation is at type [T NumR]; field/lra want it at [R] *)
Ltac toR := match goal with |- @eq _ ?a ?b => change (@eq R a b) end.
Ltac some_eq := match goal with |- Some ?a = Some ?b => apply (f_equal (@Some R)); change (@eq R a b) end.
Lemma is_zero_true a : is_zero NumR a = true <-> a = 0.
Proof. unfold is_zero; simpl. apply Reqb_true. Qed.
Lemma is_zero_false a : is_zero NumR a = false <-> a <> 0.
Proof. unfold is_zero; simpl. apply Reqb_false. Qed.

Lemma clip0_id s : clip0 NumR s = s.
Proof.
  unfold clip0; simpl. destruct (Rleb (Rabs s) 0) eqn:E; auto.
  apply Rleb_true in E. pose proof (Rabs_pos s).
  destruct (Req_dec s 0) as [->|Hs]; auto. pose proof (Rabs_pos_lt _ Hs). lra.
Qed.

Lemma of_nat_INR n : of_nat NumR n = INR n.
Proof. unfold of_nat. cbn [of_Z NumR]. symmetry. apply INR_IZR_INZ. Qed.

Lemma npow_pow (a : R) k : npow NumR a k = a ^ k.
Proof. induction k as [|k IH]; simpl; try rewrite IH; reflexivity. Qed.

Lemma dot_dotR x w : dot NumR x w = dotR x w.
Proof. unfold dot, dotR, wsum. now rewrite nsum_Rsum. Qed.

(* ------------------------------------------------------------------ weights: None = unit weights *)
Definition wl (x : list R) (W : option (list R)) : list R :=
  match W with None => map (fun _ => 1) x | Some w => w end.
(* the inputs on which the weighted statistics are defined: as many weights as samples, non-zero total *)
Definition wf (x : list R) (W : option (list R)) : Prop :=
  length x = length (wl x W) /\ Rsum (wl x W) <> 0.

Lemma wl_map (g : R -> R) x W : wl (map g x) W = wl x W.
Proof. destruct W; simpl; auto. now rewrite map_map. Qed.
Lemma wf_map (g : R -> R) x W : wf x W -> wf (map g x) W.
Proof. unfold wf. rewrite wl_map, map_length. auto. Qed.
Lemma wf_none x : x <> [] -> wf x None.
Proof.
  intros H. split; simpl; [now rewrite map_length|]. rewrite Rsum_map_const.
  destruct x; [congruence|]. change (length (r :: x)) with (S (length x)).
  pose proof (pos_INR (length x)). rewrite S_INR. lra.
Qed.
Lemma wf_some x w : length x = length w -> Rsum w <> 0 -> wf x (Some w).
Proof. intros; split; auto. Qed.

(* textbook weighted mean and central moment *)
Definition Mu (x w : list R) : R := dotR x w / Rsum w.
Definition CM (k : nat) (x w : list R) : R := wsum (fun s => (s - Mu x w) ^ k) x w / Rsum w.

(* ------------------------------------------------------------------ definitions are the textbook sums *)
Theorem mean_textbook x W : wf x W -> mean NumR x W = Some (Mu x (wl x W)).
Proof.
  intros [Hl Hs]. destruct W as [w|]; cbn [wl] in *; unfold mean; cbv zeta.
  - rewrite nsum_Rsum. destruct (is_zero NumR (Rsum w)) eqn:E.
    + apply is_zero_true in E. contradiction.
    + rewrite clip0_id, dot_dotR. reflexivity.
  - destruct x as [|a x].
    + simpl in Hs. lra.
    + rewrite clip0_id, nsum_Rsum, of_nat_INR. f_equal. unfold Mu, dotR.
      rewrite wsum_ones, Rsum_map_id, Rsum_map_const. cbn [div one NumR].
      toR. rewrite Rmult_1_r. unfold Rdiv at 1. now rewrite Rinv_1, Rmult_1_r.
Qed.

Theorem mean_weighted_sum x w :
  length x = length w -> Rsum w <> 0 -> mean NumR x (Some w) = Some (dotR x w / Rsum w).
Proof. intros. now rewrite mean_textbook by (apply wf_some; auto). Qed.

Theorem mean_unweighted x : x <> [] -> mean NumR x None = Some (Rsum x / INR (length x)).
Proof.
  intros H. rewrite mean_textbook by (apply wf_none; auto). f_equal. unfold Mu, dotR; simpl.
  now rewrite wsum_ones, Rsum_map_id, Rsum_map_const, Rmult_1_r.
Qed.

(* the error branches: no samples / zero total weight give no finite answer *)
Theorem mean_undefined_empty : mean NumR [] None = None.
Proof. reflexivity. Qed.
Theorem mean_undefined_zero_weight x w : Rsum w = 0 -> mean NumR x (Some w) = None.
Proof.
  intros H; unfold mean; cbv zeta. rewrite nsum_Rsum. destruct (is_zero NumR (Rsum w)) eqn:E; auto.
  apply is_zero_false in E. contradiction.
Qed.

Theorem moment_textbook x W k : wf x W -> (2 <= k)%nat -> moment NumR x W k = Some (CM k x (wl x W)).
Proof.
  intros H Hk. destruct k as [|[|k]]; try lia.
  unfold moment. rewrite (mean_textbook _ _ H). cbn [obind].
  rewrite mean_textbook by (apply wf_map; auto). rewrite wl_map. f_equal.
  unfold Mu at 1, dotR, CM. rewrite wsum_map. f_equal.
  all: try (apply wsum_ext; intros a _; simpl sub; now rewrite npow_pow).
Qed.
Theorem moment_order0 x W : moment NumR x W 0 = Some 1.
Proof. reflexivity. Qed.
Theorem moment_order1 x W : moment NumR x W 1 = Some 0.
Proof. reflexivity. Qed.

Theorem variance_textbook x W : wf x W -> variance NumR x W = Some (CM 2 x (wl x W)).
Proof. intros; apply moment_textbook; auto. Qed.

(* ------------------------------------------------------------------ affine images *)
Lemma Mu_affine a b x w :
  length x = length w -> Rsum w <> 0 ->
  Mu (map (fun s => s * a + b) x) w = a * Mu x w + b.
Proof.
  intros Hl Hs. unfold Mu, dotR. rewrite wsum_map.
  rewrite (wsum_ext _ (fun s => a * s + b)) by (intros; lra).
  rewrite wsum_plus, wsum_scale, wsum_const by auto. field; auto.
Qed.

Lemma CM_affine k a b x w :
  length x = length w -> Rsum w <> 0 ->
  CM k (map (fun s => s * a + b) x) w = a ^ k * CM k x w.
Proof.
  intros Hl Hs. unfold CM. rewrite Mu_affine by auto. rewrite wsum_map.
  rewrite (wsum_ext _ (fun s => a ^ k * (s - Mu x w) ^ k)).
  - rewrite wsum_scale. field; auto.
  - intros s _. rewrite <- Rpow_mult_distr. f_equal. lra.
Qed.

(* ------------------------------------------------------------------ max / min of a list *)
Definition fmax (r : list R) (a : R) : R := fold_left (fun m y => if Rltb m y then y else m) r a.
Definition fmin (r : list R) (a : R) : R := fold_left (fun m y => if Rltb y m then y else m) r a.
Lemma fold_max_spec (r : list R) (a : R) :
  (fmax r a = a \/ In (fmax r a) r) /\ a <= fmax r a /\ Forall (fun y => y <= fmax r a) r.
Proof.
  revert a; induction r as [|b r IH]; intros a.
  - unfold fmax; simpl. repeat split; auto; lra.
  - change (fmax (b :: r) a) with (fmax r (if Rltb a b then b else a)).
    destruct (Rltb a b) eqn:E.
    + apply Rltb_true in E. destruct (IH b) as (H1 & H2 & H3). split; [|split].
      * destruct H1 as [H1|H1]; [right; left; auto | right; right; auto].
      * lra.
      * constructor; auto.
    + apply Rltb_false in E. destruct (IH a) as (H1 & H2 & H3). split; [|split].
      * destruct H1 as [H1|H1]; [left; auto | right; right; auto].
      * lra.
      * constructor; auto; lra.
Qed.
Lemma fold_min_spec (r : list R) (a : R) :
  (fmin r a = a \/ In (fmin r a) r) /\ fmin r a <= a /\ Forall (fun y => fmin r a <= y) r.
Proof.
  revert a; induction r as [|b r IH]; intros a.
  - unfold fmin; simpl. repeat split; auto; lra.
  - change (fmin (b :: r) a) with (fmin r (if Rltb b a then b else a)).
    destruct (Rltb b a) eqn:E.
    + apply Rltb_true in E. destruct (IH b) as (H1 & H2 & H3). split; [|split].
      * destruct H1 as [H1|H1]; [right; left; auto | right; right; auto].
      * lra.
      * constructor; auto.
    + apply Rltb_false in E. destruct (IH a) as (H1 & H2 & H3). split; [|split].
      * destruct H1 as [H1|H1]; [left; auto | right; right; auto].
      * lra.
      * constructor; auto; lra.
Qed.

Theorem lmax_spec l M : lmax NumR l = Some M -> In M l /\ Forall (fun y => y <= M) l.
Proof.
  destruct l as [|a r]; [discriminate|]. change (lmax NumR (a :: r)) with (Some (fmax r a)).
  intros H; injection H as <-.
  destruct (fold_max_spec r a) as ([H1|H1] & H2 & H3); split; auto.
  - left; auto.
  - right; auto.
Qed.
Theorem lmin_spec l M : lmin NumR l = Some M -> In M l /\ Forall (fun y => M <= y) l.
Proof.
  destruct l as [|a r]; [discriminate|]. change (lmin NumR (a :: r)) with (Some (fmin r a)).
  intros H; injection H as <-.
  destruct (fold_min_spec r a) as ([H1|H1] & H2 & H3); split; auto.
  - left; auto.
  - right; auto.
Qed.
Lemma lmax_some l : l <> [] -> exists M, lmax NumR l = Some M.
Proof. destruct l; [congruence|]. intros _; eexists; reflexivity. Qed.
Lemma lmin_some l : l <> [] -> exists M, lmin NumR l = Some M.
Proof. destruct l; [congruence|]. intros _; eexists; reflexivity. Qed.
Lemma lmax_none l : lmax NumR l = None <-> l = [].
Proof. destruct l; simpl; split; intros; congruence. Qed.

Lemma max_unique l M M' :
  In M l -> Forall (fun y => y <= M) l -> In M' l -> Forall (fun y => y <= M') l -> M = M'.
Proof.
  intros H1 H2 H3 H4. rewrite Forall_forall in H2, H4.
  pose proof (H2 _ H3). pose proof (H4 _ H1). lra.
Qed.
Lemma min_unique l M M' :
  In M l -> Forall (fun y => M <= y) l -> In M' l -> Forall (fun y => M' <= y) l -> M = M'.
Proof.
  intros H1 H2 H3 H4. rewrite Forall_forall in H2, H4.
  pose proof (H2 _ H3). pose proof (H4 _ H1). lra.
Qed.

Lemma lmax_affine a b l M : 0 <= a -> lmax NumR l = Some M ->
  lmax NumR (map (fun s => s * a + b) l) = Some (M * a + b).
Proof.
  intros Ha H. destruct (lmax_spec _ _ H) as [Hin Hall].
  destruct (lmax_some (map (fun s => s * a + b) l)) as [M' HM'].
  { destruct l; [destruct Hin|discriminate]. }
  rewrite HM'. f_equal. destruct (lmax_spec _ _ HM') as [Hin' Hall'].
  eapply max_unique; eauto.
  - apply in_map_iff. eauto.
  - rewrite Forall_forall in *. intros y Hy. apply in_map_iff in Hy as (s & <- & Hs).
    pose proof (Hall _ Hs). nra.
Qed.
Lemma lmin_affine a b l M : 0 <= a -> lmin NumR l = Some M ->
  lmin NumR (map (fun s => s * a + b) l) = Some (M * a + b).
Proof.
  intros Ha H. destruct (lmin_spec _ _ H) as [Hin Hall].
  destruct (lmin_some (map (fun s => s * a + b) l)) as [M' HM'].
  { destruct l; [destruct Hin|discriminate]. }
  rewrite HM'. f_equal. destruct (lmin_spec _ _ HM') as [Hin' Hall'].
  eapply min_unique; eauto.
  - apply in_map_iff. eauto.
  - rewrite Forall_forall in *. intros y Hy. apply in_map_iff in Hy as (s & <- & Hs).
    pose proof (Hall _ Hs). nra.
Qed.

Lemma spread_affine a b l r : 0 <= a -> spread NumR l = Some r ->
  spread NumR (map (fun s => s * a + b) l) = Some (a * r).
Proof.
  unfold spread. intros Ha. destruct (lmax NumR l) eqn:E1; [|discriminate].
  destruct (lmin NumR l) eqn:E2; [|discriminate]. intros H; injection H as <-.
  rewrite (lmax_affine _ _ _ _ Ha E1), (lmin_affine _ _ _ _ Ha E2). some_eq. simpl. lra.
Qed.

Lemma spread_nonneg l r : spread NumR l = Some r -> 0 <= r.
Proof.
  unfold spread. destruct (lmax NumR l) eqn:E1; [|discriminate].
  destruct (lmin NumR l) eqn:E2; [|discriminate]. intros H; injection H as <-.
  destruct (lmax_spec _ _ E1) as [I1 A1]. destruct (lmin_spec _ _ E2) as [I2 A2].
  rewrite Forall_forall in A1. pose proof (A1 _ I2). simpl. lra.
Qed.
Lemma spread_some l : l <> [] -> exists r, spread NumR l = Some r.
Proof.
  intros H. unfold spread. destruct (lmax_some _ H) as [a ->]. destruct (lmin_some _ H) as [b ->]. eauto.
Qed.

(* spread is the textbook range: the difference of an upper and a lower bound that are both attained *)
Theorem spread_textbook l r : spread NumR l = Some r ->
  exists hi lo, In hi l /\ In lo l /\ (forall y, In y l -> lo <= y <= hi) /\ r = hi - lo.
Proof.
  unfold spread. destruct (lmax NumR l) as [hi|] eqn:E1; [|discriminate].
  destruct (lmin NumR l) as [lo|] eqn:E2; [|discriminate]. intros H; injection H as <-.
  destruct (lmax_spec _ _ E1) as [I1 A1]. destruct (lmin_spec _ _ E2) as [I2 A2].
  rewrite Forall_forall in A1, A2. exists hi, lo. repeat split; auto.
Qed.

(* ------------------------------------------------------------------ impose_mean *)
Lemma impose_mean_form m x W : wf x W ->
  impose_mean NumR m x W = Some (map (fun s => s * 1 + (m - Mu x (wl x W))) x).
Proof.
  intros H. unfold impose_mean. rewrite (mean_textbook _ _ H). cbn [obind]. f_equal.
  apply map_ext. intros s. simpl. lra.
Qed.

Theorem impose_mean_hits m x W : wf x W ->
  exists y, impose_mean NumR m x W = Some y /\ length y = length x /\ mean NumR y W = Some m.
Proof.
  intros H. eexists. split; [apply impose_mean_form; auto|]. split; [apply map_length|].
  rewrite mean_textbook by (apply wf_map; auto). rewrite wl_map. destruct H as [Hl Hs].
  rewrite Mu_affine by auto. some_eq. lra.
Qed.

Theorem impose_mean_keeps_variance m x W : wf x W ->
  exists y, impose_mean NumR m x W = Some y /\ variance NumR y W = variance NumR x W.
Proof.
  intros H. eexists. split; [apply impose_mean_form; auto|].
  rewrite !variance_textbook by (try apply wf_map; auto). rewrite wl_map. destruct H as [Hl Hs].
  rewrite CM_affine by auto. some_eq. lra.
Qed.

(* every central moment is kept, not only the variance *)
Theorem impose_mean_keeps_moments m x W k : wf x W ->
  exists y, impose_mean NumR m x W = Some y /\ moment NumR y W k = moment NumR x W k.
Proof.
  intros H. eexists. split; [apply impose_mean_form; auto|].
  destruct k as [|[|k]]; try reflexivity.
  rewrite !moment_textbook by (try apply wf_map; auto; lia). rewrite wl_map. destruct H as [Hl Hs].
  rewrite CM_affine by auto. some_eq. rewrite pow1. lra.
Qed.

Theorem impose_mean_keeps_spread m x W : wf x W ->
  exists y, impose_mean NumR m x W = Some y /\ spread NumR y = spread NumR x.
Proof.
  intros H. eexists. split; [apply impose_mean_form; auto|].
  destruct (spread NumR x) as [r|] eqn:E.
  - rewrite (spread_affine 1 _ _ r) by (auto; lra). some_eq; lra.
  - destruct x as [|a x]; [reflexivity|]. destruct (spread_some (a :: x)) as [r Hr]; congruence.
Qed.

(* error branch: no finite mean, no answer *)
Theorem impose_mean_undefined m x W : mean NumR x W = None -> impose_mean NumR m x W = None.
Proof. unfold impose_mean. now intros ->. Qed.

(* ------------------------------------------------------------------ impose_variance / impose_std / impose_spread *)
Section Sqrt.
  Variable sqrtf : R -> R.
  Hypothesis sqrt_sq : forall a, 0 <= a -> sqrtf a * sqrtf a = a.
  Hypothesis sqrt_nonneg : forall a, 0 <= a -> 0 <= sqrtf a.

  Lemma sqrt_of_square s : 0 <= s -> sqrtf (s * s) = s.
  Proof.
    intros Hs. assert (H : 0 <= s * s) by nra.
    pose proof (sqrt_sq _ H). pose proof (sqrt_nonneg _ H). nra.
  Qed.

  (* scale by c about 0, then restore the mean mu:  s*c + (mu - mean(s*c))  *)
  Lemma Mu_scale (c : R) x w : length x = length w -> Rsum w <> 0 ->
    Mu (map (fun s : R => s * c) x) w = c * Mu x w.
  Proof.
    intros Hl Hs.
    replace (map (fun s : R => s * c) x) with (map (fun s : R => s * c + 0) x) by (apply map_ext; intros; lra).
    rewrite Mu_affine by auto. lra.
  Qed.
  Lemma rescale_form (c : R) x W : wf x W ->
    impose_mean NumR (Mu x (wl x W)) (map (fun s : R => s * c) x) W
    = Some (map (fun s : R => s * c + (Mu x (wl x W) - c * Mu x (wl x W))) x).
  Proof.
    intros H. rewrite impose_mean_form by (apply wf_map; auto). rewrite wl_map, map_map. f_equal.
    destruct H as [Hl Hs]. apply map_ext. intros s. rewrite Mu_scale by auto. lra.
  Qed.

  Lemma impose_variance_form v x W : wf x W -> CM 2 x (wl x W) <> 0 -> 0 <= v / CM 2 x (wl x W) ->
    impose_variance NumR sqrtf v x W
    = Some (map (fun s => s * sqrtf (v / CM 2 x (wl x W))
                          + (Mu x (wl x W) - sqrtf (v / CM 2 x (wl x W)) * Mu x (wl x W))) x).
  Proof.
    intros H Hsv Hr. unfold impose_variance.
    rewrite (mean_textbook _ _ H), (variance_textbook _ _ H). cbn [obind].
    destruct (is_zero NumR (CM 2 x (wl x W))) eqn:E; [apply is_zero_true in E; contradiction|].
    simpl div. simpl ltb. simpl zero.
    destruct (Rltb (v / CM 2 x (wl x W)) 0) eqn:E2; [apply Rltb_true in E2; lra|].
    apply rescale_form; auto.
  Qed.

  Theorem impose_variance_hits v x W sv : wf x W ->
    variance NumR x W = Some sv -> 0 < sv -> 0 <= v ->
    exists y, impose_variance NumR sqrtf v x W = Some y /\ length y = length x /\
              variance NumR y W = Some v /\ mean NumR y W = mean NumR x W.
  Proof.
    intros H Hv Hsv Hv0. rewrite (variance_textbook _ _ H) in Hv. injection Hv as Hv.
    assert (Hr : 0 <= v / sv) by (apply Rmult_le_pos; auto; left; now apply Rinv_0_lt_compat).
    eexists. split; [apply impose_variance_form; auto; rewrite Hv; auto; lra|].
    split; [apply map_length|]. destruct H as [Hl Hs]. split.
    - rewrite variance_textbook by (apply wf_map; split; auto). rewrite wl_map, CM_affine by auto.
      rewrite Hv. some_eq. simpl pow. rewrite Rmult_1_r, sqrt_sq by auto. field; lra.
    - rewrite !mean_textbook by (try apply wf_map; split; auto). rewrite wl_map, Mu_affine by auto.
      some_eq. lra.
  Qed.

  Theorem impose_std_hits s x W sv : wf x W ->
    variance NumR x W = Some sv -> 0 < sv -> 0 <= s ->
    exists y, impose_std NumR sqrtf s x W = Some y /\ length y = length x /\
              std NumR sqrtf y W = Some s /\ variance NumR y W = Some (s * s) /\
              mean NumR y W = mean NumR x W.
  Proof.
    intros H Hv Hsv Hs. unfold impose_std. simpl mul.
    destruct (impose_variance_hits (s * s) x W sv H Hv Hsv) as (y & Hy & Hl & Hvar & Hm); [nra|].
    exists y. repeat split; auto. unfold std. rewrite Hvar. simpl. now rewrite sqrt_of_square.
  Qed.

  (* degenerate inputs: zero variance can only be "imposed" to zero *)
  Theorem impose_variance_degenerate v x W : wf x W -> variance NumR x W = Some 0 ->
    impose_variance NumR sqrtf v x W = (if Req_EM_T v 0 then Some x else None).
  Proof.
    intros H Hv. unfold impose_variance. rewrite (mean_textbook _ _ H), Hv. cbn [obind].
    replace (is_zero NumR 0) with true by (symmetry; now apply is_zero_true).
    unfold is_zero; simpl. unfold Reqb. destruct (Req_EM_T v 0); auto.
  Qed.
  Theorem impose_variance_negative v x W sv : wf x W -> variance NumR x W = Some sv -> 0 < sv -> v < 0 ->
    impose_variance NumR sqrtf v x W = None.
  Proof.
    intros H Hv Hsv Hneg. unfold impose_variance. rewrite (mean_textbook _ _ H), Hv. cbn [obind].
    destruct (is_zero NumR sv) eqn:E; [apply is_zero_true in E; lra|].
    simpl. replace (Rltb (v / sv) 0) with true; auto. symmetry. apply Rltb_true.
    apply Ropp_lt_cancel. rewrite Ropp_0. replace (- (v / sv)) with ((- v) / sv) by (field; lra).
    apply Rdiv_lt_0_compat; lra.
  Qed.
End Sqrt.

Theorem impose_spread_hits r x W sr : wf x W -> spread NumR x = Some sr -> sr <> 0 -> 0 <= r ->
  exists y, impose_spread NumR r x W = Some y /\ length y = length x /\
            spread NumR y = Some r /\ mean NumR y W = mean NumR x W.
Proof.
  intros H Hsp Hsr Hr. pose proof (spread_nonneg _ _ Hsp) as Hpos.
  assert (Hc : 0 <= r / sr) by (apply Rmult_le_pos; auto; left; apply Rinv_0_lt_compat; lra).
  unfold impose_spread. rewrite (mean_textbook _ _ H), Hsp. cbn [obind].
  destruct (is_zero NumR sr) eqn:E; [apply is_zero_true in E; contradiction|].
  eexists; split; [apply (rescale_form (r / sr) x W H)|].
  split; [apply map_length|]. destruct H as [Hl Hs]. split.
  - rewrite (spread_affine _ _ _ sr) by auto. some_eq. field; auto.
  - rewrite !mean_textbook by (try apply wf_map; split; auto). rewrite wl_map, Mu_affine by auto.
    some_eq. lra.
Qed.
Theorem impose_spread_degenerate r x W : wf x W -> spread NumR x = Some 0 -> impose_spread NumR r x W = None.
Proof.
  intros H Hsp. unfold impose_spread. rewrite (mean_textbook _ _ H), Hsp. cbn [obind].
  now replace (is_zero NumR 0) with true by (symmetry; now apply is_zero_true).
Qed.

(* ------------------------------------------------------------------ expectation *)
Lemma map_snd_combine {A B} (x : list A) (w : list B) : length x = length w -> map snd (combine x w) = w.
Proof. revert w; induction x; intros [|b w] H; simpl in *; try discriminate; auto. f_equal. apply IHx. lia. Qed.

Lemma wsum_map_pairs {A} (g : A -> R) (l : list (A * R)) :
  dotR (map (fun p => g (fst p)) l) (map snd l) = Rsum (map (fun p => g (fst p) * snd p) l).
Proof. unfold dotR, wsum. induction l as [|[a b] l IH]; simpl; auto. now rewrite IH. Qed.

Lemma kept_zero_weight {A} (p : A * R) : ltb NumR 0 (abs NumR (snd p)) = false -> snd p = 0.
Proof.
  cbn [ltb abs NumR]. intros H. apply Rltb_false in H. pose proof (Rabs_pos (snd p)).
  destruct (Req_dec (snd p) 0) as [E|E]; auto. pose proof (Rabs_pos_lt _ E). lra.
Qed.

(* points of zero weight are skipped (f is not evaluated there) and the value is the textbook weighted sum *)
Theorem expectation_textbook {A} (f : A -> R) (x : list A) (w : list R) :
  length x = length w -> Rsum w <> 0 ->
  expectation NumR f x (Some w) 0 = Some (wsum f x w / Rsum w).
Proof.
  intros Hl Hs. unfold expectation. set (k := kept NumR x w 0).
  assert (Hw : Rsum (map snd k) = Rsum w).
  { unfold k, kept. rewrite (Rsum_filter _ snd).
    - now rewrite map_snd_combine.
    - intros p _ Hp. now apply kept_zero_weight. }
  rewrite mean_weighted_sum; [|now rewrite !map_length|now rewrite Hw].
  rewrite Hw. some_eq. f_equal. rewrite wsum_map_pairs. unfold k, kept.
  rewrite (Rsum_filter _ (fun p => f (fst p) * snd p)); [reflexivity|].
  intros p _ Hp. rewrite (kept_zero_weight _ Hp). lra.
Qed.
Theorem expectation_unweighted {A} (f : A -> R) (x : list A) tol :
  x <> [] -> expectation NumR f x None tol = Some (Rsum (map f x) / INR (length x)).
Proof.
  intros H. unfold expectation. rewrite mean_unweighted, map_length; auto.
  destruct x; [congruence|discriminate].
Qed.
(* error branch: every weight is (numerically) zero *)
Theorem expectation_undefined {A} (f : A -> R) (x : list A) (w : list R) :
  Forall (fun t => t = 0) w -> expectation NumR f x (Some w) 0 = None.
Proof.
  intros H. unfold expectation. apply mean_undefined_zero_weight.
  unfold kept. generalize x. induction H as [|b w -> H IH]; intros [|a x']; simpl; auto.
  cbn [ltb abs NumR]. rewrite Rabs_R0. replace (Rltb 0 0) with false by (symmetry; apply Rltb_false; lra).
  apply IH.
Qed.

(* ------------------------------------------------------------------ ess_minimum / ess_maximum / ess_ptp *)
Lemma in_support {A} (x : list A) (w : list R) (a : A) :
  In a (support NumR x w 0) -> exists p, In p (combine x w) /\ 0 < snd p /\ fst p = a.
Proof.
  unfold support. intros H. apply in_map_iff in H as (p & Hp & Hin).
  apply filter_In in Hin as [Hin Ht]. cbn [ltb NumR] in Ht. apply Rltb_true in Ht. eauto.
Qed.
Lemma support_in {A} (x : list A) (w : list R) (p : A * R) :
  In p (combine x w) -> 0 < snd p -> In (fst p) (support NumR x w 0).
Proof.
  intros Hin Hp. unfold support. apply in_map. apply filter_In. split; auto.
  cbn [ltb NumR]. now apply Rltb_true.
Qed.

(* the essential minimum is attained at a point of positive weight and bounds f from below on all such points *)
Theorem ess_minimum_spec {A} (f : A -> R) (x : list A) (w : list R) r :
  ess_minimum NumR f x (Some w) 0 = Some r ->
  (exists p, In p (combine x w) /\ 0 < snd p /\ r = f (fst p)) /\
  (forall p, In p (combine x w) -> 0 < snd p -> r <= f (fst p)).
Proof.
  unfold ess_minimum, values. intros H. destruct (lmin_spec _ _ H) as [Hin Hall]. split.
  - apply in_map_iff in Hin as (a & Ha & Hin). destruct (in_support _ _ _ Hin) as (p & H1 & H2 & H3).
    exists p. subst. auto.
  - intros p Hp Hpos. rewrite Forall_forall in Hall. apply Hall. apply in_map. now apply support_in.
Qed.
Theorem ess_maximum_spec {A} (f : A -> R) (x : list A) (w : list R) r :
  ess_maximum NumR f x (Some w) 0 = Some r ->
  (exists p, In p (combine x w) /\ 0 < snd p /\ r = f (fst p)) /\
  (forall p, In p (combine x w) -> 0 < snd p -> f (fst p) <= r).
Proof.
  unfold ess_maximum, values. intros H. destruct (lmax_spec _ _ H) as [Hin Hall]. split.
  - apply in_map_iff in Hin as (a & Ha & Hin). destruct (in_support _ _ _ Hin) as (p & H1 & H2 & H3).
    exists p. subst. auto.
  - intros p Hp Hpos. rewrite Forall_forall in Hall. apply Hall. apply in_map. now apply support_in.
Qed.
Theorem ess_ptp_spec {A} (f : A -> R) (x : list A) (w : list R) r :
  ess_ptp NumR f x (Some w) 0 = Some r ->
  exists hi lo, ess_maximum NumR f x (Some w) 0 = Some hi /\ ess_minimum NumR f x (Some w) 0 = Some lo /\ r = hi - lo.
Proof.
  unfold ess_ptp, ess_maximum, ess_minimum, spread.
  destruct (lmax NumR _) as [hi|]; [|discriminate]. destruct (lmin NumR _) as [lo|]; [|discriminate].
  intros H; injection H as <-. eauto.
Qed.
(* defined exactly when some point has positive weight (otherwise Python's max([]) raises) *)
Theorem ess_minimum_defined {A} (f : A -> R) (x : list A) (w : list R) :
  ess_minimum NumR f x (Some w) 0 = None <-> (forall p, In p (combine x w) -> ~ 0 < snd p).
Proof.
  unfold ess_minimum, values. split.
  - intros H p Hp Hpos. pose proof (support_in _ _ _ Hp Hpos) as Hin.
    destruct (support NumR x w 0); [destruct Hin|discriminate].
  - intros H. destruct (support NumR x w 0) as [|a s] eqn:E; auto.
    destruct (in_support x w a) as (p & H1 & H2 & _); [rewrite E; now left|]. now destruct (H p H1).
Qed.
Lemma combine_app_eq {A B} (x1 x2 : list A) (w1 w2 : list B) :
  length x1 = length w1 -> combine (x1 ++ x2) (w1 ++ w2) = combine x1 w1 ++ combine x2 w2.
Proof. revert w1; induction x1; intros [|b w1] H; simpl in *; try discriminate; auto. f_equal. apply IHx1. lia. Qed.
(* a point of zero weight, wherever it sits, does not influence the essential extrema *)
Theorem ess_ignores_zero_weight {A} (f : A -> R) (x1 x2 : list A) (w1 w2 : list R) (a : A) :
  length x1 = length w1 ->
  values NumR f (x1 ++ a :: x2) (Some (w1 ++ 0 :: w2)) 0 = values NumR f (x1 ++ x2) (Some (w1 ++ w2)) 0.
Proof.
  intros H. unfold values, support. rewrite !combine_app_eq by auto. rewrite !filter_app. simpl combine.
  simpl filter. cbn [ltb NumR]. replace (Rltb 0 0) with false by (symmetry; apply Rltb_false; lra).
  reflexivity.
Qed.

(* ------------------------------------------------------------------ norms and point-to-point metrics *)
Theorem Lnorm1_textbook w : Lnorm1 NumR w = Rsum (map Rabs w).
Proof. unfold Lnorm1. now rewrite nsum_Rsum. Qed.
Theorem Lnorm0_textbook w : Lnorm0 NumR w = INR (length (filter (fun a => negb (Reqb a 0)) w)).
Proof. unfold Lnorm0. now rewrite of_nat_INR. Qed.
Theorem LnormInf_textbook w M : LnormInf NumR w = Some M ->
  (exists a, In a w /\ M = Rabs a) /\ (forall a, In a w -> Rabs a <= M).
Proof.
  unfold LnormInf. intros H. destruct (lmax_spec _ _ H) as [Hin Hall]. split.
  - apply in_map_iff in Hin as (a & Ha & Hin). eauto.
  - intros a Ha. rewrite Forall_forall in Hall. apply Hall. now apply in_map.
Qed.
Theorem LnormInf_defined w : LnormInf NumR w = None <-> w = [].
Proof. unfold LnormInf. rewrite lmax_none. destruct w; simpl; split; intros; congruence. Qed.

Lemma Rsum_squares_nonneg (l : list R) : 0 <= Rsum (map (fun a => a * a) l).
Proof. induction l as [|a l IH]; simpl; [lra|]. nra. Qed.

Section SqrtNorms.
  Variable sqrtf : R -> R.
  Hypothesis sqrt_sq : forall a, 0 <= a -> sqrtf a * sqrtf a = a.

  Theorem Lnorm2_squared w : Lnorm2 NumR sqrtf w * Lnorm2 NumR sqrtf w = Rsum (map (fun a => a * a) w).
  Proof.
    unfold Lnorm2. rewrite nsum_Rsum.
    rewrite (Rsum_map_ext _ (fun a => a * a)).
    - apply sqrt_sq, Rsum_squares_nonneg.
    - intros a _. cbn [abs mul NumR]. apply Rabs_pos_eq. exact (Rle_0_sqr _).
  Qed.
  Theorem euclidean_squared x y :
    euclidean_d NumR sqrtf (absdiff_pair NumR x y) * euclidean_d NumR sqrtf (absdiff_pair NumR x y)
    = Rsum (map (fun p => (fst p - snd p) * (fst p - snd p)) (combine x y)).
  Proof.
    unfold euclidean_d, absdiff_pair. rewrite nsum_Rsum, map_map. rewrite sqrt_sq.
    - apply Rsum_map_ext. intros p _. cbn [abs mul sub NumR]. rewrite <- Rabs_mult. apply Rabs_pos_eq. exact (Rle_0_sqr _).
    - rewrite <- map_map with (g := fun a => mul NumR a a). apply Rsum_squares_nonneg.
  Qed.
End SqrtNorms.

Theorem manhattan_textbook x y :
  manhattan_d NumR (absdiff_pair NumR x y) = Rsum (map (fun p => Rabs (fst p - snd p)) (combine x y)).
Proof. unfold manhattan_d. now rewrite nsum_Rsum. Qed.
Theorem hamming_textbook x y :
  hamming_d NumR (absdiff_pair NumR x y)
  = INR (length (filter (fun p => negb (Reqb (fst p) (snd p))) (combine x y))).
Proof.
  unfold hamming_d, absdiff_pair. rewrite of_nat_INR. f_equal.
  induction (combine x y) as [|[a b] l IH]; simpl; auto.
  assert (E : is_zero NumR (Rabs (a - b)) = Reqb a b).
  { unfold is_zero. cbn [eqb zero NumR]. destruct (Reqb a b) eqn:E.
    - apply Reqb_true in E. subst. apply Reqb_true. rewrite Rminus_diag_eq; auto. apply Rabs_R0.
    - apply Reqb_false in E. apply Reqb_false. intros H. apply E.
      destruct (Req_dec (a - b) 0) as [Z|Z]; [lra|]. pose proof (Rabs_pos_lt _ Z). lra. }
  unfold is_zero in E, IH. simpl in E, IH. rewrite E. destruct (Reqb a b); simpl; rewrite IH; reflexivity.
Qed.
Theorem chebyshev_textbook x y M : chebyshev_d NumR (absdiff_pair NumR x y) = Some M ->
  (exists p, In p (combine x y) /\ M = Rabs (fst p - snd p)) /\
  (forall p, In p (combine x y) -> Rabs (fst p - snd p) <= M).
Proof.
  unfold chebyshev_d, absdiff_pair. intros H. destruct (lmax_spec _ _ H) as [Hin Hall]. split.
  - apply in_map_iff in Hin as (p & Hp & Hin). eauto.
  - intros p Hp. rewrite Forall_forall in Hall. apply Hall.
    apply in_map_iff. exists p; auto.
Qed.

(* ------------------------------------------------------------------ normalize / impose_sum / impose_weight_norm *)
Lemma Lnorm1_nonzero w : Rsum w <> 0 -> Lnorm1 NumR w <> 0.
Proof. rewrite Lnorm1_textbook. intros H Z. apply H. now apply Rsum_abs_zero. Qed.

Lemma normalize_form w mass zs zm : Rsum w <> 0 -> (mass <> 0 \/ zs = false) ->
  normalize NumR w mass zs zm = Some (map (fun t => t * (mass / Rsum w)) w).
Proof.
  intros Hs Hc. pose proof (Lnorm1_nonzero _ Hs) as Ha. unfold normalize.
  set (a := Lnorm1 NumR w) in *.
  destruct (is_zero NumR a) eqn:E; [apply is_zero_true in E; contradiction|].
  assert (C : (negb (is_zero NumR mass) || negb zs)%bool = true).
  { destruct Hc as [Hm| ->]; [|apply orb_true_r]. apply is_zero_false in Hm. now rewrite Hm. }
  rewrite C. cbv zeta. rewrite nsum_Rsum.
  assert (M : Rsum (map (fun t : T NumR => div NumR t a) w) = Rsum w / a).
  { cbn [div NumR]. unfold Rdiv. rewrite (Rsum_scale_w (/ a)). lra. }
  rewrite M. destruct (is_zero NumR (Rsum w / a)) eqn:E2.
  - apply is_zero_true in E2. exfalso. apply Hs.
    replace (Rsum w) with (Rsum w / a * a) by (field; auto). rewrite E2. lra.
  - f_equal. rewrite !map_map. apply map_ext. intros t. cbn [div mul NumR]. field. split; auto.
Qed.

Theorem normalize_hits w mass zs zm : Rsum w <> 0 -> (mass <> 0 \/ zs = false) ->
  exists r, normalize NumR w mass zs zm = Some r /\ length r = length w /\ Rsum r = mass.
Proof.
  intros Hs Hc. eexists. split; [apply normalize_form; auto|]. split; [apply map_length|].
  rewrite Rsum_scale_w. field; auto.
Qed.
Theorem impose_sum_hits w mass zs zm : Rsum w <> 0 -> (mass <> 0 \/ zs = false) ->
  exists r, impose_sum NumR mass w zs zm = Some r /\ length r = length w /\ Rsum r = mass.
Proof. apply normalize_hits. Qed.

Lemma set_nth_last {A} (l : list A) (b v : A) : set_nth (l ++ [b]) (length l) v = l ++ [v].
Proof. induction l; simpl; auto. now rewrite IHl. Qed.

(* mass = 0 with the counterbalance option: the last weight is replaced so that the total is 0 *)
Theorem normalize_zsum_hits w zm : Rsum (map Rabs w) <> 0 ->
  exists r, normalize NumR w 0 true zm = Some r /\ length r = length w /\ Rsum r = 0.
Proof.
  intros Ha. unfold normalize. rewrite <- Lnorm1_textbook in Ha. set (a := Lnorm1 NumR w) in *.
  destruct (is_zero NumR a) eqn:E; [apply is_zero_true in E; contradiction|].
  replace (is_zero NumR 0) with true by (symmetry; now apply is_zero_true). cbn [negb orb].
  destruct (@rev (T NumR) w) as [|lst t] eqn:Er.
  - exfalso. apply Ha. unfold a. assert (w = []) as -> by (apply (f_equal (@rev R)) in Er; now rewrite rev_involutive in Er).
    rewrite Lnorm1_textbook. reflexivity.
  - assert (Hw : w = rev t ++ [lst]) by (apply (f_equal (@rev R)) in Er; now rewrite rev_involutive in Er).
    eexists. split; [reflexivity|]. rewrite map_length, nsum_Rsum. rewrite Hw.
    replace (length (rev t ++ [lst]) - 1)%nat with (length (rev t)) by (rewrite app_length; simpl; lia).
    rewrite set_nth_last. split.
    + rewrite !app_length. reflexivity.
    + cbn [div mul opp sub NumR].
      rewrite (Rsum_map_ext _ (fun t0 => (zm / a) * t0)) by (intros; field; auto).
      rewrite Rsum_map_scale, Rsum_map_id, !Rsum_app. simpl. toR. lra.
Qed.
(* degenerate weights: nothing can be scaled, the answer is all zeros (total 0, not mass) *)
Theorem normalize_degenerate w mass zm : Rsum (map Rabs w) = 0 \/ Rsum w = 0 ->
  normalize NumR w mass false zm = Some (zeros NumR w).
Proof.
  intros H. unfold normalize. rewrite <- Lnorm1_textbook in H. set (a := Lnorm1 NumR w) in *.
  destruct (is_zero NumR a) eqn:E; auto. rewrite orb_true_r. cbv zeta. rewrite nsum_Rsum.
  apply is_zero_false in E. destruct H as [H|H]; [contradiction|].
  replace (Rsum (map (fun t : T NumR => div NumR t a) w)) with (Rsum w / a).
  - rewrite H. replace (is_zero NumR (0 / a)) with true; auto. symmetry. apply is_zero_true. toR. unfold Rdiv. lra.
  - cbn [div NumR]. unfold Rdiv. rewrite (Rsum_scale_w (/ a)). lra.
Qed.

(* shared core of impose_weight_norm / impose_support / impose_unweighted:
   rescale the (edited) weights w1 to the total n, then re-impose the mean m under the new weights *)
Lemma reweigh_core (m n : R) (x w1 : list R) :
  length x = length w1 -> Rsum w1 <> 0 -> n <> 0 ->
  exists y wts,
    obind (normalize NumR w1 n false 1) (fun wts =>
    obind (impose_mean NumR m x (Some wts)) (fun y => Some (y, wts))) = Some (y, wts) /\
    wts = map (fun t => t * (n / Rsum w1)) w1 /\ n / Rsum w1 <> 0 /\ Rsum wts = n /\
    length y = length x /\ mean NumR y (Some wts) = Some m.
Proof.
  intros Hl Hs Hn. rewrite normalize_form by auto. cbn [obind].
  set (wts := map (fun t => t * (n / Rsum w1)) w1).
  assert (Hsum : Rsum wts = n) by (unfold wts; rewrite Rsum_scale_w; field; auto).
  assert (Hwf : wf x (Some wts)) by (apply wf_some; [unfold wts; now rewrite map_length|rewrite Hsum; auto]).
  destruct (impose_mean_hits m x (Some wts) Hwf) as (y & Hy & Hly & Hm).
  exists y, wts. change (T NumR) with R in *. rewrite Hy. cbn [obind]. repeat split; auto.
  unfold Rdiv. apply Rmult_integral_contrapositive_currified; auto. now apply Rinv_neq_0_compat.
Qed.

Theorem impose_weight_norm_hits x w mass : length x = length w -> Rsum w <> 0 -> mass <> 0 ->
  exists y wts, impose_weight_norm NumR x w mass = Some (y, wts) /\
                Rsum wts = mass /\ mean NumR y (Some wts) = mean NumR x (Some w).
Proof.
  intros Hl Hs Hm. unfold impose_weight_norm. rewrite mean_weighted_sum by auto. cbn [obind].
  destruct (reweigh_core (dotR x w / Rsum w) mass x w Hl Hs Hm) as (y & wts & H1 & _ & _ & H3 & _ & H4).
  exists y, wts. cbn [one NumR]. change (T NumR) with R in *. rewrite H1. repeat split; auto.
  rewrite H4. symmetry. apply mean_weighted_sum; auto.
Qed.

(* ------------------------------------------------------------------ impose_support / impose_unweighted *)
Definition designated (index : option (list Z)) (n i : nat) : bool :=
  match index with None => true | Some ix => in_index n ix i end.

Lemma nth_map_enum_from (g : nat * R -> R) (l : list R) (s i : nat) (d : R) :
  (i < length l)%nat -> nth i (map g (combine (seq s (length l)) l)) d = g ((s + i)%nat, nth i l 0).
Proof.
  revert s i; induction l as [|a l IH]; intros s i H; simpl in *; [lia|].
  destruct i; [now rewrite Nat.add_0_r|]. rewrite IH by lia. f_equal. f_equal. lia.
Qed.
Lemma nth_map_enumerate (g : nat * R -> R) (l : list R) (i : nat) (d : R) :
  (i < length l)%nat -> nth i (map g (enumerate l)) d = g (i, nth i l 0).
Proof. intros H. unfold enumerate. now rewrite nth_map_enum_from. Qed.
Lemma length_map_enumerate (g : nat * R -> R) (l : list R) : length (map g (enumerate l)) = length l.
Proof. unfold enumerate. rewrite map_length, combine_length, seq_length. lia. Qed.

Lemma keep_weights_length index w : length (keep_weights NumR index w) = length w.
Proof. destruct index; simpl; auto. apply length_map_enumerate. Qed.
Lemma drop_weights_length index w : length (drop_weights NumR index w) = length w.
Proof. destruct index; simpl; auto. apply length_map_enumerate. Qed.
Lemma nth_keep_weights index w i : (i < length w)%nat ->
  nth i (keep_weights NumR index w) 0 = if designated index (length w) i then nth i w 0 else 0.
Proof. intros H. destruct index as [ix|]; simpl; auto. now rewrite nth_map_enumerate. Qed.
Lemma nth_drop_weights index w i : (i < length w)%nat ->
  nth i (drop_weights NumR index w) 0 = if designated (match index with None => Some [] | s => s end) (length w) i then 0 else nth i w 0.
Proof. intros H. destruct index as [ix|]; simpl; auto. now rewrite nth_map_enumerate. Qed.

Lemma nth_scaled (c : R) l i : nth i (map (fun t => t * c) l) 0 = nth i l 0 * c.
Proof. rewrite <- (map_nth (fun t => t * c)). f_equal. lra. Qed.

(* impose_support: weights outside [index] become exactly 0, the others are multiplied by one non-zero factor;
   the total weight and the weighted mean (under the new weights) are the old ones *)
Theorem impose_support_spec index x w :
  length x = length w -> Rsum w <> 0 -> Rsum (keep_weights NumR index w) <> 0 ->
  exists y wts c,
    impose_support NumR index x w = Some (y, wts) /\ c <> 0 /\ length wts = length w /\ length y = length x /\
    (forall i, (i < length w)%nat ->
       nth i wts 0 = if designated index (length w) i then nth i w 0 * c else 0) /\
    Rsum wts = Rsum w /\ mean NumR y (Some wts) = mean NumR x (Some w).
Proof.
  intros Hl Hs Hk. unfold impose_support. rewrite mean_weighted_sum by auto. cbn [obind]. rewrite nsum_Rsum.
  destruct (reweigh_core (dotR x w / Rsum w) (Rsum w) x (keep_weights NumR index w))
    as (y & wts & H1 & H2 & H3 & H4 & H5 & H6); auto.
  { now rewrite keep_weights_length. }
  exists y, wts, (Rsum w / Rsum (keep_weights NumR index w)). cbn [one NumR]. change (T NumR) with R in *. rewrite H1.
  repeat split; auto.
  - now rewrite H2, map_length, keep_weights_length.
  - intros i Hi. rewrite H2, nth_scaled, nth_keep_weights by auto.
    change (T NumR) with R. destruct (designated index (length w) i); ring.
  - rewrite H6. symmetry. apply mean_weighted_sum; auto.
Qed.

Corollary impose_support_zeroes_exactly index x w :
  length x = length w -> Rsum w <> 0 -> Rsum (keep_weights NumR index w) <> 0 ->
  exists y wts, impose_support NumR index x w = Some (y, wts) /\
    forall i, (i < length w)%nat ->
      (nth i wts 0 = 0 <-> (designated index (length w) i = false \/ nth i w 0 = 0)).
Proof.
  intros Hl Hs Hk. destruct (impose_support_spec index x w Hl Hs Hk) as (y & wts & c & H1 & Hc & _ & _ & Hn & _).
  exists y, wts. split; auto. intros i Hi. rewrite (Hn i Hi).
  destruct (designated index (length w) i); split; intros H; auto.
  - right. apply Rmult_integral in H. destruct H; auto. contradiction.
  - destruct H as [H|H]; [discriminate|]. rewrite H. lra.
Qed.
(* nothing left to carry the weight: no finite answer *)
Theorem impose_support_undefined index x w :
  Rsum w <> 0 -> Rsum (keep_weights NumR index w) = 0 -> impose_support NumR index x w = None.
Proof.
  intros Hs Hk. unfold impose_support. destruct (mean NumR x _) as [m|]; [|reflexivity]. cbn [obind].
  rewrite normalize_degenerate by auto. cbn [obind]. unfold impose_mean.
  rewrite mean_undefined_zero_weight; [reflexivity|].
  unfold zeros. cbn [mul zero NumR]. rewrite (Rsum_map_ext _ (fun _ => 0)) by (intros; lra).
  rewrite Rsum_map_const. lra.
Qed.

Theorem impose_unweighted_spec ix x w nullable :
  length x = length w -> Rsum w <> 0 -> Rsum (drop_weights NumR (Some ix) w) <> 0 ->
  exists y wts c,
    impose_unweighted NumR (Some ix) x w nullable = Some (y, wts) /\ c <> 0 /\ length wts = length w /\
    length y = length x /\
    (forall i, (i < length w)%nat ->
       nth i wts 0 = if in_index (length w) ix i then 0 else nth i w 0 * c) /\
    Rsum wts = Rsum w /\ mean NumR y (Some wts) = mean NumR x (Some w).
Proof.
  intros Hl Hs Hk. unfold impose_unweighted. rewrite mean_weighted_sum by auto. cbn [obind]. cbv zeta.
  rewrite !nsum_Rsum.
  replace (is_zero NumR (Rsum (drop_weights NumR (Some ix) w))) with false
    by (symmetry; now apply is_zero_false). rewrite andb_false_r.
  destruct (reweigh_core (dotR x w / Rsum w) (Rsum w) x (drop_weights NumR (Some ix) w))
    as (y & wts & H1 & H2 & H3 & H4 & H5 & H6); auto.
  { now rewrite drop_weights_length. }
  exists y, wts, (Rsum w / Rsum (drop_weights NumR (Some ix) w)). cbn [one NumR]. change (T NumR) with R in *. rewrite H1.
  repeat split; auto.
  - now rewrite H2, map_length, drop_weights_length.
  - intros i Hi. rewrite H2, nth_scaled. rewrite (nth_drop_weights (Some ix)) by auto.
    cbn [designated]. change (T NumR) with R. destruct (in_index (length w) ix i); ring.
  - rewrite H6. symmetry. apply mean_weighted_sum; auto.
Qed.
Corollary impose_unweighted_zeroes_exactly ix x w nullable :
  length x = length w -> Rsum w <> 0 -> Rsum (drop_weights NumR (Some ix) w) <> 0 ->
  exists y wts, impose_unweighted NumR (Some ix) x w nullable = Some (y, wts) /\
    forall i, (i < length w)%nat ->
      (nth i wts 0 = 0 <-> (in_index (length w) ix i = true \/ nth i w 0 = 0)).
Proof.
  intros Hl Hs Hk.
  destruct (impose_unweighted_spec ix x w nullable Hl Hs Hk) as (y & wts & c & H1 & Hc & _ & _ & Hn & _).
  exists y, wts. split; auto. intros i Hi. rewrite (Hn i Hi).
  destruct (in_index (length w) ix i); split; intros H; auto.
  - right. apply Rmult_integral in H. destruct H; auto. contradiction.
  - destruct H as [H|H]; [discriminate|]. rewrite H. lra.
Qed.

(* ------------------------------------------------------------------ impose_collapse *)
Lemma set_nth_length {A} (l : list A) i a : length (set_nth l i a) = length l.
Proof. revert i; induction l; intros [|i]; simpl; auto. Qed.
Lemma nth_set_nth_eq {A} (l : list A) i a d : (i < length l)%nat -> nth i (set_nth l i a) d = a.
Proof. revert i; induction l; intros [|i] H; simpl in *; try lia; auto. apply IHl; lia. Qed.
Lemma nth_set_nth_neq {A} (l : list A) i j a d : i <> j -> nth j (set_nth l i a) d = nth j l d.
Proof. revert i j; induction l; intros [|i] [|j] H; simpl; auto; try congruence. Qed.
Lemma Rsum_set_nth (l : list R) i a : (i < length l)%nat -> Rsum (set_nth l i a) = Rsum l - nth i l 0 + a.
Proof.
  revert i; induction l as [|b l IH]; intros [|i] H; simpl in *; try lia; try lra.
  rewrite IH by lia. lra.
Qed.

(* the inner loop of one dict entry *)
Definition cinner (i : nat) (ks : list nat) (st : list R * list R * R) : list R * list R * R :=
  fold_left (fun (st : list R * list R * R) k =>
               let '(x, w, v) := st in (set_nth x k (nth i x 0), set_nth w k 0, v + nth k w 0)) ks st.

Lemma collapse_entry_cinner x w i ks :
  collapse_entry NumR (x, w) (i, ks) =
  (fst (fst (cinner i ks (x, w, nth i w 0))),
   set_nth (snd (fst (cinner i ks (x, w, nth i w 0)))) i (snd (cinner i ks (x, w, nth i w 0)))).
Proof.
  unfold collapse_entry, cinner. cbn [fst snd add zero NumR]. change (T NumR) with R.
  match goal with |- context [fold_left ?f ks ?s] => destruct (fold_left f ks s) as [[x1 w1] v1] end.
  reflexivity.
Qed.

Lemma cinner_lengths i ks x w v :
  length (fst (fst (cinner i ks (x, w, v)))) = length x /\
  length (snd (fst (cinner i ks (x, w, v)))) = length w.
Proof.
  revert x w v; induction ks as [|k ks IH]; intros x w v; [simpl; auto|].
  change (cinner i (k :: ks) (x, w, v)) with (cinner i ks (set_nth x k (nth i x 0), set_nth w k 0, v + nth k w 0)).
  destruct (IH (set_nth x k (nth i x 0)) (set_nth w k 0) (v + nth k w 0)) as [H1 H2].
  now rewrite H1, H2, !set_nth_length.
Qed.

Lemma cinner_total i ks x w v :
  ~ In i ks -> Forall (fun k => (k < length w)%nat) ks ->
  snd (cinner i ks (x, w, v)) + Rsum (snd (fst (cinner i ks (x, w, v)))) = v + Rsum w /\
  nth i (snd (fst (cinner i ks (x, w, v)))) 0 = nth i w 0.
Proof.
  revert x w v; induction ks as [|k ks IH]; intros x w v Hi Hk; [simpl; auto|].
  change (cinner i (k :: ks) (x, w, v)) with (cinner i ks (set_nth x k (nth i x 0), set_nth w k 0, v + nth k w 0)).
  inversion Hk as [|? ? Hk1 Hk2]; subst.
  destruct (IH (set_nth x k (nth i x 0)) (set_nth w k 0) (v + nth k w 0)) as [H1 H2].
  - intros H; apply Hi; now right.
  - rewrite set_nth_length; auto.
  - rewrite H1, H2, Rsum_set_nth by auto. split; [lra|].
    apply nth_set_nth_neq. intros ->. apply Hi; now left.
Qed.

Definition entry_ok (n : nat) (e : nat * list nat) : Prop :=
  (fst e < n)%nat /\ ~ In (fst e) (snd e) /\ Forall (fun k => (k < n)%nat) (snd e).

Lemma collapse_entry_lengths x w e :
  length (fst (collapse_entry NumR (x, w) e)) = length x /\
  length (snd (collapse_entry NumR (x, w) e)) = length w.
Proof.
  destruct e as [i ks]. rewrite collapse_entry_cinner. cbn [fst snd].
  destruct (cinner_lengths i ks x w (nth i w 0)) as [H1 H2]. now rewrite set_nth_length.
Qed.

Lemma collapse_entry_total x w e : entry_ok (length w) e ->
  Rsum (snd (collapse_entry NumR (x, w) e)) = Rsum w.
Proof.
  destruct e as [i ks]. intros (Hi & Hn & Hk). cbn [fst snd] in *.
  rewrite collapse_entry_cinner. cbn [fst snd].
  destruct (cinner_lengths i ks x w (nth i w 0)) as [_ L].
  destruct (cinner_total i ks x w (nth i w 0) Hn Hk) as [H1 H2].
  change (T NumR) with R in *.
  rewrite Rsum_set_nth by (rewrite L; auto). rewrite H2. lra.
Qed.

Lemma collapse_weights_lengths d x w :
  length (fst (collapse_weights NumR d x w)) = length x /\
  length (snd (collapse_weights NumR d x w)) = length w.
Proof.
  unfold collapse_weights. revert x w; induction d as [|e d IH]; intros x w; [simpl; auto|].
  cbn [fold_left]. destruct (collapse_entry NumR (x, w) e) as [x1 w1] eqn:E.
  destruct (collapse_entry_lengths x w e) as [H1 H2]. rewrite E in H1, H2. cbn [fst snd] in *.
  destruct (IH x1 w1) as [H3 H4]. now rewrite H3, H4.
Qed.

Lemma collapse_weights_total d x w : Forall (entry_ok (length w)) d ->
  Rsum (snd (collapse_weights NumR d x w)) = Rsum w.
Proof.
  unfold collapse_weights. revert x w; induction d as [|e d IH]; intros x w H; [reflexivity|].
  inversion H as [|? ? He Hd]; subst. cbn [fold_left].
  destruct (collapse_entry NumR (x, w) e) as [x1 w1] eqn:E.
  pose proof (collapse_entry_total x w e He) as T. destruct (collapse_entry_lengths x w e) as [_ L].
  rewrite E in T, L. cbn [fst snd] in *. rewrite IH; auto. now rewrite L.
Qed.

Lemma in_range_spec n d : in_range n d = true ->
  Forall (fun e => (fst e < n)%nat /\ Forall (fun k => (k < n)%nat) (snd e)) d.
Proof.
  unfold in_range. rewrite forallb_forall, Forall_forall. intros H e He.
  specialize (H e He). apply andb_true_iff in H as [H1 H2]. apply Nat.ltb_lt in H1. split; auto.
  rewrite forallb_forall in H2. rewrite Forall_forall. intros k Hk. apply Nat.ltb_lt. auto.
Qed.

Lemma mean_some_nonzero x w m : mean NumR x (Some w) = Some m -> Rsum w <> 0.
Proof. intros H Z. rewrite mean_undefined_zero_weight in H by auto. discriminate. Qed.

(* whatever the pair set, the weighted mean under the returned weights is the old weighted mean *)
Theorem impose_collapse_keeps_mean pairs x w y wts :
  length x = length w -> impose_collapse NumR pairs x w = Some (y, wts) ->
  length wts = length w /\ length y = length x /\ mean NumR y (Some wts) = mean NumR x (Some w).
Proof.
  intros Hl. unfold impose_collapse. destruct (mean NumR x _) as [m|] eqn:Em; [|discriminate]. cbn [obind].
  destruct (all_some _) as [ps|]; [|discriminate]. cbn [obind]. cbv zeta.
  destruct (in_range (length w) (connected ps) && in_range (length x) (connected ps))%bool; [|discriminate].
  destruct (collapse_weights_lengths (connected ps) x w) as [L1 L2].
  set (xw := collapse_weights NumR (connected ps) x w) in *.
  destruct (impose_mean NumR m (fst xw) (Some (snd xw))) as [y'|] eqn:Ey; [|discriminate]. cbn [obind].
  intros H; injection H as <- <-.
  assert (Hnz : Rsum (snd xw) <> 0).
  { unfold impose_mean in Ey. destruct (mean NumR (fst xw) _) as [mu|] eqn:E2; [|discriminate].
    eapply mean_some_nonzero; eauto. }
  change (T NumR) with R in *.
  assert (Hwf : wf (fst xw) (Some (snd xw))) by (apply wf_some; auto; lia).
  destruct (impose_mean_hits m _ _ Hwf) as (y2 & Hy2 & Hly & Hm). change (T NumR) with R in *.
  rewrite Ey in Hy2. injection Hy2 as <-. repeat split; auto; lia.
Qed.

(* generic step (any dict): the total weight is preserved when no key of the dict sits in its own member set;
   [impose_collapse_keeps_total] below discharges the premise for every pair selection *)
Theorem impose_collapse_keeps_total_partial pairs ps x w y wts :
  length x = length w ->
  all_some (map (pair_index (length w)) pairs) = Some ps ->
  Forall (fun e => ~ In (fst e) (snd e)) (connected ps) ->
  impose_collapse NumR pairs x w = Some (y, wts) ->
  Rsum wts = Rsum w.
Proof.
  intros Hl Hps Hok. unfold impose_collapse. destruct (mean NumR x _) as [m|]; [|discriminate]. cbn [obind].
  rewrite Hps. cbn [obind]. cbv zeta.
  destruct (in_range (length w) (connected ps)) eqn:R1; [|discriminate]. cbn [andb].
  destruct (in_range (length x) (connected ps)); [|discriminate].
  destruct (impose_mean NumR m _ _) as [y'|]; [|discriminate]. cbn [obind].
  intros H; injection H as _ <-. apply collapse_weights_total.
  pose proof (in_range_spec _ _ R1) as B. rewrite Forall_forall in *. intros e He.
  destruct (B e He). split; [|split]; auto.
Qed.

(* error branch: an index beyond the end raises IndexError *)
Theorem impose_collapse_out_of_range pairs ps x w :
  all_some (map (pair_index (length w)) pairs) = Some ps ->
  in_range (length w) (connected ps) = false -> impose_collapse NumR pairs x w = None.
Proof.
  intros Hps Hr. unfold impose_collapse. destruct (mean NumR x _); auto. cbn [obind].
  rewrite Hps. cbn [obind]. cbv zeta. now rewrite Hr.
Qed.

(* ---- which weights impose_collapse zeroes *)
Lemma nth_set_nth_zero (l : list R) j k : nth k l 0 = 0 -> nth k (set_nth l j 0) 0 = 0.
Proof.
  intros H. destruct (Nat.eq_dec j k) as [->|Hn]; [|now rewrite nth_set_nth_neq].
  destruct (Nat.lt_ge_cases k (length l)); [now apply nth_set_nth_eq|].
  apply nth_overflow. now rewrite set_nth_length.
Qed.

Lemma cinner_keeps_zero i ks x w v k :
  nth k w 0 = 0 -> nth k (snd (fst (cinner i ks (x, w, v)))) 0 = 0.
Proof.
  revert x w v; induction ks as [|k0 ks IH]; intros x w v H; [exact H|].
  change (cinner i (k0 :: ks) (x, w, v)) with (cinner i ks (set_nth x k0 (nth i x 0), set_nth w k0 0, v + nth k0 w 0)).
  apply IH. now apply nth_set_nth_zero.
Qed.

Lemma cinner_zero_member i ks x w v k :
  In k ks -> nth k (snd (fst (cinner i ks (x, w, v)))) 0 = 0.
Proof.
  revert x w v; induction ks as [|k0 ks IH]; intros x w v H; [destruct H|].
  change (cinner i (k0 :: ks) (x, w, v)) with (cinner i ks (set_nth x k0 (nth i x 0), set_nth w k0 0, v + nth k0 w 0)).
  destruct (Nat.eq_dec k0 k) as [->|Hn].
  - apply cinner_keeps_zero.
    destruct (Nat.lt_ge_cases k (length w)); [now apply nth_set_nth_eq|].
    apply nth_overflow. now rewrite set_nth_length.
  - apply IH. destruct H; [contradiction|auto].
Qed.

Lemma collapse_entry_zero_member x w i ks k : In k ks -> k <> i ->
  nth k (snd (collapse_entry NumR (x, w) (i, ks))) 0 = 0.
Proof.
  intros Hk Hn. rewrite collapse_entry_cinner. cbn [snd]. rewrite nth_set_nth_neq by auto.
  now apply cinner_zero_member.
Qed.
Lemma collapse_entry_keeps_zero x w i ks k : nth k w 0 = 0 -> k <> i ->
  nth k (snd (collapse_entry NumR (x, w) (i, ks))) 0 = 0.
Proof.
  intros Hk Hn. rewrite collapse_entry_cinner. cbn [snd]. rewrite nth_set_nth_neq by auto.
  now apply cinner_keeps_zero.
Qed.

Lemma collapse_weights_keeps_zero d x w k :
  nth k w 0 = 0 -> (forall e, In e d -> k <> fst e) ->
  nth k (snd (collapse_weights NumR d x w)) 0 = 0.
Proof.
  unfold collapse_weights. revert x w; induction d as [|[i ks] d IH]; intros x w H Hk; [exact H|].
  cbn [fold_left]. change (T NumR) with R in *. destruct (collapse_entry NumR (x, w) (i, ks)) as [x1 w1] eqn:E.
  apply IH.
  - pose proof (collapse_entry_keeps_zero x w i ks k H) as Z. change (T NumR) with R in Z. rewrite E in Z. apply Z.
    apply (Hk (i, ks)). now left.
  - intros e He. apply Hk. now right.
Qed.

(* generic step (any dict): when no member of any set is also a key, every member ends with weight exactly 0;
   [connected_no_key_member] below shows that tools.connected always returns such a dict *)
Lemma collapse_weights_zero_members d x w :
  (forall e e', In e d -> In e' d -> ~ In (fst e) (snd e')) ->
  forall e k, In e d -> In k (snd e) -> nth k (snd (collapse_weights NumR d x w)) 0 = 0.
Proof.
  unfold collapse_weights. revert x w; induction d as [|[i ks] d IH]; intros x w Hflat e k He Hk; [destruct He|].
  cbn [fold_left]. change (T NumR) with R in *. destruct (collapse_entry NumR (x, w) (i, ks)) as [x1 w1] eqn:E.
  destruct He as [<-|He].
  - cbn [snd] in Hk.
    apply (collapse_weights_keeps_zero d x1 w1 k).
    + pose proof (collapse_entry_zero_member x w i ks k Hk) as Z. change (T NumR) with R in Z. rewrite E in Z. apply Z.
      intros ->. apply (Hflat (i, ks) (i, ks)); try now left. exact Hk.
    + intros e' He' ->. apply (Hflat e' (i, ks)); [now right|now left|exact Hk].
  - apply (IH x1 w1) with (e := e); auto.
    intros a b Ha Hb. apply Hflat; now right.
Qed.

Theorem impose_collapse_zeroes_members_partial pairs ps x w y wts :
  all_some (map (pair_index (length w)) pairs) = Some ps ->
  (forall e e', In e (connected ps) -> In e' (connected ps) -> ~ In (fst e) (snd e')) ->
  impose_collapse NumR pairs x w = Some (y, wts) ->
  forall e k, In e (connected ps) -> In k (snd e) -> nth k wts 0 = 0.
Proof.
  intros Hps Hflat. unfold impose_collapse. destruct (mean NumR x _) as [m|]; [|discriminate]. cbn [obind].
  rewrite Hps. cbn [obind]. cbv zeta.
  destruct (in_range (length w) (connected ps) && in_range (length x) (connected ps))%bool; [|discriminate].
  destruct (impose_mean NumR m _ _) as [y'|]; [|discriminate]. cbn [obind].
  intros H; injection H as _ <-. intros e k He Hk.
  eapply collapse_weights_zero_members; eauto.
Qed.

(* ------------------------------------------------------------------ additions *)
(* Python index semantics of the support surgery: non-negative entries address from the front, negative ones from the end *)
Lemma pyidx_spec n z j :
  pyidx n z = Some j <->
  ((0 <= z)%Z /\ Z.to_nat z = j \/ (z < 0)%Z /\ (0 <= Z.of_nat n + z)%Z /\ Z.to_nat (Z.of_nat n + z) = j).
Proof.
  unfold pyidx. cbv zeta. destruct (z <? 0)%Z eqn:E1; cbv iota.
  - apply Z.ltb_lt in E1. destruct (Z.of_nat n + z <? 0)%Z eqn:E2.
    + apply Z.ltb_lt in E2. split; [discriminate|]. intros [[H _]|(_ & H & _)]; lia.
    + apply Z.ltb_ge in E2. split.
      * intros H; injection H as <-. right; auto.
      * intros [[H _]|(_ & _ & H)]; [lia|now rewrite H].
  - rewrite E1. apply Z.ltb_ge in E1. split.
    + intros H; injection H as <-. left; auto.
    + intros [[_ H]|(H & _)]; [now rewrite H|lia].
Qed.
Lemma in_index_spec n ix i :
  in_index n ix i = true <->
  exists z, In z ix /\ ((0 <= z)%Z /\ Z.to_nat z = i \/ (z < 0)%Z /\ (0 <= Z.of_nat n + z)%Z /\ Z.to_nat (Z.of_nat n + z) = i).
Proof.
  unfold in_index. rewrite existsb_exists. split.
  - intros (z & Hz & H). exists z. split; auto. destruct (pyidx n z) as [j|] eqn:E; [|discriminate].
    apply Nat.eqb_eq in H. subst. now apply pyidx_spec.
  - intros (z & Hz & H). exists z. split; auto. apply pyidx_spec in H. rewrite H. apply Nat.eqb_refl.
Qed.

(* impose_unweighted with index=None zeroes nothing: it is impose_support with index=None *)
Theorem impose_unweighted_none x w nullable : Rsum w <> 0 ->
  impose_unweighted NumR None x w nullable = impose_support NumR None x w.
Proof.
  intros Hs. unfold impose_unweighted, impose_support. cbn [drop_weights keep_weights]. cbv zeta.
  rewrite nsum_Rsum. replace (is_zero NumR (Rsum w)) with false by (symmetry; now apply is_zero_false).
  now rewrite andb_false_r.
Qed.

(* nullable=False and nothing left outside [index]: the remaining positions share the total weight equally *)
Lemma ones_outside_length index w : length (ones_outside NumR index w) = length w.
Proof. destruct index; simpl; [apply length_map_enumerate|apply map_length]. Qed.
Lemma nth_ones_outside ix w i : (i < length w)%nat ->
  nth i (ones_outside NumR (Some ix) w) 0 = if in_index (length w) ix i then 0 else 1.
Proof. intros H. cbn [ones_outside]. now rewrite nth_map_enumerate. Qed.

Theorem impose_unweighted_refilled_spec ix x w :
  length x = length w -> Rsum w <> 0 -> Rsum (drop_weights NumR (Some ix) w) = 0 ->
  Rsum (ones_outside NumR (Some ix) w) <> 0 ->
  exists y wts c,
    impose_unweighted NumR (Some ix) x w false = Some (y, wts) /\ c <> 0 /\ length wts = length w /\
    length y = length x /\
    (forall i, (i < length w)%nat -> nth i wts 0 = if in_index (length w) ix i then 0 else c) /\
    Rsum wts = Rsum w /\ mean NumR y (Some wts) = mean NumR x (Some w).
Proof.
  intros Hl Hs Hk Ho. unfold impose_unweighted. rewrite mean_weighted_sum by auto. cbn [obind]. cbv zeta.
  rewrite !nsum_Rsum.
  replace (is_zero NumR (Rsum (drop_weights NumR (Some ix) w))) with true
    by (symmetry; now apply is_zero_true). cbn [negb andb].
  destruct (reweigh_core (dotR x w / Rsum w) (Rsum w) x (ones_outside NumR (Some ix) w))
    as (y & wts & H1 & H2 & H3 & H4 & H5 & H6); auto.
  { now rewrite ones_outside_length. }
  exists y, wts, (Rsum w / Rsum (ones_outside NumR (Some ix) w)). cbn [one NumR]. change (T NumR) with R in *. rewrite H1.
  repeat split; auto.
  - now rewrite H2, map_length, ones_outside_length.
  - intros i Hi. rewrite H2, nth_scaled. rewrite nth_ones_outside by auto.
    change (T NumR) with R. destruct (in_index (length w) ix i); ring.
  - rewrite H6. symmetry. apply mean_weighted_sum; auto.
Qed.

(* normalize(weights, 'l1'): the absolute values sum to 1 *)
Lemma Rsum_abs_scale (c : R) (w : list R) : 0 < c -> Rsum (map Rabs (map (fun t => t / c) w)) = Rsum (map Rabs w) / c.
Proof.
  intros Hc. rewrite map_map. rewrite (Rsum_map_ext _ (fun t => / c * Rabs t)).
  - rewrite Rsum_map_scale. unfold Rdiv. lra.
  - intros t _. unfold Rdiv. rewrite Rabs_mult, (Rabs_pos_eq (/ c)); [lra|].
    left. now apply Rinv_0_lt_compat.
Qed.
Theorem normalize_l1_hits w : Rsum (map Rabs w) <> 0 -> Rsum (map Rabs (normalize_l1 NumR w)) = 1.
Proof.
  intros H. unfold normalize_l1. rewrite Lnorm1_textbook.
  destruct (is_zero NumR (Rsum (map Rabs w))) eqn:E; [apply is_zero_true in E; contradiction|].
  pose proof (Rsum_abs_nonneg w) as P.
  change (map (fun t : T NumR => div NumR t (Rsum (map Rabs w))) w) with (map (fun t : R => t / Rsum (map Rabs w)) w).
  rewrite Rsum_abs_scale by lra. field; auto.
Qed.

Section SqrtL2.
  Variable sqrtf : R -> R.
  Hypothesis sqrt_sq : forall a, 0 <= a -> sqrtf a * sqrtf a = a.
  (* normalize(weights) (default 'l2'): the squares sum to 1 *)
  Theorem normalize_l2_hits w : Lnorm2 NumR sqrtf w <> 0 ->
    Rsum (map (fun t => t * t) (normalize_l2 NumR sqrtf w)) = 1.
  Proof.
    intros H. unfold normalize_l2. set (n := Lnorm2 NumR sqrtf w) in *.
    destruct (is_zero NumR n) eqn:E; [apply is_zero_true in E; contradiction|].
    rewrite map_map. cbn [div NumR].
    rewrite (Rsum_map_ext _ (fun t => / (n * n) * (t * t))) by (intros; field; auto).
    rewrite Rsum_map_scale. unfold n at 1 2. rewrite (Lnorm2_squared sqrtf sqrt_sq).
    fold n. rewrite <- (Lnorm2_squared sqrtf sqrt_sq w). fold n. field; auto.
  Qed.
End SqrtL2.

(* pair=False: all |x_i - x'_j| *)
Theorem chebyshev_all_textbook x y M : chebyshev_d NumR (absdiff_all NumR x y) = Some M ->
  (exists a b, In a x /\ In b y /\ M = Rabs (a - b)) /\
  (forall a b, In a x -> In b y -> Rabs (a - b) <= M).
Proof.
  unfold chebyshev_d, absdiff_all. intros H. destruct (lmax_spec _ _ H) as [Hin Hall]. split.
  - apply in_flat_map in Hin as (a & Ha & Hin). apply in_map_iff in Hin as (b & Hb & Hin). eauto.
  - intros a b Ha Hb. rewrite Forall_forall in Hall. apply Hall. apply in_flat_map. exists a. split; auto.
    apply in_map_iff. exists b; auto.
Qed.

(* ------------------------------------------------------------------ additions 2 *)
Lemma pyidx_of_nat n i : pyidx n (Z.of_nat i) = Some i.
Proof. apply pyidx_spec. left. split; [lia|apply Nat2Z.id]. Qed.

(* the basic promise of the docstring, for one proper pair (i,j): the weight of j moves onto i, nothing else changes *)
Theorem impose_collapse_single_pair i j x w y wts :
  i <> j -> (i < length w)%nat -> (j < length w)%nat -> length x = length w ->
  impose_collapse NumR [(Z.of_nat i, Z.of_nat j)] x w = Some (y, wts) ->
  nth j wts 0 = 0 /\ nth i wts 0 = nth i w 0 + nth j w 0 /\
  (forall k, k <> i -> k <> j -> nth k wts 0 = nth k w 0) /\ Rsum wts = Rsum w.
Proof.
  intros Hij Hi Hj Hl H.
  assert (Hps : all_some (map (pair_index (length w)) [(Z.of_nat i, Z.of_nat j)]) = Some [(i, j)]).
  { cbn [map all_some]. unfold pair_index. cbn [fst snd]. now rewrite !pyidx_of_nat. }
  assert (Hc : connected [(i, j)] = [(i, [j])]).
  { unfold connected. cbn [fold_left]. unfold conn_step. cbn [fst snd find_key].
    now rewrite (proj2 (Nat.eqb_neq i j) Hij). }
  split; [|split; [|split]].
  - eapply (impose_collapse_zeroes_members_partial _ _ x w y wts Hps); eauto.
    + rewrite Hc. intros e e' [<-|[]] [<-|[]]. cbn [fst snd]. intros [E|[]]. congruence.
    + rewrite Hc. left; reflexivity.
    + now left.
  - revert H. unfold impose_collapse. destruct (mean NumR x _) as [m|]; [|discriminate]. cbn [obind].
    change (T NumR) with R in *. rewrite Hps. cbn [obind]. cbv zeta. rewrite Hc.
    destruct (in_range (length w) [(i, [j])] && in_range (length x) [(i, [j])])%bool; [|discriminate].
    destruct (impose_mean NumR m _ _) as [y'|]; [|discriminate]. cbn [obind].
    intros H; injection H as _ <-. unfold collapse_weights. cbn [fold_left].
    rewrite nth_set_nth_eq by (rewrite set_nth_length; auto). reflexivity.
  - intros k Hki Hkj. revert H. unfold impose_collapse. destruct (mean NumR x _) as [m|]; [|discriminate]. cbn [obind].
    change (T NumR) with R in *. rewrite Hps. cbn [obind]. cbv zeta. rewrite Hc.
    destruct (in_range (length w) [(i, [j])] && in_range (length x) [(i, [j])])%bool; [|discriminate].
    destruct (impose_mean NumR m _ _) as [y'|]; [|discriminate]. cbn [obind].
    intros H; injection H as _ <-. unfold collapse_weights. cbn [fold_left].
    rewrite !nth_set_nth_neq by auto. reflexivity.
  - eapply (impose_collapse_keeps_total_partial _ _ x w y wts Hl Hps); eauto.
    rewrite Hc. constructor; [|constructor]. cbn [fst snd]. intros [E|[]]. congruence.
Qed.

(* ------------------------------------------------------------------ tools.connected (repaired): invariants *)
Lemma mem_In i s : mem i s = true <-> In i s.
Proof.
  unfold mem. rewrite existsb_exists. split.
  - intros (a & Ha & E). apply Nat.eqb_eq in E. now subst.
  - intros H. exists i. split; auto. apply Nat.eqb_refl.
Qed.
Lemma In_sadd a j v : In a (sadd j v) <-> a = j \/ In a v.
Proof.
  unfold sadd. destruct (mem j v) eqn:E.
  - apply mem_In in E. split; [auto|]. intros [->|H]; auto.
  - rewrite in_app_iff. simpl. split; [intros [H|[H|[]]]|intros [H|H]]; auto.
Qed.
Lemma In_fold_sadd a l v : In a (fold_left (fun s b => sadd b s) l v) <-> In a l \/ In a v.
Proof.
  revert v; induction l as [|b l IH]; intros v; simpl; [tauto|].
  rewrite IH, In_sadd. split; [intros [H|[H|H]]|intros [[H|H]|H]]; auto.
Qed.
Lemma find_key_none i d : find_key i d = None -> forall e, In e d -> i <> fst e /\ ~ In i (snd e).
Proof.
  induction d as [|[k v] d IH]; simpl; [intros _ e []|].
  destruct (Nat.eqb i k || mem i v)%bool eqn:E; [discriminate|]. intros H e [<-|He]; auto.
  apply orb_false_iff in E as [E1 E2]. apply Nat.eqb_neq in E1. simpl. split; auto.
  intros Hin. apply mem_In in Hin. congruence.
Qed.
Lemma find_key_some i d k : find_key i d = Some k -> exists v, In (k, v) d /\ (i = k \/ In i v).
Proof.
  induction d as [|[k0 v0] d IH]; simpl; [discriminate|].
  destruct (Nat.eqb i k0 || mem i v0)%bool eqn:E.
  - intros H; injection H as <-. exists v0. split; auto. apply orb_true_iff in E as [E|E].
    + apply Nat.eqb_eq in E. auto.
    + apply mem_In in E. auto.
  - intros H. destruct (IH H) as (v & Hv & Hi). exists v. auto.
Qed.
Lemma members_in a k d : In a (members k d) -> exists e, In e d /\ fst e = k /\ In a (snd e).
Proof.
  unfold members. destruct (find _ d) as [e|] eqn:E; [|intros []].
  apply find_some in E as [He Hk]. apply Nat.eqb_eq in Hk. eauto.
Qed.

(* no key of the dict is a member of any group (in particular not of its own) *)
Definition no_key_member (d : cdict) : Prop := forall e e', In e d -> In e' d -> ~ In (fst e) (snd e').

Lemma nkm_append d i j : no_key_member d -> find_key i d = None -> find_key j d = None -> i <> j ->
  no_key_member (d ++ [(i, [j])]).
Proof.
  intros Inv Hi Hj Hij e e' He He'. apply in_app_iff in He, He'.
  destruct He as [He|[<-|[]]], He' as [He'|[<-|[]]]; cbn [fst snd].
  - now apply Inv.
  - intros [E|[]]. destruct (find_key_none _ _ Hj e He). congruence.
  - destruct (find_key_none _ _ Hi e' He'). auto.
  - intros [E|[]]. congruence.
Qed.
Lemma nkm_add_member d k j : no_key_member d -> find_key j d = None -> no_key_member (add_member k j d).
Proof.
  intros Inv Hj e e' He He'. unfold add_member in *. apply in_map_iff in He as (e0 & <- & He0), He' as (e0' & <- & He0').
  assert (F : forall t : nat * list nat, fst (if Nat.eqb (fst t) k then (fst t, sadd j (snd t)) else t) = fst t)
    by (intros t; destruct (Nat.eqb (fst t) k); reflexivity).
  rewrite F. destruct (Nat.eqb (fst e0') k); cbn [snd].
  - rewrite In_sadd. intros [E|H]; [|now apply (Inv e0 e0')].
    destruct (find_key_none _ _ Hj e0 He0). congruence.
  - now apply Inv.
Qed.
Lemma nkm_merge d ki kj : no_key_member d -> no_key_member (merge_groups ki kj d).
Proof.
  intros Inv e e' He He'. unfold merge_groups in *. cbv zeta in *.
  apply in_map_iff in He as (e0 & <- & He0), He' as (e0' & <- & He0').
  apply filter_In in He0 as [He0 Hk0], He0' as [He0' Hk0'].
  apply negb_true_iff, Nat.eqb_neq in Hk0.
  assert (F : forall (t : nat * list nat) u, fst (if Nat.eqb (fst t) ki then (fst t, u) else t) = fst t)
    by (intros t u; destruct (Nat.eqb (fst t) ki); reflexivity).
  rewrite F. destruct (Nat.eqb (fst e0') ki); cbn [snd]; [|now apply Inv].
  rewrite In_sadd, In_fold_sadd. intros [E|[H|H]]; [congruence| |now apply (Inv e0 e0')].
  apply members_in in H as (e1 & He1 & _ & H). now apply (Inv e0 e1).
Qed.
Lemma nkm_step d p : no_key_member d -> no_key_member (conn_step d p).
Proof.
  intros Inv. unfold conn_step. cbv zeta. destruct (Nat.eqb (fst p) (snd p)) eqn:E; auto.
  apply Nat.eqb_neq in E.
  destruct (find_key (fst p) d) as [ki|] eqn:Ei, (find_key (snd p) d) as [kj|] eqn:Ej.
  - destruct (Nat.eqb ki kj); auto. now apply nkm_merge.
  - now apply nkm_add_member.
  - now apply nkm_add_member.
  - now apply nkm_append.
Qed.
Theorem connected_no_key_member ps : no_key_member (connected ps).
Proof.
  unfold connected. assert (G : forall d, no_key_member d -> no_key_member (fold_left conn_step ps d)).
  { induction ps as [|p ps IH]; intros d H; simpl; auto. apply IH. now apply nkm_step. }
  apply G. intros e e' [].
Qed.
Corollary connected_key_not_in_own_group ps : Forall (fun e => ~ In (fst e) (snd e)) (connected ps).
Proof. rewrite Forall_forall. intros e He. now apply (connected_no_key_member ps e e). Qed.

(* FULL statements for impose_collapse, for every pair selection *)
Lemma impose_collapse_all_some pairs x w y wts : impose_collapse NumR pairs x w = Some (y, wts) ->
  exists ps, all_some (map (pair_index (length w)) pairs) = Some ps.
Proof.
  unfold impose_collapse. destruct (mean NumR x _); [|discriminate]. cbn [obind].
  destruct (all_some _) as [ps|]; [eauto|discriminate].
Qed.
Theorem impose_collapse_keeps_total pairs x w y wts :
  length x = length w -> impose_collapse NumR pairs x w = Some (y, wts) -> Rsum wts = Rsum w.
Proof.
  intros Hl H. destruct (impose_collapse_all_some _ _ _ _ _ H) as [ps Hps].
  eapply impose_collapse_keeps_total_partial; eauto. apply connected_key_not_in_own_group.
Qed.
Theorem impose_collapse_zeroes_members pairs ps x w y wts :
  all_some (map (pair_index (length w)) pairs) = Some ps ->
  impose_collapse NumR pairs x w = Some (y, wts) ->
  forall e k, In e (connected ps) -> In k (snd e) -> nth k wts 0 = 0.
Proof.
  intros Hps H. eapply impose_collapse_zeroes_members_partial; eauto. apply connected_no_key_member.
Qed.

(* ---- the groups are pairwise disjoint: keys are unique, and two groups with different keys share no member
   (together with [no_key_member]: the sets {key} + members of different groups are disjoint) *)
Definition keys_unique (d : cdict) : Prop := NoDup (map fst d).
Definition groups_disjoint (d : cdict) : Prop :=
  forall e e', In e d -> In e' d -> fst e <> fst e' -> forall a, In a (snd e) -> ~ In a (snd e').

Lemma NoDup_snoc {A} (l : list A) a : NoDup l -> ~ In a l -> NoDup (l ++ [a]).
Proof.
  induction l as [|b l IH]; intros H Ha; simpl; [constructor; auto; constructor|].
  inversion H; subst. constructor.
  - rewrite in_app_iff. intros [F|[F|[]]]; auto. subst. apply Ha. now left.
  - apply IH; auto. intros F. apply Ha. now right.
Qed.
Lemma map_fst_add_member k j d : map fst (add_member k j d) = map fst d.
Proof.
  unfold add_member. rewrite map_map. apply map_ext. intros e. destruct (Nat.eqb (fst e) k); reflexivity.
Qed.
Lemma map_fst_filter_key kj (d : cdict) :
  map fst (filter (fun e => negb (Nat.eqb (fst e) kj)) d) = filter (fun k => negb (Nat.eqb k kj)) (map fst d).
Proof. induction d as [|e d IH]; simpl; auto. destruct (negb (Nat.eqb (fst e) kj)); simpl; now rewrite IH. Qed.
Lemma NoDup_filter' {A} (f : A -> bool) l : NoDup l -> NoDup (filter f l).
Proof.
  induction 1 as [|a l Ha H IH]; simpl; [constructor|]. destruct (f a); auto.
  constructor; auto. intros F. apply filter_In in F as [F _]. contradiction.
Qed.

Lemma ku_append d i j : keys_unique d -> find_key i d = None -> keys_unique (d ++ [(i, [j])]).
Proof.
  intros K Hi. unfold keys_unique. rewrite map_app. simpl. apply NoDup_snoc; auto.
  intros F. apply in_map_iff in F as (e & E & He). destruct (find_key_none _ _ Hi e He). congruence.
Qed.
Lemma ku_merge d ki kj : keys_unique d -> keys_unique (merge_groups ki kj d).
Proof.
  intros K. unfold keys_unique, merge_groups. cbv zeta. rewrite map_map.
  rewrite (map_ext _ fst) by (intros e; destruct (Nat.eqb (fst e) ki); reflexivity).
  rewrite map_fst_filter_key. now apply NoDup_filter'.
Qed.

Lemma gd_append d i j : groups_disjoint d -> find_key j d = None -> groups_disjoint (d ++ [(i, [j])]).
Proof.
  intros D Hj e e' He He' Hk a Ha Ha'. apply in_app_iff in He, He'.
  destruct He as [He|[<-|[]]], He' as [He'|[<-|[]]]; cbn [fst snd] in *.
  - now apply (D e e' He He' Hk a).
  - destruct Ha' as [<-|[]]. destruct (find_key_none _ _ Hj e He). auto.
  - destruct Ha as [<-|[]]. destruct (find_key_none _ _ Hj e' He'). auto.
  - congruence.
Qed.
Lemma gd_add_member d k j : groups_disjoint d -> find_key j d = None -> groups_disjoint (add_member k j d).
Proof.
  intros D Hj e e' He He' Hk a Ha Ha'. unfold add_member in *.
  apply in_map_iff in He as (e0 & <- & He0), He' as (e0' & <- & He0').
  destruct (find_key_none _ _ Hj e0 He0) as [_ N0]. destruct (find_key_none _ _ Hj e0' He0') as [_ N0'].
  destruct (Nat.eqb (fst e0) k) eqn:E0, (Nat.eqb (fst e0') k) eqn:E0'; cbn [fst snd] in *.
  - apply Nat.eqb_eq in E0, E0'. congruence.
  - apply In_sadd in Ha as [->|Ha]; [contradiction|]. now apply (D e0 e0' He0 He0' Hk a).
  - apply In_sadd in Ha' as [->|Ha']; [contradiction|]. now apply (D e0 e0' He0 He0' Hk a).
  - now apply (D e0 e0' He0 He0' Hk a).
Qed.
Lemma gd_merge d ki kj v : keys_unique d -> no_key_member d -> groups_disjoint d -> In (kj, v) d ->
  groups_disjoint (merge_groups ki kj d).
Proof.
  intros K Inv D Hkj e e' He He' Hk a Ha Ha'. unfold merge_groups in *. cbv zeta in *.
  apply in_map_iff in He as (e0 & <- & He0), He' as (e0' & <- & He0').
  apply filter_In in He0 as [He0 Hk0], He0' as [He0' Hk0'].
  apply negb_true_iff, Nat.eqb_neq in Hk0. apply negb_true_iff, Nat.eqb_neq in Hk0'.
  (* a member of the merged set that also sits in an untouched group g (key different from ki and kj): impossible *)
  assert (X : forall e1 g, In e1 d -> In g d -> fst g <> kj -> fst e1 <> fst g ->
              In a (sadd kj (fold_left (fun s b => sadd b s) (members kj d) (snd e1))) -> In a (snd g) -> False).
  { intros e1 g H1 Hg Hgk Hne Hin Hag. apply In_sadd in Hin as [->|Hin].
    - exact (Inv (kj, v) g Hkj Hg Hag).
    - apply In_fold_sadd in Hin as [Hin|Hin].
      + apply members_in in Hin as (e2 & He2 & Hk2 & Hin).
        assert (Hn : fst e2 <> fst g) by congruence. exact (D e2 g He2 Hg Hn a Hin Hag).
      + exact (D e1 g H1 Hg Hne a Hin Hag). }
  destruct (Nat.eqb (fst e0) ki) eqn:E0, (Nat.eqb (fst e0') ki) eqn:E0'; cbn [fst snd] in *.
  - apply Nat.eqb_eq in E0, E0'. congruence.
  - exact (X e0 e0' He0 He0' Hk0' Hk Ha Ha').
  - exact (X e0' e0 He0' He0 Hk0 (not_eq_sym Hk) Ha' Ha).
  - exact (D e0 e0' He0 He0' Hk a Ha Ha').
Qed.

Definition conn_inv (d : cdict) : Prop := keys_unique d /\ no_key_member d /\ groups_disjoint d.
Lemma conn_inv_step d p : conn_inv d -> conn_inv (conn_step d p).
Proof.
  intros (K & Inv & D). unfold conn_step. cbv zeta. destruct (Nat.eqb (fst p) (snd p)) eqn:E; [repeat split; auto|].
  apply Nat.eqb_neq in E.
  destruct (find_key (fst p) d) as [ki|] eqn:Ei, (find_key (snd p) d) as [kj|] eqn:Ej.
  - destruct (Nat.eqb ki kj); [repeat split; auto|].
    destruct (find_key_some _ _ _ Ej) as (v & Hv & _).
    split; [now apply ku_merge|]. split; [now apply nkm_merge|]. eapply gd_merge; eauto.
  - split; [unfold keys_unique; now rewrite map_fst_add_member|].
    split; [now apply nkm_add_member|now apply gd_add_member].
  - split; [unfold keys_unique; now rewrite map_fst_add_member|].
    split; [now apply nkm_add_member|now apply gd_add_member].
  - split; [now apply ku_append|]. split; [now apply nkm_append|now apply gd_append].
Qed.
Theorem connected_groups_disjoint ps : conn_inv (connected ps).
Proof.
  unfold connected. assert (G : forall d, conn_inv d -> conn_inv (fold_left conn_step ps d)).
  { induction ps as [|p ps IH]; intros d H; simpl; auto. apply IH. now apply conn_inv_step. }
  apply G. split; [constructor|]. split; intros e e' [].
Qed.

(* ------------------------------------------------------------------ non-vacuity of the premises *)
Ltac idx_compute := cbv [keep_weights drop_weights enumerate length seq combine map in_index existsb pyidx Z.ltb Z.compare
  Z.add Z.of_nat Pos.of_succ_nat Pos.succ Z.pos_sub Z.to_nat Pos.to_nat Pos.iter_op Nat.add Nat.eqb fst snd orb Rsum
  fold_right zero NumR Z.opp Pos.compare Pos.compare_cont Z.succ_double Z.double Z.pred_double Pos.pred_double].
Lemma data_premises :
  let x := [-1; 2; 5] in let w := [1; 0; 3] in
  wf x (Some w) /\ wf x None /\ Rsum (keep_weights NumR (Some [0; -1]%Z) w) <> 0 /\
  Rsum (drop_weights NumR (Some [1]%Z) w) <> 0 /\ CM 2 x w <> 0.
Proof.
  cbv zeta. repeat split.
  - simpl. lra.
  - simpl. lra.
  - idx_compute. lra.
  - idx_compute. lra.
  - assert (E : CM 2 [-1; 2; 5] [1; 0; 3] = 27 / 4).
    { unfold CM, Mu, dotR, wsum; cbn [combine map fst snd Rsum fold_right pow]. field. }
    rewrite E. lra.
Qed.
