(* C18 - proofs about Pure/Median.v over the reals: the unweighted median moves with a common shift of the samples, so
   impose_median reaches its target (for every sample list that has a median, i.e. every non-empty one), and keeps the length. *)
From Coq Require Import List Arith ZArith Bool Reals Lra Lia.
From MV Require Import Common.Num Common.NumR Common.C18_Sums Pure.Measures Pure.Measures_Proofs Pure.Median.
Import ListNotations.
Open Scope R_scope.

Section Shift.
  Variable c : R.
  Definition sh (a : R) : R := a + c.

  Lemma insert_shift a l : insert_s NumR (sh a) (map sh l) = map sh (insert_s NumR a l).
  Proof.
    induction l as [|b r IH]; [reflexivity|]. cbn [map insert_s].
    assert (E : ltb NumR (sh a) (sh b) = ltb NumR a b).
    { cbn [ltb NumR]. unfold sh. destruct (Rltb a b) eqn:H.
      - apply Rltb_true in H. apply Rltb_true. lra.
      - apply Rltb_false in H. apply Rltb_false. lra. }
    rewrite E. destruct (ltb NumR a b); cbn [map]; [reflexivity|]. now rewrite IH.
  Qed.

  Lemma sort_shift l : sort_s NumR (map sh l) = map sh (sort_s NumR l).
  Proof. induction l as [|a r IH]; [reflexivity|]. cbn [map sort_s fold_right]. fold (sort_s NumR (map sh r)). rewrite IH. apply insert_shift. Qed.

  Lemma combine_map_r {A} (s : list A) (l : list R) : combine s (map sh l) = map (fun p => (fst p, sh (snd p))) (combine s l).
  Proof. revert l. induction s as [|i s IH]; intros [|a l]; cbn; try reflexivity. now rewrite IH. Qed.

  Lemma filter_map_fst {A} (f : A -> bool) (l : list (A * R)) :
    filter (fun p => f (fst p)) (map (fun p => (fst p, sh (snd p))) l) = map (fun p => (fst p, sh (snd p))) (filter (fun p => f (fst p)) l).
  Proof. induction l as [|p l IH]; [reflexivity|]. cbn [map filter fst]. destruct (f (fst p)); cbn [map]; now rewrite IH. Qed.

  Lemma Rsum_shift l : Rsum (map sh l) = Rsum l + INR (length l) * c.
  Proof.
    induction l as [|a l IH]; [cbn; lra|]. cbn [map length]. rewrite !Rsum_cons, IH, S_INR. unfold sh. lra.
  Qed.

  Theorem median_shift x md : median_u NumR x = Some md -> median_u NumR (map sh x) = Some (md + c).
  Proof.
    unfold median_u. rewrite map_length, sort_shift. unfold enumerate. rewrite map_length, combine_map_r, filter_map_fst.
    rewrite map_map. cbn [snd].
    set (sel := filter _ _). change (T NumR) with R in *.
    change (map (fun x0 : nat * R => sh (snd x0)) sel) with (map (fun x0 : nat * R => sh (snd x0)) sel).
    rewrite <- (map_map (@snd nat R) sh sel).
    rewrite (@firstn_map _ _ sh (2 - length x mod 2) (map snd sel)).
    destruct (firstn _ (map snd sel)) as [|a pk] eqn:Ep; [discriminate|].
    intros H. injection H as <-. cbn [map]. f_equal.
    change (sh a :: map sh pk) with (map sh (a :: pk)).
    rewrite !nsum_Rsum, !of_nat_INR, map_length, Rsum_shift.
    cbn [div NumR].
    assert (Hn : INR (length (a :: pk)) <> 0) by (apply not_0_INR; discriminate).
    replace (IZR (Z.pos (Pos.of_succ_nat (length pk)))) with (INR (length (a :: pk))) by (rewrite INR_IZR_INZ; reflexivity).
    change (T NumR) with R in *. field. exact Hn.
  Qed.
End Shift.

Theorem impose_median_hits m x md : median_u NumR x = Some md ->
  exists y, impose_median_u NumR m x = Some y /\ length y = length x /\ median_u NumR y = Some m.
Proof.
  intros H. unfold impose_median_u. rewrite H. cbn [obind]. eexists. split; [reflexivity|]. split; [apply map_length|].
  cbn [add sub NumR]. pose proof (median_shift (m - md) x md H) as K. unfold sh in K.
  transitivity (Some (md + (m - md))); [exact K|]. change (T NumR) with R in *. apply f_equal. lra.
Qed.

Theorem impose_median_undefined m x : median_u NumR x = None -> impose_median_u NumR m x = None.
Proof. intros H. unfold impose_median_u. now rewrite H. Qed.

(* every non-empty sample list has a median: the last sorted sample always passes the mask *)
Lemma insert_length a l : length (insert_s NumR a l) = S (length l).
Proof. induction l as [|b r IH]; [reflexivity|]. cbn [insert_s]. destruct (ltb NumR a b); cbn [length]; [reflexivity|]. now rewrite IH. Qed.
Lemma sort_length l : length (sort_s NumR l) = length l.
Proof. induction l as [|a r IH]; [reflexivity|]. cbn [sort_s fold_right]. fold (sort_s NumR r). now rewrite insert_length, IH. Qed.

Lemma upper_half_last n : (0 < n)%nat -> upper_half NumR n (n - 1) = true.
Proof.
  intros Hn. unfold upper_half. rewrite !of_nat_INR. replace (S (n - 1)) with n by lia. cbn [leb sub div zero NumR].
  apply Rleb_true. assert (0 < INR n) by (apply lt_0_INR; exact Hn). simpl (INR 2). lra.
Qed.

Theorem median_defined x : x <> [] -> median_u NumR x <> None.
Proof.
  intros Hx. unfold median_u.
  set (n := length x). set (xs := sort_s NumR x).
  assert (Hn : (0 < n)%nat) by (subst n; destruct x; [congruence|cbn; lia]).
  assert (Hl : length xs = n) by (subst xs n; apply sort_length).
  clearbody xs. clearbody n. clear Hx.
  assert (Hin : In ((n - 1)%nat, nth (n - 1)%nat xs 0) (filter (fun p => upper_half NumR n (fst p)) (enumerate xs))).
  { apply filter_In. split; [|cbn [fst]; now apply upper_half_last].
    unfold enumerate. rewrite Hl.
    replace ((n - 1)%nat, nth (n - 1)%nat xs 0) with (nth (n - 1)%nat (combine (seq 0 n) xs) (0%nat, 0)).
    - apply nth_In. rewrite combine_length, seq_length, Hl, Nat.min_id. destruct n; [inversion Hn|]. cbn. rewrite Nat.sub_0_r. apply Nat.lt_succ_diag_r.
    - rewrite combine_nth by (rewrite seq_length; symmetry; exact Hl). rewrite seq_nth by (destruct n; [inversion Hn|]; cbn; rewrite Nat.sub_0_r; apply Nat.lt_succ_diag_r). reflexivity. }
  destruct (filter _ (enumerate xs)) as [|p sel]; [destruct Hin|].
  assert (H2 : exists k, (2 - n mod 2 = S k)%nat).
  { pose proof (Nat.mod_upper_bound n 2 ltac:(lia)). exists (1 - n mod 2)%nat. lia. }
  destruct H2 as (k & ->). cbn [map firstn]. discriminate.
Qed.

Theorem impose_median_hits_nonempty m x : x <> [] ->
  exists y, impose_median_u NumR m x = Some y /\ length y = length x /\ median_u NumR y = Some m.
Proof.
  intros Hx. destruct (median_u NumR x) as [md|] eqn:E; [now apply (impose_median_hits m x md)|].
  exfalso. now apply (median_defined x Hx).
Qed.

Lemma median_shift' c x md : median_u NumR x = Some md -> median_u NumR (map (fun a => a + c) x) = Some (md + c).
Proof. exact (median_shift c x md). Qed.

(* the executable model on exact rationals: odd and even sample counts, no samples *)
Lemma median_runs :
  option_map Qreduction.Qred (median_u NumQ [QArith_base.Qmake 3 1; QArith_base.Qmake 1 1; QArith_base.Qmake 2 1]) = Some (QArith_base.Qmake 2 1) /\
  option_map Qreduction.Qred (median_u NumQ [QArith_base.Qmake 4 1; QArith_base.Qmake 1 1; QArith_base.Qmake 3 1; QArith_base.Qmake 2 1])
    = Some (QArith_base.Qmake 5 2) /\
  median_u NumQ [] = None /\
  option_map (map Qreduction.Qred) (impose_median_u NumQ (QArith_base.Qmake 10 1) [QArith_base.Qmake 3 1; QArith_base.Qmake 1 1; QArith_base.Qmake 2 1])
    = Some [QArith_base.Qmake 11 1; QArith_base.Qmake 9 1; QArith_base.Qmake 10 1].
Proof. vm_compute. repeat split; reflexivity. Qed.
