(* Model of mystic.penalty (the nine penalty decorators and their closure state), of the penalty
   combinators of mystic.coupler (additive, and_, or_, not_) and of constraints.with_penalty / as_penalty.
   Definitions only (executable, polymorphic over Common.Num); proofs are in Penalty_Proofs.v.

   Conventions
   * A condition returns a [cval]: a finite number, +inf, some other non-finite float (nan / -inf), or it
     raises ZeroDivisionError.
   * A penalty-decorated function returns an [xval]: a finite number, exactly +inf ([PInf], the documented
     "infinite penalty"), some non-finite float that is not claimed to be +inf ([NonFin]: nan, -inf or +inf
     produced by float arithmetic on infinite multipliers), or it raises ZeroDivisionError ([Raises]: the
     code divides by k*h**n in barrier_inequality and by 2*k*h**i in lagrange_inequality outside any try).
   * A nested penalty  p_0(p_1(...p_{d-1}(base)))  (decorator applied to an already decorated function) is the
     list of its levels, outermost first, over a plain [base] function.  Every level owns its closure cells
     _n (iteration) and _y (stored condition values, [None] = inf); `hasattr(f,'iter')` is true exactly for
     the decorated levels, so iter/clear/store/error walk the whole list and stop at [base].
   * log (barrier) and x**0.5 (error, as_penalty) are Section variables. *)
From Coq Require Import List Bool ZArith.
From MV Require Import Common.Num.
Import ListNotations.

Inductive kind :=
  | QuadEq | LagEq | UniEq | LinEq | QuadIneq | LagIneq | UniIneq | LinIneq | BarIneq.

Definition is_ineq (k : kind) : bool :=
  match k with QuadIneq | LagIneq | UniIneq | LinIneq | BarIneq => true | _ => false end.
Definition is_lagrange (k : kind) : bool :=
  match k with LagEq | LagIneq => true | _ => false end.

Section Penalty.
  Variable N : Num.
  Variable lg : T N -> T N.       (* numpy.log *)
  Variable sqrt : T N -> T N.     (* x ** 0.5 *)
  Variable X : Type.              (* evaluation points *)

  Local Notation num := (T N).
  Local Infix "+!" := (add N) (at level 50, left associativity).
  Local Infix "-!" := (sub N) (at level 50, left associativity).
  Local Infix "*!" := (mul N) (at level 40, left associativity).
  Local Infix "/!" := (div N) (at level 40, left associativity).
  Definition z0 : num := zero N.
  Definition n1 : num := one N.
  Definition n2 : num := n1 +! n1.
  Definition half : num := n1 /! n2.

  (* value of a condition function at a point *)
  Inductive cval := CV (c : num) | CInf | CNonFin | CZeroDiv.
  (* value of a (penalised) function at a point *)
  Inductive xval := Fin (v : num) | PInf | NonFin | Raises.

  (* float addition on the four outcomes; the left operand is evaluated first *)
  Definition xadd (a b : xval) : xval :=
    match a, b with
    | Raises, _ => Raises
    | _, Raises => Raises
    | NonFin, _ => NonFin
    | _, NonFin => NonFin
    | PInf, _ => PInf
    | _, PInf => PInf
    | Fin u, Fin v => Fin (u +! v)
    end.

  (* one decorated level: the arguments of the decorator and the two closure cells *)
  Record level := mkLevel {
    lk : kind;
    lcond : X -> cval;            (* condition(x, *args, **kwds) *)
    lmul : option num;            (* k; None = inf (default of the uniform kinds) *)
    lh : num;                     (* h *)
    ln : nat;                     (* _n[0] *)
    ly : list (option num)        (* _y; None = inf (stored after a ZeroDivisionError / infinite condition) *)
  }.

  Definition set_n (l : level) (n : nat) : level := mkLevel (lk l) (lcond l) (lmul l) (lh l) n (ly l).
  Definition set_y (l : level) (y : list (option num)) : level := mkLevel (lk l) (lcond l) (lmul l) (lh l) (ln l) y.

  (* pow(h, _n[0]) *)
  Definition hpow (l : level) : num := npow N (lh l) (ln l).

  (* stored(i) for an int i >= 0:  _y[i], IndexError -> 0.0 *)
  Definition stored (ys : list (option num)) (i : nat) : option num :=
    match nth_error ys i with Some y => y | None => Some z0 end.

  (* the multiplier loop of lagrange_equality:
       lam = 0.; _k = k
       for i in range(_n[0]): lam += 2.*_k*stored(i); _k *= h                                         *)
  Inductive lres := LOk (m kk : num) | LInf | LRaise.
  Fixpoint lag_eq_loop (ys : list (option num)) (h : num) (cnt i : nat) (lam kk : num) : lres :=
    match cnt with
    | O => LOk lam kk
    | S m => match stored ys i with
             | None => LInf
             | Some s => lag_eq_loop ys h m (S i) (lam +! (n2 *! kk) *! s) (kk *! h)
             end
    end.

  (* the multiplier loop of lagrange_inequality:
       beta = 0.; _k = k
       for i in range(_n[0]): beta += 2.*_k*max(-beta/(2.*_k), stored(i)); _k *= h
     -beta/(2.*_k) raises ZeroDivisionError when 2.*_k == 0.0                                          *)
  Fixpoint lag_ineq_loop (ys : list (option num)) (h : num) (cnt i : nat) (isinf : bool) (beta kk : num) : lres :=
    match cnt with
    | O => if isinf then LInf else LOk beta kk
    | S m => if eqb N (n2 *! kk) z0 then LRaise else
             match stored ys i with
             | None => lag_ineq_loop ys h m (S i) true beta (kk *! h)      (* beta = inf from here on *)
             | Some s => lag_ineq_loop ys h m (S i) isinf
                           (beta +! (n2 *! kk) *! nmax N (opp N beta /! (n2 *! kk)) s) (kk *! h)
             end
    end.
  (* _k after the loop: k * h * ... * h *)
  Fixpoint kloop (h : num) (cnt : nat) (kk : num) : num :=
    match cnt with O => kk | S m => kloop h m (kk *! h) end.

  (* `float(k) * pow(h,_n[0]) if <violated> else 0.0` of the two uniform kinds *)
  Definition uni_amount (l : level) (violated : bool) : xval :=
    if violated then
      match lmul l with
      | Some k => Fin (k *! hpow l)
      | None => if ltb N z0 (hpow l) then PInf else NonFin
      end
    else Fin z0.

  (* the amount a level adds to the decorated function's value, for a finite condition value c and finite k *)
  Definition amount_fin (l : level) (k c : num) : xval :=
    let kk := k *! hpow l in                     (* _k = k * pow(h,_n[0]) *)
    match lk l with
    | QuadEq => Fin (kk *! (c *! c))                                     (* float(_k)*pf**2 *)
    | LinEq => Fin (kk *! abs N c)                                       (* float(_k)*abs(pf) *)
    | UniEq => uni_amount l (negb (eqb N c z0))                          (* ... if pf else 0.0 *)
    | UniIneq => uni_amount l (ltb N z0 c)                               (* ... if pf > 0 else 0.0 *)
    | QuadIneq => let m := nmax N z0 c in Fin ((n2 *! kk) *! (m *! m))   (* float(2*_k)*max(0.,pf)**2 *)
    | LinIneq => Fin ((n2 *! kk) *! abs N (nmax N z0 c))                 (* float(2*_k)*abs(max(0.,pf)) *)
    | BarIneq =>                                                         (* -.5/_k*log(-pf); pf > 0 handled by [early] *)
        if eqb N kk z0 then Raises
        else if eqb N c z0 then (if ltb N z0 kk then PInf else NonFin)   (* log(-0.) = -inf *)
        else Fin ((opp N half /! kk) *! lg (opp N c))
    | LagEq =>
        match lag_eq_loop (ly l) (lh l) (ln l) 0 z0 k with
        | LOk lam kn => Fin (kn *! (c *! c) +! lam *! c)                 (* float(_k)*pf**2 + lam*pf *)
        | LInf => NonFin
        | LRaise => Raises
        end
    | LagIneq =>
        match lag_ineq_loop (ly l) (lh l) (ln l) 0 false z0 k with
        | LOk beta kn =>
            if eqb N (n2 *! kn) z0 then Raises
            else let mpf := nmax N (opp N beta /! (n2 *! kn)) c in      (* max(-beta/(2.*_k), pf) *)
                 Fin (kn *! (mpf *! mpf) +! beta *! mpf)                 (* float(_k)*mpf**2 + beta*mpf *)
        | LInf => if eqb N (n2 *! kloop (lh l) (ln l) k) z0 then Raises else NonFin
        | LRaise => Raises
        end
    end.

  Definition amount (l : level) (cv : cval) : xval :=
    match cv with
    | CZeroDiv => PInf
    | CV c =>
        match lmul l with
        | Some k => amount_fin l k c
        | None => match lk l with
                  | UniEq => uni_amount l (negb (eqb N c z0))
                  | UniIneq => uni_amount l (ltb N z0 c)
                  | _ => NonFin                       (* k = inf with a non-uniform kind: inf*0 = nan etc., not refined *)
                  end
        end
    | CInf =>
        match lk l with
        | UniEq | UniIneq => uni_amount l true
        | BarIneq => PInf
        | LagEq => NonFin
        | LagIneq =>                                   (* the loop and max(-beta/(2.*_k), inf) still divide by 2.*_k *)
            match lmul l with
            | Some k => match lag_ineq_loop (ly l) (lh l) (ln l) 0 false z0 k with
                        | LRaise => Raises
                        | _ => if eqb N (n2 *! kloop (lh l) (ln l) k) z0 then Raises else NonFin
                        end
            | None => NonFin
            end
        | QuadEq | LinEq | QuadIneq | LinIneq =>
            match lmul l with
            | Some k => if ltb N z0 (k *! hpow l) then PInf else NonFin
            | None => NonFin
            end
        end
    | CNonFin =>                                       (* nan or -inf *)
        match lk l with
        | UniEq => uni_amount l true
        | UniIneq => uni_amount l false
        | _ => NonFin
        end
    end.

  (* `return inf` before the decorated function is called: ZeroDivisionError in the condition (all kinds),
     violated inequality for the barrier *)
  Definition early (l : level) (cv : cval) : bool :=
    match cv with
    | CZeroDiv => true
    | CInf => match lk l with BarIneq => true | _ => false end
    | CV c => match lk l with BarIneq => ltb N z0 c | _ => false end
    | CNonFin => false
    end.

  Definition level_apply (l : level) (cv : cval) (inner : xval) : xval :=
    if early l cv then PInf else xadd (amount l cv) inner.

  Definition pen := list level.

  (* func(x) of the outermost level *)
  Fixpoint p_func (base : X -> xval) (p : pen) (x : X) : xval :=
    match p with
    | [] => base x
    | l :: r => level_apply l (lcond l x) (p_func base r x)
    end.

  (* the part added by the penalties alone (the same stack over the zero function) *)
  Definition p_added (p : pen) (x : X) : xval := p_func (fun _ => Fin z0) p x.

  (* error(x):  rms = viol**2 (+ inner.error(x)**2 if the decorated function is itself a penalty); rms**0.5
     None = inf *)
  Definition viol (l : level) (cv : cval) : option num :=
    match cv with
    | CV c => Some (if is_ineq (lk l) then nmax N z0 c else c)
    | CInf => None
    | CNonFin => None         (* nan / -inf conditions are outside the model of error() *)
    | CZeroDiv => None
    end.
  Fixpoint p_error (p : pen) (x : X) : option num :=
    match p with
    | [] => Some z0           (* not reachable from Python: plain functions have no .error *)
    | l :: r =>
        match viol l (lcond l x) with
        | None => None
        | Some v =>
            match r with
            | [] => Some (sqrt (v *! v))
            | _ :: _ => match p_error r x with
                        | None => None
                        | Some e => Some (sqrt (v *! v +! e *! e))
                        end
            end
        end
    end.

  (* iter(i): i is None -> _n += 1, else _n = i; then the same call on the decorated function *)
  Definition iter1 (i : option nat) (l : level) : level :=
    set_n l (match i with None => S (ln l) | Some j => j end).
  Definition p_iter (i : option nat) (p : pen) : pen := map (iter1 i) p.

  (* iteration() *)
  Definition p_iteration (p : pen) : nat := match p with [] => 0 | l :: _ => ln l end.

  (* clear(): _n = 0, _y emptied; then the same call on the decorated function *)
  Definition clear1 (l : level) : level := set_y (set_n l 0) [].
  Definition p_clear (p : pen) : pen := map clear1 p.

  (* store(x, i) of the Lagrange kinds:  i >= len(_y) -> extend with zeros and y, else _y[i] = y *)
  Fixpoint put (ys : list (option num)) (i : nat) (y : option num) : list (option num) :=
    match ys, i with
    | [], O => [y]
    | [], S j => Some z0 :: put [] j y
    | _ :: r, O => y :: r
    | a :: r, S j => a :: put r j y
    end.
  Definition yval (cv : cval) : option num :=
    match cv with CV c => Some c | _ => None end.   (* ZeroDivisionError -> inf; infinite condition -> inf *)
  (* store(x, i): non-Lagrange levels only pass (x, i) on; a Lagrange level resolves i=None to its OWN
     iteration() and passes the resolved i on *)
  Fixpoint p_store (x : X) (i : option nat) (p : pen) : pen :=
    match p with
    | [] => []
    | l :: r =>
        if is_lagrange (lk l) then
          let j := match i with None => ln l | Some j => j end in
          set_y l (put (ly l) j (yval (lcond l x))) :: p_store x (Some j) r
        else l :: p_store x i r
    end.

  (* stored(): the list;  stored(i) is [stored (ly l) i] *)
  Definition p_stored (p : pen) : list (option num) := match p with [] => [] | l :: _ => ly l end.

  (* a call made through the handle of the level at depth [lvl] reaches that level and everything inside it *)
  Definition at_level (lvl : nat) (f : pen -> pen) (p : pen) : pen := firstn lvl p ++ f (skipn lvl p).

  Inductive op :=
    | OpIter (lvl : nat) (i : option nat)
    | OpClear (lvl : nat)
    | OpStore (lvl : nat) (x : X) (i : option nat).
  Definition step (p : pen) (o : op) : pen :=
    match o with
    | OpIter lvl i => at_level lvl (p_iter i) p
    | OpClear lvl => at_level lvl p_clear p
    | OpStore lvl x i => at_level lvl (p_store x i) p
    end.
  Definition run (ops : list op) (p : pen) : pen := fold_left step ops p.

  (* ---------------------------------------------------------------- defaults of the decorators *)
  Definition default_k (k : kind) : option num :=
    match k with
    | UniEq | UniIneq => None
    | LagEq | LagIneq => Some (of_Z N 20)
    | _ => Some (of_Z N 100)
    end.
  Definition default_h : num := of_Z N 5.
  (* a keyword that may be absent *)
  Definition new_level (k : kind) (cond : X -> cval) (kw_k : option (option num)) (kw_h : option num) : level :=
    mkLevel k cond (match kw_k with Some v => v | None => default_k k end)
            (match kw_h with Some v => v | None => default_h end) 0 [].

  (* constraints.with_penalty(ptype, k=..., h=...)(condition): ptype(condition, ...)(lambda x: 0.0) *)
  Definition with_penalty (k : kind) (kw_k : option (option num)) (kw_h : option num) (cond : X -> cval) : pen :=
    [new_level k cond kw_k kw_h].
  Definition zero_base : X -> xval := fun _ => Fin z0.

  (* ---------------------------------------------------------------- coupler.additive *)
  (* additive(penalty)(f):  f(x) + penalty(x); the result is a plain function (no iter/clear/error) *)
  Definition additive (penalty f : X -> xval) : X -> xval := fun x => xadd (f x) (penalty x).

  (* ---------------------------------------------------------------- coupler.and_ / or_ / not_ (penalties) *)
  (* a member's value used as a condition value; a ZeroDivisionError escaping a member is caught by the
     combined level's own try/except *)
  Definition x_to_c (v : xval) : cval :=
    match v with Fin c => CV c | PInf => CInf | NonFin => CNonFin | Raises => CZeroDiv end.
  (* sum(p(x) for p in penalties) : ((0 + p1) + p2) + ... *)
  Definition and_cond (members : list (X -> xval)) (x : X) : cval :=
    x_to_c (fold_left (fun acc m => xadd acc (m x)) members (Fin z0)).
  (* min(p(x) for p in penalties) *)
  Definition xmin (a b : xval) : xval :=
    match a, b with
    | Raises, _ => Raises
    | _, Raises => Raises
    | NonFin, _ => NonFin
    | _, NonFin => NonFin
    | PInf, v => v
    | v, PInf => v
    | Fin u, Fin v => Fin (nmin N u v)
    end.
  Definition or_cond (members : list (X -> xval)) (x : X) : cval :=
    match members with
    | [] => CNonFin                     (* min() of an empty sequence raises ValueError: not modelled *)
    | m :: r => x_to_c (fold_left (fun acc m' => xmin acc (m' x)) r (m x))
    end.
  (* not_: `0 - condition(x)` for the inequality kinds, `not condition(x)` (a bool) for the equality kinds *)
  Definition not_cond (k : kind) (cond : X -> cval) (x : X) : cval :=
    match cond x with
    | CV c => if is_ineq k then CV (z0 -! c) else CV (if eqb N c z0 then n1 else z0)
    | CInf => if is_ineq k then CNonFin else CV z0
    | CNonFin => if is_ineq k then CNonFin else CV z0
    | CZeroDiv => CZeroDiv
    end.
  (* settings: ptype absent/None -> linear_equality (not_: the member's own ptype); k absent -> 1, k=None -> the
     ptype's default; h absent -> the ptype's default (5) *)
  Definition comb_k (k : kind) (kw_k : option (option (option num))) : option (option num) :=
    match kw_k with
    | None => Some (Some n1)            (* settings.setdefault('k', 1) *)
    | Some None => None                 (* k=None: deleted, the ptype's default applies *)
    | Some (Some v) => Some v
    end.
  Definition pen_and (members : list (X -> xval)) (ptype : option kind) kw_k (kw_h : option num) : pen :=
    let k := match ptype with Some k => k | None => LinEq end in
    [new_level k (and_cond members) (comb_k k kw_k) kw_h].
  Definition pen_or (members : list (X -> xval)) (ptype : option kind) kw_k (kw_h : option num) : pen :=
    let k := match ptype with Some k => k | None => LinEq end in
    [new_level k (or_cond members) (comb_k k kw_k) kw_h].
  (* [member] is the outermost level of the penalty handed to not_ (its .ptype and .func) *)
  Definition pen_not (member : level) (ptype : option kind) kw_k (kw_h : option num) : pen :=
    let k := match ptype with Some k => k | None => lk member end in
    [new_level k (not_cond k (lcond member)) (comb_k k kw_k) kw_h].
End Penalty.

(* constraints.as_penalty(constraint, ptype): the condition is
     rnorm(x) = (sum_i (constraint(x)[i] - x[i])**2) ** 0.5        (for i in range(len(x)))
   None models the IndexError when constraint(x) is shorter than x *)
Section AsPenalty.
  Variable N : Num.
  Variable sqrt : T N -> T N.
  Fixpoint sqdist (cx x : list (T N)) (acc : T N) : option (T N) :=
    match x, cx with
    | [], _ => Some acc
    | _ :: _, [] => None
    | xi :: xr, ci :: cr => sqdist cr xr (add N acc (mul N (sub N ci xi) (sub N ci xi)))
    end.
  Definition rnorm (constraint : list (T N) -> list (T N)) (x : list (T N)) : option (T N) :=
    option_map sqrt (sqdist (constraint x) x (zero N)).
  Definition as_penalty_cond (constraint : list (T N) -> list (T N)) (x : list (T N)) : cval N :=
    match rnorm constraint x with Some e => CV N e | None => CNonFin N end.
  Definition as_penalty (constraint : list (T N) -> list (T N)) (ptype : option kind)
             (kw_k : option (option (T N))) (kw_h : option (T N)) : pen N (list (T N)) :=
    let k := match ptype with Some k => k | None => QuadEq end in
    [new_level N (list (T N)) k (as_penalty_cond constraint) kw_k kw_h].
End AsPenalty.
