(* C16 -- order-theoretic theorems about sorting / monotonic / clipped / suppress (Pure/Transforms.v),
   for an ARBITRARY Num whose [ltb] is a strict weak order.  No arithmetic facts are used. *)
From Coq Require Import ZArith List Bool Arith Lia Permutation Sorting.
From Coq Require Import QArith.
From MV Require Import Common.Num Common.Order Pure.Transforms.
Import ListNotations.
Close Scope Q_scope.

(* ------------------------------------------------------------------ generic list surgery *)
Section OrdLists.
  Context {A : Type}.

  Lemma ord_set_nth_length (l : list A) i v : length (set_nth l i v) = length l.
  Proof. revert i; induction l; destruct i; simpl; auto. Qed.

  Lemma ord_nth_set_nth_eq (l : list A) i v d : i < length l -> nth i (set_nth l i v) d = v.
  Proof. revert i; induction l; destruct i; simpl; intros; try lia; auto. apply IHl; lia. Qed.

  Lemma ord_nth_set_nth_neq (l : list A) i j v d : j <> i -> nth j (set_nth l i v) d = nth j l d.
  Proof. revert i j; induction l; destruct i, j; simpl; intros; try lia; auto. Qed.

  Lemma ord_set_nth_same (l : list A) i d : set_nth l i (nth i l d) = l.
  Proof. revert i; induction l; destruct i; simpl; auto. f_equal; auto. Qed.

  Lemma ord_scatter_length (x : list A) ps vs : length (scatter x ps vs) = length x.
  Proof.
    revert x vs; induction ps; destruct vs; simpl; auto.
    rewrite IHps. apply ord_set_nth_length.
  Qed.

  Lemma ord_scatter_notin (x : list A) ps vs p d : ~ In p ps -> nth p (scatter x ps vs) d = nth p x d.
  Proof.
    revert x vs; induction ps as [|q ps IH]; intros x vs H; destruct vs; simpl; auto.
    rewrite IH.
    - apply ord_nth_set_nth_neq. intros ->; apply H; left; auto.
    - intros C; apply H; right; auto.
  Qed.

  Lemma ord_gather_scatter (d : A) x ps vs :
    NoDup ps -> Forall (fun p => p < length x) ps -> length vs = length ps ->
    gather d (scatter x ps vs) ps = vs.
  Proof.
    revert x vs; induction ps as [|p ps IH]; intros x vs ND FA L; destruct vs; simpl in *; try discriminate; auto.
    inversion ND; subst. inversion FA; subst.
    f_equal.
    - rewrite ord_scatter_notin by auto. apply ord_nth_set_nth_eq; auto.
    - apply IH; auto.
      + rewrite ord_set_nth_length; auto.
  Qed.

  Lemma ord_scatter_gather (d : A) x ps : scatter x ps (gather d x ps) = x.
  Proof.
    revert x; induction ps as [|p ps IH]; intros x; simpl; auto.
    rewrite ord_set_nth_same. apply IH.
  Qed.

  Lemma ord_Forall2_impl {B} (P Q : A -> B -> Prop) l l' :
    (forall a b, P a b -> Q a b) -> Forall2 P l l' -> Forall2 Q l l'.
  Proof. intros H F; induction F; constructor; auto. Qed.

  (* scatter with repeated positions: a selected entry still receives one of the scattered values *)
  Lemma ord_scatter_in (d : A) x ps vs q :
    In q ps -> Forall (fun p => p < length x) ps -> length vs = length ps ->
    In (nth q (scatter x ps vs) d) vs.
  Proof.
    revert x vs; induction ps as [|p ps IH]; intros x vs Hq FA L; [destruct Hq|].
    destruct vs as [|v vs]; [discriminate|]. simpl in *. inversion FA as [|? ? Hp FA']; subst.
    destruct (in_dec Nat.eq_dec q ps) as [I|I].
    - right. apply IH; auto. rewrite ord_set_nth_length; auto.
    - destruct Hq as [->|]; [|contradiction]. left.
      rewrite ord_scatter_notin by auto. symmetry. apply ord_nth_set_nth_eq; auto.
  Qed.

  (* sorted positions (repetitions allowed) + sorted values: the selected entries read back sorted *)
  Lemma ord_gather_scatter_sorted (R : A -> A -> Prop) (d : A) x ps vs :
    (forall a, R a a) ->
    StronglySorted le ps -> Forall (fun p => p < length x) ps -> length vs = length ps ->
    StronglySorted R vs -> StronglySorted R (gather d (scatter x ps vs) ps).
  Proof.
    intros Rr. revert x vs; induction ps as [|p ps IH]; intros x vs SP FA L SV; [constructor|].
    destruct vs as [|v vs]; [discriminate|]. simpl in *.
    inversion SP as [|? ? SP' Hp]; subst. inversion FA as [|? ? Hlt FA']; subst.
    inversion SV as [|? ? SV' Hv]; subst.
    assert (L' : length vs = length ps) by lia.
    assert (FA1 : Forall (fun p0 => p0 < length (set_nth x p v)) ps) by (rewrite ord_set_nth_length; auto).
    specialize (IH (set_nth x p v) vs SP' FA1 L' SV').
    destruct (in_dec Nat.eq_dec p ps) as [I|I].
    - destruct ps as [|q ps']; [destruct I|].
      assert (q = p).
      { inversion Hp as [|? ? Hpq _]; subst. inversion SP' as [|? ? _ Hq]; subst.
        destruct I as [|I]; auto. rewrite Forall_forall in Hq. specialize (Hq _ I). lia. }
      subst q. simpl in *.
      constructor; auto. inversion IH; subst. constructor; auto.
    - rewrite ord_scatter_notin by auto. rewrite ord_nth_set_nth_eq by auto.
      constructor; auto. apply Forall_forall. intros u Hu. unfold gather in Hu.
      apply in_map_iff in Hu as (q & <- & Hq).
      rewrite Forall_forall in Hv. apply Hv. apply ord_scatter_in; auto.
  Qed.

  Lemma ord_gather_length (d : A) x ps : length (gather d x ps) = length ps.
  Proof. apply map_length. Qed.

  Lemma ord_nth_map {B} (f : A -> B) l p d d' : p < length l -> nth p (map f l) d' = f (nth p l d).
  Proof. intros H. rewrite (nth_indep _ d' (f d)) by (rewrite map_length; auto). apply map_nth. Qed.

  (* ---------------- insertion sort w.r.t. a strict weak order *)
  Variable lt : A -> A -> bool.

  Lemma ord_insert_perm a l : Permutation (a :: l) (insert_by lt a l).
  Proof.
    induction l as [|b r IH]; simpl; auto.
    destruct (lt b a); auto.
    eapply perm_trans; [apply perm_swap|]. constructor; auto.
  Qed.

  Lemma ord_sort_perm l : Permutation l (sort_by lt l).
  Proof.
    induction l as [|a r IH]; simpl; auto.
    eapply perm_trans; [|apply ord_insert_perm]. constructor; auto.
  Qed.

  Hypothesis SWl : StrictWeak A lt.

  (* [ord_le a b]: a may precede b *)
  Definition ord_le (a b : A) : Prop := lt b a = false.

  Lemma ord_asym a b : lt a b = true -> lt b a = false.
  Proof.
    intros H. destruct (lt b a) eqn:E; auto.
    pose proof (sw_trans _ _ SWl _ _ _ H E) as C. now rewrite (sw_irrefl _ _ SWl) in C.
  Qed.

  Lemma ord_le_refl a : ord_le a a.
  Proof. apply (sw_irrefl _ _ SWl). Qed.

  Lemma ord_le_trans a b c : ord_le a b -> ord_le b c -> ord_le a c.
  Proof. unfold ord_le; intros H1 H2. exact (sw_negtrans _ _ SWl c b a H2 H1). Qed.

  Lemma ord_insert_sorted a l : StronglySorted ord_le l -> StronglySorted ord_le (insert_by lt a l).
  Proof.
    induction l as [|b r IH]; simpl; intros H.
    - repeat constructor.
    - inversion H as [|? ? Hr Hb]; subst.
      destruct (lt b a) eqn:E.
      + constructor; auto.
        eapply Permutation_Forall; [apply ord_insert_perm|].
        constructor; auto. apply ord_asym; auto.
      + constructor; auto. constructor; auto.
        eapply Forall_impl; [|exact Hb]. intros c Hc. eapply ord_le_trans; eauto.
  Qed.

  Lemma ord_sort_sorted l : StronglySorted ord_le (sort_by lt l).
  Proof. induction l; simpl; [constructor | apply ord_insert_sorted; auto]. Qed.

  Lemma ord_sort_fixed l : StronglySorted ord_le l -> sort_by lt l = l.
  Proof.
    induction l as [|a r IH]; simpl; intros H; auto.
    inversion H as [|? ? Hr Ha]; subst. fold (sort_by lt r). rewrite IH by auto.
    destruct r as [|b r']; simpl; auto.
    inversion Ha; subst. unfold ord_le in *. now rewrite H2.
  Qed.

  Lemma ord_sort_idem l : sort_by lt (sort_by lt l) = sort_by lt l.
  Proof. apply ord_sort_fixed, ord_sort_sorted. Qed.

  Lemma ord_sorted_nth l d i j : StronglySorted ord_le l -> i <= j -> j < length l -> ord_le (nth i l d) (nth j l d).
  Proof.
    intros H; revert i j; induction H as [|a l Hl IH Ha]; simpl; intros i j Hij Hj; [lia|].
    destruct i, j; try lia.
    - apply ord_le_refl.
    - rewrite Forall_forall in Ha. apply Ha, nth_In; lia.
    - apply IH; lia.
  Qed.
End OrdLists.

(* sort_nat: a sorted permutation *)
Lemma ord_sort_nat_perm ps : Permutation ps (sort_nat ps).
Proof. apply ord_sort_perm. Qed.

Lemma ord_sort_nat_NoDup ps : NoDup ps -> NoDup (sort_nat ps).
Proof. apply Permutation_NoDup, ord_sort_nat_perm. Qed.

Lemma ord_sort_nat_In ps p : In p (sort_nat ps) <-> In p ps.
Proof.
  split; apply Permutation_in; [apply Permutation_sym|]; apply ord_sort_nat_perm.
Qed.

Lemma ord_sort_nat_Forall (P : nat -> Prop) ps : Forall P ps -> Forall P (sort_nat ps).
Proof. apply Permutation_Forall, ord_sort_nat_perm. Qed.

Lemma ord_sort_nat_length ps : length (sort_nat ps) = length ps.
Proof. symmetry; apply Permutation_length, ord_sort_nat_perm. Qed.

Lemma ord_nat_sw : StrictWeak nat Nat.ltb.
Proof.
  constructor; intros.
  - apply Nat.ltb_irrefl.
  - rewrite Nat.ltb_lt in *; lia.
  - rewrite Nat.ltb_ge in *; lia.
Qed.

Lemma ord_sort_nat_sorted ps : StronglySorted le (sort_nat ps).
Proof.
  pose proof (ord_sort_sorted Nat.ltb ord_nat_sw ps) as H.
  unfold sort_nat. induction H; constructor; auto.
  eapply Forall_impl; [|exact H0]. unfold ord_le; intros b Hb. apply Nat.ltb_ge in Hb; auto.
Qed.

Lemma ord_norm_idx_lt n z p : norm_idx n z = Some p -> p < n.
Proof.
  unfold norm_idx.
  destruct ((0 <=? z)%Z && (z <? Z.of_nat n)%Z) eqn:E1.
  - intros H; inversion H; subst. apply andb_prop in E1 as [H1 H2]. lia.
  - destruct ((z <? 0)%Z && (- Z.of_nat n <=? z)%Z) eqn:E2; try discriminate.
    intros H; inversion H; subst. apply andb_prop in E2 as [H1 H2]. lia.
Qed.

Lemma ord_norm_all_lt n l ps : norm_all n l = Some ps -> Forall (fun p => p < n) ps.
Proof.
  revert ps; induction l as [|z r IH]; simpl; intros ps H.
  - inversion H; constructor.
  - destruct (norm_idx n z) eqn:E1; try discriminate.
    destruct (norm_all n r) eqn:E2; try discriminate.
    inversion H; subst. constructor; auto. eapply ord_norm_idx_lt; eauto.
Qed.

Lemma ord_norm_all_length n l ps : norm_all n l = Some ps -> length ps = length l.
Proof.
  revert ps; induction l as [|z r IH]; simpl; intros ps H.
  - inversion H; auto.
  - destruct (norm_idx n z) eqn:E1; try discriminate.
    destruct (norm_all n r) eqn:E2; try discriminate.
    inversion H; subst. simpl; f_equal; auto.
Qed.

(* ------------------------------------------------------------------ the transforms *)
Section Order16.
  Variable N : Num.
  Hypothesis SW : StrictWeak (T N) (ltb N).

  (* a may precede b *)
  Definition ordered (asc : bool) (a b : T N) : Prop :=
    if asc then ltb N b a = false else ltb N a b = false.
  Definition sel_pos (n : nat) (idx : index) (p : nat) : Prop :=
    match idx with
    | INone => p < n
    | IInt _ => False
    | ITuple l => exists ps, norm_all n l = Some ps /\ In p ps
    end.
  (* order-equivalent (neither is smaller) *)
  Definition ord_equiv (a b : T N) : Prop := ltb N a b = false /\ ltb N b a = false.
  (* the order is antisymmetric: equivalent values are equal (true of R and of non-NaN floats up to the sign of 0) *)
  Definition ord_antisym : Prop := forall a b : T N, ltb N a b = false -> ltb N b a = false -> a = b.

  Definition ord_lt (asc : bool) : T N -> T N -> bool := if asc then ltb N else gt N.

  Lemma ord_lt_sw asc : StrictWeak (T N) (ord_lt asc).
  Proof.
    destruct asc; simpl; auto. unfold gt. constructor; intros.
    - apply (sw_irrefl _ _ SW).
    - eapply (sw_trans _ _ SW); eauto.
    - eapply (sw_negtrans _ _ SW); eauto.
  Qed.

  Lemma ord_ordered_eq asc : ordered asc = ord_le (ord_lt asc).
  Proof. destruct asc; reflexivity. Qed.

  Lemma ord_sorted_py_eq asc x : sorted_py N asc x = sort_by (ord_lt asc) x.
  Proof. reflexivity. Qed.

  (* ---------------- 1. sorted_py *)
  Theorem sorted_py_sorted asc x : StronglySorted (ordered asc) (sorted_py N asc x).
  Proof. rewrite ord_ordered_eq, ord_sorted_py_eq. apply ord_sort_sorted, ord_lt_sw. Qed.

  Theorem sorted_py_perm asc x : Permutation x (sorted_py N asc x).
  Proof. rewrite ord_sorted_py_eq. apply ord_sort_perm. Qed.

  Theorem sorted_py_length asc x : length (sorted_py N asc x) = length x.
  Proof. symmetry. apply Permutation_length, sorted_py_perm. Qed.

  Theorem sorted_py_fixed asc x : StronglySorted (ordered asc) x -> sorted_py N asc x = x.
  Proof. rewrite ord_ordered_eq, ord_sorted_py_eq. apply ord_sort_fixed. Qed.

  Theorem sorted_py_idem asc x : sorted_py N asc (sorted_py N asc x) = sorted_py N asc x.
  Proof. apply sorted_py_fixed, sorted_py_sorted. Qed.

  (* ---------------- 2. mono_py (numpy maximum/minimum.accumulate) *)
  Section Accum.
    Variable better : T N -> T N -> bool.
    Hypothesis SWb : StrictWeak (T N) better.

    Lemma ord_accum_length cur l : length (accum N better cur l) = length l.
    Proof. revert cur; induction l; simpl; auto. Qed.

    Lemma ord_accum_step cur a : ord_le better cur (if better cur a then a else cur).
    Proof.
      destruct (better cur a) eqn:E.
      - apply (ord_asym better SWb); auto.
      - apply (ord_le_refl better SWb).
    Qed.

    Lemma ord_accum_ge cur l : Forall (ord_le better cur) (accum N better cur l).
    Proof.
      revert cur; induction l as [|a r IH]; intros cur; simpl; constructor.
      - apply ord_accum_step.
      - eapply Forall_impl; [|apply IH]. intros c Hc.
        eapply (ord_le_trans better SWb); [apply ord_accum_step | exact Hc].
    Qed.

    Lemma ord_accum_sorted cur l : StronglySorted (ord_le better) (accum N better cur l).
    Proof.
      revert cur; induction l as [|a r IH]; intros cur; simpl; constructor; auto.
      apply ord_accum_ge.
    Qed.

    Lemma ord_accum_idem cur l : accum N better cur (accum N better cur l) = accum N better cur l.
    Proof.
      revert cur; induction l as [|a r IH]; intros cur; simpl; auto.
      destruct (better cur a) eqn:E.
      - rewrite E. f_equal. apply IH.
      - rewrite (sw_irrefl _ _ SWb). f_equal. apply IH.
    Qed.

    Lemma ord_accum_fixed cur l :
      (forall a b, better a b = false -> better b a = false -> a = b) ->
      StronglySorted (ord_le better) (cur :: l) -> accum N better cur l = l.
    Proof.
      intros AS; revert cur; induction l as [|a r IH]; intros cur H; simpl; auto.
      inversion H as [|? ? Hl Hc]; subst. inversion Hc as [|? ? Hca Hcr]; subst.
      assert (E : (if better cur a then a else cur) = a).
      { destruct (better cur a) eqn:E; auto; try (symmetry; apply AS; auto). }
      rewrite E. f_equal. apply IH; auto.
    Qed.

    Lemma ord_accum_fixed_equiv cur l :
      StronglySorted (ord_le better) (cur :: l) ->
      Forall2 (fun o i => better o i = false /\ better i o = false) (accum N better cur l) l.
    Proof.
      revert cur; induction l as [|a r IH]; intros cur H; simpl; constructor.
      - inversion H as [|? ? Hl Hc]; subst. inversion Hc as [|? ? Hca Hcr]; subst.
        destruct (better cur a) eqn:E.
        + split; apply (sw_irrefl _ _ SWb).
        + split; auto.
      - inversion H as [|? ? Hl Hc]; subst. inversion Hc as [|? ? Hca Hcr]; subst.
        inversion Hl; subst.
        apply IH. destruct (better cur a) eqn:E; constructor; auto.
    Qed.

    Lemma ord_accum_from cur l d i : i < length l ->
      nth i (accum N better cur l) d = cur \/ exists j, j <= i /\ nth i (accum N better cur l) d = nth j l d.
    Proof.
      revert cur i; induction l as [|a r IH]; intros cur i Hi; simpl in *; [lia|].
      destruct i as [|i].
      - destruct (better cur a); auto. right; exists 0; auto.
      - destruct (IH (if better cur a then a else cur) i ltac:(lia)) as [E | (j & Hj & E)].
        + rewrite E. destruct (better cur a); auto. right; exists 0; split; auto; lia.
        + right; exists (S j); split; auto; lia.
    Qed.

    Lemma ord_accum_dom cur l d i : i < length l ->
      ord_le better (nth i l d) (nth i (accum N better cur l) d).
    Proof.
      revert cur i; induction l as [|a r IH]; intros cur i Hi; simpl in *; [lia|].
      destruct i as [|i].
      - unfold ord_le. destruct (better cur a) eqn:E; auto. apply (sw_irrefl _ _ SWb).
      - apply IH; lia.
    Qed.
    (* "identical, or strictly better": the exact shape of an accumulate output *)
    Definition ord_sle (a b : T N) : Prop := a = b \/ better a b = true.

    Lemma ord_sle_trans a b c : ord_sle a b -> ord_sle b c -> ord_sle a c.
    Proof.
      intros [->|H1] [->|H2]; unfold ord_sle; auto. right. eapply (sw_trans _ _ SWb); eauto.
    Qed.

    Lemma ord_accum_sstep cur a : ord_sle cur (if better cur a then a else cur).
    Proof. destruct (better cur a) eqn:E; [right|left]; auto. Qed.

    Lemma ord_accum_sge cur l : Forall (ord_sle cur) (accum N better cur l).
    Proof.
      revert cur; induction l as [|a r IH]; intros cur; simpl; constructor.
      - apply ord_accum_sstep.
      - eapply Forall_impl; [|apply IH]. intros c Hc. eapply ord_sle_trans; [apply ord_accum_sstep|exact Hc].
    Qed.

    Lemma ord_accum_ssorted cur l : StronglySorted ord_sle (accum N better cur l).
    Proof.
      revert cur; induction l as [|a r IH]; intros cur; simpl; constructor; auto.
      apply ord_accum_sge.
    Qed.

    Lemma ord_accum_sfixed cur l : StronglySorted ord_sle (cur :: l) -> accum N better cur l = l.
    Proof.
      revert cur; induction l as [|a r IH]; intros cur H; simpl; auto.
      inversion H as [|? ? Hl Hc]; subst. inversion Hc as [|? ? Hca Hcr]; subst.
      assert (E : (if better cur a then a else cur) = a).
      { destruct Hca as [->|Hb]; [now rewrite (sw_irrefl _ _ SWb)| now rewrite Hb]. }
      rewrite E. f_equal. apply IH; auto.
    Qed.
  End Accum.

  Lemma ord_mono_py_eq asc x :
    mono_py N asc x = match x with [] => [] | a :: r => a :: accum N (ord_lt asc) a r end.
  Proof. reflexivity. Qed.

  Theorem mono_py_length asc x : length (mono_py N asc x) = length x.
  Proof. rewrite ord_mono_py_eq. destruct x; simpl; auto. now rewrite ord_accum_length. Qed.

  Theorem mono_py_monotone asc x : StronglySorted (ordered asc) (mono_py N asc x).
  Proof.
    rewrite ord_ordered_eq, ord_mono_py_eq. destruct x as [|a r]; constructor.
    - apply ord_accum_sorted, ord_lt_sw.
    - apply ord_accum_ge, ord_lt_sw.
  Qed.

  Theorem mono_py_idem asc x : mono_py N asc (mono_py N asc x) = mono_py N asc x.
  Proof.
    rewrite !ord_mono_py_eq. destruct x as [|a r]; auto.
    f_equal. apply ord_accum_idem, ord_lt_sw.
  Qed.

  Lemma ord_antisym_lt asc : ord_antisym -> forall a b, ord_lt asc a b = false -> ord_lt asc b a = false -> a = b.
  Proof. intros AS a b; destruct asc; simpl; unfold gt; intros; apply AS; auto. Qed.

  (* exact fixed point: needs antisymmetry (see mono_py_fixed_refuted below for a strict weak order without it) *)
  Theorem mono_py_fixed asc x : ord_antisym -> StronglySorted (ordered asc) x -> mono_py N asc x = x.
  Proof.
    intros AS. rewrite ord_ordered_eq, ord_mono_py_eq. destruct x as [|a r]; auto.
    intros H. f_equal. apply ord_accum_fixed; auto. apply ord_antisym_lt; auto.
  Qed.

  (* without antisymmetry: unchanged up to order-equivalence, entry by entry *)
  Theorem mono_py_fixed_equiv asc x :
    StronglySorted (ordered asc) x -> Forall2 ord_equiv (mono_py N asc x) x.
  Proof.
    rewrite ord_ordered_eq, ord_mono_py_eq. destruct x as [|a r]; intros H; constructor.
    - split; apply (sw_irrefl _ _ SW).
    - pose proof (ord_accum_fixed_equiv (ord_lt asc) (ord_lt_sw asc) a r H) as F.
      eapply ord_Forall2_impl; [|exact F]. unfold ord_equiv. destruct asc; simpl; unfold gt; tauto.
  Qed.

  (* exact fixed points WITHOUT antisymmetry: vectors whose consecutive entries are identical or strictly increasing
     (decreasing); every output of mono_py has this shape *)
  Definition strict_or_same (asc : bool) (a b : T N) : Prop :=
    a = b \/ (if asc then ltb N a b = true else ltb N b a = true).

  Lemma ord_strict_or_same_eq asc : strict_or_same asc = ord_sle (ord_lt asc).
  Proof. destruct asc; reflexivity. Qed.

  Theorem mono_py_strict_or_same asc x : StronglySorted (strict_or_same asc) (mono_py N asc x).
  Proof.
    rewrite ord_strict_or_same_eq, ord_mono_py_eq. destruct x as [|a r]; constructor.
    - apply ord_accum_ssorted, ord_lt_sw.
    - apply ord_accum_sge, ord_lt_sw.
  Qed.

  Theorem mono_py_fixed_strict asc x : StronglySorted (strict_or_same asc) x -> mono_py N asc x = x.
  Proof.
    rewrite ord_strict_or_same_eq, ord_mono_py_eq. destruct x as [|a r]; auto.
    intros H. f_equal. apply ord_accum_sfixed; auto. apply ord_lt_sw.
  Qed.

  Theorem mono_py_from_input asc x d i : i < length x ->
    exists j, j <= i /\ nth i (mono_py N asc x) d = nth j x d.
  Proof.
    rewrite ord_mono_py_eq. destruct x as [|a r]; simpl; [lia|]. intros Hi.
    destruct i as [|i]; [exists 0; auto|].
    destruct (ord_accum_from (ord_lt asc) a r d i ltac:(lia)) as [E | (j & Hj & E)].
    - exists 0; split; auto; lia.
    - exists (S j); split; auto; lia.
  Qed.

  Theorem mono_py_dominates asc x d i : i < length x ->
    ordered asc (nth i x d) (nth i (mono_py N asc x) d).
  Proof.
    rewrite ord_ordered_eq, ord_mono_py_eq. destruct x as [|a r]; simpl; [lia|]. intros Hi.
    destruct i as [|i]; [apply ord_le_refl, ord_lt_sw|].
    apply ord_accum_dom; [apply ord_lt_sw | lia].
  Qed.

  (* every output entry bounds ALL earlier-or-same input entries: with mono_py_from_input, it is the running extreme *)
  Theorem mono_py_upper asc x d i j : j <= i -> i < length x ->
    ordered asc (nth j x d) (nth i (mono_py N asc x) d).
  Proof.
    intros Hj Hi.
    pose proof (mono_py_dominates asc x d j ltac:(lia)) as H1.
    pose proof (mono_py_monotone asc x) as H2.
    rewrite ord_ordered_eq in *.
    eapply ord_le_trans; [apply ord_lt_sw | exact H1 |].
    apply ord_sorted_nth; auto. apply ord_lt_sw. rewrite mono_py_length; auto.
  Qed.

  (* ---------------- 3. indexed_op: generic lemmas for any length-preserving [op] *)
  Section Indexed.
    Variable op : list (T N) -> list (T N).
    Hypothesis op_len : forall l, length (op l) = length l.
    Variable d : T N.

    Lemma ord_indexed_tuple l x : length l <> 1 -> length x <> 1 ->
      indexed_op N op d (ITuple l) x =
      match l with
      | [] => None
      | _ => match norm_all (length x) l with
             | None => None
             | Some ps => Some (scatter x (sort_nat ps) (op (gather d x (sort_nat ps))))
             end
      end.
    Proof.
      intros H1 H2. unfold indexed_op.
      apply Nat.eqb_neq in H1. apply Nat.eqb_neq in H2. rewrite H1, H2. reflexivity.
    Qed.

    Lemma ord_indexed_some l x ps y : length l <> 1 -> length x <> 1 ->
      norm_all (length x) l = Some ps -> indexed_op N op d (ITuple l) x = Some y ->
      l <> [] /\ y = scatter x (sort_nat ps) (op (gather d x (sort_nat ps))).
    Proof.
      intros H1 H2 Hn. rewrite ord_indexed_tuple by auto. rewrite Hn.
      destruct l; [discriminate|]. intros H; inversion H; subst. split; auto; discriminate.
    Qed.

    Lemma ord_indexed_some_inv l x ps : length l <> 1 -> length x <> 1 -> l <> [] ->
      norm_all (length x) l = Some ps ->
      indexed_op N op d (ITuple l) x = Some (scatter x (sort_nat ps) (op (gather d x (sort_nat ps)))).
    Proof.
      intros H1 H2 H3 Hn. rewrite ord_indexed_tuple by auto. rewrite Hn.
      destruct l; [congruence|]. reflexivity.
    Qed.

    Lemma ord_indexed_length idx x y : indexed_op N op d idx x = Some y -> length y = length x.
    Proof.
      destruct idx as [|z|l]; simpl.
      - intros H; inversion H; auto.
      - intros H; inversion H; auto.
      - destruct (Nat.eqb_spec (length l) 1); [intros H; inversion H; auto|].
        destruct (Nat.eqb_spec (length x) 1); [intros H; inversion H; auto|].
        destruct l; [discriminate|].
        destruct (norm_all (length x) (z :: l)); [|discriminate].
        intros H; inversion H. apply ord_scatter_length.
    Qed.

    Lemma ord_indexed_unselected idx x y p d' :
      indexed_op N op d idx x = Some y -> p < length x -> ~ sel_pos (length x) idx p ->
      nth p y d' = nth p x d'.
    Proof.
      destruct idx as [|z|l]; simpl.
      - intros _ Hp Hs. contradiction.
      - intros H; inversion H; auto.
      - destruct (Nat.eqb_spec (length l) 1); [intros H; inversion H; auto|].
        destruct (Nat.eqb_spec (length x) 1); [intros H; inversion H; auto|].
        destruct l; [discriminate|].
        destruct (norm_all (length x) (z :: l)) as [ps|]; [|discriminate].
        intros H Hp Hs; inversion H. apply ord_scatter_notin.
        intros C. apply Hs. exists ps; split; auto. apply ord_sort_nat_In; auto.
    Qed.

    Lemma ord_indexed_error_iff idx x :
      indexed_op N op d idx x = None <->
      exists l, idx = ITuple l /\ length l <> 1 /\ length x <> 1 /\ (l = [] \/ norm_all (length x) l = None).
    Proof.
      split.
      - destruct idx as [|z|l]; simpl; try discriminate.
        destruct (Nat.eqb_spec (length l) 1); [discriminate|].
        destruct (Nat.eqb_spec (length x) 1); [discriminate|].
        intros H. exists l. repeat split; auto.
        destruct l; auto. right.
        destruct (norm_all (length x) (z :: l)); [discriminate|auto].
      - intros (l & -> & H1 & H2 & H3). rewrite ord_indexed_tuple by auto.
        destruct H3 as [-> | ->]; auto. destruct l; auto.
    Qed.

    (* the selected entries of the output are [op] of the selected entries of the input *)
    Lemma ord_indexed_target l x ps y : length l <> 1 -> length x <> 1 ->
      norm_all (length x) l = Some ps -> NoDup ps -> indexed_op N op d (ITuple l) x = Some y ->
      gather d y (sort_nat ps) = op (gather d x (sort_nat ps)).
    Proof.
      intros H1 H2 Hn ND H. destruct (ord_indexed_some _ _ _ _ H1 H2 Hn H) as [_ ->].
      apply ord_gather_scatter.
      - apply ord_sort_nat_NoDup; auto.
      - apply ord_sort_nat_Forall. eapply ord_norm_all_lt; eauto.
      - rewrite op_len. apply ord_gather_length.
    Qed.

    Lemma ord_indexed_conforming l x ps y : length l <> 1 -> length x <> 1 ->
      norm_all (length x) l = Some ps -> indexed_op N op d (ITuple l) x = Some y ->
      op (gather d x (sort_nat ps)) = gather d x (sort_nat ps) -> y = x.
    Proof.
      intros H1 H2 Hn H E. destruct (ord_indexed_some _ _ _ _ H1 H2 Hn H) as [_ ->].
      rewrite E. apply ord_scatter_gather.
    Qed.

    Section IdemSorted.
      Variable R : T N -> T N -> Prop.
      Hypothesis R_refl : forall a, R a a.
      Hypothesis op_sorted : forall l, StronglySorted R (op l).
      Hypothesis op_fixed : forall l, StronglySorted R l -> op l = l.

      (* no NoDup: repeated positions are allowed *)
      Lemma ord_indexed_target_sorted l x ps y : length l <> 1 -> length x <> 1 ->
        norm_all (length x) l = Some ps -> indexed_op N op d (ITuple l) x = Some y ->
        StronglySorted R (gather d y (sort_nat ps)).
      Proof.
        intros H1 H2 Hn H. destruct (ord_indexed_some _ _ _ _ H1 H2 Hn H) as [_ ->].
        apply ord_gather_scatter_sorted; auto.
        - apply ord_sort_nat_sorted.
        - apply ord_sort_nat_Forall. eapply ord_norm_all_lt; eauto.
        - rewrite op_len. apply ord_gather_length.
      Qed.

      Lemma ord_indexed_idempotent_any idx x y :
        indexed_op N op d idx x = Some y -> indexed_op N op d idx y = Some y.
      Proof.
        intros H. pose proof (ord_indexed_length _ _ _ H) as L.
        destruct idx as [|z|l].
        - simpl in *. inversion H; subst. now rewrite op_fixed by apply op_sorted.
        - simpl in *. inversion H; subst; auto.
        - destruct (Nat.eq_dec (length l) 1) as [E1|E1].
          { unfold indexed_op in *. apply Nat.eqb_eq in E1. rewrite E1 in *. inversion H; subst; auto. }
          destruct (Nat.eq_dec (length x) 1) as [E2|E2].
          { unfold indexed_op in *. apply Nat.eqb_neq in E1. apply Nat.eqb_eq in E2. rewrite E1, E2 in *.
            inversion H; subst; auto. rewrite E2; auto. }
          destruct (norm_all (length x) l) as [ps|] eqn:Hn.
          + pose proof (ord_indexed_target_sorted _ _ _ _ E1 E2 Hn H) as G.
            destruct (ord_indexed_some _ _ _ _ E1 E2 Hn H) as [Hl _].
            rewrite (ord_indexed_some_inv l y ps) by (rewrite ?L; auto).
            rewrite op_fixed by exact G. now rewrite ord_scatter_gather.
          + rewrite ord_indexed_tuple in H by auto. rewrite Hn in H. destruct l; discriminate.
      Qed.
    End IdemSorted.

    Hypothesis op_idem : forall l, op (op l) = op l.

    Lemma ord_indexed_idempotent idx x y :
      (forall l ps, idx = ITuple l -> norm_all (length x) l = Some ps -> NoDup ps) ->
      indexed_op N op d idx x = Some y -> indexed_op N op d idx y = Some y.
    Proof.
      intros ND H. pose proof (ord_indexed_length _ _ _ H) as L.
      destruct idx as [|z|l].
      - simpl in *. inversion H; subst. now rewrite op_idem.
      - simpl in *. inversion H; subst; auto.
      - destruct (Nat.eq_dec (length l) 1) as [E1|E1].
        { unfold indexed_op in *. apply Nat.eqb_eq in E1. rewrite E1 in *. inversion H; subst; auto. }
        destruct (Nat.eq_dec (length x) 1) as [E2|E2].
        { unfold indexed_op in *. apply Nat.eqb_neq in E1. apply Nat.eqb_eq in E2. rewrite E1, E2 in *.
          inversion H; subst; auto. rewrite E2; auto. }
        destruct (norm_all (length x) l) as [ps|] eqn:Hn.
        + pose proof (ord_indexed_target _ _ _ _ E1 E2 Hn (ND _ _ eq_refl Hn) H) as G.
          destruct (ord_indexed_some _ _ _ _ E1 E2 Hn H) as [Hl _].
          rewrite (ord_indexed_some_inv l y ps) by (rewrite ?L; auto).
          rewrite G, op_idem, <- G. now rewrite ord_scatter_gather.
        + rewrite ord_indexed_tuple in H by auto. rewrite Hn in H. destruct l; discriminate.
    Qed.
  End Indexed.

  (* ---------------- 3a. sorting *)
  Theorem sorting_length asc idx x y : sorting N asc idx x = Some y -> length y = length x.
  Proof. apply ord_indexed_length, sorted_py_length. Qed.

  Theorem sorting_unselected asc idx x y p d :
    sorting N asc idx x = Some y -> p < length x -> ~ sel_pos (length x) idx p -> nth p y d = nth p x d.
  Proof. apply ord_indexed_unselected. Qed.

  Theorem sorting_error_iff asc idx x :
    sorting N asc idx x = None <->
    exists l, idx = ITuple l /\ length l <> 1 /\ length x <> 1 /\ (l = [] \/ norm_all (length x) l = None).
  Proof. apply ord_indexed_error_iff. Qed.

  Theorem sorting_whole asc x : sorting N asc INone x = Some (sorted_py N asc x).
  Proof. reflexivity. Qed.

  Theorem sorting_in_target asc l x ps y :
    length l <> 1 -> length x <> 1 -> norm_all (length x) l = Some ps -> NoDup ps ->
    sorting N asc (ITuple l) x = Some y ->
    StronglySorted (ordered asc) (gather (zero N) y (sort_nat ps)) /\
    Permutation (gather (zero N) x (sort_nat ps)) (gather (zero N) y (sort_nat ps)).
  Proof.
    intros H1 H2 Hn ND H. unfold sorting in H.
    rewrite (ord_indexed_target _ (sorted_py_length asc) _ _ _ _ _ H1 H2 Hn ND H).
    split; [apply sorted_py_sorted | apply sorted_py_perm].
  Qed.

  Theorem sorting_conforming asc l x ps y :
    length l <> 1 -> length x <> 1 -> norm_all (length x) l = Some ps ->
    sorting N asc (ITuple l) x = Some y ->
    StronglySorted (ordered asc) (gather (zero N) x (sort_nat ps)) -> y = x.
  Proof.
    intros H1 H2 Hn H S. eapply ord_indexed_conforming; eauto. apply sorted_py_fixed; auto.
  Qed.

  Lemma ord_ordered_refl asc a : ordered asc a a.
  Proof. rewrite ord_ordered_eq. apply ord_le_refl, ord_lt_sw. Qed.

  (* the selected entries of the output are in order -- also when positions repeat (no NoDup) *)
  Theorem sorting_target_sorted asc l x ps y :
    length l <> 1 -> length x <> 1 -> norm_all (length x) l = Some ps ->
    sorting N asc (ITuple l) x = Some y ->
    StronglySorted (ordered asc) (gather (zero N) y (sort_nat ps)).
  Proof.
    apply ord_indexed_target_sorted;
      [apply sorted_py_length | apply ord_ordered_refl | apply sorted_py_sorted].
  Qed.

  (* unconditional: no NoDup hypothesis on the positions *)
  Theorem sorting_idempotent asc idx x y :
    sorting N asc idx x = Some y -> sorting N asc idx y = Some y.
  Proof.
    apply (ord_indexed_idempotent_any _ (sorted_py_length asc) _ (ordered asc));
      [apply ord_ordered_refl | apply sorted_py_sorted | apply sorted_py_fixed].
  Qed.

  (* ---------------- 3b. monotonic *)
  Theorem monotonic_length asc idx x y : monotonic N asc idx x = Some y -> length y = length x.
  Proof. apply ord_indexed_length, mono_py_length. Qed.

  Theorem monotonic_unselected asc idx x y p d :
    monotonic N asc idx x = Some y -> p < length x -> ~ sel_pos (length x) idx p -> nth p y d = nth p x d.
  Proof. apply ord_indexed_unselected. Qed.

  Theorem monotonic_error_iff asc idx x :
    monotonic N asc idx x = None <->
    exists l, idx = ITuple l /\ length l <> 1 /\ length x <> 1 /\ (l = [] \/ norm_all (length x) l = None).
  Proof. apply ord_indexed_error_iff. Qed.

  Theorem monotonic_whole asc x : monotonic N asc INone x = Some (mono_py N asc x).
  Proof. reflexivity. Qed.

  Theorem monotonic_in_target asc l x ps y :
    length l <> 1 -> length x <> 1 -> norm_all (length x) l = Some ps -> NoDup ps ->
    monotonic N asc (ITuple l) x = Some y ->
    StronglySorted (ordered asc) (gather (zero N) y (sort_nat ps)) /\
    (forall i d, i < length ps ->
       ordered asc (nth i (gather (zero N) x (sort_nat ps)) d) (nth i (gather (zero N) y (sort_nat ps)) d)) /\
    (forall i d, i < length ps -> exists j, j <= i /\
       nth i (gather (zero N) y (sort_nat ps)) d = nth j (gather (zero N) x (sort_nat ps)) d).
  Proof.
    intros H1 H2 Hn ND H. unfold monotonic in H.
    rewrite (ord_indexed_target _ (mono_py_length asc) _ _ _ _ _ H1 H2 Hn ND H).
    split; [apply mono_py_monotone|]. split; intros i d Hi.
    - apply mono_py_dominates. now rewrite ord_gather_length, ord_sort_nat_length.
    - apply mono_py_from_input. now rewrite ord_gather_length, ord_sort_nat_length.
  Qed.

  Theorem monotonic_conforming asc l x ps y :
    ord_antisym ->
    length l <> 1 -> length x <> 1 -> norm_all (length x) l = Some ps ->
    monotonic N asc (ITuple l) x = Some y ->
    StronglySorted (ordered asc) (gather (zero N) x (sort_nat ps)) -> y = x.
  Proof.
    intros AS H1 H2 Hn H S. eapply ord_indexed_conforming; eauto. apply mono_py_fixed; auto.
  Qed.

  Theorem monotonic_conforming_strict asc l x ps y :
    length l <> 1 -> length x <> 1 -> norm_all (length x) l = Some ps ->
    monotonic N asc (ITuple l) x = Some y ->
    StronglySorted (strict_or_same asc) (gather (zero N) x (sort_nat ps)) -> y = x.
  Proof.
    intros H1 H2 Hn H S. eapply ord_indexed_conforming; eauto. apply mono_py_fixed_strict; auto.
  Qed.

  Lemma ord_strict_or_same_ordered asc a b : strict_or_same asc a b -> ordered asc a b.
  Proof.
    rewrite ord_strict_or_same_eq, ord_ordered_eq. intros [->|H].
    - apply ord_le_refl, ord_lt_sw.
    - apply (ord_asym _ (ord_lt_sw asc)); auto.
  Qed.

  (* the selected entries of the output are monotone -- also when positions repeat (no NoDup) *)
  Theorem monotonic_target_sorted asc l x ps y :
    length l <> 1 -> length x <> 1 -> norm_all (length x) l = Some ps ->
    monotonic N asc (ITuple l) x = Some y ->
    StronglySorted (ordered asc) (gather (zero N) y (sort_nat ps)).
  Proof.
    intros H1 H2 Hn H.
    assert (S : StronglySorted (strict_or_same asc) (gather (zero N) y (sort_nat ps))).
    { revert H1 H2 Hn H. apply ord_indexed_target_sorted;
        [apply mono_py_length | left; reflexivity | apply mono_py_strict_or_same]. }
    induction S; constructor; auto.
    eapply Forall_impl; [|eassumption]. intros b. apply ord_strict_or_same_ordered.
  Qed.

  (* unconditional: no NoDup hypothesis on the positions, no antisymmetry *)
  Theorem monotonic_idempotent asc idx x y :
    monotonic N asc idx x = Some y -> monotonic N asc idx y = Some y.
  Proof.
    apply (ord_indexed_idempotent_any _ (mono_py_length asc) _ (strict_or_same asc));
      [left; reflexivity | apply mono_py_strict_or_same | apply mono_py_fixed_strict].
  Qed.

  (* ---------------- 4. clipped *)
  Definition ord_above (lo : option (T N)) (v : T N) : Prop :=
    match lo with Some l => ltb N v l = false | None => True end.
  Definition ord_below (hi : option (T N)) (v : T N) : Prop :=
    match hi with Some h => ltb N h v = false | None => True end.
  (* lo <= hi, when both are given *)
  Definition ord_bounds_ok (lo hi : option (T N)) : Prop :=
    match lo, hi with Some l, Some h => ltb N h l = false | _, _ => True end.

  Lemma ord_clipo_eq v lo hi :
    clipo N v lo hi =
    let y := match lo with Some l => if ltb N v l then l else v | None => v end in
    match hi with Some h => if ltb N h y then h else y | None => y end.
  Proof. reflexivity. Qed.

  Lemma ord_clipo_in_range v lo hi : ord_bounds_ok lo hi ->
    ord_above lo (clipo N v lo hi) /\ ord_below hi (clipo N v lo hi).
  Proof.
    rewrite ord_clipo_eq. pose proof (sw_irrefl _ _ SW) as IR.
    destruct lo as [l|], hi as [h|]; simpl; intros OK.
    - destruct (ltb N v l) eqn:E1.
      + rewrite OK. split; auto.
      + destruct (ltb N h v) eqn:E2; split; auto.
    - destruct (ltb N v l) eqn:E1; split; auto.
    - destruct (ltb N h v) eqn:E2; split; auto.
    - split; auto.
  Qed.

  Lemma ord_clipo_inside v lo hi : ord_above lo v -> ord_below hi v -> clipo N v lo hi = v.
  Proof.
    rewrite ord_clipo_eq. destruct lo as [l|], hi as [h|]; simpl; intros H1 H2; rewrite ?H1, ?H2; auto.
  Qed.

  (* no lo <= hi hypothesis is needed: when lo > hi every entry becomes hi, which is again sent to hi *)
  Lemma ord_clipo_idem v lo hi : clipo N (clipo N v lo hi) lo hi = clipo N v lo hi.
  Proof.
    rewrite !ord_clipo_eq. pose proof (sw_irrefl _ _ SW) as IR.
    destruct lo as [l|], hi as [h|]; simpl; auto.
    - destruct (ltb N v l) eqn:E1.
      + destruct (ltb N h l) eqn:E2.
        * rewrite E2, E2; auto.
        * rewrite IR, E2; auto.
      + destruct (ltb N h v) eqn:E2.
        * destruct (ltb N h l) eqn:E3; [rewrite E3 | rewrite IR]; auto.
        * rewrite E1, E2; auto.
    - destruct (ltb N v l) eqn:E1; [rewrite IR | rewrite E1]; auto.
    - destruct (ltb N h v) eqn:E2; [rewrite IR | rewrite E2]; auto.
  Qed.

  Lemma ord_clipo_to_bounds v lo hi :
    clipo N v lo hi = v \/ lo = Some (clipo N v lo hi) \/ hi = Some (clipo N v lo hi).
  Proof.
    rewrite ord_clipo_eq. destruct lo as [l|], hi as [h|]; simpl; auto.
    - destruct (ltb N v l); [destruct (ltb N h l) | destruct (ltb N h v)]; auto.
    - destruct (ltb N v l); auto.
    - destruct (ltb N h v); auto.
  Qed.

  Theorem clipped_length lo hi x : length (clipped N lo hi x) = length x.
  Proof. apply map_length. Qed.

  Lemma ord_clipped_nth lo hi x p d : p < length x -> nth p (clipped N lo hi x) d = clipo N (nth p x d) lo hi.
  Proof. intros H. unfold clipped. apply (ord_nth_map (fun v => clipo N v lo hi)); auto. Qed.

  Theorem clipped_in_range lo hi x p d : ord_bounds_ok lo hi -> p < length x ->
    ord_above lo (nth p (clipped N lo hi x) d) /\ ord_below hi (nth p (clipped N lo hi x) d).
  Proof. intros OK Hp. rewrite ord_clipped_nth by auto. apply ord_clipo_in_range; auto. Qed.

  (* the concrete two-sided reading *)
  Theorem clipped_in_range_both l h x p d : ltb N h l = false -> p < length x ->
    ltb N (nth p (clipped N (Some l) (Some h) x) d) l = false /\
    ltb N h (nth p (clipped N (Some l) (Some h) x) d) = false.
  Proof. intros OK Hp. apply (clipped_in_range (Some l) (Some h) x p d OK Hp). Qed.

  Theorem clipped_in_range_Forall lo hi x : ord_bounds_ok lo hi ->
    Forall (fun v => ord_above lo v /\ ord_below hi v) (clipped N lo hi x).
  Proof.
    intros OK. unfold clipped. apply Forall_forall. intros v Hv.
    apply in_map_iff in Hv as (u & <- & _). apply ord_clipo_in_range; auto.
  Qed.

  Theorem clipped_inside_unchanged lo hi x p d : p < length x ->
    ord_above lo (nth p x d) -> ord_below hi (nth p x d) ->
    nth p (clipped N lo hi x) d = nth p x d.
  Proof. intros Hp H1 H2. rewrite ord_clipped_nth by auto. apply ord_clipo_inside; auto. Qed.

  Theorem clipped_all_inside_fixed lo hi x :
    Forall (fun v => ord_above lo v /\ ord_below hi v) x -> clipped N lo hi x = x.
  Proof.
    unfold clipped. induction 1 as [|v r [H1 H2] Hr IH]; simpl; auto.
    rewrite ord_clipo_inside by auto. now rewrite IH.
  Qed.

  Theorem clipped_idempotent lo hi x : clipped N lo hi (clipped N lo hi x) = clipped N lo hi x.
  Proof.
    unfold clipped. rewrite map_map. apply map_ext. intros v. apply ord_clipo_idem.
  Qed.

  Theorem clipped_only_to_bounds lo hi x p d : p < length x ->
    nth p (clipped N lo hi x) d <> nth p x d ->
    lo = Some (nth p (clipped N lo hi x) d) \/ hi = Some (nth p (clipped N lo hi x) d).
  Proof.
    intros Hp. rewrite ord_clipped_nth by auto. intros H.
    destruct (ord_clipo_to_bounds (nth p x d) lo hi) as [E|E]; [contradiction | exact E].
  Qed.

  (* ---------------- 5. suppress with clip = true *)
  Lemma ord_suppress_clip_eq tol x :
    suppress N tol true x = map (fun v => if small N tol v then zero N else v) x.
  Proof. reflexivity. Qed.

  Theorem suppress_clip_length tol x : length (suppress N tol true x) = length x.
  Proof. rewrite ord_suppress_clip_eq. apply map_length. Qed.

  Theorem suppress_clip_spec tol x p d : p < length x ->
    nth p (suppress N tol true x) d = if small N tol (nth p x d) then zero N else nth p x d.
  Proof.
    intros Hp. rewrite ord_suppress_clip_eq.
    apply (ord_nth_map (fun v => if small N tol v then zero N else v)); auto.
  Qed.

  Theorem suppress_clip_idempotent tol x :
    suppress N tol true (suppress N tol true x) = suppress N tol true x.
  Proof.
    rewrite !ord_suppress_clip_eq, map_map. apply map_ext. intros v.
    destruct (small N tol v) eqn:E; [|now rewrite E].
    destruct (small N tol (zero N)); auto.
  Qed.

  (* every surviving entry is not small; every entry is either kept or zeroed *)
  Theorem suppress_clip_kept_or_zero tol x p d : p < length x ->
    nth p (suppress N tol true x) d = nth p x d \/ nth p (suppress N tol true x) d = zero N.
  Proof. intros Hp. rewrite suppress_clip_spec by auto. destruct (small N tol (nth p x d)); auto. Qed.

End Order16.

(* ------------------------------------------------------------------ the hypothesis is satisfiable: exact rationals *)
Example ord_NumQ_strict_weak : StrictWeak (T NumQ) (ltb NumQ).
Proof.
  constructor; simpl; unfold Qltb; intros.
  - rewrite negb_false_iff. apply Qle_bool_iff, Qle_refl.
  - rewrite negb_true_iff in *.
    destruct (Qle_bool z x) eqn:E; auto. exfalso.
    apply Qle_bool_iff in E.
    destruct (Qlt_le_dec x y) as [L1|L1]; [|apply Qle_bool_iff in L1; congruence].
    destruct (Qlt_le_dec y z) as [L2|L2]; [|apply Qle_bool_iff in L2; congruence].
    apply (Qlt_irrefl x). eapply Qlt_le_trans; [|exact E]. eapply Qlt_trans; eauto.
  - rewrite negb_false_iff in *. apply Qle_bool_iff in H, H0. apply Qle_bool_iff.
    eapply Qle_trans; eauto.
Qed.

(* NumQ's order is NOT antisymmetric (1/1 and 2/2 are order-equivalent but not Leibniz-equal), and there the exact
   fixed-point statement for mono_py fails: the running maximum keeps the earlier of two equivalent entries. *)
Lemma mono_py_fixed_refuted :
  exists x : list (T NumQ), StronglySorted (ordered NumQ true) x /\ mono_py NumQ true x <> x.
Proof.
  exists [(1 # 1)%Q; (2 # 2)%Q]. split.
  - repeat constructor.
  - vm_compute. intros H. discriminate H.
Qed.

(* the same witness through monotonic: a conforming (ordered) selection is still rewritten *)
Lemma monotonic_conforming_refuted :
  exists (l : list Z) (x y : list (T NumQ)) ps,
    length l <> 1 /\ length x <> 1 /\ norm_all (length x) l = Some ps /\ NoDup ps /\
    monotonic NumQ true (ITuple l) x = Some y /\
    StronglySorted (ordered NumQ true) (gather (zero NumQ) x (sort_nat ps)) /\ y <> x.
Proof.
  exists [0%Z; 1%Z], [(1 # 1)%Q; (2 # 2)%Q], [(1 # 1)%Q; (1 # 1)%Q], [0; 1].
  repeat split; try (simpl; lia).
  - repeat constructor; simpl; intuition lia.
  - repeat constructor.
  - intros H; discriminate H.
Qed.

(* repeated positions: sorting then LOSES values (the Permutation half of sorting_in_target needs NoDup) *)
Lemma sorting_repeated_index_not_perm :
  exists (l : list Z) (x y : list (T NumQ)),
    sorting NumQ true (ITuple l) x = Some y /\ ~ Permutation x y.
Proof.
  exists [0%Z; 0%Z; 1%Z], [2%Q; 1%Q], [2%Q; 2%Q]. split; [reflexivity|].
  intros P. assert (I : In 1%Q [2%Q; 2%Q]) by (eapply Permutation_in; [exact P | right; left; reflexivity]).
  simpl in I. destruct I as [I|[I|[]]]; discriminate I.
Qed.
