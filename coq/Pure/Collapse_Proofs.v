(* C11 - proofs about the model in Pure/Collapse.v.  No axioms except the real-number ones (only in the *_R lemmas). *)
From Coq Require Import List ZArith Bool Arith Lia Reals Lra Permutation.
From MV Require Import Common.Num Common.Order Common.NumR Pure.Collapse.
Import ListNotations.
Open Scope nat_scope.

(* ------------------------------------------------------------------ membership helpers *)
Lemma memb_In i l : memb i l = true <-> In i l.
Proof.
  unfold memb. rewrite existsb_exists. split.
  - intros [x [H1 H2]]. apply Nat.eqb_eq in H2. subst; auto.
  - intros H. exists i. split; auto. apply Nat.eqb_refl.
Qed.
Lemma memb_false i l : memb i l = false <-> ~ In i l.
Proof. rewrite <- memb_In. destruct (memb i l); intuition congruence. Qed.

Lemma pair_eqb_eq p q : pair_eqb p q = true <-> p = q.
Proof.
  destruct p as [a b], q as [c d]; unfold pair_eqb; simpl.
  rewrite andb_true_iff, !Nat.eqb_eq. split; [intros [? ?]; subst; auto | intros H; inversion H; auto].
Qed.
Lemma pmemb_In p l : pmemb p l = true <-> In p l.
Proof.
  unfold pmemb. rewrite existsb_exists. split.
  - intros [x [H1 H2]]. apply pair_eqb_eq in H2. subst; auto.
  - intros H. exists p. split; auto. apply pair_eqb_eq; auto.
Qed.
Lemma pmemb_false p l : pmemb p l = false <-> ~ In p l.
Proof. rewrite <- pmemb_In. destruct (pmemb p l); intuition congruence. Qed.

Lemma ppair_eqb_eq x y : ppair_eqb x y = true <-> x = y.
Proof.
  destruct x as [a p], y as [c q]; unfold ppair_eqb; simpl.
  rewrite andb_true_iff, Nat.eqb_eq, pair_eqb_eq. split; [intros [? ?]; subst; auto | intros H; inversion H; auto].
Qed.
Lemma ppmemb_In e l : ppmemb e l = true <-> In e l \/ In (fst e, swap (snd e)) l.
Proof.
  unfold ppmemb. rewrite orb_true_iff, !existsb_exists. split.
  - intros [[x [H1 H2]]|[x [H1 H2]]]; apply ppair_eqb_eq in H2; subst; auto.
  - intros [H|H]; [left; exists e | right; exists (fst e, swap (snd e))]; split; auto; apply ppair_eqb_eq; auto.
Qed.

Lemma filter_nil_iff {A} (f : A -> bool) l : filter f l = [] <-> forall x, In x l -> f x = false.
Proof.
  induction l as [|a l IH]; simpl.
  - split; auto. intros _ x [].
  - destruct (f a) eqn:E.
    + split; [discriminate|]. intros H. rewrite (H a) in E; auto; discriminate.
    + rewrite IH. split; intros H x; [intros [<-|Hx]; auto | intros Hx; apply H; auto].
Qed.

Lemma extend_mask_In {A} (old new : list A) x : In x (extend_mask old new) <-> In x old \/ In x new.
Proof. destruct old; simpl; [tauto|]. rewrite in_app_iff. simpl. tauto. Qed.

(* ------------------------------------------------------------------ the look-back window (monitors._solutions) *)
Lemma window_None {A} (l : list A) : window None l = l.
Proof. reflexivity. Qed.
Lemma window_zero {A} (l : list A) : window (Some 0%Z) l = l.
Proof. reflexivity. Qed.
Lemma window_pos {A} (g : nat) (l : list A) : 0 < g -> window (Some (Z.of_nat g)) l = skipn (length l - g) l.
Proof.
  intros Hg. unfold window, pyslice_from.
  assert (H : (- Z.of_nat g <? 0)%Z = true) by (apply Z.ltb_lt; lia). rewrite H.
  rewrite Z.opp_involutive, Nat2Z.id. reflexivity.
Qed.
Lemma window_longer {A} (g : nat) (l : list A) : length l <= g -> window (Some (Z.of_nat g)) l = l.
Proof.
  intros H. destruct g; [destruct l; simpl in *; [reflexivity|lia]|].
  rewrite window_pos by lia. replace (length l - S g) with 0 by lia. reflexivity.
Qed.
Lemma in_skipn' {A} n (l : list A) x : In x (skipn n l) -> In x l.
Proof. revert l; induction n as [|n IH]; intros [|a l]; simpl; auto. Qed.
Lemma window_incl {A} g (l : list A) x : In x (window g l) -> In x l.
Proof.
  unfold window, pyslice_from. destruct g as [g|]; auto.
  destruct (- g <? 0)%Z; intros H; eapply in_skipn'; eauto.
Qed.

(* ------------------------------------------------------------------ pairs_of = { (i,j) | i < j < n } *)
Lemma pairs_of_In n i j : In (i, j) (pairs_of n) <-> i < j /\ j < n.
Proof.
  unfold pairs_of. rewrite in_flat_map. split.
  - intros [a [Ha Hb]]. apply in_seq in Ha. apply in_map_iff in Hb. destruct Hb as [b [E Hb]].
    inversion E; subst. apply in_seq in Hb. lia.
  - intros [H1 H2]. exists i. split; [apply in_seq; lia|]. apply in_map_iff. exists j. split; auto. apply in_seq. lia.
Qed.

(* ================================================================== detectors: result = {candidates passing the test} \ mask *)
Section Detect.
  Variable N : Num.
  Notation E := (T N).
  Definition ncols (w : list (list E)) : nat := length (hd [] w).

  Lemma filter_true {A} (l : list A) : filter (fun _ => true) l = l.
  Proof. induction l; simpl; congruence. Qed.

  (* masking is post-filtering: the result under a mask is the unmasked result minus the mask *)
  Lemma collapse_at_masked hist tg tol g m :
    collapse_at N hist tg tol g (MaSet m) =
    match collapse_at N hist tg tol g MaNone with
    | Ok r0 => Ok (filter (fun i => negb (memb i m)) r0)
    | Err e => Err e
    end.
  Proof.
    unfold collapse_at. destruct (window g hist) as [|r0 w]; auto.
    match goal with |- (if ?c then _ else _) = _ => destruct c; auto end.
    simpl. rewrite filter_true. reflexivity.
  Qed.
  Lemma collapse_at_none_spec hist tg tol g r0 :
    collapse_at N hist tg tol g MaNone = Ok r0 ->
    forall i, In i r0 <-> (i < ncols (window g hist) /\ test_at N tg tol (window g hist) i = true).
  Proof.
    unfold collapse_at. destruct (window g hist) as [|a w]; [discriminate|].
    match goal with |- (if ?c then _ else _) = _ -> _ => destruct c; [discriminate|] end.
    simpl. rewrite filter_true. intros H i. inversion H; subst. rewrite filter_In, in_seq. unfold ncols. simpl. intuition lia.
  Qed.
  Lemma collapse_at_valid hist tg tol g mask r :
    collapse_at N hist tg tol g mask = Ok r ->
    exists r0, collapse_at N hist tg tol g MaNone = Ok r0 /\ r = filter (fun i => negb (memb i (mask_at_list mask))) r0.
  Proof.
    destruct mask as [|m| |]; try (unfold collapse_at; discriminate).
    - intros H. exists r. split; auto. simpl. rewrite filter_true. reflexivity.
    - rewrite collapse_at_masked. destruct (collapse_at N hist tg tol g MaNone) as [r0|e]; [|discriminate].
      intros H; inversion H; subst. exists r0. auto.
  Qed.

  Theorem collapse_at_is_definition hist tg tol g mask r :
    collapse_at N hist tg tol g mask = Ok r ->
    forall i, In i r <->
      (i < ncols (window g hist) /\ test_at N tg tol (window g hist) i = true /\ ~ In i (mask_at_list mask)).
  Proof.
    intros H i. destruct (collapse_at_valid _ _ _ _ _ _ H) as [r0 [H0 ->]].
    rewrite filter_In, (collapse_at_none_spec _ _ _ _ _ H0), negb_true_iff, memb_false. tauto.
  Qed.

  (* which inputs are rejected, and how *)
  Theorem collapse_at_errors hist tg tol g mask :
    match collapse_at N hist tg tol g mask with
    | Err ErrType => mask = MaNotSet
    | Err ErrValue => mask = MaBadElem \/ window g hist = [] \/
                      (exists ts, tg = TList ts /\ length ts <> ncols (window g hist))
    | Err ErrIndex => False
    | Ok _ => (mask = MaNone \/ exists m, mask = MaSet m) /\ window g hist <> []
    end.
  Proof.
    unfold collapse_at.
    destruct mask; auto;
    (destruct (window g hist) as [|r0 w] eqn:W; [auto|]);
    (destruct tg as [|t|ts]; simpl;
     [ split; [eauto|discriminate] | split; [eauto|discriminate] | ]);
    (destruct (Nat.eqb (length ts) (length r0)) eqn:E; simpl;
     [ split; [eauto|discriminate] | right; right; exists ts; split; auto; unfold ncols; simpl; apply Nat.eqb_neq; auto ]).
  Qed.

  Lemma collapse_at_own_mask_gen hist tg tol g mask r m' :
    collapse_at N hist tg tol g mask = Ok r ->
    (forall i, In i (mask_at_list mask) -> In i m') -> (forall i, In i r -> In i m') ->
    collapse_at N hist tg tol g (MaSet m') = Ok [].
  Proof.
    intros H Hm Hr. destruct (collapse_at_valid _ _ _ _ _ _ H) as [r0 [H0 ->]].
    rewrite collapse_at_masked, H0. f_equal. apply filter_nil_iff. intros x Hx.
    rewrite negb_false_iff, memb_In.
    destruct (memb x (mask_at_list mask)) eqn:M.
    - apply memb_In in M. apply Hm. exact M.
    - apply Hr. apply filter_In. split; [exact Hx | rewrite M; reflexivity].
  Qed.

  (* feeding a detector its own output as (additional) mask yields nothing new *)
  Theorem collapse_at_idempotent_under_own_mask hist tg tol g mask r :
    collapse_at N hist tg tol g mask = Ok r ->
    collapse_at N hist tg tol g (MaSet (extend_mask (mask_at_list mask) r)) = Ok [].
  Proof.
    intros H. eapply collapse_at_own_mask_gen; eauto; intros i Hi; apply extend_mask_In; auto.
  Qed.

  (* whatever has been applied (is in the mask) is never reported again: any history, tolerance, window *)
  Theorem collapse_at_never_reported_twice hist tg tol g m r applied :
    collapse_at N hist tg tol g (MaSet m) = Ok r ->
    (forall i, In i applied -> In i m) -> forall i, In i applied -> ~ In i r.
  Proof.
    intros H Hs i Hi Hr. eapply collapse_at_is_definition in H. apply H in Hr. simpl in Hr. intuition.
  Qed.

  (* ---- collapse_as *)
  Lemma masked_as_true m p : masked_as m p = true <-> exists e, In e m /\ melem_hits p e = true.
  Proof. unfold masked_as. apply existsb_exists. Qed.
  Lemma melem_hits_pair a b : melem_hits (a, b) (MPair a b) = true /\ melem_hits (b, a) (MPair a b) = true.
  Proof.
    unfold melem_hits, pair_eqb, swap; simpl. rewrite !Nat.eqb_refl. simpl. split; auto. apply orb_true_r.
  Qed.
  (* the meaning of a mask: an int masks every pair containing it, a pair masks itself in both orientations *)
  Lemma melem_hits_spec p e :
    melem_hits p e = true <->
    match e with MInt k => k = fst p \/ k = snd p | MPair a b => (a, b) = p \/ (a, b) = swap p end.
  Proof.
    destruct e; simpl; rewrite orb_true_iff; [rewrite !Nat.eqb_eq | rewrite !pair_eqb_eq]; tauto.
  Qed.

  Lemma masked_as_nil p : masked_as [] p = false.
  Proof. reflexivity. Qed.
  Lemma collapse_as_masked hist off tol g m :
    collapse_as N hist off tol g (MsSet m) =
    match collapse_as N hist off tol g MsNone with
    | Ok r0 => Ok (filter (fun p => negb (masked_as m p)) r0)
    | Err e => Err e
    end.
  Proof.
    unfold collapse_as. destruct (window g hist) as [|r0 w]; auto. simpl. rewrite filter_true. reflexivity.
  Qed.
  Lemma collapse_as_none_spec hist off tol g r0 :
    collapse_as N hist off tol g MsNone = Ok r0 ->
    forall i j, In (i, j) r0 <-> (i < j /\ j < ncols (window g hist) /\ test_as N off tol (window g hist) (i, j) = true).
  Proof.
    unfold collapse_as. destruct (window g hist) as [|a w]; [discriminate|].
    simpl. rewrite filter_true. intros H i j. inversion H; subst. rewrite filter_In, pairs_of_In. unfold ncols. simpl. tauto.
  Qed.
  Lemma collapse_as_valid hist off tol g mask r :
    collapse_as N hist off tol g mask = Ok r ->
    exists r0, collapse_as N hist off tol g MsNone = Ok r0 /\ r = filter (fun p => negb (masked_as (mask_as_list mask) p)) r0.
  Proof.
    destruct mask as [|m| |]; try (unfold collapse_as; discriminate).
    - intros H. exists r. split; auto. simpl. rewrite filter_true. reflexivity.
    - rewrite collapse_as_masked. destruct (collapse_as N hist off tol g MsNone) as [r0|e]; [|discriminate].
      intros H; inversion H; subst. exists r0. auto.
  Qed.

  Theorem collapse_as_is_definition hist off tol g mask r :
    collapse_as N hist off tol g mask = Ok r ->
    forall i j, In (i, j) r <->
      (i < j /\ j < ncols (window g hist) /\ test_as N off tol (window g hist) (i, j) = true /\
       masked_as (mask_as_list mask) (i, j) = false).
  Proof.
    intros H i j. destruct (collapse_as_valid _ _ _ _ _ _ H) as [r0 [H0 ->]].
    rewrite filter_In, (collapse_as_none_spec _ _ _ _ _ H0), negb_true_iff. tauto.
  Qed.

  Lemma masked_as_meaning (m : list melem) (p : nat * nat) :
    masked_as m p = true <->
    exists e, In e m /\ match e with MInt k => k = fst p \/ k = snd p | MPair a b => (a, b) = p \/ (a, b) = swap p end.
  Proof.
    rewrite masked_as_true. split; intros [e [A B]]; exists e; split; auto; apply melem_hits_spec; auto.
  Qed.

  Theorem collapse_as_errors hist off tol g mask :
    match collapse_as N hist off tol g mask with
    | Err ErrType => mask = MsNotSet
    | Err ErrValue => mask = MsBadElem \/ window g hist = []
    | Err ErrIndex => False
    | Ok _ => (mask = MsNone \/ exists m, mask = MsSet m) /\ window g hist <> []
    end.
  Proof.
    unfold collapse_as. destruct mask; auto;
    (destruct (window g hist) as [|r0 w] eqn:W; [auto|]); split; eauto; discriminate.
  Qed.

  Lemma masked_as_of r p : In p r -> masked_as (as_mask_of r) p = true.
  Proof.
    intros H. apply masked_as_true. exists (MPair (fst p) (snd p)). split.
    - unfold as_mask_of. apply in_map_iff. exists p; auto.
    - destruct p as [a b]; simpl. apply (proj1 (melem_hits_pair a b)).
  Qed.
  Lemma masked_as_mono m m' p : (forall e, In e m -> In e m') -> masked_as m p = true -> masked_as m' p = true.
  Proof. rewrite !masked_as_true. intros H [e [H1 H2]]. exists e; auto. Qed.

  Theorem collapse_as_idempotent_under_own_mask hist off tol g mask r :
    collapse_as N hist off tol g mask = Ok r ->
    collapse_as N hist off tol g (MsSet (extend_mask (mask_as_list mask) (as_mask_of r))) = Ok [].
  Proof.
    intros H. destruct (collapse_as_valid _ _ _ _ _ _ H) as [r0 [H0 ->]].
    rewrite collapse_as_masked, H0. f_equal. apply filter_nil_iff. intros x Hx. rewrite negb_false_iff.
    destruct (masked_as (mask_as_list mask) x) eqn:M.
    - eapply masked_as_mono; [|exact M]. intros e He. apply extend_mask_In. auto.
    - eapply masked_as_mono; [intros e He; apply extend_mask_In; right; exact He|].
      apply masked_as_of. apply filter_In. split; [exact Hx | rewrite M; reflexivity].
  Qed.

  (* a pair applied earlier (in either orientation, or through one of its indices) is never reported again *)
  Theorem collapse_as_never_reported_twice hist off tol g m r a b :
    collapse_as N hist off tol g (MsSet m) = Ok r ->
    In (MPair a b) m \/ In (MInt a) m \/ In (MInt b) m -> ~ In (a, b) r /\ ~ In (b, a) r.
  Proof.
    intros H Hm.
    assert (K : masked_as m (a, b) = true /\ masked_as m (b, a) = true).
    { destruct Hm as [Hm|[Hm|Hm]]; split; apply masked_as_true;
      [ exists (MPair a b) | exists (MPair a b) | exists (MInt a) | exists (MInt a) | exists (MInt b) | exists (MInt b) ];
      (split; [exact Hm|]); try apply (proj1 (melem_hits_pair a b)); try apply (proj2 (melem_hits_pair a b));
      simpl; rewrite Nat.eqb_refl; auto using orb_true_r. }
    destruct K as [K1 K2].
    split; intros Hr; apply (collapse_as_is_definition _ _ _ _ _ _ H) in Hr; simpl in Hr; destruct Hr as (_ & _ & _ & F); congruence.
  Qed.

  (* ---- measures *)
  Lemma collapse_weight_masked hist npts tol g f m :
    collapse_weight N hist npts tol g (MmMask f m) =
    match collapse_weight N hist npts tol g MmNone with
    | Ok (_, r0) => Ok (f, filter (fun e => negb (wmemb e m)) r0)
    | Err e => Err e
    end.
  Proof.
    unfold collapse_weight. destruct (measures N true npts hist g) as [[|m0 w]|e1]; auto.
    simpl. rewrite filter_true. reflexivity.
  Qed.
  Lemma collapse_weight_none_spec hist npts tol g f r0 :
    collapse_weight N hist npts tol g MmNone = Ok (f, r0) ->
    f = FDict /\ exists m0 w, measures N true npts hist g = Ok (m0 :: w) /\
      forall e, In e r0 <-> (In e (cells N m0) /\ test_weight N tol (m0 :: w) e = true).
  Proof.
    unfold collapse_weight. destruct (measures N true npts hist g) as [[|m0 w]|e1]; try discriminate.
    simpl. rewrite filter_true. intros H. inversion H; subst. split; auto. exists m0, w. split; auto.
    intros e. rewrite filter_In. tauto.
  Qed.
  Lemma collapse_weight_valid hist npts tol g mask f r :
    collapse_weight N hist npts tol g mask = Ok (f, r) ->
    exists r0, collapse_weight N hist npts tol g MmNone = Ok (FDict, r0) /\ f = mask_m_fmt mask /\
               r = filter (fun e => negb (wmemb e (mask_m_list mask))) r0.
  Proof.
    destruct mask as [|fm m|e0]; try (unfold collapse_weight; discriminate).
    - intros H. destruct (collapse_weight_none_spec _ _ _ _ _ _ H) as [-> _]. exists r. split; auto. split; auto.
      simpl. rewrite filter_true. reflexivity.
    - rewrite collapse_weight_masked. destruct (collapse_weight N hist npts tol g MmNone) as [[f0 r0]|e] eqn:E0; [|discriminate].
      intros H; inversion H; subst. destruct (collapse_weight_none_spec _ _ _ _ _ _ E0) as [-> _]. exists r0. auto.
  Qed.

  Theorem collapse_weight_is_definition hist npts tol g mask f r :
    collapse_weight N hist npts tol g mask = Ok (f, r) ->
    exists m0 w, measures N true npts hist g = Ok (m0 :: w) /\ f = mask_m_fmt mask /\
      forall e, In e r <-> (In e (cells N m0) /\ test_weight N tol (m0 :: w) e = true /\ ~ In e (mask_m_list mask)).
  Proof.
    intros H. destruct (collapse_weight_valid _ _ _ _ _ _ _ H) as [r0 [H0 [-> ->]]].
    destruct (collapse_weight_none_spec _ _ _ _ _ _ H0) as [_ [m0 [w [Hm K]]]].
    exists m0, w. split; auto. split; auto. intros e.
    rewrite filter_In, K, negb_true_iff. unfold wmemb. rewrite pmemb_false. tauto.
  Qed.

  Theorem collapse_weight_idempotent_under_own_mask hist npts tol g mask f r :
    collapse_weight N hist npts tol g mask = Ok (f, r) ->
    collapse_weight N hist npts tol g (MmMask f (extend_mask (mask_m_list mask) r)) = Ok (f, []).
  Proof.
    intros H. destruct (collapse_weight_valid _ _ _ _ _ _ _ H) as [r0 [H0 [-> ->]]].
    rewrite collapse_weight_masked, H0. f_equal. f_equal. apply filter_nil_iff. intros x Hx.
    rewrite negb_false_iff. unfold wmemb. apply pmemb_In. apply extend_mask_In.
    destruct (pmemb x (mask_m_list mask)) eqn:M.
    - left. apply pmemb_In. exact M.
    - right. apply filter_In. split; auto. unfold wmemb. rewrite M. reflexivity.
  Qed.

  Lemma collapse_position_masked hist npts tol g f m :
    collapse_position N hist npts tol g (MmMask f m) =
    match collapse_position N hist npts tol g MmNone with
    | Ok (_, r0) => Ok (f, filter (fun e => negb (ppmemb e m)) r0)
    | Err e => Err e
    end.
  Proof.
    unfold collapse_position. destruct (measures N false npts hist g) as [[|m0 w]|e1]; auto.
    simpl. rewrite filter_true. reflexivity.
  Qed.
  Lemma collapse_position_none_spec hist npts tol g f r0 :
    collapse_position N hist npts tol g MmNone = Ok (f, r0) ->
    f = FDict /\ exists m0 w, measures N false npts hist g = Ok (m0 :: w) /\
      forall e, In e r0 <-> (In e (pcells N m0) /\ test_position N tol (m0 :: w) e = true).
  Proof.
    unfold collapse_position. destruct (measures N false npts hist g) as [[|m0 w]|e1]; try discriminate.
    simpl. rewrite filter_true. intros H. inversion H; subst. split; auto. exists m0, w. split; auto.
    intros e. rewrite filter_In. tauto.
  Qed.
  Lemma collapse_position_valid hist npts tol g mask f r :
    collapse_position N hist npts tol g mask = Ok (f, r) ->
    exists r0, collapse_position N hist npts tol g MmNone = Ok (FDict, r0) /\ f = mask_m_fmt mask /\
               r = filter (fun e => negb (ppmemb e (mask_m_list mask))) r0.
  Proof.
    destruct mask as [|fm m|e0]; try (unfold collapse_position; discriminate).
    - intros H. destruct (collapse_position_none_spec _ _ _ _ _ _ H) as [-> _]. exists r. split; auto. split; auto.
      simpl. rewrite filter_true. reflexivity.
    - rewrite collapse_position_masked. destruct (collapse_position N hist npts tol g MmNone) as [[f0 r0]|e] eqn:E0; [|discriminate].
      intros H; inversion H; subst. destruct (collapse_position_none_spec _ _ _ _ _ _ E0) as [-> _]. exists r0. auto.
  Qed.
  Lemma ppmemb_false e l : ppmemb e l = false <-> ~ In e l /\ ~ In (fst e, swap (snd e)) l.
  Proof. pose proof (ppmemb_In e l). destruct (ppmemb e l); intuition congruence. Qed.

  Theorem collapse_position_is_definition hist npts tol g mask f r :
    collapse_position N hist npts tol g mask = Ok (f, r) ->
    exists m0 w, measures N false npts hist g = Ok (m0 :: w) /\ f = mask_m_fmt mask /\
      forall e, In e r <-> (In e (pcells N m0) /\ test_position N tol (m0 :: w) e = true /\
                            ~ In e (mask_m_list mask) /\ ~ In (fst e, swap (snd e)) (mask_m_list mask)).
  Proof.
    intros H. destruct (collapse_position_valid _ _ _ _ _ _ _ H) as [r0 [H0 [-> ->]]].
    destruct (collapse_position_none_spec _ _ _ _ _ _ H0) as [_ [m0 [w [Hm K]]]].
    exists m0, w. split; auto. split; auto. intros e.
    rewrite filter_In, K, negb_true_iff, ppmemb_false. tauto.
  Qed.

  Theorem collapse_position_idempotent_under_own_mask hist npts tol g mask f r :
    collapse_position N hist npts tol g mask = Ok (f, r) ->
    collapse_position N hist npts tol g (MmMask f (extend_mask (mask_m_list mask) r)) = Ok (f, []).
  Proof.
    intros H. destruct (collapse_position_valid _ _ _ _ _ _ _ H) as [r0 [H0 [-> ->]]].
    rewrite collapse_position_masked, H0. f_equal. f_equal. apply filter_nil_iff. intros x Hx.
    rewrite negb_false_iff.
    destruct (ppmemb x (mask_m_list mask)) eqn:M.
    - apply ppmemb_In. apply ppmemb_In in M. destruct M as [M|M]; [left|right]; apply extend_mask_In; left; exact M.
    - apply ppmemb_In. left. apply extend_mask_In. right. apply filter_In. split; auto. rewrite M. reflexivity.
  Qed.

  (* ---- termination wrappers: a report is exactly a non-empty detector result, only after the look-back is filled *)
  Theorem term_at_reports lg hist tg tol g mask r :
    term_at N lg hist tg tol g mask = Ok (Some r) ->
    r <> [] /\ collapse_at N hist tg tol g mask = Ok r /\ exists gz, g = Some gz /\ (gz < Z.of_nat lg)%Z.
  Proof.
    unfold term_at, term_guard. destruct (Nat.eqb lg 0); [discriminate|].
    destruct g as [gz|]; [|discriminate]. destruct (Z.of_nat lg <=? gz)%Z eqn:L; [discriminate|].
    destruct (collapse_at N hist tg tol (Some gz) mask) as [[|a l]|e]; try discriminate.
    intros H; inversion H; subst. split; [discriminate|]. split; auto. exists gz. split; auto. apply Z.leb_gt in L. lia.
  Qed.
  Theorem term_as_reports lg hist off tol g mask r :
    term_as N lg hist off tol g mask = Ok (Some r) ->
    r <> [] /\ collapse_as N hist off tol g mask = Ok r /\ exists gz, g = Some gz /\ (gz < Z.of_nat lg)%Z.
  Proof.
    unfold term_as, term_guard. destruct (Nat.eqb lg 0); [discriminate|].
    destruct g as [gz|]; [|discriminate]. destruct (Z.of_nat lg <=? gz)%Z eqn:L; [discriminate|].
    destruct (collapse_as N hist off tol (Some gz) mask) as [[|a l]|e]; try discriminate.
    intros H; inversion H; subst. split; [discriminate|]. split; auto. exists gz. split; auto. apply Z.leb_gt in L. lia.
  Qed.
End Detect.

(* ================================================================== what the tolerance tests mean *)
Section OrderFacts.
  Variable N : Num.
  Notation E := (T N).
  Hypothesis sw : StrictWeak E (ltb N).
  Hypothesis leb_def : forall x y, Num.leb N x y = negb (ltb N y x).
  Definition le (x y : E) : Prop := Num.leb N x y = true.

  Lemma le_refl x : le x x.
  Proof. unfold le. rewrite leb_def, (sw_irrefl _ _ sw). reflexivity. Qed.
  Lemma le_trans x y z : le x y -> le y z -> le x z.
  Proof. unfold le. rewrite !leb_def. apply (leb_trans _ _ sw). Qed.
  Lemma lt_le x y : ltb N x y = true -> le x y.
  Proof. unfold le. rewrite leb_def. apply (ltb_leb _ _ sw). Qed.

  Lemma nmax_ub_l x y : le x (nmax N x y).
  Proof. unfold nmax. destruct (ltb N x y) eqn:L; [apply lt_le; auto | apply le_refl]. Qed.
  Lemma nmax_ub_r x y : le y (nmax N x y).
  Proof. unfold nmax. destruct (ltb N x y) eqn:L; [apply le_refl | unfold le; rewrite leb_def, L; reflexivity]. Qed.
  Lemma nmax_cases x y : nmax N x y = x \/ nmax N x y = y.
  Proof. unfold nmax. destruct (ltb N x y); auto. Qed.
  Lemma nmin_lb_l x y : le (nmin N x y) x.
  Proof. unfold nmin. destruct (ltb N y x) eqn:L; [apply lt_le; auto | apply le_refl]. Qed.
  Lemma nmin_lb_r x y : le (nmin N x y) y.
  Proof. unfold nmin. destruct (ltb N y x) eqn:L; [apply le_refl | unfold le; rewrite leb_def, L; reflexivity]. Qed.
  Lemma nmin_cases x y : nmin N x y = x \/ nmin N x y = y.
  Proof. unfold nmin. destruct (ltb N y x); auto. Qed.

  Lemma fold_max_spec l : forall a, In (fold_left (nmax N) l a) (a :: l) /\ forall x, In x (a :: l) -> le x (fold_left (nmax N) l a).
  Proof.
    induction l as [|b l IH]; intros a; simpl.
    - split; auto. intros x [<-|[]]. apply le_refl.
    - destruct (IH (nmax N a b)) as [I1 I2]. split.
      + destruct I1 as [I1|I1]; [|right; right; exact I1].
        rewrite <- I1. destruct (nmax_cases a b) as [C|C]; rewrite C; [left|right; left]; reflexivity.
      + intros x [<-|[<-|Hx]].
        * eapply le_trans; [apply nmax_ub_l | apply I2; left; reflexivity].
        * eapply le_trans; [apply nmax_ub_r | apply I2; left; reflexivity].
        * apply I2. right; auto.
  Qed.
  Lemma fold_min_spec l : forall a, In (fold_left (nmin N) l a) (a :: l) /\ forall x, In x (a :: l) -> le (fold_left (nmin N) l a) x.
  Proof.
    induction l as [|b l IH]; intros a; simpl.
    - split; auto. intros x [<-|[]]. apply le_refl.
    - destruct (IH (nmin N a b)) as [I1 I2]. split.
      + destruct I1 as [I1|I1]; [|right; right; exact I1].
        rewrite <- I1. destruct (nmin_cases a b) as [C|C]; rewrite C; [left|right; left]; reflexivity.
      + intros x [<-|[<-|Hx]].
        * eapply le_trans; [apply I2; left; reflexivity | apply nmin_lb_l].
        * eapply le_trans; [apply I2; left; reflexivity | apply nmin_lb_r].
        * apply I2. right; auto.
  Qed.

  Lemma maxl_In d l : l <> [] -> In (maxl N d l) l.
  Proof. destruct l as [|a l]; [congruence|]. intros _. apply (fold_max_spec l a). Qed.
  Lemma maxl_ub d l x : In x l -> le x (maxl N d l).
  Proof. destruct l as [|a l]; [intros []|]. apply (fold_max_spec l a). Qed.
  Lemma minl_In d l : l <> [] -> In (minl N d l) l.
  Proof. destruct l as [|a l]; [congruence|]. intros _. apply (fold_min_spec l a). Qed.
  Lemma minl_lb d l x : In x l -> le (minl N d l) x.
  Proof. destruct l as [|a l]; [intros []|]. apply (fold_min_spec l a). Qed.

  (* max over the window <= tolerance  <->  every generation in the window is within tolerance *)
  Lemma maxl_le_iff d l t : l <> [] -> (le (maxl N d l) t <-> forall x, In x l -> le x t).
  Proof.
    intros Hl. split.
    - intros H x Hx. eapply le_trans; [apply maxl_ub; eauto | exact H].
    - intros H. apply H. apply maxl_In; auto.
  Qed.

  Lemma map_nonempty {A B} (f : A -> B) l : l <> [] -> map f l <> [].
  Proof. destruct l; simpl; congruence. Qed.

  Theorem test_at_scalar_meaning t tol w i : w <> [] ->
    (test_at N (TScalar t) tol w i = true <-> forall r, In r w -> le (abs N (sub N (nth i r (zero N)) t)) tol).
  Proof.
    intros Hw. unfold test_at, change_at, col. fold (le (maxl N (zero N) (map (fun x => abs N (sub N x t)) (map (fun r => nth i r (zero N)) w))) tol).
    rewrite maxl_le_iff by (apply map_nonempty, map_nonempty; auto). rewrite map_map. split.
    - intros H r Hr. apply H. apply in_map_iff. exists r; auto.
    - intros H x Hx. apply in_map_iff in Hx. destruct Hx as [r [<- Hr]]. auto.
  Qed.
  Theorem test_at_list_meaning ts tol w i : w <> [] ->
    (test_at N (TList ts) tol w i = true <-> forall r, In r w -> le (abs N (sub N (nth i r (zero N)) (nth i ts (zero N)))) tol).
  Proof.
    intros Hw. unfold test_at, change_at, col.
    fold (le (maxl N (zero N) (map (fun x => abs N (sub N x (nth i ts (zero N)))) (map (fun r => nth i r (zero N)) w))) tol).
    rewrite maxl_le_iff by (apply map_nonempty, map_nonempty; auto). rewrite map_map. split.
    - intros H r Hr. apply H. apply in_map_iff. exists r; auto.
    - intros H x Hx. apply in_map_iff in Hx. destruct Hx as [r [<- Hr]]. auto.
  Qed.
  Theorem test_as_tied_meaning tol w p : w <> [] ->
    (test_as N false tol w p = true <-> forall r, In r w -> le (dist N p r) tol).
  Proof.
    intros Hw. unfold test_as, change_as. fold (le (maxl N (zero N) (map (dist N p) w)) tol).
    rewrite maxl_le_iff by (apply map_nonempty; auto). split.
    - intros H r Hr. apply H. apply in_map. auto.
    - intros H x Hx. apply in_map_iff in Hx. destruct Hx as [r [<- Hr]]. auto.
  Qed.
  Theorem test_weight_meaning tol w e : w <> [] ->
    (test_weight N tol w e = true <-> forall ms, In ms w -> le (nth (snd e) (nth (fst e) ms []) (zero N)) tol).
  Proof.
    intros Hw. unfold test_weight. fold (le (maxl N (zero N) (map (fun ms => nth (snd e) (nth (fst e) ms []) (zero N)) w)) tol).
    rewrite maxl_le_iff by (apply map_nonempty; auto). split.
    - intros H r Hr. apply H. apply in_map_iff. exists r; auto.
    - intros H x Hx. apply in_map_iff in Hx. destruct Hx as [r [<- Hr]]. auto.
  Qed.
  Theorem test_position_meaning tol w e : w <> [] ->
    (test_position N tol w e = true <-> forall ms, In ms w -> le (dist N (snd e) (nth (fst e) ms [])) tol).
  Proof.
    intros Hw. unfold test_position. fold (le (maxl N (zero N) (map (fun ms => dist N (snd e) (nth (fst e) ms [])) w)) tol).
    rewrite maxl_le_iff by (apply map_nonempty; auto). split.
    - intros H r Hr. apply H. apply in_map_iff. exists r; auto.
    - intros H x Hx. apply in_map_iff in Hx. destruct Hx as [r [<- Hr]]. auto.
  Qed.
End OrderFacts.

(* the reals satisfy the order hypotheses; the spread (ptp) tests need arithmetic and are stated over R *)
Lemma NumR_sw : StrictWeak R (ltb NumR).
Proof.
  constructor; simpl.
  - intros x. apply Rltb_false. lra.
  - intros x y z A B. apply Rltb_true in A. apply Rltb_true in B. apply Rltb_true. lra.
  - intros x y z A B. apply Rltb_false in A. apply Rltb_false in B. apply Rltb_false. lra.
Qed.
Lemma NumR_leb_def : forall x y, Num.leb NumR x y = negb (ltb NumR y x).
Proof.
  intros x y. simpl. destruct (Rltb y x) eqn:A; simpl.
  - apply Rltb_true in A. apply Rleb_false. lra.
  - apply Rltb_false in A. apply Rleb_true. lra.
Qed.

Lemma ptp_R_meaning (l : list R) (tol : R) : l <> [] ->
  (Num.leb NumR (ptp NumR l) tol = true <-> forall a b, In a l -> In b l -> (a - b <= tol)%R).
Proof.
  intros Hl. change (Num.leb NumR (ptp NumR l) tol) with (Rleb (ptp NumR l) tol).
  unfold ptp. simpl. rewrite Rleb_true. split.
  - intros H a b Ha Hb.
    pose proof (maxl_ub NumR NumR_sw NumR_leb_def 0%R l a Ha) as A.
    pose proof (minl_lb NumR NumR_sw NumR_leb_def 0%R l b Hb) as B.
    unfold le in A, B. simpl in A, B. apply Rleb_true in A. apply Rleb_true in B. simpl in *. lra.
  - intros H. apply H; [apply (maxl_In NumR NumR_sw NumR_leb_def) | apply (minl_In NumR NumR_sw NumR_leb_def)]; auto.
Qed.

(* target=None: max(param[i]) - min(param[i]) <= tolerance over the window <-> no two generations differ by more *)
Theorem test_at_none_meaning_R (tol : R) (w : list (list R)) i : w <> [] ->
  (test_at NumR TNone tol w i = true <-> forall r s, In r w -> In s w -> (nth i r 0 - nth i s 0 <= tol)%R).
Proof.
  intros Hw. unfold test_at, change_at. rewrite ptp_R_meaning by (unfold col; apply map_nonempty; auto).
  unfold col. split.
  - intros H r s Hr Hs. apply H; apply in_map_iff; eauto.
  - intros H a b Ha Hb. apply in_map_iff in Ha. apply in_map_iff in Hb.
    destruct Ha as [r [<- Hr]]. destruct Hb as [s [<- Hs]]. simpl. auto.
Qed.
(* offset=True: the spread of the pairwise DISTANCE |x_i - x_j| over the window is within tolerance (as written: of
   the absolute distance, so a difference that flips sign with constant magnitude also counts) *)
Theorem test_as_offset_meaning_R (tol : R) (w : list (list R)) p : w <> [] ->
  (test_as NumR true tol w p = true <-> forall r s, In r w -> In s w -> (dist NumR p r - dist NumR p s <= tol)%R).
Proof.
  intros Hw. unfold test_as, change_as. rewrite ptp_R_meaning by (apply map_nonempty; auto). split.
  - intros H r s Hr Hs. apply H; apply in_map; auto.
  - intros H a b Ha Hb. apply in_map_iff in Ha. apply in_map_iff in Hb.
    destruct Ha as [r [<- Hr]]. destruct Hb as [s [<- Hs]]. auto.
Qed.

(* ================================================================== mask._update_masks over a termination tree *)
Section Tree.
  Variable M : Type.
  Variable ext : M -> M -> M.

  Fixpoint cond_ind' (P : cond M -> Prop)
    (HL : forall d h m, P (Leaf d h m))
    (HN : forall cs, Forall P cs -> P (Node cs)) (c : cond M) : P c :=
    match c with
    | Leaf d h m => HL d h m
    | Node cs => HN cs ((fix go (l : list (cond M)) : Forall P l :=
                           match l with [] => Forall_nil P | x :: r => Forall_cons x (cond_ind' P HL HN x) (go r) end) cs)
    end.

  (* per leaf: the doc is kept, the mask is either untouched or extended by exactly the applied collapse *)
  Definition leaf_step (new : M) (a b : String.string * M) : Prop :=
    fst b = fst a /\ (snd b = snd a \/ snd b = ext (snd a) new).

  Lemma update_leaf_step c new : Forall2 (leaf_step new) (leaves c) (leaves (update_leaf ext c new)).
  Proof.
    destruct c as [d h m|cs]; simpl.
    - destruct h; simpl; constructor; try constructor; unfold leaf_step; simpl; auto.
    - induction (flat_map leaves cs); constructor; auto. unfold leaf_step; auto.
  Qed.

  Theorem update_masks_grows c kind new :
    Forall2 (leaf_step new) (leaves c) (leaves (update_masks ext c kind new)).
  Proof.
    induction c as [d h m|cs IH] using cond_ind'.
    - apply (update_leaf_step (Leaf d h m)).
    - simpl. induction cs as [|t cs IHcs]; simpl; [constructor|].
      inversion IH; subst. apply Forall2_app; [|apply IHcs; auto].
      destruct t as [d h m|cs'].
      + destruct (String.prefix kind d).
        * apply (update_leaf_step (Leaf d h m)).
        * simpl. constructor; [unfold leaf_step; auto|constructor].
      + assumption.
  Qed.

  (* the leaf that reported (doc starts with the key, carries a mask) inside an Or(...) IS extended *)
  Theorem update_masks_hits cs kind new d m :
    In (Leaf d true m) cs -> String.prefix kind d = true ->
    In (d, ext m new) (leaves (update_masks ext (Node cs) kind new)).
  Proof.
    intros Hin Hp. simpl. apply in_flat_map. exists (Leaf d true (ext m new)). split; [|simpl; auto].
    apply in_map_iff. exists (Leaf d true m). rewrite Hp. simpl. auto.
  Qed.
  Theorem update_masks_bare d m kind new :
    leaves (update_masks ext (Leaf d true m) kind new) = [(d, ext m new)].
  Proof. reflexivity. Qed.
End Tree.

Lemma NoDup_app_r' {A} (l l' : list A) : NoDup (l ++ l') -> NoDup l'.
Proof. induction l; simpl; auto. intros H; inversion H; auto. Qed.
Lemma NoDup_app_l' {A} (l l' : list A) : NoDup (l ++ l') -> NoDup l.
Proof.
  induction l as [|a l IH]; simpl; [constructor|]. intros H; inversion H; subst. constructor; auto.
  intros Hi. apply H2. apply in_or_app; auto.
Qed.
Lemma NoDup_app_disj {A} (l l' : list A) x : NoDup (l ++ l') -> In x l -> ~ In x l'.
Proof.
  induction l as [|a l IH]; simpl; intros ND Hi Hin; [destruct Hi|]. inversion ND; subst. destruct Hi as [<-|Hi].
  - apply H1. apply in_or_app; auto.
  - eapply IH; eauto.
Qed.

(* ================================================================== impose_at: exact, and framed *)
Section ImposeFacts.
  Variable N : Num.
  Notation E := (T N).

  Lemma set_nth_length i v (x : list E) : length (set_nth N i v x) = length x.
  Proof. revert i; induction x as [|a x IH]; intros [|i]; simpl; auto. Qed.
  Lemma nth_set_nth_eq i v (x : list E) d : i < length x -> nth i (set_nth N i v x) d = v.
  Proof. revert i; induction x as [|a x IH]; intros [|i]; simpl; intros H; try lia; auto. apply IH. lia. Qed.
  Lemma nth_set_nth_neq i j v (x : list E) d : i <> j -> nth j (set_nth N i v x) d = nth j x d.
  Proof. revert i j; induction x as [|a x IH]; intros [|i] [|j]; simpl; intros H; try congruence; auto. Qed.

  Lemma fold_set_scalar t (l : list nat) : forall (x : list E) d,
    let y := fold_left (fun y i => set_nth N i t y) l x in
    length y = length x /\
    forall i, (In i l -> i < length x -> nth i y d = t) /\ (~ In i l -> nth i y d = nth i x d).
  Proof.
    induction l as [|a l IH]; intros x d; simpl.
    - split; auto. intros i. split; [intros []|auto].
    - destruct (IH (set_nth N a t x) d) as [L K]. rewrite set_nth_length in L. split; auto.
      intros i. destruct (K i) as [K1 K2]. rewrite set_nth_length in K1. split.
      + intros [<-|Hi] Hlt.
        * destruct (in_dec Nat.eq_dec a l) as [I|I]; [apply K1; auto|]. rewrite K2 by auto. apply nth_set_nth_eq; auto.
        * apply K1; auto.
      + intros Hn. rewrite K2 by tauto. apply nth_set_nth_neq. intros ->. apply Hn; auto.
  Qed.

  (* scalar target: every addressed in-range coordinate is exactly the target, every other coordinate is untouched *)
  Theorem impose_at_scalar_exact idx t (x : list E) d :
    exists y, impose_at N idx (AtScalar t) x = Ok y /\ length y = length x /\
      forall i, (In i idx -> i < length x -> nth i y d = t) /\ (~ In i idx -> nth i y d = nth i x d).
  Proof.
    unfold impose_at. eexists. split; [reflexivity|].
    destruct (fold_set_scalar t (filter (fun i => Nat.ltb i (length x)) idx) x d) as [L K]. split; auto.
    intros i. destruct (K i) as [K1 K2]. split.
    - intros Hi Hlt. apply K1; auto. apply filter_In. split; auto. apply Nat.ltb_lt; auto.
    - intros Hn. apply K2. rewrite filter_In. tauto.
  Qed.

  Lemma fold_set_list (l : list (nat * E)) : forall (x : list E) d,
    NoDup (map fst l) -> (forall p, In p l -> fst p < length x) ->
    let y := fold_left (fun y p => set_nth N (fst p) (snd p) y) l x in
    length y = length x /\
    (forall p, In p l -> nth (fst p) y d = snd p) /\ (forall i, ~ In i (map fst l) -> nth i y d = nth i x d).
  Proof.
    induction l as [|[a v] l IH]; intros x d ND R; simpl.
    - split; auto. split; [intros p []|auto].
    - inversion ND; subst.
      destruct (IH (set_nth N a v x) d H2) as [L [K1 K2]].
      { intros p Hp. rewrite set_nth_length. apply R. right; auto. }
      rewrite set_nth_length in L. split; auto. split.
      + intros p [<-|Hp]; simpl; [|apply K1; auto].
        rewrite K2 by auto. apply nth_set_nth_eq. apply (R (a, v)). left; auto.
      + intros i Hn. rewrite K2 by (simpl in Hn; tauto). apply nth_set_nth_neq. simpl in Hn. intros ->. tauto.
  Qed.

  Lemma in_combine_nth {A B} (l : list A) (l' : list B) k d1 d2 :
    k < length l -> k < length l' -> In (nth k l d1, nth k l' d2) (combine l l').
  Proof.
    revert l' k. induction l as [|a l IH]; intros [|b l'] [|k]; simpl; intros H1 H2; try lia; auto.
    right. apply IH; lia.
  Qed.

  (* list target (repaired impose_at): target k goes to index k of the index sequence, a target whose index is out of
     range is dropped with it, surplus indices / targets are ignored (zip); everything else is untouched *)
  Theorem impose_at_list_exact idx ts (x : list E) d :
    NoDup idx ->
    exists y, impose_at N idx (AtList ts) x = Ok y /\ length y = length x /\
      (forall k, k < length idx -> k < length ts -> nth k idx 0 < length x -> nth (nth k idx 0) y d = nth k ts d) /\
      (forall i, ~ In i (firstn (length ts) idx) -> nth i y d = nth i x d).
  Proof.
    intros ND. unfold impose_at. eexists. split; [reflexivity|].
    set (kept := filter (fun p : nat * E => Nat.ltb (fst p) (length x)) (combine idx ts)).
    assert (Hsub : forall p, In p kept -> In p (combine idx ts) /\ fst p < length x).
    { intros p Hp. apply filter_In in Hp. destruct Hp as [A B]. apply Nat.ltb_lt in B. auto. }
    assert (NDc : NoDup (map fst (combine idx ts))).
    { clear -ND. revert ts. induction idx as [|a l IH]; intros [|t ts]; simpl; try constructor.
      - inversion ND; subst. intros Hin. apply in_map_iff in Hin. destruct Hin as [[a' t'] [E1 Hin]]. simpl in E1. subst a'.
        apply in_combine_l in Hin. auto.
      - inversion ND; auto. }
    assert (NDk : NoDup (map fst kept)).
    { clear -NDc. unfold kept. induction (combine idx ts) as [|q l IH]; simpl; [constructor|].
      inversion NDc; subst. destruct (Nat.ltb (fst q) (length x)); simpl; auto. constructor; auto.
      intros Hin. apply H1. apply in_map_iff in Hin. destruct Hin as [q' [E1 Hq]]. apply filter_In in Hq.
      apply in_map_iff. exists q'. tauto. }
    destruct (fold_set_list kept x d NDk) as [L [K1 K2]].
    { intros p Hp. apply Hsub; auto. }
    split; auto. split.
    - intros k Hk1 Hk2 Hr.
      assert (Hin : In (nth k idx 0, nth k ts d) kept).
      { unfold kept. apply filter_In. split.
        - apply in_combine_nth; auto.
        - simpl. apply Nat.ltb_lt. auto. }
      apply (K1 _ Hin).
    - intros i Hn. apply K2. intros Hin. apply Hn. apply in_map_iff in Hin. destruct Hin as [[a t] [E1 Hp]]. simpl in E1. subst a.
      apply Hsub in Hp. destruct Hp as [Hp _]. clear -Hp. revert ts Hp. induction idx as [|a l IH]; intros [|t' ts] Hp; simpl in *; try tauto.
      destruct Hp as [Hp|Hp]; [inversion Hp; auto|right; eapply IH; eauto].
  Qed.

  (* Collapse with CollapseAt(target=list): every collapsed in-range index is fixed at ITS OWN entry of the target list,
     for any subset of indices in any iteration order; everything else is untouched (the real code raises IndexError
     for an index beyond the target list; the detector only reports indices below len(target) = number of columns) *)
  Theorem collapse_at_list_exact idx ts (x : list E) :
    NoDup idx ->
    exists y, collapse_at_list N idx ts x = Ok y /\ length y = length x /\
      (forall i, In i idx -> i < length x -> nth i y (zero N) = nth i ts (zero N)) /\
      (forall i, ~ In i idx -> nth i y (zero N) = nth i x (zero N)).
  Proof.
    intros ND. unfold collapse_at_list.
    destruct (impose_at_list_exact idx (select_targets N idx ts) x (zero N) ND) as [y [E [L [K1 K2]]]].
    assert (Hl : length (select_targets N idx ts) = length idx) by (unfold select_targets; apply map_length).
    exists y. split; auto. split; auto. split.
    - intros i Hi Hlt. destruct (In_nth idx i 0 Hi) as [k [Hk Ek]].
      specialize (K1 k Hk). rewrite Hl in K1. specialize (K1 Hk). rewrite Ek in K1. rewrite (K1 Hlt).
      unfold select_targets.
      rewrite (nth_indep (map (fun i0 => nth i0 ts (zero N)) idx) (zero N) ((fun i0 => nth i0 ts (zero N)) 0))
        by (rewrite map_length; exact Hk).
      rewrite (map_nth (fun i0 => nth i0 ts (zero N)) idx 0 k). rewrite Ek. reflexivity.
    - intros i Hn. apply K2. rewrite Hl. rewrite firstn_all. exact Hn.
  Qed.

  (* ---- impose_as: copy_to frame facts, and the exact relation when the groups do not interfere *)
  Lemma copy_to_length i k (x : list E) : length (copy_to N i k x) = length x.
  Proof. unfold copy_to. destruct (_ && _)%bool; auto. apply set_nth_length. Qed.
  Lemma copy_to_other i k j (x : list E) d : j <> k -> nth j (copy_to N i k x) d = nth j x d.
  Proof. intros H. unfold copy_to. destruct (_ && _)%bool; auto. apply nth_set_nth_neq. auto. Qed.
  Lemma copy_to_hit i k (x : list E) : i < length x -> k < length x ->
    nth k (copy_to N i k x) (zero N) = nth i x (zero N).
  Proof.
    intros Hi Hk. unfold copy_to.
    assert (H : (Nat.ltb i (length x) && Nat.ltb k (length x))%bool = true)
      by (apply andb_true_iff; split; apply Nat.ltb_lt; auto).
    rewrite H. apply nth_set_nth_eq; auto.
  Qed.

  (* one group (leader, followers): afterwards every in-range follower equals the leader, the leader and all
     non-followers are untouched *)
  Lemma group_spec g : forall (x : list E), ~ In (fst g) (snd g) ->
    let y := fold_left (fun z k => copy_to N (fst g) k z) (snd g) x in
    length y = length x /\
    (forall k, In k (snd g) -> fst g < length x -> k < length x -> nth k y (zero N) = nth (fst g) x (zero N)) /\
    (forall j, ~ In j (snd g) -> nth j y (zero N) = nth j x (zero N)).
  Proof.
    destruct g as [i fs]. simpl. induction fs as [|a fs IH]; intros x Hni; simpl.
    - split; auto. split; [intros k []|auto].
    - assert (Hia : i <> a) by (intros ->; apply Hni; left; auto).
      assert (Hni' : ~ In i fs) by (intros H; apply Hni; right; auto).
      destruct (IH (copy_to N i a x) Hni') as [L [K1 K2]]. rewrite copy_to_length in L, K1. split; auto. split.
      + intros k [<-|Hk] Hi Hlt.
        * destruct (in_dec Nat.eq_dec a fs) as [I|I].
          -- rewrite K1 by auto. apply copy_to_other. auto.
          -- rewrite K2 by auto. apply copy_to_hit; auto.
        * rewrite K1 by auto. apply copy_to_other. auto.
      + intros j Hn. rewrite K2 by tauto. apply copy_to_other. intros ->. apply Hn. left; auto.
  Qed.

  (* several groups whose member sets are pairwise disjoint: every follower ends up equal to ITS leader's original
     value, leaders and outsiders are untouched *)
  Definition members (g : nat * list nat) : list nat := fst g :: snd g.
  Lemma apply_groups_disjoint gs : forall (x : list E),
    NoDup (flat_map members gs) ->
    let y := apply_groups N gs x in
    length y = length x /\
    (forall g k, In g gs -> In k (snd g) -> fst g < length x -> k < length x -> nth k y (zero N) = nth (fst g) x (zero N)) /\
    (forall j, ~ In j (flat_map snd gs) -> nth j y (zero N) = nth j x (zero N)).
  Proof.
    unfold apply_groups. induction gs as [|g gs IH]; intros x ND; simpl.
    - split; auto. split; [intros g k []|auto].
    - simpl in ND. unfold members in ND at 1. simpl in ND. inversion ND as [|? ? Hlead ND1]; subst.
      pose proof (NoDup_app_r' _ _ ND1) as NDgs.
      assert (Hni : ~ In (fst g) (snd g)) by (intros H; apply Hlead; apply in_or_app; auto).
      destruct (group_spec g x Hni) as [L0 [G1 G2]].
      set (x1 := fold_left (fun z k => copy_to N (fst g) k z) (snd g) x) in *.
      destruct (IH x1 NDgs) as [L [K1 K2]]. rewrite L0 in L, K1. split; auto. split.
      + intros g' k [<-|Hg] Hk Hl Hkl.
        * rewrite K2; [apply G1; auto|]. intros Hin.
          apply (NoDup_app_disj _ _ k ND1 Hk). apply in_flat_map in Hin. destruct Hin as [g2 [Hg2 Hk2]].
          apply in_flat_map. exists g2. split; auto. right; auto.
        * rewrite (K1 g' k Hg Hk Hl Hkl). apply G2. intros Hin.
          apply (NoDup_app_disj _ _ (fst g') ND1 Hin). apply in_flat_map. exists g'. split; auto. left; auto.
      + intros j Hn. rewrite K2 by (intros H; apply Hn; apply in_or_app; auto). apply G2. intros H; apply Hn; apply in_or_app; auto.
  Qed.

  Lemma leader_not_follower gs g g2 :
    NoDup (flat_map members gs) -> In g gs -> In g2 gs -> ~ In (fst g) (snd g2).
  Proof.
    induction gs as [|h t IH]; intros ND Hg Hg2 Hin; [destruct Hg|]. cbn [flat_map] in ND.
    destruct Hg as [->|Hg]; destruct Hg2 as [->|Hg2].
    - apply NoDup_app_l' in ND. unfold members in ND. inversion ND; subst. auto.
    - apply (NoDup_app_disj _ _ (fst g) ND); [left; auto|]. apply in_flat_map. exists g2. split; auto. right; auto.
    - apply (NoDup_app_disj _ _ (fst g) ND); [right; auto|]. apply in_flat_map. exists g. split; auto. left; auto.
    - apply (IH (NoDup_app_r' _ _ ND) Hg Hg2 Hin).
  Qed.

  (* ---- tools.connected (repaired: bridging pairs merge their groups) *)
  Definition allm (gs : list (nat * list nat)) : list nat := flat_map members gs.
  Definition keys (gs : list (nat * list nat)) : list nat := map fst gs.

  Lemma in_group_iff i g : in_group i g = true <-> In i (members g).
  Proof.
    unfold in_group, members. rewrite orb_true_iff, Nat.eqb_eq, memb_In. simpl. intuition.
  Qed.
  Lemma keys_incl gs k : In k (keys gs) -> In k (allm gs).
  Proof.
    unfold keys, allm. intros H. apply in_map_iff in H. destruct H as [g [<- Hg]].
    apply in_flat_map. exists g. split; auto. left; auto.
  Qed.
  Lemma keys_NoDup gs : NoDup (allm gs) -> NoDup (keys gs).
  Proof.
    induction gs as [|g gs IH]; simpl; [constructor|]. intros ND. constructor.
    - intros Hk. apply keys_incl in Hk.
      change (NoDup (members g ++ allm gs)) in ND. apply (NoDup_app_disj _ _ (fst g) ND); [left; auto|exact Hk].
    - apply IH. change (NoDup (members g ++ allm gs)) in ND. eapply NoDup_app_r'; eauto.
  Qed.
  Lemma key_of_Some i gs k : key_of i gs = Some k -> exists g, In g gs /\ fst g = k /\ In i (members g).
  Proof.
    unfold key_of. destruct (find (in_group i) gs) as [g|] eqn:F; [|discriminate].
    intros H; inversion H; subst. apply find_some in F. destruct F as [A B]. exists g. split; auto. split; auto.
    apply in_group_iff; auto.
  Qed.
  Lemma key_of_None i gs : key_of i gs = None -> ~ In i (allm gs).
  Proof.
    unfold key_of. destruct (find (in_group i) gs) as [g|] eqn:F; [discriminate|]. intros _ Hin.
    apply in_flat_map in Hin. destruct Hin as [g [Hg Hi]].
    pose proof (find_none _ _ F g Hg) as Q. apply in_group_iff in Hi. congruence.
  Qed.
  Lemma same_key_same_group gs g1 g2 : NoDup (keys gs) -> In g1 gs -> In g2 gs -> fst g1 = fst g2 -> g1 = g2.
  Proof.
    induction gs as [|g gs IH]; intros ND H1 H2 E; [destruct H1|]. simpl in ND. inversion ND; subst.
    destruct H1 as [->|H1]; destruct H2 as [->|H2]; auto.
    - exfalso. apply H3. rewrite E. apply in_map; auto.
    - exfalso. apply H3. rewrite <- E. apply in_map; auto.
  Qed.
  Lemma followers_of gs g : NoDup (keys gs) -> In g gs -> followers (fst g) gs = snd g.
  Proof.
    intros ND Hg. unfold followers. destruct (find (fun h => Nat.eqb (fst h) (fst g)) gs) as [h|] eqn:F.
    - apply find_some in F. destruct F as [Hh E]. apply Nat.eqb_eq in E.
      rewrite (same_key_same_group gs h g ND Hh Hg E). reflexivity.
    - pose proof (find_none _ _ F g Hg) as Q. simpl in Q. rewrite Nat.eqb_refl in Q. discriminate.
  Qed.
  Lemma add_members_notin k l gs : ~ In k (keys gs) -> add_members k l gs = gs.
  Proof.
    induction gs as [|g gs IH]; simpl; auto. intros H.
    destruct (Nat.eqb (fst g) k) eqn:E; [apply Nat.eqb_eq in E; tauto|]. f_equal. apply IH. tauto.
  Qed.
  Lemma remove_key_notin k gs : ~ In k (keys gs) -> remove_key k gs = gs.
  Proof.
    induction gs as [|g gs IH]; simpl; auto. intros H.
    destruct (Nat.eqb (fst g) k) eqn:E; [apply Nat.eqb_eq in E; tauto|]. simpl. f_equal. apply IH. tauto.
  Qed.
  Lemma keys_add_members k l gs : keys (add_members k l gs) = keys gs.
  Proof. unfold keys, add_members. rewrite map_map. apply map_ext. intros g. destruct (Nat.eqb (fst g) k); auto. Qed.

  Lemma add_members_perm gs : forall k l, NoDup (keys gs) -> In k (keys gs) ->
    Permutation (allm (add_members k l gs)) (l ++ allm gs).
  Proof.
    induction gs as [|g gs IH]; intros k l ND Hk; [destruct Hk|]. simpl in ND. inversion ND; subst.
    unfold add_members. cbn [map]. fold (add_members k l gs). destruct (Nat.eqb (fst g) k) eqn:E.
    - apply Nat.eqb_eq in E. subst k. rewrite add_members_notin by auto.
      change (Permutation ((fst g :: snd g ++ l) ++ allm gs) (l ++ (fst g :: snd g) ++ allm gs)).
      simpl. rewrite <- app_assoc. apply Permutation_sym.
      etransitivity; [apply (Permutation_app_comm l (fst g :: snd g ++ allm gs))|].
      simpl. apply perm_skip. rewrite <- app_assoc. apply Permutation_app_head. apply Permutation_app_comm.
    - destruct Hk as [Hk|Hk]; [apply Nat.eqb_neq in E; congruence|].
      change (Permutation (members g ++ allm (add_members k l gs)) (l ++ members g ++ allm gs)).
      etransitivity; [apply Permutation_app_head; apply IH; auto|].
      apply Permutation_app_swap_app.
  Qed.
  Lemma remove_key_perm gs : forall k, NoDup (keys gs) -> In k (keys gs) ->
    Permutation (allm gs) ((k :: followers k gs) ++ allm (remove_key k gs)).
  Proof.
    induction gs as [|g gs IH]; intros k ND Hk; [destruct Hk|]. simpl in ND. inversion ND; subst.
    unfold followers, remove_key. cbn [find filter]. fold (remove_key k gs).
    destruct (Nat.eqb (fst g) k) eqn:E; cbn [negb].
    - apply Nat.eqb_eq in E. subst k. rewrite remove_key_notin by auto. apply Permutation_refl.
    - destruct Hk as [Hk|Hk]; [apply Nat.eqb_neq in E; congruence|].
      fold (followers k gs).
      change (Permutation (members g ++ allm gs) ((k :: followers k gs) ++ members g ++ allm (remove_key k gs))).
      etransitivity; [apply Permutation_app_head; apply (IH k); auto|].
      apply (Permutation_app_swap_app (members g) (k :: followers k gs) (allm (remove_key k gs))).
  Qed.

  Definition covered (gs : list (nat * list nat)) (p : nat * nat) : Prop :=
    exists g, In g gs /\ In (fst p) (members g) /\ In (snd p) (members g).

  Lemma covered_add_members k l gs p : covered gs p -> covered (add_members k l gs) p.
  Proof.
    intros [g [Hg [A B]]]. exists (if Nat.eqb (fst g) k then (fst g, snd g ++ l) else g). split.
    - unfold add_members. apply in_map_iff. exists g. auto.
    - destruct (Nat.eqb (fst g) k); auto. unfold members in *. simpl in *. rewrite !in_app_iff. tauto.
  Qed.
  Lemma in_add_members k l gs g : In g gs -> fst g = k -> In (k, snd g ++ l) (add_members k l gs).
  Proof.
    intros Hg E. unfold add_members. apply in_map_iff. exists g. split; auto.
    apply Nat.eqb_eq in E as E'. rewrite E'. subst k. reflexivity.
  Qed.

  (* invariant of the fold: groups pairwise disjoint, every processed pair inside one group, members come from pairs *)
  Definition conn_inv (gs : list (nat * list nat)) (done : list (nat * nat)) : Prop :=
    NoDup (allm gs) /\
    (forall p, In p done -> fst p <> snd p -> covered gs p) /\
    (forall x, In x (allm gs) -> exists p, In p done /\ (x = fst p \/ x = snd p)).

  Lemma connect_step_inv gs done p : conn_inv gs done -> conn_inv (connect_step gs p) (done ++ [p]).
  Proof.
    intros [ND [CV SRC]]. destruct p as [i j]. unfold connect_step. simpl.
    assert (SRC' : forall gs', (forall x, In x (allm gs') -> In x (allm gs) \/ x = i \/ x = j) ->
                   forall x, In x (allm gs') -> exists q, In q (done ++ [(i, j)]) /\ (x = fst q \/ x = snd q)).
    { intros gs' H x Hx. destruct (H x Hx) as [Hx'|[->| ->]].
      - destruct (SRC x Hx') as [q [Hq E]]. exists q. split; auto. apply in_or_app; auto.
      - exists (i, j). split; [apply in_or_app; right; left; auto | left; auto].
      - exists (i, j). split; [apply in_or_app; right; left; auto | right; auto]. }
    assert (CV' : forall gs', (forall q, covered gs q -> covered gs' q) -> (i <> j -> covered gs' (i, j)) ->
                  forall q, In q (done ++ [(i, j)]) -> fst q <> snd q -> covered gs' q).
    { intros gs' H1 H2 q Hq Hne. apply in_app_or in Hq. destruct Hq as [Hq|[<-|[]]]; auto. }
    pose proof (keys_NoDup gs ND) as NDk.
    destruct (Nat.eqb i j) eqn:Eij.
    - apply Nat.eqb_eq in Eij. subst j. split; auto. split.
      + apply CV'; auto. intros H; congruence.
      + apply SRC'. auto.
    - apply Nat.eqb_neq in Eij.
      destruct (key_of i gs) as [ki|] eqn:Ki; destruct (key_of j gs) as [kj|] eqn:Kj.
      + (* both in a group *)
        destruct (key_of_Some _ _ _ Ki) as [gi [Hgi [Egi Hi]]]. destruct (key_of_Some _ _ _ Kj) as [gj [Hgj [Egj Hj]]].
        destruct (Nat.eqb ki kj) eqn:Ek.
        * apply Nat.eqb_eq in Ek. subst kj. split; auto. split; [|apply SRC'; auto].
          apply CV'; auto. intros _. exists gi. split; auto. split; auto.
          assert (gi = gj) by (apply (same_key_same_group gs); auto; congruence). subst gj. auto.
        * apply Nat.eqb_neq in Ek.
          assert (Hkj : In kj (keys gs)) by (subst kj; apply in_map; auto).
          assert (Hki : In ki (keys gs)) by (subst ki; apply in_map; auto).
          pose proof (remove_key_perm gs kj NDk Hkj) as P1.
          assert (ND1 : NoDup ((kj :: followers kj gs) ++ allm (remove_key kj gs))) by (eapply Permutation_NoDup; eauto).
          assert (NDr : NoDup (allm (remove_key kj gs))) by (eapply NoDup_app_r'; eauto).
          assert (Hki' : In ki (keys (remove_key kj gs))).
          { unfold keys, remove_key. apply in_map_iff. exists gi. split; auto. apply filter_In. split; auto.
            apply negb_true_iff. apply Nat.eqb_neq. congruence. }
          pose proof (add_members_perm (remove_key kj gs) ki (followers kj gs ++ [kj]) (keys_NoDup _ NDr) Hki') as P2.
          assert (P3 : Permutation (allm (add_members ki (followers kj gs ++ [kj]) (remove_key kj gs))) (allm gs)).
          { etransitivity; [exact P2|]. apply Permutation_sym. etransitivity; [exact P1|].
            apply Permutation_app_tail. simpl. apply Permutation_cons_append. }
          split; [eapply Permutation_NoDup; [apply Permutation_sym; exact P3|exact ND]|]. split.
          -- apply CV'.
             ++ intros q [g [Hg [A B]]]. destruct (Nat.eq_dec (fst g) kj) as [Eg|Eg].
                ** (* the popped group: its members are now members of group ki *)
                   exists (ki, snd gi ++ followers kj gs ++ [kj]). split.
                   --- apply in_add_members; auto. apply filter_In. split; auto.
                       apply negb_true_iff. apply Nat.eqb_neq. congruence.
                   --- assert (Hsub : forall x, In x (members g) -> In x (members (ki, snd gi ++ followers kj gs ++ [kj]))).
                       { intros x Hx. unfold members in *. simpl. right. rewrite !in_app_iff.
                         destruct Hx as [Hx|Hx]; [right; right; left; congruence|].
                         right. left. rewrite <- Eg. rewrite (followers_of gs g NDk Hg). exact Hx. }
                       split; apply Hsub; auto.
                ** apply covered_add_members. exists g. split; [|auto]. apply filter_In. split; auto.
                   apply negb_true_iff. apply Nat.eqb_neq. exact Eg.
             ++ intros _. exists (ki, snd gi ++ followers kj gs ++ [kj]). split.
                ** apply in_add_members; auto. apply filter_In. split; auto.
                   apply negb_true_iff. apply Nat.eqb_neq. congruence.
                ** unfold members in *. simpl in *. split.
                   --- destruct Hi as [Hi|Hi]; [left; congruence|right; apply in_or_app; auto].
                   --- right. rewrite !in_app_iff. destruct Hj as [Hj|Hj]; [right; right; left; congruence|].
                       right. left. rewrite <- Egj. rewrite (followers_of gs gj NDk Hgj). exact Hj.
          -- apply SRC'. intros x Hx. left. eapply Permutation_in; [exact P3|exact Hx].
      + (* i in group ki, j new *)
        destruct (key_of_Some _ _ _ Ki) as [gi [Hgi [Egi Hi]]]. pose proof (key_of_None _ _ Kj) as Hj.
        assert (Hki : In ki (keys gs)) by (subst ki; apply in_map; auto).
        pose proof (add_members_perm gs ki [j] NDk Hki) as P. simpl in P.
        split; [eapply Permutation_NoDup; [apply Permutation_sym; exact P|constructor; auto]|]. split.
        * apply CV'; [apply covered_add_members|]. intros _. exists (ki, snd gi ++ [j]). split; [apply in_add_members; auto|].
          unfold members in *. simpl in *. split.
          -- destruct Hi as [Hi|Hi]; [left; congruence|right; apply in_or_app; auto].
          -- right. apply in_or_app. right. left. auto.
        * apply SRC'. intros x Hx. pose proof (Permutation_in _ P Hx) as Q. destruct Q as [<-|Q]; auto.
      + (* j in group kj, i new *)
        destruct (key_of_Some _ _ _ Kj) as [gj [Hgj [Egj Hj]]]. pose proof (key_of_None _ _ Ki) as Hi.
        assert (Hkj : In kj (keys gs)) by (subst kj; apply in_map; auto).
        pose proof (add_members_perm gs kj [i] NDk Hkj) as P. simpl in P.
        split; [eapply Permutation_NoDup; [apply Permutation_sym; exact P|constructor; auto]|]. split.
        * apply CV'; [apply covered_add_members|]. intros _. exists (kj, snd gj ++ [i]). split; [apply in_add_members; auto|].
          unfold members in *. simpl in *. split.
          -- right. apply in_or_app. right. left. auto.
          -- destruct Hj as [Hj|Hj]; [left; congruence|right; apply in_or_app; auto].
        * apply SRC'. intros x Hx. pose proof (Permutation_in _ P Hx) as Q. destruct Q as [<-|Q]; auto.
      + (* a new group *)
        pose proof (key_of_None _ _ Ki) as Hi. pose proof (key_of_None _ _ Kj) as Hj.
        assert (E : allm (gs ++ [(i, [j])]) = allm gs ++ [i; j]) by (unfold allm; rewrite flat_map_app; reflexivity).
        split.
        * rewrite E. eapply Permutation_NoDup; [apply Permutation_app_comm|]. simpl. constructor.
          -- intros [H|H]; [congruence|tauto].
          -- constructor; auto.
        * split.
          -- apply CV'.
             ++ intros q [g [Hg AB]]. exists g. split; auto. apply in_or_app; auto.
             ++ intros _. exists (i, [j]). split; [apply in_or_app; right; left; auto|]. unfold members; simpl. auto.
          -- apply SRC'. intros x Hx. rewrite E in Hx. apply in_app_or in Hx. simpl in Hx.
             destruct Hx as [Hx|[<-|[<-|[]]]]; auto.
  Qed.

  Lemma connected_inv pairs : conn_inv (connected pairs) pairs.
  Proof.
    unfold connected.
    assert (G : forall l gs done, conn_inv gs done -> conn_inv (fold_left connect_step l gs) (done ++ l)).
    { induction l as [|p l IH]; intros gs done H; simpl; [rewrite app_nil_r; auto|].
      replace (done ++ p :: l) with ((done ++ [p]) ++ l) by (rewrite <- app_assoc; reflexivity).
      apply IH. apply connect_step_inv. auto. }
    apply (G pairs [] []). split; [constructor|]. split; [intros p []|intros x []].
  Qed.

  Lemma nodup_length_le (l : list nat) : length (nodup Nat.eq_dec l) <= length l.
  Proof. induction l as [|a l IH]; simpl; auto. destruct (in_dec Nat.eq_dec a l); simpl; lia. Qed.
  Lemma NoDup_nodup_length (l : list nat) : NoDup l -> length (nodup Nat.eq_dec l) = length l.
  Proof. intros H. rewrite nodup_fixed_point; auto. Qed.

  (* the groups of tools.connected are ALWAYS pairwise disjoint (repaired behaviour) *)
  Theorem connected_groups_disjoint pairs : groups_disjoint (connected pairs) = true.
  Proof.
    unfold groups_disjoint. apply Nat.eqb_eq. apply NoDup_nodup_length. apply (proj1 (connected_inv pairs)).
  Qed.

  (* FULL: the tie stage of impose_as makes x_i = x_j exactly for EVERY pair of the mask, whatever the iteration order of
     the set and however the pairs chain (all indices in range) *)
  Theorem impose_as_ties pairs (x : list E) :
    (forall p, In p pairs -> fst p < length x /\ snd p < length x) ->
    forall i j, In (i, j) pairs ->
      nth i (apply_groups N (connected pairs) x) (zero N) = nth j (apply_groups N (connected pairs) x) (zero N).
  Proof.
    intros Hr i j Hp. destruct (Nat.eq_dec i j) as [->|Hne]; [reflexivity|].
    destruct (connected_inv pairs) as [ND [CV SRC]].
    assert (Hall : forall k, In k (allm (connected pairs)) -> k < length x).
    { intros k Hk. destruct (SRC k Hk) as [q [Hq [->| ->]]]; apply Hr; auto. }
    destruct (apply_groups_disjoint (connected pairs) x ND) as [L [K1 K2]].
    destruct (CV (i, j) Hp Hne) as [g [Hg [A B]]]. simpl in A, B.
    assert (Hlead : fst g < length x) by (apply Hall; apply in_flat_map; exists g; split; auto; left; auto).
    assert (V : forall k, In k (members g) ->
                nth k (apply_groups N (connected pairs) x) (zero N) = nth (fst g) x (zero N)).
    { intros k [<-|Hk].
      - apply K2. intros Hin. apply in_flat_map in Hin. destruct Hin as [g2 [Hg2 Hk2]].
        exact (leader_not_follower _ _ _ ND Hg Hg2 Hk2).
      - apply K1; auto. apply Hall. apply in_flat_map. exists g. split; auto. right; auto. }
    rewrite (V i A), (V j B). reflexivity.
  Qed.
End ImposeFacts.

(* ================================================================== composition of collapse rounds *)
Section Compose.
  Variable V : Type.
  (* a relation on vectors (x_i = target, x_i = x_j, ...) and transformations that keep it *)
  Variable Rel : V -> Prop.

  (* the newest round acts first; its relation survives iff every OLDER transformation and the base constraints keep it *)
  Theorem compose_rounds_preserves (c0 : xform V) (older : list (xform V)) (newest : xform V) :
    (forall x, Rel (newest x)) ->
    Forall (fun I => forall x, Rel x -> Rel (I x)) older ->
    (forall x, Rel x -> Rel (c0 x)) ->
    forall x, Rel (compose_rounds V c0 (older ++ [newest]) x).
  Proof.
    intros Hn Ho Hc x. unfold compose_rounds. apply Hc.
    rewrite fold_right_app. simpl.
    induction older as [|I older IH]; simpl; [apply Hn|].
    inversion Ho; subst. apply H1. apply IH; auto.
  Qed.

  (* and rounds applied LATER in time (they act earlier on the candidate) never matter for an older round's relation *)
  Theorem compose_rounds_older_relation (c0 : xform V) (before : list (xform V)) (I : xform V) (after : list (xform V)) :
    (forall x, Rel (I x)) ->
    Forall (fun J => forall x, Rel x -> Rel (J x)) before ->
    (forall x, Rel x -> Rel (c0 x)) ->
    forall x, Rel (compose_rounds V c0 (before ++ I :: after) x).
  Proof.
    intros Hn Ho Hc x. unfold compose_rounds. apply Hc.
    rewrite fold_right_app. simpl.
    induction before as [|J before IH]; simpl; [apply Hn|].
    inversion Ho; subst. apply H1. apply IH; auto.
  Qed.
End Compose.

(* frame instance: a transformation that does not write coordinate i keeps "x_i = t"; one that writes neither i nor j
   keeps "x_i = x_j" *)
Section Frames.
  Variable N : Num.
  Notation E := (T N).
  Definition fixed_at (i : nat) (t : E) (x : list E) : Prop := nth i x (zero N) = t.
  Definition tied (i j : nat) (x : list E) : Prop := nth i x (zero N) = nth j x (zero N).
  Definition frames (W : list nat) (I : list E -> list E) : Prop :=
    forall x j, ~ In j W -> nth j (I x) (zero N) = nth j x (zero N).

  Lemma frames_keep_fixed W I i t : frames W I -> ~ In i W -> forall x, fixed_at i t x -> fixed_at i t (I x).
  Proof. unfold frames, fixed_at. intros F Hi x H. rewrite F; auto. Qed.
  Lemma frames_keep_tied W I i j : frames W I -> ~ In i W -> ~ In j W -> forall x, tied i j x -> tied i j (I x).
  Proof. unfold frames, tied. intros F Hi Hj x H. rewrite !F; auto. Qed.

  (* impose_at (scalar target) as a total vector function, its relation and its frame *)
  Definition at_xform (idx : list nat) (t : E) (x : list E) : list E :=
    fold_left (fun y i => set_nth N i t y) (filter (fun i => Nat.ltb i (length x)) idx) x.
  Lemma at_xform_is_impose_at idx t x : impose_at N idx (AtScalar t) x = Ok (at_xform idx t x).
  Proof. reflexivity. Qed.
  Lemma at_xform_frames idx t : frames idx (at_xform idx t).
  Proof.
    intros x j Hj. destruct (impose_at_scalar_exact N idx t x (zero N)) as [y [E [_ K]]].
    rewrite at_xform_is_impose_at in E. inversion E; subst. apply K; auto.
  Qed.
  Lemma at_xform_fixes idx t i x : In i idx -> i < length x -> fixed_at i t (at_xform idx t x).
  Proof.
    intros Hi Hl. destruct (impose_at_scalar_exact N idx t x (zero N)) as [y [E [_ K]]].
    rewrite at_xform_is_impose_at in E. inversion E; subst. apply K; auto.
  Qed.
  Lemma at_xform_length idx t x : length (at_xform idx t x) = length x.
  Proof.
    destruct (impose_at_scalar_exact N idx t x (zero N)) as [y [E [L _]]].
    rewrite at_xform_is_impose_at in E. inversion E; subst. auto.
  Qed.
End Frames.

(* CollapseAt-only solver: rounds r1..rn with index sets that are pairwise disjoint (which the mask guarantees, see
   collapse_at_never_reported_twice) and a base constraint that does not move collapsed coordinates:
   EVERY applied relation x_i = t_k holds for every vector the composed constraints return. *)
Section AtOnly.
  Variable N : Num.
  Notation E := (T N).
  Variable c0 : list E -> list E.
  Variable n : nat.
  Hypothesis c0_length : forall x, length (c0 x) = length x.

  Definition rounds_xforms (rs : list (list nat * E)) : list (xform (list E)) :=
    map (fun r => at_xform N (fst r) (snd r)) rs.
  Definition all_indices (rs : list (list nat * E)) : list nat := flat_map fst rs.

  Lemma fold_rounds_length rs x : length (fold_right (fun I y => I y) x (rounds_xforms rs)) = length x.
  Proof. induction rs as [|r rs IH]; simpl; auto. rewrite at_xform_length. auto. Qed.

  Theorem at_only_all_rounds_exact (rs : list (list nat * E)) :
    NoDup (all_indices rs) ->
    frames N nil c0 \/ (forall x j, In j (all_indices rs) -> nth j (c0 x) (zero N) = nth j x (zero N)) ->
    forall x k idx t i, nth_error rs k = Some (idx, t) -> In i idx -> i < length x ->
      fixed_at N i t (compose_rounds _ c0 (rounds_xforms rs) x).
  Proof.
    intros ND Hc x k idx t i Hk Hi Hl. unfold compose_rounds.
    assert (Hall : In i (all_indices rs)).
    { unfold all_indices. apply in_flat_map. exists (idx, t). split; auto. eapply nth_error_In; eauto. }
    assert (C : fixed_at N i t (fold_right (fun I y => I y) x (rounds_xforms rs))).
    { clear Hc Hall. revert k Hk ND. induction rs as [|[idx' t'] rs IH]; intros k Hk ND; [destruct k; discriminate|].
      simpl. destruct k as [|k]; simpl in Hk.
      - inversion Hk; subst. apply at_xform_fixes; auto. rewrite fold_rounds_length. auto.
      - unfold all_indices in ND. simpl in ND. pose proof (NoDup_app_r' _ _ ND) as ND'.
        apply frames_keep_fixed with (W := idx').
        + apply at_xform_frames.
        + intros Hin. apply (NoDup_app_disj _ _ i ND Hin).
          apply in_flat_map. exists (idx, t). split; auto. eapply nth_error_In; eauto.
        + eapply IH; eauto. }
    unfold fixed_at in *. destruct Hc as [Hc|Hc]; [rewrite Hc; auto | rewrite Hc; auto].
  Qed.
End AtOnly.

(* ================================================================== the collapse loop of _Solve terminates *)
Section LoopFacts.
  Variables St C : Type.
  Variable ceq : forall a b : C, {a = b} + {a <> b}.
  Variable U : list C.                     (* the finite set of candidates: n indices, or n(n-1)/2 pairs *)
  Variable inner : St -> list C -> St * list C.
  Variable apply : St -> list C -> St.
  Definition cnt (V : list C) (m : list C) : nat := length (filter (fun c => if in_dec ceq c m then false else true) V).
  Definition unmasked (m : list C) : nat := cnt U m.

  Lemma cnt_le V m m' : (forall c, In c m -> In c m') -> cnt V m' <= cnt V m.
  Proof.
    intros H. unfold cnt. induction V as [|a l IH]; simpl; auto.
    destruct (in_dec ceq a m') as [I'|I']; destruct (in_dec ceq a m) as [I|I]; simpl.
    - exact IH.
    - lia.
    - exfalso. apply I'. apply H. exact I.
    - lia.
  Qed.
  Lemma cnt_lt V m m' c : (forall c, In c m -> In c m') -> In c V -> ~ In c m -> In c m' -> cnt V m' < cnt V m.
  Proof.
    intros H Hu Hn Hm'. induction V as [|a l IH]; simpl; [destruct Hu|].
    pose proof (cnt_le l m m' H) as L. unfold cnt in *. simpl.
    destruct Hu as [<-|Hu].
    - destruct (in_dec ceq a m') as [I'|I']; [|tauto]. destruct (in_dec ceq a m) as [I|I]; [tauto|]. simpl. lia.
    - specialize (IH Hu). destruct (in_dec ceq a m') as [I'|I']; destruct (in_dec ceq a m) as [I|I]; simpl.
      + exact IH.
      + lia.
      + exfalso. apply I'. apply H. exact I.
      + lia.
  Qed.
  Lemma cnt_bound V m : cnt V m <= length V.
  Proof. unfold cnt. induction V as [|a l IH]; simpl; auto. destruct (in_dec ceq a m); simpl; lia. Qed.
  Lemma unmasked_le m m' : (forall c, In c m -> In c m') -> unmasked m' <= unmasked m.
  Proof. apply cnt_le. Qed.
  Lemma unmasked_lt m m' c : (forall c, In c m -> In c m') -> In c U -> ~ In c m -> In c m' -> unmasked m' < unmasked m.
  Proof. apply cnt_lt. Qed.

  (* what the detector theorems give: everything reported is a candidate and is not in the mask *)
  Hypothesis reported_fresh : forall s m c, In c (snd (inner s m)) -> In c U /\ ~ In c m.

  (* measure: the number of unmasked candidates strictly decreases in every round that applies a collapse *)
  Theorem collapse_round_decreases s m :
    snd (inner s m) <> [] -> unmasked (extend_mask m (snd (inner s m))) < unmasked m.
  Proof.
    intros Hne. destruct (snd (inner s m)) as [|c r] eqn:E; [congruence|].
    assert (Hc : In c (snd (inner s m))) by (rewrite E; left; auto).
    destruct (reported_fresh s m c Hc) as [Hu Hn].
    apply unmasked_lt with (c := c); auto.
    - intros x Hx. apply extend_mask_In. auto.
    - apply extend_mask_In. right. left. auto.
  Qed.

  Theorem collapse_loop_terminates : forall fuel s m, unmasked m < fuel ->
    exists s' m' k, solve_loop St C inner apply fuel s m = Some (s', m', k) /\ k <= unmasked m /\
                    (forall c, In c m -> In c m') /\ exists s0, inner s0 m' = (s', []).
  Proof.
    induction fuel as [|f IH]; intros s m Hf; [lia|].
    simpl. destruct (inner s m) as [s1 r] eqn:E. destruct r as [|c r].
    - exists s1, m, 0. split; auto. split; [lia|]. split; auto. exists s. exact E.
    - pose proof (collapse_round_decreases s m) as D. rewrite E in D. simpl in D.
      assert (D' : unmasked (extend_mask m (c :: r)) < unmasked m) by (apply D; discriminate).
      destruct (IH (apply s1 (c :: r)) (extend_mask m (c :: r))) as (s' & m' & k & R & K & Hm & Hlast); [lia|].
      rewrite R. exists s', m', (S k). split; auto. split; [lia|]. split; auto.
      intros x Hx. apply Hm. apply extend_mask_In. auto.
  Qed.

  (* in particular |U| + 1 rounds of fuel always suffice, whatever the inner solver does *)
  Corollary collapse_loop_terminates_within_candidates s m :
    exists s' m' k, solve_loop St C inner apply (S (length U)) s m = Some (s', m', k) /\ k <= length U.
  Proof.
    assert (B : unmasked m <= length U) by apply cnt_bound.
    destruct (collapse_loop_terminates (S (length U)) s m) as (s' & m' & k & R & K & _); [lia|].
    exists s', m', k. split; auto. lia.
  Qed.
End LoopFacts.

(* ================================================================== concrete witnesses (executed on the exact-rational instance) *)
From Coq Require Import QArith.
Open Scope Q_scope.

(* regression witness of the repaired tools.connected: the bridging pair (0,4) merges the groups of (0,1) and (2,4) *)
Lemma impose_as_merge_witness :
  let pairs := [(0, 1); (2, 4); (0, 4)]%nat in
  let x := [10; 20; 30; 40; 50] : list Q in
  connected pairs = [(0, [1; 4; 2])]%nat /\
  apply_groups NumQ (connected pairs) x = [10; 10; 10; 40; 10] /\
  groups_disjoint (connected pairs) = true.
Proof. vm_compute. repeat split. Qed.

(* composition: the NEWEST round fixes x1 = 0, an OLDER CollapseAs round (x1 := x0) acts after it and overwrites it *)
Lemma compose_overwrites_refuted_lemma :
  exists (older newest : xform (list Q)) (x : list Q),
    (forall y, (1 < length y)%nat -> fixed_at NumQ 1 0 (newest y)) /\
    ~ fixed_at NumQ 1 0 (compose_rounds _ (fun y => y) [older; newest] x).
Proof.
  exists (fun y => apply_groups NumQ (connected [(0, 1)]%nat) y), (at_xform NumQ [1%nat] 0), [5; 7].
  split.
  - intros y Hy. apply at_xform_fixes; simpl; auto.
  - unfold fixed_at. vm_compute. discriminate.
Qed.

(* CollapseAt(target=[t0,t1]) collapsing only index 1 (repaired Collapse, fix 3c01a6d): x1 is fixed at its own target t1 = 2;
   the pre-repair call impose_at({1}, [t0,t1]) paired positionally and fixed x1 at t0 = 1 *)
Lemma collapse_list_target_witness :
  collapse_at_list NumQ [1%nat] [1; 2] [5; 6] = Ok [5; 2] /\
  impose_at NumQ [1%nat] (@AtList NumQ [1; 2]) [5; 6] = Ok [5; 1].
Proof. split; reflexivity. Qed.

(* CollapseAs(offset=True) imposes x_j = x_i + True, not the offset that was observed (here 3) *)
Lemma offset_true_witness : impose_as NumQ [(0, 1)%nat] 1 [5; 8] = Some [5; 5 + 1].
Proof. vm_compute. reflexivity. Qed.

(* non-vacuity witnesses *)
Example detector_example :
  collapse_at NumQ [[1; 2; 5]; [1; 3; 5]; [1; 2; 5 + (1 # 8)]] (@TNone NumQ) (1 # 8) None (MaSet [2%nat]) = Ok [0%nat] /\
  collapse_at NumQ [[1; 2; 5]; [1; 3; 5]; [1; 2; 5 + (1 # 8)]] (@TNone NumQ) (1 # 8) None MaNone = Ok [0%nat; 2%nat] /\
  collapse_as NumQ [[1; 1; 5]; [2; 2; 5]] false 0 (Some 1%Z) (MsSet [MInt 2]) = Ok [(0, 1)%nat] /\
  term_at NumQ 3 [[1; 2]; [1; 3]; [1; 4]] (@TScalar NumQ 1) 0 (Some 2%Z) MaNone = Ok (Some [0%nat]) /\
  term_at NumQ 2 [[1; 2]; [1; 3]] (@TScalar NumQ 1) 0 (Some 2%Z) MaNone = Ok None.
Proof. vm_compute. repeat split. Qed.

Example loop_example :
  (* a toy inner solver over candidates {0,1,2}: reports the smallest unmasked candidate until none is left *)
  let inner := fun (s : nat) (m : list nat) =>
     (S s, match filter (fun c => negb (memb c m)) [0; 1; 2]%nat with [] => [] | c :: _ => [c] end) in
  solve_loop nat nat inner (fun s _ => s) 4 0%nat [] = Some (4%nat, [0; 1; 2]%nat, 3%nat).
Proof. vm_compute. reflexivity. Qed.
