From Coq Require Import List ZArith Bool Arith Lia.
From MV Require Import Common.Num Pure.Collapse.
Import ListNotations.
Lemma extend_mask_In {A} (old new : list A) x : In x (extend_mask old new) <-> In x old \/ In x new.
Proof. destruct old; simpl; [tauto|]. rewrite in_app_iff. simpl. tauto. Qed.
