(* C16 -- index-addressed rewriting transforms of Pure/Transforms.v:
   impose_at (+ impose_at_spec), partial, insert_missing (= tools.masked), synchronized.
   No arithmetic is needed: everything holds for an arbitrary [Num] (section [Surgery]); [NumQ] is used only for a
   concrete example. Helper lemmas are prefixed [sg_]. *)
From Coq Require Import ZArith QArith List Bool Arith Lia Permutation Sorting.
From MV Require Import Common.Num Common.Order Pure.Transforms.
Import ListNotations.
Local Close Scope Q_scope.
Local Open Scope nat_scope.

(* ================================================================== generic list / index helpers *)
Section SgLists.
  Context {A : Type}.

  Lemma sg_set_nth_length : forall (l : list A) i v, length (set_nth l i v) = length l.
  Proof. induction l; intros [|i] v; simpl; auto. Qed.

  Lemma sg_nth_set_nth_eq : forall (l : list A) i v d, i < length l -> nth i (set_nth l i v) d = v.
  Proof. induction l; intros [|i] v d H; simpl in *; try lia; auto. apply IHl; lia. Qed.

  Lemma sg_nth_set_nth_neq : forall (l : list A) i j v d, i <> j -> nth j (set_nth l i v) d = nth j l d.
  Proof.
    induction l; intros [|i] [|j] v d H; simpl; auto; try congruence.
    all: try (apply IHl; lia).
  Qed.

  Lemma sg_scatter_length : forall ps (x vs : list A), length (scatter x ps vs) = length x.
  Proof.
    induction ps; intros x [|v vs]; simpl; auto.
    rewrite IHps. apply sg_set_nth_length.
  Qed.

  Lemma sg_scatter_others : forall ps (x vs : list A) p d, ~ In p ps -> nth p (scatter x ps vs) d = nth p x d.
  Proof.
    induction ps; intros x [|v vs] p d H; simpl; auto.
    rewrite IHps by (intro; apply H; right; auto).
    apply sg_nth_set_nth_neq. intro; apply H; left; auto.
  Qed.

  (* NoDup positions, all in range: the k-th position holds the k-th value *)
  Lemma sg_scatter_pinned : forall ps (x vs : list A) k d,
    NoDup ps -> length vs = length ps -> (forall p, In p ps -> p < length x) -> k < length ps ->
    nth (nth k ps 0) (scatter x ps vs) d = nth k vs d.
  Proof.
    induction ps; intros x [|v vs] k d Hnd Hl Hr Hk; simpl in *; try lia.
    inversion Hnd; subst.
    destruct k.
    - rewrite sg_scatter_others by auto. apply sg_nth_set_nth_eq. apply Hr; auto.
    - apply IHps; auto; try lia. intros p Hp. rewrite sg_set_nth_length. apply Hr; auto.
  Qed.

  Lemma sg_filter_length_le : forall (f : A -> bool) l, length (filter f l) <= length l.
  Proof. induction l; simpl; auto. destruct (f a); simpl; lia. Qed.

  Lemma sg_filter_length_eq : forall (f : A -> bool) l,
    length (filter f l) = length l <-> (forall a, In a l -> f a = true).
  Proof.
    induction l; simpl.
    - split; auto; intros _ a [].
    - destruct (f a) eqn:E; simpl.
      + split.
        * intros H b [->|Hb]; auto. apply IHl; auto.
        * intros H. f_equal. apply IHl. auto.
      + pose proof (sg_filter_length_le f l) as Hle. split; [lia|].
        intros H. rewrite (H a) in E by auto. discriminate.
  Qed.

  Lemma sg_filter_id : forall (f : A -> bool) l, (forall a, In a l -> f a = true) -> filter f l = l.
  Proof.
    induction l; simpl; auto. intros H. rewrite (H a) by auto. f_equal. auto.
  Qed.
End SgLists.

(* ------------------------------------------------------------------ norm_idx / norm_all *)
Lemma sg_norm_idx_some : forall n z p,
  norm_idx n z = Some p <->
  ((0 <= z < Z.of_nat n)%Z /\ p = Z.to_nat z) \/ ((- Z.of_nat n <= z < 0)%Z /\ p = Z.to_nat (Z.of_nat n + z)).
Proof.
  intros n z p. unfold norm_idx.
  destruct ((0 <=? z) && (z <? Z.of_nat n))%Z eqn:E1.
  - apply andb_true_iff in E1. destruct E1 as [E1 E2]. apply Z.leb_le in E1. apply Z.ltb_lt in E2.
    split.
    + intros HH. inversion HH. left. split; [lia|reflexivity].
    + intros [[_ ->]|[HH _]]; [reflexivity|lia].
  - apply andb_false_iff in E1. rewrite Z.leb_gt, Z.ltb_ge in E1.
    destruct ((z <? 0) && (- Z.of_nat n <=? z))%Z eqn:E2.
    + apply andb_true_iff in E2. destruct E2 as [E2 E3]. apply Z.ltb_lt in E2. apply Z.leb_le in E3.
      split.
      * intros HH. inversion HH. right. split; [lia|reflexivity].
      * intros [[HH _]|[_ ->]]; [lia|reflexivity].
    + apply andb_false_iff in E2. rewrite Z.ltb_ge, Z.leb_gt in E2.
      split; [discriminate|]. intros [[HH _]|[HH _]]; lia.
Qed.

Lemma sg_norm_idx_lt : forall n z p, norm_idx n z = Some p -> p < n.
Proof. intros n z p H. apply sg_norm_idx_some in H. lia. Qed.

Lemma sg_norm_idx_zlt : forall n z p, norm_idx n z = Some p -> (z < Z.of_nat n)%Z.
Proof. intros n z p H. apply sg_norm_idx_some in H. lia. Qed.

Lemma sg_norm_idx_none : forall n z, norm_idx n z = None <-> (z < - Z.of_nat n \/ Z.of_nat n <= z)%Z.
Proof.
  intros n z. unfold norm_idx.
  destruct (Z.leb_spec 0 z), (Z.ltb_spec z (Z.of_nat n)), (Z.ltb_spec z 0), (Z.leb_spec (- Z.of_nat n) z);
    simpl; split; intros HH; try discriminate; try lia; auto.
Qed.

Lemma sg_norm_idx_nonneg : forall n z p, (0 <= z)%Z -> norm_idx n z = Some p -> p = Z.to_nat z.
Proof. intros n z p Hz H. apply sg_norm_idx_some in H. lia. Qed.

Lemma sg_norm_all_Forall2 : forall n l ps,
  norm_all n l = Some ps <-> Forall2 (fun z p => norm_idx n z = Some p) l ps.
Proof.
  induction l; intros ps; simpl.
  - split; intros H. inversion H; constructor. inversion H; auto.
  - destruct (norm_idx n a) eqn:E.
    + destruct (norm_all n l) eqn:E2.
      * split; intros H.
        -- inversion H; subst. constructor; auto. apply IHl; auto.
        -- inversion H; subst. apply IHl in H4. inversion H4; subst. congruence.
      * split; intros H; try discriminate. inversion H; subst. apply IHl in H4. discriminate.
    + split; intros H; try discriminate. inversion H; subst. congruence.
Qed.

Lemma sg_norm_all_length : forall n l ps, norm_all n l = Some ps -> length ps = length l.
Proof.
  intros n l ps H. apply sg_norm_all_Forall2 in H. induction H; simpl; auto.
Qed.

Lemma sg_norm_all_none : forall n l, norm_all n l = None <-> exists z, In z l /\ norm_idx n z = None.
Proof.
  induction l; simpl.
  - split; [discriminate|]. intros [z [[] _]].
  - destruct (norm_idx n a) eqn:E.
    + destruct (norm_all n l) eqn:E2.
      * split; [discriminate|]. intros [z [[->|Hz] Hn]]; [congruence|].
        assert (X : Some l0 = None) by (apply IHl; exists z; auto). discriminate X.
      * split; auto. intros _. destruct IHl as [IH _]. destruct (IH eq_refl) as [z [Hz Hn]].
        exists z; auto.
    + split; auto. intros _. exists a; auto.
Qed.

(* ------------------------------------------------------------------ sequences of guarded writes  x[i] = v  *)
Section SgWrites.
  Context {A : Type}.
  Variable n : nat.

  (* try: acc[i] = v  except IndexError: pass     (for a vector of length n) *)
  Definition sg_wr (acc : list A) (kv : Z * A) : list A :=
    match norm_idx n (fst kv) with Some p => set_nth acc p (snd kv) | None => acc end.
  Definition sg_writes (mask : list (Z * A)) (acc : list A) : list A := fold_left sg_wr mask acc.

  (* the value of the last write that lands on position p, if any *)
  Fixpoint sg_lastw (p : nat) (mask : list (Z * A)) : option A :=
    match mask with
    | [] => None
    | kv :: r => match sg_lastw p r with
                 | Some w => Some w
                 | None => match norm_idx n (fst kv) with
                           | Some q => if Nat.eqb q p then Some (snd kv) else None
                           | None => None
                           end
                 end
    end.

  Lemma sg_wr_length : forall acc kv, length (sg_wr acc kv) = length acc.
  Proof. intros acc kv. unfold sg_wr. destruct (norm_idx n (fst kv)); auto. apply sg_set_nth_length. Qed.

  Lemma sg_writes_length : forall mask acc, length (sg_writes mask acc) = length acc.
  Proof.
    induction mask; intros acc; simpl; auto. unfold sg_writes in *. simpl. rewrite IHmask. apply sg_wr_length.
  Qed.

  Lemma sg_nth_writes : forall mask acc p d, length acc = n ->
    nth p (sg_writes mask acc) d = match sg_lastw p mask with Some w => w | None => nth p acc d end.
  Proof.
    induction mask; intros acc p d Hl; simpl; auto.
    unfold sg_writes in *. simpl. rewrite IHmask by (rewrite sg_wr_length; auto).
    destruct (sg_lastw p mask); auto.
    unfold sg_wr. destruct (norm_idx n (fst a)) eqn:E; auto.
    destruct (Nat.eqb_spec n0 p).
    - subst. apply sg_nth_set_nth_eq. rewrite Hl. eapply sg_norm_idx_lt; eauto.
    - apply sg_nth_set_nth_neq; auto.
  Qed.

  Lemma sg_lastw_none : forall p mask,
    sg_lastw p mask = None <-> (forall kv, In kv mask -> norm_idx n (fst kv) <> Some p).
  Proof.
    induction mask; simpl.
    - split; auto; intros _ kv [].
    - destruct (sg_lastw p mask) eqn:E.
      + split; [discriminate|]. intros H. destruct IHmask as [_ IH]. 
        assert (X : Some a0 = None) by (apply IH; intros kv Hkv; apply H; auto). discriminate X.
      + destruct IHmask as [IH _]. specialize (IH eq_refl).
        destruct (norm_idx n (fst a)) eqn:E2.
        * destruct (Nat.eqb_spec n0 p).
          -- subst. split; [discriminate|]. intros H. exfalso. apply (H a); auto.
          -- split; auto. intros _ kv [->|Hkv]; auto. congruence.
        * split; auto. intros _ kv [->|Hkv]; auto. congruence.
  Qed.

  Lemma sg_lastw_some : forall p mask w,
    sg_lastw p mask = Some w -> exists kv, In kv mask /\ norm_idx n (fst kv) = Some p /\ snd kv = w.
  Proof.
    induction mask; simpl; intros w H; try discriminate.
    destruct (sg_lastw p mask) eqn:E.
    - inversion H; subst. destruct (IHmask w eq_refl) as [kv [H1 H2]]. exists kv; auto.
    - destruct (norm_idx n (fst a)) eqn:E2; try discriminate.
      destruct (Nat.eqb_spec n0 p); try discriminate. inversion H; subst.
      exists a; auto.
  Qed.

  (* the last entry that lands on p decides *)
  Lemma sg_lastw_app_hit : forall p m1 i v m2,
    norm_idx n i = Some p -> (forall kv, In kv m2 -> norm_idx n (fst kv) <> Some p) ->
    sg_lastw p (m1 ++ (i, v) :: m2) = Some v.
  Proof.
    induction m1; intros i v m2 Hi H2; simpl.
    - apply sg_lastw_none in H2. rewrite H2, Hi, Nat.eqb_refl. reflexivity.
    - rewrite IHm1; auto.
  Qed.

  (* entries that land on the same position carry the same value: every entry is visible *)
  Lemma sg_lastw_consistent : forall p mask i v,
    (forall kv kv', In kv mask -> In kv' mask ->
       norm_idx n (fst kv) = Some p -> norm_idx n (fst kv') = Some p -> snd kv = snd kv') ->
    In (i, v) mask -> norm_idx n i = Some p -> sg_lastw p mask = Some v.
  Proof.
    intros p mask i v Hc Hin Hi.
    destruct (sg_lastw p mask) eqn:E.
    - apply sg_lastw_some in E. destruct E as [kv [H1 [H2 H3]]].
      f_equal. rewrite <- H3. apply (Hc kv (i, v)); auto.
    - exfalso. rewrite sg_lastw_none in E. apply (E (i, v)); auto.
  Qed.

  Lemma sg_list_ext : forall (l l' : list A),
    length l = length l' -> (forall p d, nth p l d = nth p l' d) -> l = l'.
  Proof.
    intros l l' Hl H. destruct l as [|d l0].
    - destruct l'; simpl in *; auto; lia.
    - apply (nth_ext _ _ d d); auto.
  Qed.

  Lemma sg_writes_idem : forall mask acc, length acc = n -> sg_writes mask (sg_writes mask acc) = sg_writes mask acc.
  Proof.
    intros mask acc Hl. apply sg_list_ext.
    - rewrite !sg_writes_length. auto.
    - intros p d. rewrite (sg_nth_writes mask (sg_writes mask acc)) by (rewrite sg_writes_length; auto).
      rewrite sg_nth_writes by auto. destruct (sg_lastw p mask); auto.
  Qed.

  (* scatter over normalised positions = guarded writes over the raw indices *)
  Lemma sg_scatter_writes : forall index ps vs acc,
    Forall2 (fun z p => norm_idx n z = Some p) index ps ->
    scatter acc ps vs = sg_writes (combine index vs) acc.
  Proof.
    intros index ps vs acc H. revert vs acc. induction H; intros vs acc; simpl.
    - reflexivity.
    - destruct vs as [|v vs]; simpl; auto.
      unfold sg_writes in *. simpl. unfold sg_wr at 2. simpl. rewrite H. apply IHForall2.
  Qed.
End SgWrites.

(* ================================================================== the transforms *)
Definition sg_kept (n : nat) (index : list Z) : list Z := filter (fun i => (i <? Z.of_nat n)%Z) index.

Lemma sg_kept_in : forall n index i, In i (sg_kept n index) <-> In i index /\ (i < Z.of_nat n)%Z.
Proof. intros. unfold sg_kept. rewrite filter_In, Z.ltb_lt. tauto. Qed.

Lemma sg_kept_all : forall n index, (forall i, In i index -> norm_idx n i <> None) -> sg_kept n index = index.
Proof.
  intros n index H. apply sg_filter_id. intros i Hi. apply Z.ltb_lt.
  destruct (Z.lt_ge_cases i (Z.of_nat n)); auto.
  exfalso. apply (H i Hi). apply sg_norm_idx_none. auto.
Qed.

Lemma sg_norm_all_some_in : forall n l ps z, norm_all n l = Some ps -> In z l -> norm_idx n z <> None.
Proof.
  intros n l ps z H Hz Hn.
  assert (X : norm_all n l = None) by (apply sg_norm_all_none; exists z; auto). congruence.
Qed.

Lemma sg_Forall2_norm_lt : forall n l ps, Forall2 (fun z p => norm_idx n z = Some p) l ps ->
  forall p, In p ps -> p < n.
Proof.
  intros n l ps H. induction H; intros q Hq; simpl in *; [tauto|].
  destruct Hq as [<-|Hq]; auto. eapply sg_norm_idx_lt; eauto.
Qed.

Lemma sg_in_combine_repeat : forall {A B} (l : list A) (v : B) i, In i l -> In (i, v) (combine l (repeat v (length l))).
Proof. induction l; simpl; intros v i []; subst; auto. Qed.

Lemma sg_filter_length_neq : forall {A} (f : A -> bool) l,
  length (filter f l) <> length l -> exists a, In a l /\ f a = false.
Proof.
  induction l; simpl; intros H; [congruence|].
  destruct (f a) eqn:E.
  - simpl in H. destruct IHl as [b [Hb Hf]]; [lia|]. exists b; auto.
  - exists a; auto.
Qed.

Lemma sg_map_fst_combine_repeat : forall {A B} (l : list A) (v : B), map fst (combine l (repeat v (length l))) = l.
Proof. induction l; simpl; intros; auto. f_equal; auto. Qed.

Lemma sg_combine_split : forall {A B} (l : list (A * B)), combine (map fst l) (map snd l) = l.
Proof. induction l as [|[a b] l IH]; simpl; auto. f_equal; auto. Qed.

Lemma sg_writes_filter : forall {A} n (f : Z * A -> bool) m acc,
  (forall kv, In kv m -> f kv = false -> norm_idx n (fst kv) = None) ->
  sg_writes n (filter f m) acc = sg_writes n m acc.
Proof.
  intros A n f. unfold sg_writes. induction m as [|a m IH]; intros acc H; simpl; auto.
  destruct (f a) eqn:E; simpl.
  - apply IH. intros; apply H; auto. right; auto.
  - rewrite IH by (intros; apply H; auto; right; auto).
    assert (X : sg_wr n acc a = acc) by (unfold sg_wr; rewrite (H a); auto; left; auto).
    rewrite X. reflexivity.
Qed.

Section Surgery.
  Variable N : Num.
  Notation T := (T N).

  (* ---------------------------------------------------------------- A. impose_at *)
  Lemma sg_spec_writes : forall index vs (x : list T),
    impose_at_spec N index vs x = sg_writes (length x) (combine index vs) x.
  Proof. reflexivity. Qed.

  (* the (index, value) pairs that a call on a vector of length n writes, in order *)
  Definition sg_imask (n : nat) (index : list Z) (t : target N) : list (Z * T) :=
    match t with
    | TScalar _ v => combine (sg_kept n index) (repeat v (length (sg_kept n index)))
    | TList _ vs => filter (fun iv : Z * T => (fst iv <? Z.of_nat n)%Z) (combine index vs)
    end.

  (* impose_at is a sequence of guarded writes that depends on x only through its length *)
  Lemma sg_impose_at_eq : forall index t (x : list T),
    impose_at N index t x =
    match norm_all (length x) (map fst (sg_imask (length x) index t)) with
    | None => None
    | Some _ => Some (sg_writes (length x) (sg_imask (length x) index t) x)
    end.
  Proof.
    intros index t x. unfold impose_at. destruct t as [v|vs]; simpl sg_imask.
    - fold (sg_kept (length x) index). rewrite sg_map_fst_combine_repeat.
      destruct (norm_all (length x) (sg_kept (length x) index)) as [ps|] eqn:E; auto.
      f_equal. rewrite (sg_norm_all_length _ _ _ E). apply sg_scatter_writes. apply sg_norm_all_Forall2; auto.
    - set (at_ := filter (fun iv : Z * T => (fst iv <? Z.of_nat (length x))%Z) (combine index vs)).
      destruct (norm_all (length x) (map fst at_)) as [ps|] eqn:E; auto.
      f_equal. rewrite (sg_scatter_writes (length x) (map fst at_) ps); [|apply sg_norm_all_Forall2; auto].
      rewrite sg_combine_split. reflexivity.
  Qed.

  Lemma sg_imask_in : forall n index t kv,
    In kv (sg_imask n index t) -> In (fst kv) index /\ (fst kv < Z.of_nat n)%Z.
  Proof.
    intros n index [v|vs] [i w] H; simpl in *.
    - apply in_combine_l in H. apply sg_kept_in in H. auto.
    - apply filter_In in H. destruct H as [H1 H2]. simpl in H2. apply Z.ltb_lt in H2.
      apply in_combine_l in H1. auto.
  Qed.

  Lemma sg_impose_at_some : forall index t (x y : list T),
    impose_at N index t x = Some y ->
    y = sg_writes (length x) (sg_imask (length x) index t) x /\
    forall z, length z = length x ->
      impose_at N index t z = Some (sg_writes (length x) (sg_imask (length x) index t) z).
  Proof.
    intros index t x y H. rewrite sg_impose_at_eq in H.
    destruct (norm_all (length x) (map fst (sg_imask (length x) index t))) eqn:E; [|discriminate].
    split; [congruence|]. intros z Hz. rewrite sg_impose_at_eq, Hz, E. reflexivity.
  Qed.

  Theorem impose_at_length : forall index t (x y : list T),
    impose_at N index t x = Some y -> length y = length x.
  Proof.
    intros index t x y H. destruct (sg_impose_at_some _ _ _ _ H) as [-> _]. apply sg_writes_length.
  Qed.

  Theorem impose_at_scalar_pinned : forall index v (x y : list T) i p d,
    impose_at N index (TScalar N v) x = Some y -> In i index -> norm_idx (length x) i = Some p ->
    nth p y d = v.
  Proof.
    intros index v x y i p d H Hi Hp. destruct (sg_impose_at_some _ _ _ _ H) as [-> _].
    rewrite sg_nth_writes by auto. simpl sg_imask.
    rewrite (sg_lastw_consistent (length x) p _ i v); auto.
    - intros [a b] [a' b'] H1 H2 _ _. simpl.
      apply in_combine_r in H1, H2. apply repeat_spec in H1, H2. congruence.
    - apply sg_in_combine_repeat. apply sg_kept_in. split; auto. eapply sg_norm_idx_zlt; eauto.
  Qed.

  Theorem impose_at_others_unchanged : forall index t (x y : list T) p d,
    impose_at N index t x = Some y -> p < length x ->
    (forall i, In i index -> norm_idx (length x) i <> Some p) ->
    nth p y d = nth p x d.
  Proof.
    intros index t x y p d H _ Hno. destruct (sg_impose_at_some _ _ _ _ H) as [-> _].
    rewrite sg_nth_writes by auto.
    replace (sg_lastw (length x) p (sg_imask (length x) index t)) with (@None T); auto.
    symmetry. apply sg_lastw_none. intros kv Hkv. apply sg_imask_in in Hkv. apply Hno. tauto.
  Qed.

  (* the only failure left is the IndexError of an index below -len(x) (among the zipped pairs for a list target) *)
  Theorem impose_at_none_iff : forall index t (x : list T),
    impose_at N index t x = None <->
    match t with
    | TScalar _ _ => exists i, In i index /\ (i < - Z.of_nat (length x))%Z
    | TList _ vs => exists iv, In iv (combine index vs) /\ (fst iv < - Z.of_nat (length x))%Z
    end.
  Proof.
    intros index t x. rewrite sg_impose_at_eq.
    assert (X : norm_all (length x) (map fst (sg_imask (length x) index t)) = None <->
                exists kv, In kv (sg_imask (length x) index t) /\ (fst kv < - Z.of_nat (length x))%Z).
    { rewrite sg_norm_all_none. split.
      - intros [z [Hz Hn]]. apply in_map_iff in Hz. destruct Hz as [kv [<- Hkv]].
        exists kv. split; auto. apply sg_imask_in in Hkv. apply sg_norm_idx_none in Hn. lia.
      - intros [kv [Hkv Hlt]]. exists (fst kv). split; [apply in_map; auto|].
        apply sg_norm_idx_none. auto. }
    transitivity (norm_all (length x) (map fst (sg_imask (length x) index t)) = None).
    { destruct (norm_all _ _); split; auto; discriminate. }
    rewrite X. destruct t as [v|vs]; simpl sg_imask.
    - split.
      + intros [[i w] [H1 H2]]. exists i. split; auto. apply in_combine_l in H1. apply sg_kept_in in H1. tauto.
      + intros [i [H1 H2]]. exists (i, v). split; auto. apply sg_in_combine_repeat. apply sg_kept_in. split; auto. lia.
    - split.
      + intros [iv [H1 H2]]. exists iv. split; auto. apply filter_In in H1. tauto.
      + intros [iv [H1 H2]]. exists iv. split; auto. apply filter_In. split; auto. apply Z.ltb_lt. lia.
  Qed.

  (* The documented behaviour (targets are paired with the indices; indices beyond the end are dropped together with
     their targets; a later write to the same position wins) HOLDS, without any length hypothesis: *)
  Theorem impose_at_list_is_spec : forall index vs (x : list T),
    (forall iv, In iv (combine index vs) -> (- Z.of_nat (length x) <= fst iv)%Z) ->
    impose_at N index (TList N vs) x = Some (impose_at_spec N index vs x).
  Proof.
    intros index vs x Hok.
    destruct (impose_at N index (TList N vs) x) as [y|] eqn:E.
    - destruct (sg_impose_at_some _ _ _ _ E) as [-> _]. f_equal. rewrite sg_spec_writes. simpl sg_imask.
      apply sg_writes_filter. intros kv _ Hf. apply Z.ltb_ge in Hf. apply sg_norm_idx_none. auto.
    - exfalso. apply impose_at_none_iff in E. destruct E as [iv [H1 H2]]. specialize (Hok iv H1). lia.
  Qed.

  Theorem impose_at_list_dropped_ok : forall index vs (x : list T),
    length vs = length index -> (forall i, In i index -> (0 <= i)%Z) ->
    impose_at N index (TList N vs) x = Some (impose_at_spec N index vs x).
  Proof.
    intros index vs x _ Hpos. apply impose_at_list_is_spec.
    intros [i v] H. apply in_combine_l in H. specialize (Hpos i H). simpl. lia.
  Qed.

  (* distinct positions among the kept pairs: the k-th kept position holds the k-th kept target *)
  Theorem impose_at_list_pinned : forall index vs (x y : list T) ps k d,
    impose_at N index (TList N vs) x = Some y ->
    norm_all (length x)
      (map fst (filter (fun iv : Z * T => (fst iv <? Z.of_nat (length x))%Z) (combine index vs))) = Some ps ->
    NoDup ps -> k < length ps ->
    nth (nth k ps 0) y d =
    nth k (map snd (filter (fun iv : Z * T => (fst iv <? Z.of_nat (length x))%Z) (combine index vs))) d.
  Proof.
    intros index vs x y ps k d H E Hnd Hk.
    pose proof (sg_norm_all_length _ _ _ E) as Hps.
    unfold impose_at in H. rewrite E in H. injection H as <-.
    apply sg_scatter_pinned; auto.
    - rewrite map_length. rewrite map_length in Hps. auto.
    - apply sg_norm_all_Forall2 in E. intros p Hp. eapply sg_Forall2_norm_lt; eauto.
  Qed.

  Theorem impose_at_idempotent : forall index t (x y : list T),
    impose_at N index t x = Some y -> impose_at N index t y = Some y.
  Proof.
    intros index t x y H. destruct (sg_impose_at_some _ _ _ _ H) as [-> H1].
    rewrite H1 by (apply sg_writes_length). f_equal. apply sg_writes_idem; auto.
  Qed.

  (* ---------------------------------------------------------------- B. partial *)
  Lemma sg_partial_writes : forall mask (x : list T), partial N mask x = sg_writes (length x) mask x.
  Proof.
    unfold partial, sg_writes. induction mask; intros x; simpl; auto.
    etransitivity; [apply (IHmask (sg_wr (length x) x a))|].
    rewrite sg_wr_length. reflexivity.
  Qed.

  Theorem partial_length : forall mask (x : list T), length (partial N mask x) = length x.
  Proof. intros. rewrite sg_partial_writes. apply sg_writes_length. Qed.

  Theorem partial_others_unchanged : forall mask (x : list T) p d,
    (forall kv, In kv mask -> norm_idx (length x) (fst kv) <> Some p) ->
    nth p (partial N mask x) d = nth p x d.
  Proof.
    intros mask x p d H. rewrite sg_partial_writes, sg_nth_writes by auto.
    apply sg_lastw_none in H. rewrite H. reflexivity.
  Qed.

  (* unconditional: the LAST entry that lands on position p decides *)
  Theorem partial_last_write : forall m1 i v m2 (x : list T) p d,
    norm_idx (length x) i = Some p ->
    (forall kv, In kv m2 -> norm_idx (length x) (fst kv) <> Some p) ->
    nth p (partial N (m1 ++ (i, v) :: m2) x) d = v.
  Proof.
    intros m1 i v m2 x p d Hi H2. rewrite sg_partial_writes, sg_nth_writes by auto.
    rewrite sg_lastw_app_hit; auto.
  Qed.

  (* entries with the same normalised position are the same entry (e.g. {0: a, -n: b} is excluded) *)
  Definition sg_distinct_positions {B} (n : nat) (mask : list (Z * B)) : Prop :=
    forall kv kv' p, In kv mask -> In kv' mask ->
      norm_idx n (fst kv) = Some p -> norm_idx n (fst kv') = Some p -> kv = kv'.

  Theorem partial_fixed : forall mask (x : list T) i v p d,
    sg_distinct_positions (length x) mask ->
    In (i, v) mask -> norm_idx (length x) i = Some p ->
    nth p (partial N mask x) d = v.
  Proof.
    intros mask x i v p d Hd Hin Hi. rewrite sg_partial_writes, sg_nth_writes by auto.
    rewrite (sg_lastw_consistent (length x) p mask i v); auto.
    intros kv kv' H1 H2 H3 H4. rewrite (Hd kv kv' p); auto.
  Qed.

  (* the same with NoDup of the list of normalised positions *)
  Definition sg_positions {B} (n : nat) (mask : list (Z * B)) : list nat :=
    flat_map (fun kv => match norm_idx n (fst kv) with Some p => [p] | None => [] end) mask.

  Lemma sg_positions_in : forall {B} n (mask : list (Z * B)) kv p,
    In kv mask -> norm_idx n (fst kv) = Some p -> In p (sg_positions n mask).
  Proof.
    intros B n mask kv p H1 H2. unfold sg_positions. apply in_flat_map. exists kv. split; auto.
    rewrite H2. simpl; auto.
  Qed.

  Lemma sg_positions_nodup : forall {B} n (mask : list (Z * B)),
    NoDup (sg_positions n mask) -> sg_distinct_positions n mask.
  Proof.
    intros B n mask. induction mask as [|a r IH]; intros Hnd kv kv' p H1 H2 H3 H4; simpl in *; [tauto|].
    assert (Hr : NoDup (sg_positions n r)).
    { destruct (norm_idx n (fst a)); simpl in Hnd; auto. inversion Hnd; auto. }
    assert (Ha : forall e, In e r -> norm_idx n (fst a) = Some p -> norm_idx n (fst e) = Some p -> False).
    { intros e He Hap Hep. rewrite Hap in Hnd. simpl in Hnd. inversion Hnd; subst.
      apply H5. eapply sg_positions_in; eauto. }
    destruct H1 as [<-|H1], H2 as [<-|H2]; auto.
    - exfalso; eauto.
    - exfalso; eauto.
    - apply (IH Hr kv kv' p); auto.
  Qed.

  Theorem partial_fixed_nodup : forall mask (x : list T) i v p d,
    NoDup (sg_positions (length x) mask) ->
    In (i, v) mask -> norm_idx (length x) i = Some p ->
    nth p (partial N mask x) d = v.
  Proof. intros. eapply partial_fixed; eauto. apply sg_positions_nodup; auto. Qed.

  (* unconditional: in both passes the last write to each position wins *)
  Theorem partial_idempotent : forall mask (x : list T), partial N mask (partial N mask x) = partial N mask x.
  Proof.
    intros mask x. rewrite (sg_partial_writes mask (partial N mask x)), partial_length, sg_partial_writes.
    apply sg_writes_idem; auto.
  Qed.

  (* impose_at_spec is partial on the zipped mask *)
  Theorem impose_at_spec_is_partial : forall index vs (x : list T),
    impose_at_spec N index vs x = partial N (combine index vs) x.
  Proof. intros. rewrite sg_partial_writes. reflexivity. Qed.

  (* ---------------------------------------------------------------- D. synchronized *)
  Definition sg_src (s : source N) : Z := match s with SIdx _ j => j | SMul _ j _ => j end.
  Definition sg_apply (s : source N) (v : T) : T := match s with SIdx _ _ => v | SMul _ _ c => mul N c v end.

  Definition sg_sync_step (n : nat) (acc : list T) (kv : Z * source N) : list T :=
    match snd kv with
    | SIdx _ j => match norm_idx n j, norm_idx n (fst kv) with
                | Some pj, Some pi => set_nth acc pi (nth pj acc (zero N))
                | _, _ => acc
                end
    | SMul _ j0 c => match norm_idx n j0, norm_idx n (fst kv) with
                     | Some pj, Some pi => set_nth acc pi (mul N c (nth pj acc (zero N)))
                     | _, _ => acc
                     end
    end.

  Lemma sg_sync_step_length : forall n acc kv, length (sg_sync_step n acc kv) = length acc.
  Proof.
    intros n acc [i [j|j c]]; unfold sg_sync_step; simpl;
      destruct (norm_idx n j); auto; destruct (norm_idx n i); auto; apply sg_set_nth_length.
  Qed.

  Lemma sg_sync_fold : forall mask (x : list T),
    synchronized N mask x = fold_left (sg_sync_step (length x)) mask x.
  Proof.
    unfold synchronized. induction mask; intros x; simpl; auto.
    etransitivity; [apply (IHmask (sg_sync_step (length x) x a))|].
    rewrite sg_sync_step_length. reflexivity.
  Qed.

  Lemma sg_sync_fold_length : forall n mask (acc : list T),
    length (fold_left (sg_sync_step n) mask acc) = length acc.
  Proof. induction mask; intros acc; simpl; auto. rewrite IHmask. apply sg_sync_step_length. Qed.

  Lemma sg_sync_step_other : forall n acc kv p d,
    norm_idx n (fst kv) <> Some p -> nth p (sg_sync_step n acc kv) d = nth p acc d.
  Proof.
    intros n acc [i [j|j c]] p d H; unfold sg_sync_step; simpl in *;
      destruct (norm_idx n j); auto; destruct (norm_idx n i) eqn:E; auto;
      apply sg_nth_set_nth_neq; congruence.
  Qed.

  Lemma sg_sync_fold_other : forall n mask (acc : list T) p d,
    (forall kv, In kv mask -> norm_idx n (fst kv) <> Some p) ->
    nth p (fold_left (sg_sync_step n) mask acc) d = nth p acc d.
  Proof.
    induction mask; intros acc p d H; simpl; auto.
    rewrite IHmask by (intros; apply H; right; auto).
    apply sg_sync_step_other. apply H; left; auto.
  Qed.

  Theorem synchronized_length : forall mask (x : list T), length (synchronized N mask x) = length x.
  Proof. intros. rewrite sg_sync_fold. apply sg_sync_fold_length. Qed.

  Theorem synchronized_others_unchanged : forall mask (x : list T) p d,
    (forall kv, In kv mask -> norm_idx (length x) (fst kv) <> Some p) ->
    nth p (synchronized N mask x) d = nth p x d.
  Proof. intros. rewrite sg_sync_fold. apply sg_sync_fold_other; auto. Qed.

  (* no key position is a source position (so no source is overwritten before it is read) *)
  Definition sg_sources_untouched (n : nat) (mask : list (Z * source N)) : Prop :=
    forall kv kv' p, In kv mask -> In kv' mask ->
      norm_idx n (fst kv) = Some p -> norm_idx n (sg_src (snd kv')) <> Some p.

  Lemma sg_hit_dec : forall {B} n p (r : list (Z * B)),
    (exists e, In e r /\ norm_idx n (fst e) = Some p) \/ (forall e, In e r -> norm_idx n (fst e) <> Some p).
  Proof.
    induction r as [|a r IH].
    - right. intros e [].
    - destruct IH as [[e [H1 H2]]|IH].
      + left. exists e. split; auto. right; auto.
      + destruct (norm_idx n (fst a)) as [q|] eqn:E.
        * destruct (Nat.eq_dec q p).
          -- subst. left. exists a. split; auto. left; auto.
          -- right. intros e [<-|He]; auto. congruence.
        * right. intros e [<-|He]; auto. congruence.
  Qed.

  Lemma sg_sync_step_hit : forall n (acc : list T) i s pi pj d,
    length acc = n -> norm_idx n i = Some pi -> norm_idx n (sg_src s) = Some pj ->
    nth pi (sg_sync_step n acc (i, s)) d = sg_apply s (nth pj acc d).
  Proof.
    intros n acc i s pi pj d Hl Hi Hj. unfold sg_sync_step. simpl.
    assert (Hpi : pi < length acc) by (rewrite Hl; eapply sg_norm_idx_lt; eauto).
    assert (Hpj : pj < length acc) by (rewrite Hl; eapply sg_norm_idx_lt; eauto).
    destruct s; simpl in *; rewrite Hj, Hi; rewrite sg_nth_set_nth_eq by auto;
      rewrite (nth_indep acc (zero N) d) by auto; reflexivity.
  Qed.

  Lemma sg_sync_tied : forall n mask (acc : list T) i s pi pj d,
    length acc = n -> sg_sources_untouched n mask -> sg_distinct_positions n mask ->
    In (i, s) mask -> norm_idx n i = Some pi -> norm_idx n (sg_src s) = Some pj ->
    nth pi (fold_left (sg_sync_step n) mask acc) d = sg_apply s (nth pj acc d).
  Proof.
    induction mask as [|a r IH]; intros acc i s pi pj d Hl Hs Hd Hin Hi Hj; simpl; [destruct Hin|].
    assert (Hs' : sg_sources_untouched n r).
    { intros kv kv' p H1 H2. apply Hs; right; auto. }
    assert (Hd' : sg_distinct_positions n r).
    { intros kv kv' p H1 H2. apply Hd; right; auto. }
    destruct (sg_hit_dec n pi r) as [[e [He1 He2]]|Hno].
    - assert (e = (i, s)) by (apply (Hd e (i, s) pi); auto; right; auto). subst e.
      rewrite (IH _ i s pi pj d); auto.
      + f_equal. apply sg_sync_step_other. intros Ha.
        apply (Hs a (i, s) pj); auto. left; auto.
      + rewrite sg_sync_step_length. auto.
    - rewrite sg_sync_fold_other by auto.
      destruct Hin as [->|Hin].
      + simpl. apply sg_sync_step_hit; auto.
      + exfalso. apply (Hno (i, s)); auto.
  Qed.

  Theorem synchronized_tied : forall mask (x : list T) i j pi pj d,
    sg_sources_untouched (length x) mask -> sg_distinct_positions (length x) mask ->
    In (i, SIdx N j) mask -> norm_idx (length x) i = Some pi -> norm_idx (length x) j = Some pj ->
    nth pi (synchronized N mask x) d = nth pj x d.
  Proof.
    intros. rewrite sg_sync_fold.
    rewrite (sg_sync_tied (length x) mask x i (SIdx N j) pi pj d); auto.
  Qed.

  Theorem synchronized_tied_mul : forall mask (x : list T) i j0 c pi pj d,
    sg_sources_untouched (length x) mask -> sg_distinct_positions (length x) mask ->
    In (i, SMul N j0 c) mask -> norm_idx (length x) i = Some pi -> norm_idx (length x) j0 = Some pj ->
    nth pi (synchronized N mask x) d = mul N c (nth pj x d).
  Proof.
    intros. rewrite sg_sync_fold.
    rewrite (sg_sync_tied (length x) mask x i (SMul N j0 c) pi pj d); auto.
  Qed.

End Surgery.

(* ================================================================== C. insert_missing (tools.masked) *)
Lemma sg_memZ_true : forall z l, memZ z l = true <-> In z l.
Proof.
  intros z l. unfold memZ. rewrite existsb_exists. split.
  - intros [k [Hk E]]. apply Z.eqb_eq in E. subst; auto.
  - intros H. exists z. split; auto. apply Z.eqb_refl.
Qed.

Lemma sg_memZ_ext : forall z l1 l2, (forall k, In k l1 <-> In k l2) -> memZ z l1 = memZ z l2.
Proof.
  intros z l1 l2 H. destruct (memZ z l1) eqn:E1, (memZ z l2) eqn:E2; auto.
  - apply sg_memZ_true in E1. apply H in E1. apply sg_memZ_true in E1. congruence.
  - apply sg_memZ_true in E2. apply H in E2. apply sg_memZ_true in E2. congruence.
Qed.

Lemma sg_fold_min_lt : forall l a b,
  (fold_left Z.min l a < b)%Z <-> (a < b)%Z \/ exists k, In k l /\ (k < b)%Z.
Proof.
  induction l as [|c l IH]; intros a b; simpl.
  - split; auto. intros [H|[k [[] _]]]; auto.
  - rewrite IH. split.
    + intros [H|[k [H1 H2]]].
      * destruct (Z.lt_ge_cases a b); auto. right. exists c. split; auto. lia.
      * right. exists k. auto.
    + intros [H|[k [[<-|H1] H2]]].
      * left. lia.
      * left. lia.
      * right. exists k. auto.
Qed.

Lemma sg_fold_max_gt : forall l a b,
  (b < fold_left Z.max l a)%Z <-> (b < a)%Z \/ exists k, In k l /\ (b < k)%Z.
Proof.
  induction l as [|c l IH]; intros a b; simpl.
  - split; auto. intros [H|[k [[] _]]]; auto.
  - rewrite IH. split.
    + intros [H|[k [H1 H2]]].
      * destruct (Z.lt_ge_cases b a); auto. right. exists c. split; auto. lia.
      * right. exists k. auto.
    + intros [H|[k [[<-|H1] H2]]].
      * left. lia.
      * left. lia.
      * right. exists k. auto.
Qed.

Section SgInsert.
  Context {A : Type}.

  Lemma sg_insert_at_length : forall (l : list A) k v, length (insert_at l k v) = S (length l).
  Proof. induction l; intros [|k] v; simpl; auto. Qed.

  Lemma sg_insert_at_nth_eq : forall (l : list A) k v d, k <= length l -> nth k (insert_at l k v) d = v.
  Proof. induction l; intros [|k] v d H; simpl in *; try lia; auto. apply IHl. lia. Qed.

  Lemma sg_insert_at_nth_lt : forall (l : list A) k j v d,
    k <= length l -> j < k -> nth j (insert_at l k v) d = nth j l d.
  Proof.
    induction l; intros [|k] [|j] v d H1 H2; simpl in *; try lia; auto. apply IHl; lia.
  Qed.

  (* drop the entries whose position (counted from i) satisfies f *)
  Fixpoint sg_removes (f : nat -> bool) (i : nat) (y : list A) : list A :=
    match y with
    | [] => []
    | a :: r => if f i then sg_removes f (S i) r else a :: sg_removes f (S i) r
    end.

  Lemma sg_removes_ext : forall f g, (forall q, f q = g q) -> forall y i, sg_removes f i y = sg_removes g i y.
  Proof. intros f g H. induction y; intros i; simpl; auto. rewrite H, IHy. reflexivity. Qed.

  Lemma sg_removes_none : forall f y i, (forall q, i <= q -> f q = false) -> sg_removes f i y = y.
  Proof.
    induction y; intros i H; simpl; auto. rewrite H by lia. f_equal. apply IHy. intros; apply H; lia.
  Qed.

  Lemma sg_removes_enum : forall f y i,
    sg_removes f i y = map snd (filter (fun pv => negb (f (fst pv))) (enum_from i y)).
  Proof.
    induction y; intros i; simpl; auto. destruct (f i); simpl; rewrite IHy; reflexivity.
  Qed.

  Lemma sg_removes_cons_true : forall f i a r, f i = true -> sg_removes f i (a :: r) = sg_removes f (S i) r.
  Proof. intros f i a r H. simpl. rewrite H. reflexivity. Qed.

  Lemma sg_removes_insert : forall (l : list A) k i v f,
    (forall q, f q = true -> q < k + i) -> k <= length l ->
    sg_removes (fun q => Nat.eqb q (k + i) || f q) i (insert_at l k v) = sg_removes f i l.
  Proof.
    induction l as [|a r IH]; intros k i v f Hf Hk.
    - destruct k; [|simpl in Hk; lia]. simpl. rewrite Nat.eqb_refl. reflexivity.
    - assert (Hff : forall q, k + i <= q -> f q = false).
      { intros q Hq. destruct (f q) eqn:E; auto. apply Hf in E. lia. }
      destruct k.
      + cbn [insert_at].
        rewrite (sg_removes_none f (a :: r) i) by (intros; apply Hff; simpl; lia).
        rewrite sg_removes_cons_true by (simpl; rewrite Nat.eqb_refl; reflexivity).
        apply sg_removes_none.
        intros q Hq. simpl. destruct (Nat.eqb_spec q i); [lia|]. simpl. apply Hff. simpl. lia.
      + simpl insert_at. simpl.
        destruct (Nat.eqb_spec i (S (k + i))); [lia|]. simpl.
        rewrite (sg_removes_ext _ (fun q => Nat.eqb q (k + S i) || f q))
          by (intros q; replace (k + S i) with (S (k + i)) by lia; reflexivity).
        rewrite IH; auto.
        * intros q Hq. apply Hf in Hq. lia.
        * simpl in Hk. lia.
  Qed.

  Notation ltk := (fun a b : Z * A => (fst a <? fst b)%Z).
  Notation ins := (fun (kv : Z * A) (l : list A) => insert_at l (Z.to_nat (fst kv)) (snd kv)).

  Lemma sg_insert_by_perm : forall (lt : Z * A -> Z * A -> bool) a l, Permutation (insert_by lt a l) (a :: l).
  Proof.
    induction l as [|b r IH]; simpl; auto.
    destruct (lt b a); auto. eapply perm_trans; [apply perm_skip, IH|apply perm_swap].
  Qed.

  Lemma sg_sort_by_perm : forall (lt : Z * A -> Z * A -> bool) l, Permutation (sort_by lt l) l.
  Proof.
    induction l as [|a r IH]; simpl; auto.
    eapply perm_trans; [apply sg_insert_by_perm|]. apply perm_skip. exact IH.
  Qed.

  Lemma sg_insert_by_sorted : forall a l,
    StronglySorted (fun a b : Z * A => (fst a < fst b)%Z) l ->
    (forall b, In b l -> fst b <> fst a) ->
    StronglySorted (fun a b : Z * A => (fst a < fst b)%Z) (insert_by ltk a l).
  Proof.
    induction l as [|b r IH]; intros Hs Hne; simpl.
    - constructor; constructor.
    - inversion Hs as [|? ? Hs' Hall]; subst.
      destruct (Z.ltb_spec (fst b) (fst a)).
      + constructor.
        * apply IH; auto. intros c Hc. apply Hne. right; auto.
        * eapply Permutation_Forall; [apply Permutation_sym, sg_insert_by_perm|].
          constructor; auto.
      + assert (fst a < fst b)%Z by (specialize (Hne b (or_introl eq_refl)); lia).
        constructor; auto. constructor; auto.
        eapply Forall_impl; [|exact Hall]. intros c Hc. simpl in *. lia.
  Qed.

  Lemma sg_sort_by_sorted : forall l : list (Z * A),
    NoDup (map fst l) -> StronglySorted (fun a b => (fst a < fst b)%Z) (sort_by ltk l).
  Proof.
    induction l as [|a r IH]; intros Hnd; simpl.
    - constructor.
    - inversion Hnd; subst. apply sg_insert_by_sorted; auto.
      intros b Hb Heq. apply H1. rewrite <- Heq. apply in_map.
      eapply Permutation_in; [apply sg_sort_by_perm|exact Hb].
  Qed.

  Lemma sg_sorted_snoc : forall (R : Z * A -> Z * A -> Prop) l a,
    StronglySorted R l -> Forall (fun b => R b a) l -> StronglySorted R (l ++ [a]).
  Proof.
    induction l as [|b r IH]; intros a Hs Hall; simpl.
    - constructor; constructor.
    - inversion Hs; subst. inversion Hall; subst. constructor; auto.
      apply Forall_app. split; auto.
  Qed.

  Lemma sg_sorted_rev : forall (R : Z * A -> Z * A -> Prop) l,
    StronglySorted R l -> StronglySorted (fun a b => R b a) (rev l).
  Proof.
    induction l as [|b r IH]; intros Hs; simpl.
    - constructor.
    - inversion Hs; subst. apply sg_sorted_snoc; auto.
      apply Forall_rev. auto.
  Qed.

  (* inserting the keys in DEcreasing order from the right = fold_left over the increasing order *)
  Lemma sg_insert_desc : forall (x : list A) t d,
    StronglySorted (fun a b : Z * A => (fst b < fst a)%Z) t ->
    (forall kv, In kv t -> (0 <= fst kv <= Z.of_nat (length x + length t) - 1)%Z) ->
    length (fold_right ins x t) = length x + length t /\
    (forall kv, In kv t -> nth (Z.to_nat (fst kv)) (fold_right ins x t) d = snd kv) /\
    sg_removes (fun q => memZ (Z.of_nat q) (map fst t)) 0 (fold_right ins x t) = x.
  Proof.
    induction t as [|[k v] t IH]; intros d Hs Hb.
    - simpl. split; [lia|]. split; [intros kv []|]. apply sg_removes_none. auto.
    - inversion Hs as [|? ? Hs' Hall]; subst. rewrite Forall_forall in Hall.
      assert (Hk : (0 <= k <= Z.of_nat (length x + S (length t)) - 1)%Z) by (apply (Hb (k, v)); left; auto).
      destruct (IH d Hs') as [IH1 [IH2 IH3]].
      { intros kv Hkv. specialize (Hall kv Hkv). specialize (Hb kv (or_intror Hkv)). simpl in *. lia. }
      simpl fold_right. set (y' := fold_right ins x t) in *.
      assert (Hle : Z.to_nat k <= length y') by (rewrite IH1; lia).
      split; [|split].
      + rewrite sg_insert_at_length, IH1. simpl. lia.
      + intros kv [<-|Hkv]; simpl.
        * apply sg_insert_at_nth_eq; auto.
        * rewrite sg_insert_at_nth_lt; auto.
          specialize (Hall kv Hkv). specialize (Hb kv (or_intror Hkv)). simpl in *. lia.
      + simpl map.
        rewrite (sg_removes_ext _ (fun q => Nat.eqb q (Z.to_nat k + 0) || memZ (Z.of_nat q) (map fst t))).
        * rewrite sg_removes_insert; auto.
          intros q Hq. apply sg_memZ_true in Hq. apply in_map_iff in Hq. destruct Hq as [kv [E Hkv]].
          specialize (Hall kv Hkv). simpl in Hall. lia.
        * intros q. unfold memZ. simpl. f_equal.
          rewrite Nat.add_0_r.
          destruct (Z.eqb_spec (Z.of_nat q) k), (Nat.eqb_spec q (Z.to_nat k)); auto; lia.
  Qed.
End SgInsert.

Section SurgeryInsert.
  Variable N : Num.
  Notation T := (T N).

  Theorem insert_missing_none_iff : forall (mask : list (Z * T)) (x : list T),
    insert_missing N mask x = None <->
    (exists k, In k (map fst mask) /\ (k < 0)%Z) \/
    (exists k, In k (map fst mask) /\ (k > Z.of_nat (length x + length mask) - 1)%Z).
  Proof.
    intros mask x. unfold insert_missing.
    set (keys := map fst mask). set (B := (Z.of_nat (length x + length mask) - 1)%Z).
    assert (Hf : (fold_left Z.min keys 0 < 0)%Z <-> exists k, In k keys /\ (k < 0)%Z).
    { rewrite sg_fold_min_lt. split; auto. intros [H|H]; auto. lia. }
    assert (Hl : (B < fold_left Z.max keys (-1))%Z <-> exists k, In k keys /\ (k > B)%Z).
    { rewrite sg_fold_max_gt. split.
      - intros [H|[k [H1 H2]]]; [unfold B in H; lia|]. exists k. split; auto. lia.
      - intros [k [H1 H2]]. right. exists k. split; auto. lia. }
    destruct (Z.ltb_spec (fold_left Z.min keys 0%Z) 0%Z) as [H0|H0].
    - split; auto. intros _. left. apply Hf. auto.
    - destruct (Z.ltb_spec B (fold_left Z.max keys (-1)%Z)) as [H1|H1].
      + split; auto. intros _. right. apply Hl. auto.
      + split; [discriminate|]. intros [H|H]; [apply Hf in H|apply Hl in H]; lia.
  Qed.

  Lemma sg_insert_missing_some : forall (mask : list (Z * T)) (x y : list T),
    insert_missing N mask x = Some y ->
    (forall k, In k (map fst mask) -> (0 <= k <= Z.of_nat (length x + length mask) - 1)%Z) /\
    y = fold_right (fun (kv : Z * T) l => insert_at l (Z.to_nat (fst kv)) (snd kv)) x
          (rev (sort_by (fun a b => (fst a <? fst b)%Z) mask)).
  Proof.
    intros mask x y H. split.
    - intros k Hk.
      destruct (Z.lt_ge_cases k 0%Z) as [H0|H0].
      { assert (X : insert_missing N mask x = None) by (apply insert_missing_none_iff; left; exists k; auto).
        congruence. }
      destruct (Z.lt_ge_cases (Z.of_nat (length x + length mask) - 1) k) as [H1|H1].
      { assert (X : insert_missing N mask x = None)
          by (apply insert_missing_none_iff; right; exists k; split; auto; lia).
        congruence. }
      lia.
    - unfold insert_missing in H.
      destruct (_ <? 0)%Z; [discriminate|]. destruct (_ <? _)%Z; [discriminate|].
      injection H as <-. rewrite fold_left_rev_right. reflexivity.
  Qed.

  (* needs no hypothesis on the keys: every insert adds one entry *)
  Theorem insert_missing_length : forall (mask : list (Z * T)) (x y : list T),
    insert_missing N mask x = Some y -> length y = length x + length mask.
  Proof.
    intros mask x y H. apply sg_insert_missing_some in H. destruct H as [_ ->].
    rewrite <- (Permutation_length (sg_sort_by_perm (fun a b => (fst a <? fst b)%Z) mask)).
    rewrite <- (rev_length (sort_by _ mask)).
    induction (rev (sort_by (fun a b => (fst a <? fst b)%Z) mask)) as [|a r IH]; simpl; [lia|].
    rewrite sg_insert_at_length, IH. lia.
  Qed.

  Lemma sg_insert_missing_main : forall (mask : list (Z * T)) (x y : list T) d,
    insert_missing N mask x = Some y -> NoDup (map fst mask) ->
    (forall kv, In kv mask -> nth (Z.to_nat (fst kv)) y d = snd kv) /\
    sg_removes (fun q => memZ (Z.of_nat q) (map fst mask)) 0 y = x.
  Proof.
    intros mask x y d H Hnd. apply sg_insert_missing_some in H. destruct H as [Hb ->].
    set (t := rev (sort_by (fun a b : Z * T => (fst a <? fst b)%Z) mask)).
    assert (Hp : Permutation t mask).
    { unfold t. eapply perm_trans; [apply Permutation_sym, Permutation_rev|apply sg_sort_by_perm]. }
    destruct (sg_insert_desc x t d) as [_ [H2 H3]].
    - unfold t. apply (sg_sorted_rev (fun a b : Z * T => (fst a < fst b)%Z)). apply sg_sort_by_sorted. auto.
    - intros kv Hkv. rewrite (Permutation_length Hp). apply Hb. apply in_map.
      eapply Permutation_in; eauto.
    - split.
      + intros kv Hkv. apply H2. eapply Permutation_in; [apply Permutation_sym|]; eauto.
      + rewrite <- H3 at 2. apply sg_removes_ext. intros q. apply sg_memZ_ext. intros k.
        split; intros Hk; eapply Permutation_in; try exact Hk; apply Permutation_map; auto.
        apply Permutation_sym; auto.
  Qed.

  Theorem insert_missing_at_keys : forall (mask : list (Z * T)) (x y : list T) k v d,
    insert_missing N mask x = Some y -> NoDup (map fst mask) -> In (k, v) mask ->
    nth (Z.to_nat k) y d = v.
  Proof.
    intros mask x y k v d H Hnd Hin.
    destruct (sg_insert_missing_main mask x y d H Hnd) as [H1 _]. apply (H1 (k, v)); auto.
  Qed.

  (* the entries of y at the positions that are not keys, in order, are exactly x *)
  Theorem insert_missing_rest_is_x : forall (mask : list (Z * T)) (x y : list T),
    insert_missing N mask x = Some y -> NoDup (map fst mask) ->
    map snd (filter (fun pv => negb (memZ (Z.of_nat (fst pv)) (map fst mask))) (enum_from 0 y)) = x.
  Proof.
    intros mask x y H Hnd.
    destruct (sg_insert_missing_main mask x y (zero N) H Hnd) as [_ H2].
    etransitivity; [symmetry; apply (sg_removes_enum (fun q => memZ (Z.of_nat q) (map fst mask)))|exact H2].
  Qed.
End SurgeryInsert.

(* ================================================================== examples (over Q) *)
(* the former F11 witness: the index beyond the end is dropped together with its target *)
Example impose_at_list_dropped_example :
  impose_at NumQ [1%Z; 3%Z] (TList NumQ [0%Q; 2%Q]) [1%Q; 1%Q] = Some [1%Q; 0%Q].
Proof. vm_compute. reflexivity. Qed.
