(* C17 - model of mystic.constraints.and_/or_/not_ (as of /repo HEAD, i.e. WITH the `skip` counter that
   suppresses and_'s convergence test until n constraint results follow a randomised vector or a vector kept
   after a member raised), of the function couplers and of the penalty combinators in mystic/coupler.py.
   Definitions only -- proofs are in Combinators_Proofs.v.

   Conventions
   * the Python history list `x` is kept most-recent-first and split into its last element and the rest:
       x[-1] = cur,   x = rev (cur :: old)
     so x[-k] = nth_error (cur :: old) (k-1),  x[-n:] = firstn n (cur :: old),
     `del x[:n]` = drop the n OLDEST entries = keep firstn (len - n).
   * a member constraint is a function V -> mres: it returns a vector, or raises one of the exceptions the
     combinators swallow (ZeroDivisionError; TypeError/ValueError whose message passes the odd
     `find('not supported') and rfind("'complex'")` test, i.e. practically every message), or raises a
     TypeError/ValueError whose message STARTS with 'not supported' / "'complex'" (then both finds are 0 = falsy
     and the exception is re-raised: outcome Raised).
   * `itertools.cycle(constraints)` is a rotating list: call the head, move it to the back.
   * the RNG is external: `randomise` ([(i+randint(-1,1))*random() for i in x]) and `pick` (randint(1,n))
     thread an abstract generator state; the concrete instance (Section Draws) reads recorded draw streams. *)
From Coq Require Import List ZArith Bool Arith.
From MV Require Import Common.Num.
Import ListNotations.

Section Comb.
  Variable V : Type.                       (* parameter vectors (Python lists) *)
  Variable veq : V -> V -> bool.           (* Python `==` on lists *)
  Variable St : Type.                      (* generator state *)
  Variable randomise : V -> St -> V * St.  (* [(i+rnd.randint(-1,1))*rnd.random() for i in x] *)
  Variable pick : St -> Z * St.            (* rnd.randint(1,n) *)

  Inductive mres := Val (v : V) | RaiseZD | RaiseTE | Reraise.
  Definition member := V -> mres.

  (* Success v: returned through the onexit path; Failure v: through the onfail path;
     Raised: a member's exception was re-raised; IndexErr: a Python IndexError would occur (history too short
     -- proved unreachable); BadDraw: randint(1,n) outside 1..n (excluded by the generator's contract). *)
  Inductive outcome := Success (v : V) | Failure (v : V) | Raised | IndexErr | BadDraw.

  (* ---------------------------------------------------------------- constraints.and_ *)

  (* "apply all constraints once": for c in constraints: ci = c(x[-1][:]) ... x.append(ci);  e is sticky here *)
  Fixpoint and_first (cs : list member) (cur : V) (old : list V) (e : bool) : option (V * list V * bool) :=
    match cs with
    | nil => Some (cur, old, e)
    | c :: r =>
        match c cur with
        | Val v => and_first r v (cur :: old) e
        | RaiseZD | RaiseTE => and_first r cur (cur :: old) true      (* ci = x[-1][:] ; e = exc *)
        | Reraise => None
        end
    end.

  (* `for j in range(n,maxiter)` body; fuel = iterations left; rot = state of it.cycle *)
  Fixpoint and_loop (n fuel : nat) (rot : list member) (j skip : nat) (cur : V) (old : list V) (s : St)
    : outcome * St :=
    match fuel with
    | O => (Failure cur, s)                                           (* give up: onfail(x[-1]) *)
    | S fuel' =>
        match rot with
        | nil => (IndexErr, s)                                        (* n = 0 never gets here *)
        | c :: rot' =>
            let r := c cur in                                         (* next(_constraints)(x[-1][:]) *)
            match r with
            | Reraise => (Raised, s)
            | _ =>
                let ci := match r with Val v => v | _ => cur end in
                let e := match r with Val _ => false | _ => true end in
                let old1 := cur :: old in                             (* x.append(ci): x = ci :: old1 *)
                if (Nat.eqb skip 0 && forallb (fun xi => veq xi ci) (firstn n (ci :: old1)) && negb e)%bool
                then (Success ci, s)                                  (* onexit(x[-1]) *)
                else
                  (* if skip: skip -= 1 ... ; if e is not None: skip = n-1 *)
                  let skip1 := if e then Nat.pred n else Nat.pred skip in
                  match nth_error (ci :: old1) n with                 (* x[-(n+1)] *)
                  | None => (IndexErr, s)
                  | Some xo =>
                      let '(cur2, skip2, s2) :=
                        if veq ci xo                                  (* if x[-1] == x[-(n+1)]: randomise *)
                        then let (R, s') := randomise ci s in (R, Nat.pred n, s')
                        else (ci, skip1, s) in
                      if Nat.eqb (j mod (2 * n)) 0                    (* if not j%(2*n): del x[:n] *)
                      then if Nat.leb n (length old1)
                           then and_loop n fuel' (rot' ++ [c]) (S j) skip2 cur2
                                         (firstn (length old1 - n) old1) s2
                           else (IndexErr, s2)                        (* the list would be emptied *)
                      else and_loop n fuel' (rot' ++ [c]) (S j) skip2 cur2 old1 s2
                  end
            end
        end
    end.

  (* and_(c1..cn, maxiter=maxiter)(x0);  settings['maxiter'] * n is the bound of the range *)
  Definition and_ (cs : list member) (maxiter : nat) (x0 : V) (s : St) : outcome * St :=
    let n := length cs in
    match and_first cs x0 nil false with
    | None => (Raised, s)
    | Some (cur, old, e) =>
        (* all(xi == x[-1] for xi in x[1:]) and e is None ;  x[1:] = everything but the oldest entry *)
        if (forallb (fun xi => veq xi cur) (removelast (cur :: old)) && negb e)%bool
        then (Success cur, s)
        else and_loop n (maxiter * n - n) cs n (if e then Nat.pred n else 0) cur old s   (* skip = 0 if e is None else n-1 *)
    end.

  (* ---------------------------------------------------------------- constraints.or_ *)

  (* "check if initial input is valid": members are applied to x[0]; success as soon as one leaves it unchanged.
     ZeroDivisionError: ci = x[0][:] ; TypeError/ValueError: ci = x[-1][:] (as written) ; e is sticky. *)
  Fixpoint or_first (cs : list member) (x0 : V) (cur : V) (old : list V) (e : bool)
    : outcome + (V * list V) :=
    match cs with
    | nil => inr (cur, old)
    | c :: r =>
        match c x0 with
        | Reraise => inl Raised
        | Val v => if (veq v x0 && negb e)%bool then inl (Success v) else or_first r x0 v (cur :: old) e
        | RaiseZD => or_first r x0 x0 (cur :: old) true
        | RaiseTE => or_first r x0 cur (cur :: old) true
        end
    end.

  Fixpoint or_loop (n fuel : nat) (rot : list member) (j : nat) (cur : V) (old : list V) (s : St)
    : outcome * St :=
    match fuel with
    | O => (Failure cur, s)
    | S fuel' =>
        match rot with
        | nil => (IndexErr, s)
        | c :: rot' =>
            match nth_error (cur :: old) (Nat.pred n) with            (* x[-n] *)
            | None => (IndexErr, s)
            | Some arg =>
                let r := c arg in
                match r with
                | Reraise => (Raised, s)
                | _ =>
                    let ci := match r with Val v => v | RaiseZD => arg | _ => cur end in
                    let e := match r with Val _ => false | _ => true end in
                    let old1 := cur :: old in                         (* x = ci :: old1 *)
                    match nth_error (ci :: old1) n with               (* x[-(n+1)] *)
                    | None => (IndexErr, s)
                    | Some xo =>
                        if (veq ci xo && negb e)%bool then (Success ci, s)
                        else
                          let (k, s2) := pick s in                    (* x[-1] = x[-rnd.randint(1,n)] *)
                          if (Z.leb 1 k && Z.leb k (Z.of_nat n))%bool then
                            match nth_error (ci :: old1) (Nat.pred (Z.to_nat k)) with
                            | None => (IndexErr, s2)
                            | Some cur2 =>
                                if Nat.eqb (j mod (2 * n)) 0
                                then if Nat.leb n (length old1)
                                     then or_loop n fuel' (rot' ++ [c]) (S j) cur2
                                                  (firstn (length old1 - n) old1) s2
                                     else (IndexErr, s2)
                                else or_loop n fuel' (rot' ++ [c]) (S j) cur2 old1 s2
                            end
                          else (BadDraw, s2)
                    end
                end
            end
        end
    end.

  Definition or_ (cs : list member) (maxiter : nat) (x0 : V) (s : St) : outcome * St :=
    let n := length cs in
    match or_first cs x0 x0 nil false with
    | inl o => (o, s)
    | inr (cur, old) => or_loop n (maxiter * n - n) cs n cur old s
    end.

  (* ---------------------------------------------------------------- constraints.not_ *)

  (* amb = the comparison `constraint(x[:]) != x` itself raises ValueError ("truth value of an array ... is
     ambiguous": x is the caller's ndarray with size <> 1).  Only possible in the first iteration (after a
     randomisation x is a list); the error is swallowed like a member's.  The member is called first. *)
  Fixpoint not_loop (fuel : nat) (c : member) (amb : bool) (x : V) (s : St) : outcome * St :=
    match fuel with
    | O => (Failure x, s)
    | S fuel' =>
        match c x with
        | Reraise => (Raised, s)
        | Val v =>
            if (negb amb && negb (veq v x))%bool then (Success x, s)
            else let (R, s') := randomise x s in not_loop fuel' c false R s'
        | _ => let (R, s') := randomise x s in not_loop fuel' c false R s'
        end
    end.

  Definition not_ (c : member) (maxiter : nat) (amb : bool) (x0 : V) (s : St) : outcome * St :=
    not_loop maxiter c amb x0 s.

  (* what the property calls "left unchanged by c" / "changed by c" *)
  Definition fixes (c : member) (r : V) : Prop := exists v, c r = Val v /\ veq v r = true.
  Definition changes (c : member) (r : V) : Prop := exists v, c r = Val v /\ veq v r = false.
  Definition swallowed (c : member) (r : V) : Prop := c r = RaiseZD \/ c r = RaiseTE.
End Comb.

Arguments Val {V} v.
Arguments RaiseZD {V}.
Arguments RaiseTE {V}.
Arguments Reraise {V}.
Arguments Success {V} v.
Arguments Failure {V} v.
Arguments Raised {V}.
Arguments IndexErr {V}.
Arguments BadDraw {V}.

(* ------------------------------------------------------------------ the concrete generator: recorded draws *)
Section Draws.
  Variable N : Num.
  Variable zu : nat -> Z * T N.     (* k-th (randint(-1,1), random()) pair *)
  Variable zs : nat -> Z.           (* k-th randint(1,n) *)

  (* [(i+rnd.randint(-1,1))*rnd.random() for i in x] ; the state is the number of pairs consumed *)
  Fixpoint randomise_num (x : list (T N)) (s : nat) : list (T N) * nat :=
    match x with
    | nil => (nil, s)
    | xi :: r =>
        let (z, u) := zu s in
        let (r', s') := randomise_num r (S s) in
        (mul N (add N xi (of_Z N z)) u :: r', s')
    end.

  Definition pick_num (s : nat) : Z * nat := (zs s, S s).

  Definition and_num := and_ (list (T N)) (list_eqb N) nat randomise_num.
  Definition or_num := or_ (list (T N)) (list_eqb N) nat pick_num.
  Definition not_num := not_ (list (T N)) (list_eqb N) nat randomise_num.
End Draws.

(* ------------------------------------------------------------------ coupler.py: function couplers *)
Section Couplers.
  Variables X Y Z A B : Type.
  (* outer(c, args=(a,))(f)(x, b) = c(f(x, b), a) *)
  Definition outer (c : Y -> A -> Z) (a : A) (f : X -> B -> Y) (x : X) (b : B) : Z := c (f x b) a.
  (* inner(c, args=(a,))(f)(x, b) = f(c(x, a), b) *)
  Definition inner (c : X -> A -> Y) (a : A) (f : Y -> B -> Z) (x : X) (b : B) : Z := f (c x a) b.
  (* inner_proxy(c, args=(a,))(f)(x, b) = f(c(x, b), a) *)
  Definition inner_proxy (c : X -> B -> Y) (a : A) (f : Y -> A -> Z) (x : X) (b : B) : Z := f (c x b) a.
  (* outer_proxy(c, args=(a,))(f)(x, b) = c(f(x, a), b) *)
  Definition outer_proxy (c : Y -> B -> Z) (a : A) (f : X -> A -> Y) (x : X) (b : B) : Z := c (f x a) b.
End Couplers.

Section Additive.
  Variable N : Num.
  Variables X A B : Type.
  (* additive(p, args=(a,))(f)(x, b) = f(x, b) + p(x, a) *)
  Definition additive (p : X -> A -> T N) (a : A) (f : X -> B -> T N) (x : X) (b : B) : T N :=
    add N (f x b) (p x a).
  (* additive_proxy(p, args=(a,))(f)(x, b) = f(x, a) + p(x, b) *)
  Definition additive_proxy (p : X -> B -> T N) (a : A) (f : X -> A -> T N) (x : X) (b : B) : T N :=
    add N (f x a) (p x b).
End Additive.

(* ------------------------------------------------------------------ coupler.py: penalty combinators *)
Section Penalties.
  Variable N : Num.
  Variable X : Type.
  Notation T := (T N).

  (* the penalty types of mystic.penalty that keep no state, at iteration n = 0 (pow(h,0) = 1), wrapped around
     `lambda x: 0.`  :  ptype(condition, k=k)(lambda x:0.)(x) *)
  Inductive ptype := LinEq | QuadEq | UniEq | LinIneq | QuadIneq | UniIneq.
  Definition is_ineq (pt : ptype) : bool :=
    match pt with LinIneq | QuadIneq | UniIneq => true | _ => false end.
  Definition two : T := add N (one N) (one N).
  Definition papply (pt : ptype) (k : T) (pf : T) : T :=
    match pt with
    | LinEq => add N (mul N k (abs N pf)) (zero N)                               (* float(_k)*abs(pf) + 0. *)
    | QuadEq => add N (mul N k (mul N pf pf)) (zero N)                           (* float(_k)*pf**2 + 0. *)
    | UniEq => add N (if eqb N pf (zero N) then zero N else k) (zero N)          (* (k if pf else 0.) + 0. *)
    | LinIneq => add N (mul N (mul N two k) (abs N (nmax N (zero N) pf))) (zero N)   (* float(2*_k)*abs(max(0.,pf)) *)
    | QuadIneq => add N (mul N (mul N two k) (mul N (nmax N (zero N) pf) (nmax N (zero N) pf))) (zero N)
    | UniIneq => add N (if ltb N (zero N) pf then k else zero N) (zero N)        (* (k if pf > 0 else 0.) + 0. *)
    end.

  (* min(p(x) for p in penalties): the first minimal value; ValueError on an empty sequence *)
  Definition pmin (l : list T) : option T :=
    match l with
    | nil => None
    | a :: r => Some (fold_left (fun m v => if ltb N v m then v else m) r a)
    end.

  (* and_(p1..pm, ptype=pt, k=k)(x) : penalty = sum(p(x) for p in ps) *)
  Definition pen_and (pt : ptype) (k : T) (ps : list (X -> T)) (x : X) : T :=
    papply pt k (nsum N (map (fun p => p x) ps)).
  (* or_(p1..pm, ptype=pt, k=k)(x) : penalty = min(p(x) for p in ps) *)
  Definition pen_or (pt : ptype) (k : T) (ps : list (X -> T)) (x : X) : option T :=
    match pmin (map (fun p => p x) ps) with Some m => Some (papply pt k m) | None => None end.
  (* not_(p, k=k)(x) with condition = p.func and ptype = p's own type:
       inequality types: _penalty = 0 - condition(x) ; equality types: _penalty = not condition(x) *)
  Definition pen_not (pt : ptype) (k : T) (cond : X -> T) (x : X) : T :=
    if is_ineq pt then papply pt k (sub N (zero N) (cond x))
    else papply pt k (if eqb N (cond x) (zero N) then one N else zero N).
End Penalties.

(* ------------------------------------------------------------------ member families with exact Python twins
   (harness/props/c17.py `_apply_op`), binary64 only: used by the generated cases files, not by theorems. *)
Section Families.
  Import PrimFloat.
  Notation F := PrimFloat.float.

  Inductive op :=
  | OClampLo (i : nat) (c : F)      (* x[i] = max(x[i], c) *)
  | OClampHi (i : nat) (c : F)      (* x[i] = min(x[i], c) *)
  | OPin (i : nat) (c : F)          (* x[i] = c *)
  | ORound (i : nat) (m : F)        (* x[i] = rint(x[i]*m)/m   (round half even via the 2^52 trick) *)
  | OTie (i j : nat) (c : F)        (* x[i] = x[j] + c *)
  | OShift (i : nat) (c : F)        (* x[i] = x[i] + c *)
  | OScale (i : nat) (c : F)        (* x[i] = x[i] * c *)
  | OSwap (i j : nat)               (* x[i], x[j] = x[j], x[i] *)
  | ONeg (i : nat)                  (* x[i] = -x[i] *)
  | ODropLast                       (* x = x[:-1] *)
  | OJump (i : nat) (a b : F)       (* if x[i] == a: x[i] = b *)
  | ORaiseIfLe (kind : nat) (i : nat) (c : F)   (* if x[i] <= c: raise kind *)
  | ORaiseIfEq (kind : nat) (i : nat) (c : F)   (* if x[i] == c: raise kind *)
  | ORaise (kind : nat).            (* raise kind : 0 ZeroDivisionError, 1 TypeError('bad operand'),
                                       2 ValueError('bad value'), 3 TypeError('not supported ...') *)

  Definition M52 : F := 0x1p+52%float.
  Definition rint (x : F) : F :=
    if PrimFloat.ltb x 0 then PrimFloat.add (PrimFloat.sub x M52) M52
    else PrimFloat.sub (PrimFloat.add x M52) M52.

  Fixpoint set_nth (i : nat) (v : F) (x : list F) : list F :=
    match x, i with
    | nil, _ => nil
    | _ :: r, O => v :: r
    | a :: r, S k => a :: set_nth k v r
    end.

  Definition raise_kind (kind : nat) : mres (list F) :=
    match kind with O => RaiseZD | 1 => RaiseTE | 2 => RaiseTE | _ => Reraise end.

  (* every indexed op is guarded by `if i < len(x)` (and j) in the Python twin *)
  Definition apply_op (o : op) (x : list F) : mres (list F) :=
    let upd i f := match nth_error x i with Some a => Val (set_nth i (f a) x) | None => Val x end in
    match o with
    | OClampLo i c => upd i (fun a => if PrimFloat.ltb a c then c else a)
    | OClampHi i c => upd i (fun a => if PrimFloat.ltb c a then c else a)
    | OPin i c => upd i (fun _ => c)
    | ORound i m => upd i (fun a => PrimFloat.div (rint (PrimFloat.mul a m)) m)
    | OTie i j c => match nth_error x i, nth_error x j with
                    | Some _, Some b => Val (set_nth i (PrimFloat.add b c) x) | _, _ => Val x end
    | OShift i c => upd i (fun a => PrimFloat.add a c)
    | OScale i c => upd i (fun a => PrimFloat.mul a c)
    | OSwap i j => match nth_error x i, nth_error x j with
                   | Some a, Some b => Val (set_nth j a (set_nth i b x)) | _, _ => Val x end
    | ONeg i => upd i (fun a => PrimFloat.opp a)
    | ODropLast => Val (removelast x)
    | OJump i a b => upd i (fun v => if PrimFloat.eqb v a then b else v)
    | ORaiseIfLe kind i c => match nth_error x i with
                             | Some a => if PrimFloat.leb a c then raise_kind kind else Val x | None => Val x end
    | ORaiseIfEq kind i c => match nth_error x i with
                             | Some a => if PrimFloat.eqb a c then raise_kind kind else Val x | None => Val x end
    | ORaise kind => raise_kind kind
    end.

  Fixpoint apply_ops (ops : list op) (x : list F) : mres (list F) :=
    match ops with
    | nil => Val x
    | o :: r => match apply_op o x with Val y => apply_ops r y | e => e end
    end.

  Definition fam (ops : list op) : member (list F) := apply_ops ops.
End Families.
