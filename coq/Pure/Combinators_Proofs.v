(* C17 - proofs about the model in Combinators.v.
   All statements quantify over every member set, input vector, iteration cap and generator
   (randomise / pick are Section variables: arbitrary functions of an arbitrary state). *)
From Coq Require Import List ZArith Bool Arith Lia.
From MV Require Import Common.Num Pure.Combinators.
Import ListNotations.

(* ------------------------------------------------------------------ list helpers *)
Lemma firstn_snoc_le : forall (A : Type) (l : list A) (a : A) k, k <= length l -> firstn k (l ++ [a]) = firstn k l.
Proof.
  intros A l a k Hk. rewrite firstn_app. replace (k - length l) with 0 by lia.
  simpl. apply app_nil_r.
Qed.

Lemma firstn_cons_firstn : forall (A : Type) (c : A) (l : list A) k m, k <= S m ->
  firstn k (c :: firstn m l) = firstn k (c :: l).
Proof.
  intros A c l k m Hk. destruct k as [|k']; [reflexivity|]. simpl. f_equal.
  rewrite firstn_firstn. f_equal. lia.
Qed.

Section Proofs.
  Variable V : Type.
  Variable veq : V -> V -> bool.
  Variable St : Type.
  Variable randomise : V -> St -> V * St.
  Variable pick : St -> Z * St.

  Notation mem := (member V).
  Notation Fixes := (fixes V veq).
  Notation Changes := (changes V veq).
  Notation Swallowed := (swallowed V).

  (* members respect `==`: equal arguments give equal results / the same kind of exception *)
  Definition mres_rel (a b : mres V) : Prop :=
    match a, b with
    | Val u, Val v => veq u v = true
    | RaiseZD, RaiseZD | RaiseZD, RaiseTE | RaiseTE, RaiseZD | RaiseTE, RaiseTE => True
    | Reraise, Reraise => True
    | _, _ => False
    end.
  Definition proper (c : mem) : Prop := forall a b, veq a b = true -> mres_rel (c a) (c b).
  (* c(c(x)) == c(x) *)
  Definition idem (c : mem) : Prop := forall x v, c x = Val v -> exists w, c v = Val w /\ veq w v = true.
  Definition total (c : mem) : Prop := forall x, exists v, c x = Val v.
  Definition reraises (cs : list mem) : Prop := exists c x, In c cs /\ c x = Reraise.

  Hypothesis veq_sym : forall a b, veq a b = true -> veq b a = true.
  Hypothesis veq_trans : forall a b c, veq a b = true -> veq b c = true -> veq a c = true.

  (* v was produced by c, as a value *)
  Definition P (c : mem) (v : V) : Prop := exists u, c u = Val v.

  Lemma P_fix : forall c v r, proper c -> idem c -> P c v -> veq v r = true -> Fixes c r.
  Proof.
    intros c v r Hp Hi [u Hu] Hvr.
    destruct (Hi _ _ Hu) as [w [Hw Hwv]].
    specialize (Hp v r Hvr). rewrite Hw in Hp. unfold mres_rel in Hp.
    destruct (c r) as [w'| | |] eqn:Hcr; try contradiction.
    exists w'. split; [exact Hcr|].
    apply veq_trans with w; [apply veq_sym; exact Hp|]. apply veq_trans with v; assumption.
  Qed.

  (* the k most recent history entries were produced by the listed members (most recent first) *)
  Inductive facts : list mem -> list V -> Prop :=
  | facts_nil : forall h, facts [] h
  | facts_cons : forall c cs v h, P c v -> facts cs h -> facts (c :: cs) (v :: h).

  Lemma facts_firstn : forall cs h k, facts cs h -> facts (firstn k cs) h.
  Proof.
    intros cs h k H. revert k. induction H; intros k.
    - rewrite firstn_nil. constructor.
    - destruct k; simpl; constructor; auto.
  Qed.

  Lemma facts_trunc : forall cs h k, facts cs h -> length cs <= k -> facts cs (firstn k h).
  Proof.
    intros cs h k H. revert k. induction H; intros k Hk.
    - constructor.
    - simpl in Hk. destruct k; [lia|]. simpl. constructor; auto. apply IHfacts. lia.
  Qed.

  Lemma facts_window : forall cs h r, facts cs h ->
    forallb (fun xi => veq xi r) (firstn (length cs) h) = true ->
    (forall c, In c cs -> proper c /\ idem c) ->
    forall c, In c cs -> Fixes c r.
  Proof.
    intros cs h r H. induction H; intros Hw Hpi c0 Hin.
    - contradiction.
    - simpl in Hw. apply andb_true_iff in Hw. destruct Hw as [Hv Hw].
      destruct Hin as [->|Hin].
      + destruct (Hpi c0 (or_introl eq_refl)). eapply P_fix; eauto.
      + apply IHfacts; auto. intros c' Hc'. apply Hpi. right; exact Hc'.
  Qed.

  (* ---------------------------------------------------------------- history length vs `del x[:n]` *)
  Section Len.
    Variable n : nat.
    Hypothesis Hn : 1 <= n.

    (* at the head of iteration j the history has len entries; rem = iterations until the next deletion *)
    Definition LenInv (j len : nat) : Prop :=
      n + 1 <= len /\ exists rem q, rem < 2 * n /\ j + rem = q * (2 * n) /\ 2 * n <= len + rem.

    Lemma LenInv_step : forall j len, LenInv j len ->
      (Nat.eqb (j mod (2 * n)) 0 = true -> 2 * n <= len /\ LenInv (S j) (S (len - n))) /\
      (Nat.eqb (j mod (2 * n)) 0 = false -> LenInv (S j) (S len)).
    Proof.
      intros j len [Hlen [rem [q [Hrem [Hj Hsum]]]]].
      assert (Hmod : j mod (2 * n) = 0 <-> rem = 0).
      { split; intro H.
        - assert (Hd := Nat.div_mod j (2 * n) ltac:(lia)). rewrite H in Hd.
          set (a := j / (2 * n)) in *.
          assert (q <= a \/ a + 1 <= q) as [Hq|Hq] by lia.
          + assert (q * (2 * n) <= a * (2 * n)) by (apply Nat.mul_le_mono_r; exact Hq). lia.
          + assert ((a + 1) * (2 * n) <= q * (2 * n)) by (apply Nat.mul_le_mono_r; exact Hq). lia.
        - subst rem. rewrite Nat.add_0_r in Hj. rewrite Hj. apply Nat.mod_mul. lia. }
      split; intro Hb.
      - apply Nat.eqb_eq in Hb. apply Hmod in Hb. subst rem.
        split; [lia|]. split; [lia|].
        exists (2 * n - 1), (S q). split; [lia|]. split; [simpl; lia|lia].
      - apply Nat.eqb_neq in Hb. assert (rem <> 0) by (intro; apply Hb; apply Hmod; assumption).
        split; [lia|]. exists (rem - 1), q. split; [lia|]. split; lia.
    Qed.
  End Len.

  (* ================================================================ and_ *)
  Section And.
    Variable cs : list mem.
    Let n := length cs.
    Hypothesis Hn : 1 <= n.
    Hypothesis Hprop : forall c, In c cs -> proper c /\ idem c.

    Definition and_good (o : outcome V) : Prop :=
      match o with
      | Success r => forall c, In c cs -> Fixes c r
      | Failure _ => True
      | Raised => reraises cs
      | IndexErr | BadDraw => False
      end.

    Definition AInv (rot : list mem) (j skip : nat) (cur : V) (old : list V) : Prop :=
      length rot = n /\ (forall c, In c rot -> In c cs) /\ (forall c, In c cs -> In c rot) /\
      skip <= n - 1 /\ facts (firstn (n - 1 - skip) (rev rot)) (cur :: old) /\
      LenInv n j (length (cur :: old)).

    (* the loop body after the member call: ci = value appended, e = an exception was swallowed *)
    Definition and_body (fuel' : nat) (c : mem) (rot' : list mem) (j skip : nat) (cur : V) (old : list V) (s : St)
               (ci : V) (e : bool) : outcome V * St :=
      let old1 := cur :: old in
      if (Nat.eqb skip 0 && forallb (fun xi => veq xi ci) (firstn n (ci :: old1)) && negb e)%bool
      then (Success ci, s)
      else
        let skip1 := if e then Nat.pred n else Nat.pred skip in
        match nth_error (ci :: old1) n with
        | None => (IndexErr, s)
        | Some xo =>
            let '(cur2, skip2, s2) :=
              if veq ci xo then let (R, s') := randomise ci s in (R, Nat.pred n, s') else (ci, skip1, s) in
            if Nat.eqb (j mod (2 * n)) 0
            then if Nat.leb n (length old1)
                 then and_loop V veq St randomise n fuel' (rot' ++ [c]) (S j) skip2 cur2
                               (firstn (length old1 - n) old1) s2
                 else (IndexErr, s2)
            else and_loop V veq St randomise n fuel' (rot' ++ [c]) (S j) skip2 cur2 old1 s2
        end.

    Lemma and_loop_S : forall fuel' c rot' j skip cur old s,
      and_loop V veq St randomise n (S fuel') (c :: rot') j skip cur old s =
      match c cur with
      | Reraise => (Raised, s)
      | Val v => and_body fuel' c rot' j skip cur old s v false
      | _ => and_body fuel' c rot' j skip cur old s cur true
      end.
    Proof. intros. simpl. destruct (c cur); reflexivity. Qed.

    Lemma and_loop_good : forall fuel rot j skip cur old s o s',
      AInv rot j skip cur old ->
      and_loop V veq St randomise n fuel rot j skip cur old s = (o, s') -> and_good o.
    Proof.
      induction fuel as [|fuel IH]; intros rot j skip cur old s o s' HI Hrun.
      - simpl in Hrun. inversion Hrun; subst. exact I.
      - destruct HI as [Hlen [Hsub [Hsup [Hskip [Hfacts HL]]]]].
        destruct rot as [|c rot']; [simpl in Hlen; lia|].
        rewrite and_loop_S in Hrun.
        assert (Hc : In c cs) by (apply Hsub; left; reflexivity).
        assert (Hlen' : length rot' = n - 1) by (simpl in Hlen; lia).
        (* the common part: given what was appended *)
        assert (Hbody : forall ci e, (e = false -> P c ci) ->
                  and_body fuel c rot' j skip cur old s ci e = (o, s') -> and_good o).
        { clear Hrun. intros ci e HP Hrun. unfold and_body in Hrun.
          assert (F1 : e = false -> facts (c :: firstn (n - 1 - skip) (rev rot')) (ci :: cur :: old)).
          { intro He0. constructor; [exact (HP He0)|].
            simpl rev in Hfacts. rewrite firstn_snoc_le in Hfacts; [exact Hfacts|].
            rewrite rev_length. lia. }
          destruct (Nat.eqb skip 0 && forallb (fun xi => veq xi ci) (firstn n (ci :: cur :: old)) && negb e)%bool eqn:Hchk.
          - (* success *)
            inversion Hrun; subst o s'. clear Hrun.
            apply andb_true_iff in Hchk. destruct Hchk as [Hchk He].
            apply andb_true_iff in Hchk. destruct Hchk as [Hsk Hwin].
            apply Nat.eqb_eq in Hsk. subst skip. apply negb_true_iff in He. specialize (F1 He).
            rewrite firstn_all2 in F1 by (rewrite rev_length; lia).
            simpl. intros c0 Hc0.
            apply (facts_window (c :: rev rot') (ci :: cur :: old) ci F1).
            + simpl length. rewrite rev_length. replace (S (length rot')) with n by lia. exact Hwin.
            + intros c' [->|Hc']; [apply Hprop; exact Hc|].
              apply Hprop. apply Hsub. right. apply in_rev. exact Hc'.
            + apply Hsup in Hc0. destruct Hc0 as [->|Hc0]; [left; reflexivity|right; apply -> in_rev; exact Hc0].
          - clear Hchk.
            destruct (LenInv_step n Hn j _ HL) as [Hdel Hkeep].
            destruct HL as [HLlen _]. simpl length in HLlen, Hdel, Hkeep.
            destruct (nth_error (ci :: cur :: old) n) as [xo|] eqn:Hxo.
            2:{ apply nth_error_None in Hxo. simpl in Hxo. lia. }
            (* the state after the optional randomisation *)
            assert (Hnext : forall cur2 skip2 s2 old',
                      skip2 <= n - 1 ->
                      facts (firstn (n - 1 - skip2) (c :: rev rot')) (cur2 :: cur :: old) ->
                      (if Nat.eqb (j mod (2 * n)) 0
                       then if Nat.leb n (length (cur :: old))
                            then and_loop V veq St randomise n fuel (rot' ++ [c]) (S j) skip2 cur2
                                          (firstn (length (cur :: old) - n) (cur :: old)) s2
                            else (IndexErr, s2)
                       else and_loop V veq St randomise n fuel (rot' ++ [c]) (S j) skip2 cur2 (cur :: old) s2) = (o, s') ->
                      old' = cur :: old -> and_good o).
            { intros cur2 skip2 s2 old' Hsk2 F2 Hrun2 _.
              assert (Hrot : length (rot' ++ [c]) = n) by (rewrite app_length; simpl; lia).
              assert (Hin1 : forall c0, In c0 (rot' ++ [c]) -> In c0 cs).
              { intros c0 H0. apply in_app_iff in H0. destruct H0 as [H0|[->|[]]]; [apply Hsub; right; exact H0|exact Hc]. }
              assert (Hin2 : forall c0, In c0 cs -> In c0 (rot' ++ [c])).
              { intros c0 H0. apply Hsup in H0. apply in_app_iff. destruct H0 as [->|H0]; [right; left; reflexivity|left; exact H0]. }
              destruct (Nat.eqb (j mod (2 * n)) 0) eqn:Hmod.
              - destruct (Hdel eq_refl) as [H2n HL2]. simpl length in Hrun2.
                destruct (Nat.leb n (S (length old))) eqn:Hle.
                2:{ apply Nat.leb_gt in Hle. lia. }
                eapply IH; [|exact Hrun2].
                unfold AInv. refine (conj Hrot (conj Hin1 (conj Hin2 (conj Hsk2 (conj _ _))))).
                + rewrite rev_unit.
                  change (cur2 :: firstn (S (length old) - n) (cur :: old))
                    with (firstn (S (S (length old) - n)) (cur2 :: cur :: old)).
                  apply facts_trunc; [exact F2|].
                  rewrite firstn_length. cbn [length]. rewrite rev_length. lia.
                + cbn [length]. rewrite firstn_length. cbn [length].
                  replace (Nat.min (S (length old) - n) (S (length old))) with (S (length old) - n) by lia.
                  exact HL2.
              - eapply IH; [|exact Hrun2].
                unfold AInv. refine (conj Hrot (conj Hin1 (conj Hin2 (conj Hsk2 (conj _ _))))).
                + rewrite rev_unit. exact F2.
                + cbn [length]. apply Hkeep. reflexivity. }
            destruct (veq ci xo).
            + destruct (randomise ci s) as [R s2] eqn:HR.
              eapply (Hnext R (Nat.pred n) s2 (cur :: old)); [lia| |exact Hrun|reflexivity].
              replace (n - 1 - Nat.pred n) with 0 by lia. constructor.
            + destruct e.
              * eapply (Hnext ci (Nat.pred n) s (cur :: old)); [lia| |exact Hrun|reflexivity].
                replace (n - 1 - Nat.pred n) with 0 by lia. constructor.
              * eapply (Hnext ci (Nat.pred skip) s (cur :: old)); [lia| |exact Hrun|reflexivity].
                rewrite <- (firstn_cons_firstn _ c (rev rot') (n - 1 - Nat.pred skip) (n - 1 - skip)) by lia.
                apply facts_firstn. exact (F1 eq_refl). }
        destruct (c cur) as [v| | |] eqn:Hcc.
        + eapply Hbody; [|exact Hrun]. intros _. exists cur. exact Hcc.
        + eapply Hbody; [|exact Hrun]. discriminate.
        + eapply Hbody; [|exact Hrun]. discriminate.
        + inversion Hrun; subst. simpl. exists c, cur. split; assumption.
    Qed.
  End And.

  Lemma and_first_sticky : forall cs cur0 old0 cur old e1,
    and_first V cs cur0 old0 true = Some (cur, old, e1) -> e1 = true.
  Proof.
    induction cs as [|c r IH]; intros cur0 old0 cur old e1 Hrun; simpl in Hrun.
    - inversion Hrun; reflexivity.
    - destruct (c cur0); try discriminate; eapply IH; eauto.
  Qed.

  (* without a swallowed exception (e stays None) all n entries of the first pass are member results *)
  Lemma and_first_facts : forall cs cur0 old0 e0 cur old e1 ms,
    and_first V cs cur0 old0 e0 = Some (cur, old, e1) ->
    (e1 = false -> facts ms (cur0 :: old0) -> facts (rev cs ++ ms) (cur :: old)) /\
    length (cur :: old) = length cs + length (cur0 :: old0).
  Proof.
    induction cs as [|c r IH]; intros cur0 old0 e0 cur old e1 ms Hrun; simpl in Hrun.
    - inversion Hrun; subst. simpl. split; [auto|reflexivity].
    - destruct (c cur0) as [v| | |] eqn:Hc; try discriminate.
      + destruct (IH _ _ _ _ _ _ (c :: ms) Hrun) as [H1 H2].
        split; [|simpl in *; lia]. intros He Hf. simpl. rewrite <- app_assoc. apply H1; [exact He|].
        constructor; [exists cur0; exact Hc|exact Hf].
      + split; [|destruct (IH _ _ _ _ _ _ ms Hrun) as [_ H2]; simpl in *; lia].
        intros He. apply and_first_sticky in Hrun. congruence.
      + split; [|destruct (IH _ _ _ _ _ _ ms Hrun) as [_ H2]; simpl in *; lia].
        intros He. apply and_first_sticky in Hrun. congruence.
  Qed.

  Lemma and_first_none : forall cs cur0 old0 e0, and_first V cs cur0 old0 e0 = None -> reraises cs.
  Proof.
    induction cs as [|c r IH]; intros cur0 old0 e0 Hrun; simpl in Hrun; [discriminate|].
    destruct (c cur0) eqn:Hc.
    - destruct (IH _ _ _ Hrun) as [c' [x [Hin Hx]]]. exists c', x. split; [right; exact Hin|exact Hx].
    - destruct (IH _ _ _ Hrun) as [c' [x [Hin Hx]]]. exists c', x. split; [right; exact Hin|exact Hx].
    - destruct (IH _ _ _ Hrun) as [c' [x [Hin Hx]]]. exists c', x. split; [right; exact Hin|exact Hx].
    - exists c, cur0. split; [left; reflexivity|exact Hc].
  Qed.

  (* and_: every outcome is success / failure / a member's re-raised exception, and success is reported only on a
     vector that every member maps to an equal vector (in particular no member raises on it) *)
  Theorem and_outcome : forall (cs : list mem) maxiter x0 s o s',
    (forall c, In c cs -> proper c /\ idem c) ->
    and_ V veq St randomise cs maxiter x0 s = (o, s') -> and_good cs o.
  Proof.
    intros cs maxiter x0 s o s' Hprop Hrun. unfold and_ in Hrun.
    destruct (and_first V cs x0 [] false) as [[[cur old] e]|] eqn:Hfirst.
    2:{ inversion Hrun; subst. simpl. eapply and_first_none; eauto. }
    destruct (and_first_facts _ _ _ _ _ _ _ [] Hfirst) as [Hf Hlen].
    rewrite app_nil_r in Hf. simpl length in Hlen.
    destruct (forallb (fun xi => veq xi cur) (removelast (cur :: old)) && negb e)%bool eqn:Hchk.
    - inversion Hrun; subst o s'. simpl.
      apply andb_true_iff in Hchk. destruct Hchk as [Hwin He]. apply negb_true_iff in He.
      specialize (Hf He (facts_nil _)).
      rewrite removelast_firstn_len in Hwin. simpl length in Hwin. simpl Nat.pred in Hwin.
      intros c Hc. apply (facts_window (rev cs) (cur :: old) cur Hf).
      + rewrite rev_length. replace (length cs) with (length old) by lia. exact Hwin.
      + intros c' Hc'. apply Hprop. apply in_rev. exact Hc'.
      + apply -> in_rev. exact Hc.
    - destruct cs as [|c0 cs'] eqn:Hcs.
      { simpl in Hfirst. inversion Hfirst; subst. simpl in Hchk. discriminate. }
      rewrite <- Hcs in *.
      assert (Hn : 1 <= length cs) by (rewrite Hcs; simpl; lia).
      eapply (and_loop_good cs Hn Hprop); [|exact Hrun].
      unfold AInv. repeat split; auto; try (destruct e; lia).
      + destruct e.
        * replace (length cs - 1 - Nat.pred (length cs)) with 0 by lia. constructor.
        * apply facts_firstn. apply Hf; [reflexivity|constructor].
      + simpl length. lia.
      + exists (length cs), 1. simpl length. lia.
  Qed.

  (* the property's clause: members may raise (swallowed or not); "left unchanged" = returns an equal vector *)
  Theorem and_success_fixed_by_all : forall (cs : list mem) maxiter x0 s r s',
    (forall c, In c cs -> proper c /\ idem c) ->
    and_ V veq St randomise cs maxiter x0 s = (Success r, s') ->
    forall c, In c cs -> Fixes c r.
  Proof. intros cs maxiter x0 s r s' Hp Hrun. exact (and_outcome cs maxiter x0 s _ s' Hp Hrun). Qed.

  Theorem and_failure_otherwise : forall (cs : list mem) maxiter x0 s o s',
    (forall c, In c cs -> proper c /\ idem c) ->
    and_ V veq St randomise cs maxiter x0 s = (o, s') ->
    (exists r, o = Success r) \/ (exists r, o = Failure r) \/ (o = Raised /\ reraises cs).
  Proof.
    intros cs maxiter x0 s o s' Hp Hrun. assert (H := and_outcome cs maxiter x0 s o s' Hp Hrun).
    destruct o; simpl in H; try contradiction; eauto.
  Qed.

  (* ================================================================ or_ *)
  Definition or_good (cs : list mem) (o : outcome V) : Prop :=
    match o with
    | Success r => exists c, In c cs /\ Fixes c r
    | Failure _ => True
    | Raised => reraises cs
    | IndexErr | BadDraw => True
    end.

  Lemma fix_of_call : forall c a v, proper c -> c a = Val v -> veq v a = true -> Fixes c v.
  Proof.
    intros c a v Hp Hc Hva. specialize (Hp v a Hva). rewrite Hc in Hp. unfold mres_rel in Hp.
    destruct (c v) as [w| | |] eqn:Hcv; try contradiction. exists w. split; [exact Hcv|exact Hp].
  Qed.

  Lemma or_first_good : forall (cs all : list mem) x0 cur0 old0 e0,
    (forall c, In c cs -> In c all) -> (forall c, In c all -> proper c) ->
    match or_first V veq cs x0 cur0 old0 e0 with
    | inl o => or_good all o /\ o <> IndexErr /\ o <> BadDraw
    | inr (cur, old) => length (cur :: old) = length cs + length (cur0 :: old0)
    end.
  Proof.
    induction cs as [|c r IH]; intros all x0 cur0 old0 e0 Hsub Hp; simpl.
    - reflexivity.
    - assert (Hr : forall c', In c' r -> In c' all) by (intros; apply Hsub; right; assumption).
      destruct (c x0) as [v| | |] eqn:Hc.
      + destruct (veq v x0 && negb e0)%bool eqn:Hchk.
        * apply andb_true_iff in Hchk. destruct Hchk as [Hv _]. split; [|split; discriminate].
          simpl. exists c. split; [apply Hsub; left; reflexivity|].
          eapply fix_of_call; eauto. apply Hp. apply Hsub. left. reflexivity.
        * specialize (IH all x0 v (cur0 :: old0) e0 Hr Hp).
          destruct (or_first V veq r x0 v (cur0 :: old0) e0) as [o|[cur old]]; [exact IH|simpl in *; lia].
      + specialize (IH all x0 x0 (cur0 :: old0) true Hr Hp).
        destruct (or_first V veq r x0 x0 (cur0 :: old0) true) as [o|[cur old]]; [exact IH|simpl in *; lia].
      + specialize (IH all x0 cur0 (cur0 :: old0) true Hr Hp).
        destruct (or_first V veq r x0 cur0 (cur0 :: old0) true) as [o|[cur old]]; [exact IH|simpl in *; lia].
      + split; [|split; discriminate]. simpl. exists c, x0. split; [apply Hsub; left; reflexivity|exact Hc].
  Qed.

  Section Or.
    Variable cs : list mem.
    Let n := length cs.
    Hypothesis Hprop : forall c, In c cs -> proper c.

    (* soundness of the reported outcome; needs neither the length invariant nor the generator's contract *)
    Lemma or_loop_sound : forall fuel rot j cur old s o s',
      length rot = n -> (forall c, In c rot -> In c cs) ->
      or_loop V veq St pick n fuel rot j cur old s = (o, s') -> or_good cs o.
    Proof.
      induction fuel as [|fuel IH]; intros rot j cur old s o s' Hlen Hsub Hrun; simpl in Hrun.
      - inversion Hrun; subst; exact I.
      - destruct rot as [|c rot']; [inversion Hrun; subst; exact I|].
        assert (Hc : In c cs) by (apply Hsub; left; reflexivity).
        assert (Hn : n = S (Nat.pred n)) by (simpl in Hlen; lia).
        destruct (nth_error (cur :: old) (Nat.pred n)) as [arg|] eqn:Harg; [|inversion Hrun; subst; exact I].
        assert (Hrot : length (rot' ++ [c]) = n) by (rewrite app_length; simpl in *; lia).
        assert (Hin1 : forall c0, In c0 (rot' ++ [c]) -> In c0 cs).
        { intros c0 H0. apply in_app_iff in H0. destruct H0 as [H0|[->|[]]]; [apply Hsub; right; exact H0|exact Hc]. }
        assert (Hrest : forall ci e, (e = false -> c arg = Val ci) ->
          match nth_error (ci :: cur :: old) n with
          | None => (IndexErr, s)
          | Some xo =>
              if (veq ci xo && negb e)%bool then (Success ci, s)
              else let (k, s2) := pick s in
                if (Z.leb 1 k && Z.leb k (Z.of_nat n))%bool then
                  match nth_error (ci :: cur :: old) (Nat.pred (Z.to_nat k)) with
                  | None => (IndexErr, s2)
                  | Some cur2 =>
                      if Nat.eqb (j mod (2 * n)) 0
                      then if Nat.leb n (length (cur :: old))
                           then or_loop V veq St pick n fuel (rot' ++ [c]) (S j) cur2
                                        (firstn (length (cur :: old) - n) (cur :: old)) s2
                           else (IndexErr, s2)
                      else or_loop V veq St pick n fuel (rot' ++ [c]) (S j) cur2 (cur :: old) s2
                  end
                else (BadDraw, s2)
          end = (o, s') -> or_good cs o).
        { intros ci e He Hrun2.
          rewrite Hn in Hrun2 at 1. simpl nth_error in Hrun2. rewrite Harg in Hrun2.
          destruct (veq ci arg && negb e)%bool eqn:Hchk.
          - inversion Hrun2; subst o s'. apply andb_true_iff in Hchk. destruct Hchk as [Hv He'].
            apply negb_true_iff in He'. simpl. exists c. split; [exact Hc|].
            eapply fix_of_call; eauto.
          - destruct (pick s) as [k s2].
            destruct (Z.leb 1 k && Z.leb k (Z.of_nat n))%bool; [|inversion Hrun2; subst; exact I].
            destruct (nth_error (ci :: cur :: old) (Nat.pred (Z.to_nat k))) as [cur2|]; [|inversion Hrun2; subst; exact I].
            destruct (Nat.eqb (j mod (2 * n)) 0).
            + destruct (Nat.leb n (length (cur :: old))); [|inversion Hrun2; subst; exact I].
              eapply IH; eauto.
            + eapply IH; eauto. }
        destruct (c arg) as [v| | |] eqn:Hca.
        + apply (Hrest v false); auto.
        + apply (Hrest arg true); auto. discriminate.
        + apply (Hrest cur true); auto. discriminate.
        + inversion Hrun; subst. simpl. exists c, arg. split; assumption.
    Qed.

    (* no IndexError, and no out-of-range draw when randint(1,n) honours its contract *)
    Hypothesis Hn : 1 <= n.
    Hypothesis Hpick : forall s, (1 <= fst (pick s) <= Z.of_nat n)%Z.

    Lemma or_loop_nocrash : forall fuel rot j cur old s o s',
      length rot = n -> LenInv n j (length (cur :: old)) ->
      or_loop V veq St pick n fuel rot j cur old s = (o, s') -> o <> IndexErr /\ o <> BadDraw.
    Proof.
      induction fuel as [|fuel IH]; intros rot j cur old s o s' Hlen HL Hrun; simpl in Hrun.
      - inversion Hrun; subst; split; discriminate.
      - destruct rot as [|c rot']; [simpl in Hlen; lia|].
        destruct (LenInv_step n Hn j _ HL) as [Hdel Hkeep].
        destruct HL as [HLlen _]. simpl length in HLlen, Hdel, Hkeep.
        destruct (nth_error (cur :: old) (Nat.pred n)) as [arg|] eqn:Harg.
        2:{ apply nth_error_None in Harg. simpl in Harg. lia. }
        assert (Hrot : length (rot' ++ [c]) = n) by (rewrite app_length; simpl in *; lia).
        assert (Hrest : forall ci e,
          match nth_error (ci :: cur :: old) n with
          | None => (IndexErr, s)
          | Some xo =>
              if (veq ci xo && negb e)%bool then (Success ci, s)
              else let (k, s2) := pick s in
                if (Z.leb 1 k && Z.leb k (Z.of_nat n))%bool then
                  match nth_error (ci :: cur :: old) (Nat.pred (Z.to_nat k)) with
                  | None => (IndexErr, s2)
                  | Some cur2 =>
                      if Nat.eqb (j mod (2 * n)) 0
                      then if Nat.leb n (length (cur :: old))
                           then or_loop V veq St pick n fuel (rot' ++ [c]) (S j) cur2
                                        (firstn (length (cur :: old) - n) (cur :: old)) s2
                           else (IndexErr, s2)
                      else or_loop V veq St pick n fuel (rot' ++ [c]) (S j) cur2 (cur :: old) s2
                  end
                else (BadDraw, s2)
          end = (o, s') -> o <> IndexErr /\ o <> BadDraw).
        { intros ci e Hrun2.
          destruct (nth_error (ci :: cur :: old) n) as [xo|] eqn:Hxo.
          2:{ apply nth_error_None in Hxo. simpl in Hxo. lia. }
          destruct (veq ci xo && negb e)%bool; [inversion Hrun2; subst; split; discriminate|].
          specialize (Hpick s). destruct (pick s) as [k s2]. simpl in Hpick.
          destruct (Z.leb 1 k && Z.leb k (Z.of_nat n))%bool eqn:Hk.
          2:{ apply andb_false_iff in Hk. destruct Hk as [Hk|Hk]; apply Z.leb_gt in Hk; lia. }
          destruct (nth_error (ci :: cur :: old) (Nat.pred (Z.to_nat k))) as [cur2|] eqn:Hc2.
          2:{ apply nth_error_None in Hc2. simpl in Hc2. lia. }
          destruct (Nat.eqb (j mod (2 * n)) 0) eqn:Hmod.
          - destruct (Hdel eq_refl) as [H2n HL2]. simpl length in Hrun2.
            destruct (Nat.leb n (S (length old))) eqn:Hle.
            2:{ apply Nat.leb_gt in Hle. lia. }
            eapply IH; [exact Hrot| |exact Hrun2].
            cbn [length]. rewrite firstn_length. cbn [length].
            replace (Nat.min (S (length old) - n) (S (length old))) with (S (length old) - n) by lia.
            exact HL2.
          - eapply IH; [exact Hrot| |exact Hrun2]. cbn [length]. apply Hkeep. reflexivity. }
        destruct (c arg) as [v| | |] eqn:Hca.
        + apply (Hrest v false); auto.
        + apply (Hrest arg true); auto.
        + apply (Hrest cur true); auto.
        + inversion Hrun; subst. split; discriminate.
    Qed.
  End Or.

  Theorem or_success_fixed_by_some : forall (cs : list mem) maxiter x0 s r s',
    (forall c, In c cs -> proper c) ->
    or_ V veq St pick cs maxiter x0 s = (Success r, s') ->
    exists c, In c cs /\ Fixes c r.
  Proof.
    intros cs maxiter x0 s r s' Hp Hrun. unfold or_ in Hrun.
    assert (H1 := or_first_good cs cs x0 x0 [] false (fun c H => H) Hp).
    destruct (or_first V veq cs x0 x0 [] false) as [o|[cur old]].
    - inversion Hrun; subst o s'. destruct H1 as [H1 _]. exact H1.
    - apply (or_loop_sound cs Hp _ _ _ _ _ _ _ _ eq_refl (fun c H => H) Hrun).
  Qed.

  Theorem or_failure_otherwise : forall (cs : list mem) maxiter x0 s o s',
    (forall c, In c cs -> proper c) ->
    (forall s, (1 <= fst (pick s) <= Z.of_nat (length cs))%Z) ->
    or_ V veq St pick cs maxiter x0 s = (o, s') ->
    (exists r, o = Success r) \/ (exists r, o = Failure r) \/ (o = Raised /\ reraises cs).
  Proof.
    intros cs maxiter x0 s o s' Hp Hpick Hrun. unfold or_ in Hrun.
    assert (H1 := or_first_good cs cs x0 x0 [] false (fun c H => H) Hp).
    assert (Hgood : or_good cs o /\ o <> IndexErr /\ o <> BadDraw).
    { destruct (or_first V veq cs x0 x0 [] false) as [o1|[cur old]].
      - inversion Hrun; subst o1 s'. exact H1.
      - split; [apply (or_loop_sound cs Hp _ _ _ _ _ _ _ _ eq_refl (fun c H => H) Hrun)|].
        destruct cs as [|c0 cs'] eqn:Hcs.
        + cbn [length] in Hrun. rewrite Nat.mul_0_r in Hrun. simpl in Hrun.
          inversion Hrun; subst. split; discriminate.
        + rewrite <- Hcs in *.
          assert (Hn : 1 <= length cs) by (rewrite Hcs; simpl; lia).
          eapply (or_loop_nocrash cs Hn Hpick); [reflexivity| |exact Hrun].
          simpl length in H1. split; [simpl length; lia|].
          exists (length cs), 1. simpl length. lia. }
    destruct Hgood as [Hg [H2 H3]].
    destruct o; simpl in Hg; try (exfalso; apply H2; reflexivity); try (exfalso; apply H3; reflexivity); eauto.
  Qed.

  (* ================================================================ not_ *)
  Definition not_good (c : mem) (o : outcome V) : Prop :=
    match o with
    | Success r => Changes c r
    | Failure _ => True
    | Raised => exists x, c x = Reraise
    | IndexErr | BadDraw => False
    end.

  Lemma not_loop_good : forall fuel c amb x s o s',
    not_loop V veq St randomise fuel c amb x s = (o, s') -> not_good c o.
  Proof.
    induction fuel as [|fuel IH]; intros c amb x s o s' Hrun; simpl in Hrun.
    - inversion Hrun; subst; exact I.
    - destruct (c x) as [v| | |] eqn:Hc.
      + destruct (negb amb && negb (veq v x))%bool eqn:Hchk.
        * inversion Hrun; subst o s'. apply andb_true_iff in Hchk. destruct Hchk as [_ Hv].
          apply negb_true_iff in Hv. simpl. exists v. split; assumption.
        * destruct (randomise x s) as [R s2]. eapply IH; eauto.
      + destruct (randomise x s) as [R s2]. eapply IH; eauto.
      + destruct (randomise x s) as [R s2]. eapply IH; eauto.
      + inversion Hrun; subst. simpl. exists x. exact Hc.
  Qed.

  Theorem not_success_changed : forall (c : mem) maxiter amb x0 s r s',
    not_ V veq St randomise c maxiter amb x0 s = (Success r, s') -> Changes c r.
  Proof. intros c maxiter amb x0 s r s' Hrun. exact (not_loop_good _ _ _ _ _ _ _ Hrun). Qed.

  Theorem not_failure_otherwise : forall (c : mem) maxiter amb x0 s o s',
    not_ V veq St randomise c maxiter amb x0 s = (o, s') ->
    (exists r, o = Success r) \/ (exists r, o = Failure r) \/ (o = Raised /\ exists x, c x = Reraise).
  Proof.
    intros c maxiter amb x0 s o s' Hrun. assert (H := not_loop_good _ _ _ _ _ _ _ Hrun).
    destruct o; simpl in H; try contradiction; eauto.
  Qed.

  (* a vector every member already leaves unchanged is returned as a success, without any draw *)
  Lemma and_first_fixed : forall (cs : list mem) x0 old0,
    (forall c, In c cs -> c x0 = Val x0) ->
    exists old, and_first V cs x0 old0 false = Some (x0, old, false) /\ (forall v, In v old -> v = x0 \/ In v old0).
  Proof.
    induction cs as [|c r IH]; intros x0 old0 Hfix; simpl.
    - exists old0. split; [reflexivity|auto].
    - rewrite (Hfix c (or_introl eq_refl)).
      destruct (IH x0 (x0 :: old0)) as [old [H1 H2]]; [intros; apply Hfix; right; assumption|].
      exists old. split; [exact H1|]. intros v Hv. destruct (H2 v Hv) as [->|[->|H]]; auto.
  Qed.

  Theorem and_fixed_input_succeeds : forall (cs : list mem) maxiter x0 s,
    veq x0 x0 = true -> (forall c, In c cs -> c x0 = Val x0) ->
    and_ V veq St randomise cs maxiter x0 s = (Success x0, s).
  Proof.
    intros cs maxiter x0 s Hrefl Hfix. unfold and_.
    destruct (and_first_fixed cs x0 [] Hfix) as [old [H1 H2]]. rewrite H1.
    assert (Hall : forallb (fun xi => veq xi x0) (removelast (x0 :: old)) = true).
    { apply forallb_forall. intros v Hv.
      assert (In v (x0 :: old)).
      { clear -Hv. revert Hv. generalize (x0 :: old). induction l as [|a l IHl]; simpl; [tauto|].
        destruct l; [simpl; tauto|]. intros [->|H]; [left; reflexivity|right; apply IHl; exact H]. }
      destruct H as [<-|H]; [exact Hrefl|]. destruct (H2 v H) as [->|[]]. exact Hrefl. }
    rewrite Hall. reflexivity.
  Qed.
End Proofs.

(* ------------------------------------------------------------------ couplers *)
Lemma outer_eq : forall (X Y Z A B : Type) (c : Y -> A -> Z) a (f : X -> B -> Y) x b,
  outer X Y Z A B c a f x b = c (f x b) a.
Proof. reflexivity. Qed.
Lemma inner_eq : forall (X Y Z A B : Type) (c : X -> A -> Y) a (f : Y -> B -> Z) x b,
  inner X Y Z A B c a f x b = f (c x a) b.
Proof. reflexivity. Qed.
Lemma inner_proxy_eq : forall (X Y Z A B : Type) (c : X -> B -> Y) a (f : Y -> A -> Z) x b,
  inner_proxy X Y Z A B c a f x b = f (c x b) a.
Proof. reflexivity. Qed.
Lemma outer_proxy_eq : forall (X Y Z A B : Type) (c : Y -> B -> Z) a (f : X -> A -> Y) x b,
  outer_proxy X Y Z A B c a f x b = c (f x a) b.
Proof. reflexivity. Qed.
Lemma additive_eq : forall (N : Num) (X A B : Type) (p : X -> A -> T N) a (f : X -> B -> T N) x b,
  additive N X A B p a f x b = add N (f x b) (p x a).
Proof. reflexivity. Qed.
Lemma additive_proxy_eq : forall (N : Num) (X A B : Type) (p : X -> B -> T N) a (f : X -> A -> T N) x b,
  additive_proxy N X A B p a f x b = add N (f x a) (p x b).
Proof. reflexivity. Qed.

(* ------------------------------------------------------------------ penalty combinators, over the rationals *)
From Coq Require Import QArith Qabs Lqa.

Section PenaltyQ.
  Local Open Scope Q_scope.
  Variable X : Type.

  Lemma Qscale_zero_iff : forall k a, 0 < k -> (k * a + 0 == 0 <-> a == 0).
  Proof.
    intros k a Hk. split; intro H.
    - assert (E : k * a == 0) by lra.
      destruct (Qmult_integral _ _ E) as [Hk0|Ha]; [lra|exact Ha].
    - rewrite H. ring.
  Qed.

  Lemma Qabs_zero_iff : forall a, Qabs a == 0 <-> a == 0.
  Proof. intro a. apply (Qabs_case a (fun y => y == 0 <-> a == 0)); intros; split; lra. Qed.

  Lemma Qsq_zero_iff : forall a, a * a == 0 <-> a == 0.
  Proof.
    intro a. split; intro H.
    - destruct (Qmult_integral _ _ H); assumption.
    - rewrite H. ring.
  Qed.

  Lemma nmax0_spec : forall v, 0 <= nmax NumQ 0 v /\ (nmax NumQ 0 v == 0 <-> v <= 0).
  Proof.
    intro v. unfold nmax. simpl. unfold Qltb.
    destruct (Qle_bool v 0) eqn:Hb; simpl.
    - apply Qle_bool_iff in Hb. split; [lra|]. split; intros; [exact Hb|reflexivity].
    - assert (~ v <= 0) by (intro H; apply Qle_bool_iff in H; congruence).
      assert (0 < v) by (apply Qnot_le_lt; assumption).
      split; [lra|]. split; intros; lra.
  Qed.

  Lemma two_pos : forall k, 0 < k -> 0 < two NumQ * k.
  Proof. intros k Hk. unfold two. simpl. lra. Qed.

  (* where a penalty type is zero: equality types at pf = 0, inequality types on pf <= 0 *)
  Lemma papply_zero : forall pt k v, 0 < k ->
    (papply NumQ pt k v == 0 <-> if is_ineq pt then v <= 0 else v == 0).
  Proof.
    intros pt k v Hk. destruct pt; unfold papply; cbn [is_ineq Num.add Num.mul Num.abs Num.zero Num.eqb Num.ltb NumQ].
    - rewrite (Qscale_zero_iff k _ Hk). apply Qabs_zero_iff.
    - rewrite (Qscale_zero_iff k _ Hk). apply Qsq_zero_iff.
    - destruct (Qeq_bool v 0) eqn:Hb.
      + apply Qeq_bool_iff in Hb. split; intros; [exact Hb|lra].
      + apply Qeq_bool_neq in Hb. split; intros; [lra|contradiction].
    - destruct (nmax0_spec v) as [Hge Hz].
      rewrite (Qscale_zero_iff _ _ (two_pos k Hk)). rewrite Qabs_zero_iff. exact Hz.
    - destruct (nmax0_spec v) as [Hge Hz].
      rewrite (Qscale_zero_iff _ _ (two_pos k Hk)). rewrite Qsq_zero_iff. exact Hz.
    - unfold Qltb. destruct (Qle_bool v 0) eqn:Hb; simpl.
      + apply Qle_bool_iff in Hb. split; intros; [exact Hb|lra].
      + assert (~ v <= 0) by (intro H; apply Qle_bool_iff in H; congruence).
        split; intros; [lra|contradiction].
  Qed.

  Lemma papply_nonneg : forall pt k v, 0 < k -> 0 <= papply NumQ pt k v.
  Proof.
    intros pt k v Hk. destruct pt; unfold papply; cbn [Num.add Num.mul Num.abs Num.zero Num.eqb Num.ltb NumQ].
    - assert (0 <= Qabs v) by apply Qabs_nonneg. nra.
    - assert (0 <= v * v) by nra. nra.
    - destruct (Qeq_bool v 0); lra.
    - assert (0 <= Qabs (nmax NumQ 0 v)) by apply Qabs_nonneg. assert (0 < two NumQ * k) by (apply two_pos; exact Hk). nra.
    - assert (0 <= nmax NumQ 0 v * nmax NumQ 0 v) by nra. assert (0 < two NumQ * k) by (apply two_pos; exact Hk). nra.
    - destruct (Qltb 0 v); lra.
  Qed.

  Lemma fold_sum_zero : forall l a, (forall v, In v l -> 0 <= v) -> 0 <= a ->
    0 <= fold_left Qplus l a /\ (fold_left Qplus l a == 0 <-> a == 0 /\ forall v, In v l -> v == 0).
  Proof.
    induction l as [|x l IH]; intros a Hl Ha; simpl.
    - split; [exact Ha|]. split; [intro H; split; [exact H|intros v []]|intros [H _]; exact H].
    - assert (Hx : 0 <= x) by (apply Hl; left; reflexivity).
      destruct (IH (a + x)) as [H1 H2]; [intros v Hv; apply Hl; right; exact Hv|lra|].
      split; [exact H1|]. rewrite H2. split.
      + intros [Hax Hall]. split; [lra|]. intros v [<-|Hv]; [lra|apply Hall; exact Hv].
      + intros [Ha0 Hall]. split; [rewrite Ha0, (Hall x (or_introl eq_refl)); reflexivity|].
        intros v Hv. apply Hall. right. exact Hv.
  Qed.

  (* and_: zero exactly where all member penalties are zero (members >= 0, k > 0) *)
  Theorem pen_and_zero_iff_all : forall pt k (ps : list (X -> Q)) x, 0 < k ->
    (forall p, In p ps -> 0 <= p x) ->
    (pen_and NumQ X pt k ps x == 0 <-> forall p, In p ps -> p x == 0).
  Proof.
    intros pt k ps x Hk Hnn. unfold pen_and. rewrite (papply_zero pt k _ Hk).
    unfold nsum. cbn [Num.add Num.zero NumQ].
    destruct (fold_sum_zero (map (fun p => p x) ps) 0) as [Hge Hz].
    { intros v Hv. apply in_map_iff in Hv. destruct Hv as [p [<- Hp]]. apply Hnn. exact Hp. }
    { lra. }
    assert (Hall : (forall v, In v (map (fun p => p x) ps) -> v == 0) <-> (forall p, In p ps -> p x == 0)).
    { split; intros H.
      - intros p Hp. apply H. apply in_map_iff. exists p. split; [reflexivity|exact Hp].
      - intros v Hv. apply in_map_iff in Hv. destruct Hv as [p [<- Hp]]. apply H. exact Hp. }
    change (T NumQ) with Q in *.
    destruct (is_ineq pt).
    - split; intro H.
      + apply Hall. apply Hz. lra.
      + assert (fold_left Qplus (map (fun p => p x) ps) 0 == 0) by (apply Hz; split; [reflexivity|apply Hall; exact H]). lra.
    - rewrite Hz. rewrite Hall. split; [intros [_ H]; exact H|intro H; split; [reflexivity|exact H]].
  Qed.

  Lemma fold_min_spec : forall r a,
    let m := fold_left (fun m v => if Qltb v m then v else m) r a in
    In m (a :: r) /\ forall v, In v (a :: r) -> m <= v.
  Proof.
    induction r as [|x r IH]; intros a; simpl.
    - split; [left; reflexivity|]. intros v [<-|[]]. lra.
    - destruct (Qltb x a) eqn:Hb; unfold Qltb in Hb.
      + apply negb_true_iff in Hb.
        assert (~ a <= x) by (intro H; apply Qle_bool_iff in H; congruence).
        assert (x < a) by (apply Qnot_le_lt; assumption).
        destruct (IH x) as [H1 H2]. simpl in H1, H2. split.
        * destruct H1 as [H1|H1]; [right; left; exact H1|right; right; exact H1].
        * intros v [<-|[<-|Hv]]; [|apply H2; left; reflexivity|apply H2; right; exact Hv].
          apply Qle_trans with x; [apply H2; left; reflexivity|lra].
      + apply negb_false_iff in Hb. apply Qle_bool_iff in Hb. destruct (IH a) as [H1 H2]. simpl in H1, H2. split.
        * destruct H1 as [H1|H1]; [left; exact H1|right; right; exact H1].
        * intros v [<-|[<-|Hv]]; [apply H2; left; reflexivity| |apply H2; right; exact Hv].
          apply Qle_trans with a; [apply H2; left; reflexivity|exact Hb].
  Qed.

  (* or_: zero exactly where some member penalty is zero (members >= 0, k > 0); min() of nothing raises *)
  Theorem pen_or_zero_iff_any : forall pt k (ps : list (X -> Q)) x, 0 < k -> ps <> nil ->
    (forall p, In p ps -> 0 <= p x) ->
    exists m, pen_or NumQ X pt k ps x = Some m /\ (m == 0 <-> exists p, In p ps /\ p x == 0).
  Proof.
    intros pt k ps x Hk Hne Hnn. unfold pen_or.
    destruct ps as [|p0 ps']; [contradiction|]. cbn [map pmin Num.ltb NumQ].
    set (l := map (fun p => p x) ps'). set (a := p0 x).
    destruct (fold_min_spec l a) as [Hin Hle].
    set (m := fold_left (fun m v => if Qltb v m then v else m) l a) in *.
    exists (papply NumQ pt k m). split; [reflexivity|].
    rewrite (papply_zero pt k m Hk).
    assert (Hmem : forall v, In v (a :: l) <-> exists p, In p (p0 :: ps') /\ p x = v).
    { intro v. unfold a, l. change (p0 x :: map (fun p => p x) ps') with (map (fun p => p x) (p0 :: ps')).
      rewrite in_map_iff. split; intros [p [H1 H2]]; exists p; auto. }
    assert (Hm0 : 0 <= m).
    { apply Hmem in Hin. destruct Hin as [p [Hp <-]]. apply Hnn. exact Hp. }
    assert (Hz : m == 0 <-> exists p, In p (p0 :: ps') /\ p x == 0).
    { split.
      - intro H. apply Hmem in Hin. destruct Hin as [p [Hp Hpm]]. exists p. split; [exact Hp|rewrite Hpm; exact H].
      - intros [p [Hp Hp0]]. assert (m <= p x) by (apply Hle; apply Hmem; exists p; auto). lra. }
    destruct (is_ineq pt); [|exact Hz].
    rewrite <- Hz. split; intros; lra.
  Qed.

  Theorem pen_or_empty : forall pt k x, pen_or NumQ X pt k nil x = None.
  Proof. reflexivity. Qed.

  (* not_: inequality types penalise exactly the interior cond(x) < 0 of the accepted region cond(x) <= 0;
     equality types penalise exactly the accepted set cond(x) = 0 *)
  Theorem pen_not_penalises_interior : forall pt k (cond : X -> Q) x, 0 < k ->
    (is_ineq pt = true -> (~ pen_not NumQ X pt k cond x == 0 <-> cond x < 0)) /\
    (is_ineq pt = false -> (~ pen_not NumQ X pt k cond x == 0 <-> cond x == 0)).
  Proof.
    intros pt k cond x Hk. unfold pen_not. split; intro Hi; rewrite Hi.
    - rewrite (papply_zero pt k _ Hk). rewrite Hi. cbn [Num.sub Num.zero NumQ]. split; intro H.
      + apply Qnot_le_lt. intro H'. apply H. lra.
      + intro H'. lra.
    - rewrite (papply_zero pt k _ Hk). rewrite Hi. cbn [Num.eqb Num.zero Num.one NumQ].
      destruct (Qeq_bool (cond x) 0) eqn:Hb.
      + apply Qeq_bool_iff in Hb. split; intros; [exact Hb|lra].
      + apply Qeq_bool_neq in Hb. split; intro H; [exfalso; apply H; reflexivity|contradiction].
  Qed.
End PenaltyQ.

(* ------------------------------------------------------------------ the concrete instance over exact rationals:
   Python list equality on vectors of rationals is symmetric and transitive, so the and_ theorem applies to
   [and_num NumQ] with the modelled randomisation [(x_i + randint(-1,1)) * random()] for every draw stream *)
Section ConcreteQ.
  Lemma list_eqb_Q_Forall2 : forall a b : list Q, list_eqb NumQ a b = true <-> Forall2 Qeq a b.
  Proof.
    unfold list_eqb. cbn [Num.eqb NumQ].
    induction a as [|x a IH]; intros [|y b]; simpl; split; intro H; try discriminate; try constructor;
      try (inversion H; fail).
    - apply andb_true_iff in H. destruct H as [Hl H]. apply andb_true_iff in H. destruct H as [Hxy H].
      apply Qeq_bool_iff. exact Hxy.
    - apply andb_true_iff in H. destruct H as [Hl H]. apply andb_true_iff in H. destruct H as [Hxy H].
      apply IH. apply andb_true_iff. split; assumption.
    - inversion H; subst. apply IH in H5. apply andb_true_iff in H5. destruct H5 as [Hl Hf].
      apply andb_true_iff. split; [exact Hl|]. apply andb_true_iff. split; [apply Qeq_bool_iff; assumption|exact Hf].
  Qed.

  Lemma list_eqb_Q_sym : forall a b : list Q, list_eqb NumQ a b = true -> list_eqb NumQ b a = true.
  Proof.
    intros a b H. apply list_eqb_Q_Forall2 in H. apply list_eqb_Q_Forall2.
    induction H; constructor; [symmetry; assumption|assumption].
  Qed.

  Lemma list_eqb_Q_trans : forall a b c : list Q,
    list_eqb NumQ a b = true -> list_eqb NumQ b c = true -> list_eqb NumQ a c = true.
  Proof.
    intros a b c H1 H2. apply list_eqb_Q_Forall2 in H1, H2. apply list_eqb_Q_Forall2.
    revert c H2. induction H1; intros c H2; inversion H2; subst; constructor.
    - etransitivity; eassumption.
    - apply IHForall2. assumption.
  Qed.

  Theorem and_num_Q_success_fixed_by_all :
    forall (zu : nat -> Z * Q) (cs : list (member (list Q))) maxiter x0 s r s',
    (forall c, In c cs -> proper (list Q) (list_eqb NumQ) c /\ idem (list Q) (list_eqb NumQ) c) ->
    and_num NumQ zu cs maxiter x0 s = (Success r, s') ->
    forall c, In c cs -> fixes (list Q) (list_eqb NumQ) c r.
  Proof.
    intros zu cs maxiter x0 s r s'. unfold and_num.
    apply (and_success_fixed_by_all (list Q) (list_eqb NumQ) nat (randomise_num NumQ zu)
             list_eqb_Q_sym list_eqb_Q_trans).
  Qed.
End ConcreteQ.
