(* C18 - model of mystic.math.measures (moment statistics, moment-imposing transforms, weight surgery),
   mystic.math.distance (norms, point-to-point metrics) and mystic.tools.connected.
   Definitions only (executable over any [Num]); proofs are in Measures_Proofs.v.

   Conventions
   * [option]: [None] stands for "no finite answer": the Python code raises (ZeroDivisionError, ValueError on
     max([]), IndexError) or returns inf/nan (the "protect against ZeroDivision" branches multiply by inf / return
     [nan]*n).  The harness maps both situations to [None].
   * weights argument [None] of the Python API = [None] here ([option (list E)]).
   * all tolerances [tol] of mean/moment are the default 0.
   * [sqrtf] is numpy.sqrt; it is a section variable (executed with an exact-on-squares rational root in the
     correspondence, a hypothesis-carrying variable in the proofs). *)
From Coq Require Import List Arith ZArith Bool.
From MV Require Import Common.Num.
Import ListNotations.

Definition obind {A B} (o : option A) (f : A -> option B) : option B :=
  match o with Some a => f a | None => None end.

(* l[i] = a  (no effect when i is out of range; callers check the range first) *)
Fixpoint set_nth {A} (l : list A) (i : nat) (a : A) : list A :=
  match l, i with
  | [], _ => []
  | _ :: r, O => a :: r
  | b :: r, S k => b :: set_nth r k a
  end.

(* enumerate(l) *)
Definition enumerate {A} (l : list A) : list (nat * A) := combine (seq 0 (length l)) l.

Section Measures.
  Variable N : Num.
  Notation E := (T N).
  Variable sqrtf : E -> E.

  Definition is_zero (a : E) : bool := eqb N a (zero N).
  Definition of_nat (n : nat) : E := of_Z N (Z.of_nat n).

  (* builtin sum(i*j for i,j in zip(samples, weights)) : left fold from 0; zip truncates *)
  Definition dot (x w : list E) : E := nsum N (map (fun p => mul N (fst p) (snd p)) (combine x w)).

  (* "0.0 if abs(ssum) <= tol else ssum" with tol = 0 *)
  Definition clip0 (s : E) : E := if leb N (abs N s) (zero N) then zero N else s.

  (* measures.mean *)
  Definition mean (x : list E) (w : option (list E)) : option E :=
    match w with
    | None =>
        match x with
        | [] => None                                                 (* ZeroDivisionError *)
        | _ => Some (clip0 (div N (div N (nsum N x) (of_nat (length x))) (one N)))
        end
    | Some w =>
        let tot := nsum N w in
        if is_zero tot then None                                     (* ssum * inf *)
        else Some (clip0 (div N (dot x w) tot))
    end.

  (* measures.moment (central moment; orders 0 and 1 are short-cut) *)
  Definition moment (x : list E) (w : option (list E)) (order : nat) : option E :=
    match order with
    | 0 => Some (one N)
    | 1 => Some (zero N)
    | _ => obind (mean x w) (fun mu => mean (map (fun s => npow N (sub N s mu) order) x) w)
    end.

  Definition variance (x : list E) (w : option (list E)) : option E := moment x w 2.
  Definition std (x : list E) (w : option (list E)) : option E := option_map sqrtf (variance x w).

  (* builtin max / min over a sequence (ValueError on the empty sequence) *)
  Definition lmax (l : list E) : option E :=
    match l with
    | [] => None
    | a :: r => Some (fold_left (fun m y => if ltb N m y then y else m) r a)
    end.
  Definition lmin (l : list E) : option E :=
    match l with
    | [] => None
    | a :: r => Some (fold_left (fun m y => if ltb N y m then y else m) r a)
    end.

  (* measures.spread *)
  Definition spread (x : list E) : option E :=
    match lmax x, lmin x with
    | Some a, Some b => Some (sub N a b)
    | _, _ => None
    end.

  (* measures.support / support_index *)
  Definition support {A} (x : list A) (w : list E) (tol : E) : list A :=
    map fst (filter (fun p => ltb N tol (snd p)) (combine x w)).
  Definition support_index (w : list E) (tol : E) : list nat :=
    map fst (filter (fun p => ltb N tol (snd p)) (enumerate w)).

  (* measures.ess_minimum / ess_maximum / ess_ptp  (and minimum / maximum / ptp when weights is None) *)
  Definition values {A} (f : A -> E) (x : list A) (w : option (list E)) (tol : E) : list E :=
    match w with None => map f x | Some w => map f (support x w tol) end.
  Definition ess_minimum {A} (f : A -> E) (x : list A) (w : option (list E)) (tol : E) : option E :=
    lmin (values f x w tol).
  Definition ess_maximum {A} (f : A -> E) (x : list A) (w : option (list E)) (tol : E) : option E :=
    lmax (values f x w tol).
  Definition ess_ptp {A} (f : A -> E) (x : list A) (w : option (list E)) (tol : E) : option E :=
    spread (values f x w tol).

  (* measures.expectation : f is not evaluated where abs(weight) <= tol *)
  Definition kept {A} (x : list A) (w : list E) (tol : E) : list (A * E) :=
    filter (fun p => ltb N tol (abs N (snd p))) (combine x w).
  Definition expectation {A} (f : A -> E) (x : list A) (w : option (list E)) (tol : E) : option E :=
    match w with
    | None => mean (map f x) None
    | Some w => let k := kept x w tol in mean (map (fun p => f (fst p)) k) (Some (map snd k))
    end.
  (* measures._expected_moment *)
  Definition expected_moment {A} (f : A -> E) (x : list A) (w : option (list E)) (order : nat) (tol : E) : option E :=
    match w with
    | None => moment (map f x) None order
    | Some w => let k := kept x w tol in moment (map (fun p => f (fst p)) k) (Some (map snd k)) order
    end.

  (* measures.impose_mean : shift *)
  Definition impose_mean (m : E) (x : list E) (w : option (list E)) : option (list E) :=
    obind (mean x w) (fun mu => let shift := sub N m mu in Some (map (fun s => add N s shift) x)).

  (* measures.impose_variance : scale about 0 by sqrt(v/sv), then restore the mean *)
  Definition impose_variance (v : E) (x : list E) (w : option (list E)) : option (list E) :=
    obind (mean x w) (fun m =>
    obind (variance x w) (fun sv =>
      if is_zero sv then (if is_zero v then Some x else None)
      else let r := div N v sv in
           if ltb N r (zero N) then None                              (* sqrt of a negative: nan *)
           else impose_mean m (map (fun s => mul N s (sqrtf r)) x) w)).

  (* measures.impose_std *)
  Definition impose_std (s : E) (x : list E) (w : option (list E)) : option (list E) :=
    impose_variance (mul N s s) x w.

  (* measures.impose_spread *)
  Definition impose_spread (r : E) (x : list E) (w : option (list E)) : option (list E) :=
    obind (mean x w) (fun m =>
    obind (spread x) (fun sr =>
      if is_zero sr then None
      else impose_mean m (map (fun s => mul N s (div N r sr)) x) w)).

  (* ---- distance.Lnorm for p = 0, 1, 2, inf *)
  Definition Lnorm0 (w : list E) : E := of_nat (length (filter (fun a => negb (is_zero a)) w)).
  Definition Lnorm1 (w : list E) : E := nsum N (map (abs N) w).
  Definition Lnorm2 (w : list E) : E := sqrtf (nsum N (map (fun a => abs N (mul N a a)) w)).
  Definition LnormInf (w : list E) : option E := lmax (map (abs N) w).

  (* ---- measures.normalize / impose_sum *)
  Definition zeros (w : list E) : list E := map (fun a => mul N a (zero N)) w.
  Definition normalize (w : list E) (mass : E) (zsum : bool) (zmass : E) : option (list E) :=
    let a := Lnorm1 w in
    if is_zero a then (if zsum then None else Some (zeros w))
    else if (negb (is_zero mass) || negb zsum)%bool then
      let w1 := map (fun t => div N t a) w in
      let m := nsum N w1 in
      let w2 := map (fun t => mul N mass t) w1 in
      if is_zero m then (if zsum then None else Some (zeros w))
      else Some (map (fun t => div N t m) w2)
    else
      match rev w with
      | [] => None
      | lst :: _ =>
          let w' := set_nth w (length w - 1) (opp N (sub N (nsum N w) lst)) in
          Some (map (fun t => div N (mul N zmass t) a) w')
      end.
  Definition impose_sum (mass : E) (w : list E) (zsum : bool) (zmass : E) : option (list E) :=
    normalize w mass zsum zmass.
  (* normalize(weights, 'l1') and normalize(weights, 'l2') (the default) *)
  Definition normalize_l1 (w : list E) : list E :=
    let a := Lnorm1 w in if is_zero a then zeros w else map (fun t => div N t a) w.
  Definition normalize_l2 (w : list E) : list E :=
    let a := Lnorm2 w in if is_zero a then zeros w else map (fun t => div N t a) w.

  (* measures.impose_weight_norm *)
  Definition impose_weight_norm (x w : list E) (mass : E) : option (list E * list E) :=
    obind (mean x (Some w)) (fun m =>
    obind (normalize w mass false (one N)) (fun wts =>
    obind (impose_mean m x (Some wts)) (fun y => Some (y, wts)))).

  (* ---- support surgery.  index entries are Python ints: negative ones count from the end; entries that are
     still out of range after that never match a position. *)
  Definition pyidx (n : nat) (i : Z) : option nat :=
    let j := if (i <? 0)%Z then (Z.of_nat n + i)%Z else i in
    if (j <? 0)%Z then None else Some (Z.to_nat j).
  Definition in_index (n : nat) (index : list Z) (i : nat) : bool :=
    existsb (fun z => match pyidx n z with Some j => Nat.eqb j i | None => false end) index.

  (* measures.impose_support : keep only the weights at [index] (None = all), renormalise to the old total,
     shift the samples so that the weighted mean under the new weights is the old one *)
  Definition keep_weights (index : option (list Z)) (w : list E) : list E :=
    match index with
    | None => w
    | Some ix => map (fun p => if in_index (length w) ix (fst p) then snd p else zero N) (enumerate w)
    end.
  Definition impose_support (index : option (list Z)) (x w : list E) : option (list E * list E) :=
    obind (mean x (Some w)) (fun m =>
    obind (normalize (keep_weights index w) (nsum N w) false (one N)) (fun wts =>
    obind (impose_mean m x (Some wts)) (fun y => Some (y, wts)))).

  (* measures.impose_unweighted : zero the weights at [index] (None = none) *)
  Definition drop_weights (index : option (list Z)) (w : list E) : list E :=
    match index with
    | None => w
    | Some ix => map (fun p => if in_index (length w) ix (fst p) then zero N else snd p) (enumerate w)
    end.
  Definition ones_outside (index : option (list Z)) (w : list E) : list E :=
    match index with
    | None => map (fun _ => one N) w
    | Some ix => map (fun p => if in_index (length w) ix (fst p) then zero N else one N) (enumerate w)
    end.
  Definition impose_unweighted (index : option (list Z)) (x w : list E) (nullable : bool) : option (list E * list E) :=
    obind (mean x (Some w)) (fun m =>
      let w0 := drop_weights index w in
      let w1 := if (negb nullable && is_zero (nsum N w0))%bool then ones_outside index w else w0 in
      obind (normalize w1 (nsum N w) false (one N)) (fun wts =>
      obind (impose_mean m x (Some wts)) (fun y => Some (y, wts)))).

  (* ---- tools.connected (as repaired): dict (insertion ordered) from a key to a set of members; pairs in iteration
     order.  Self pairs are skipped; the groups holding i and j are looked up (first match in dict order); a new group
     is opened, the missing end is added to the other end's group, or two different groups are merged:
     collapse[ki].update(collapse.pop(kj)); collapse[ki].add(kj).  Sets are lists without repetition (the order of a
     Python set is irrelevant to impose_collapse in exact arithmetic). *)
  Definition cdict := list (nat * list nat).
  Definition mem (i : nat) (s : list nat) : bool := existsb (Nat.eqb i) s.
  Definition sadd (i : nat) (s : list nat) : list nat := if mem i s then s else s ++ [i].
  Fixpoint find_key (i : nat) (d : cdict) : option nat :=
    match d with
    | [] => None
    | (k, v) :: r => if (Nat.eqb i k || mem i v)%bool then Some k else find_key i r
    end.
  Definition members (k : nat) (d : cdict) : list nat :=
    match find (fun e => Nat.eqb (fst e) k) d with Some e => snd e | None => [] end.
  Definition add_member (k j : nat) (d : cdict) : cdict :=
    map (fun e => if Nat.eqb (fst e) k then (fst e, sadd j (snd e)) else e) d.
  Definition merge_groups (ki kj : nat) (d : cdict) : cdict :=
    let vj := members kj d in
    map (fun e => if Nat.eqb (fst e) ki
                  then (fst e, sadd kj (fold_left (fun s a => sadd a s) vj (snd e))) else e)
        (filter (fun e => negb (Nat.eqb (fst e) kj)) d).
  Definition conn_step (d : cdict) (p : nat * nat) : cdict :=
    let i := fst p in let j := snd p in
    if Nat.eqb i j then d else
    match find_key i d, find_key j d with
    | None, None => d ++ [(i, [j])]
    | Some ki, None => add_member ki j d
    | None, Some kj => add_member kj i d
    | Some ki, Some kj => if Nat.eqb ki kj then d else merge_groups ki kj d
    end.
  Definition connected (pairs : list (nat * nat)) : cdict := fold_left conn_step pairs [].

  (* one dict entry of impose_collapse:  v = w[i]; for k in ks: v += w[k]; w[k] = 0; x[k] = x[i];  w[i] = v *)
  Definition collapse_entry (xw : list E * list E) (e : nat * list nat) : list E * list E :=
    let i := fst e in
    let '(x1, w1, v) :=
      fold_left (fun (st : list E * list E * E) k =>
                   let '(x, w, v) := st in
                   (set_nth x k (nth i x (zero N)), set_nth w k (zero N), add N v (nth k w (zero N))))
                (snd e) (fst xw, snd xw, nth i (snd xw) (zero N)) in
    (x1, set_nth w1 i v).

  Definition pair_index (n : nat) (p : Z * Z) : option (nat * nat) :=
    match pyidx n (fst p), pyidx n (snd p) with
    | Some i, Some j => Some (i, j)
    | _, _ => None
    end.
  Fixpoint all_some {A} (l : list (option A)) : option (list A) :=
    match l with
    | [] => Some []
    | None :: _ => None
    | Some a :: r => option_map (cons a) (all_some r)
    end.
  Definition in_range (n : nat) (d : cdict) : bool :=
    forallb (fun e => (Nat.ltb (fst e) n && forallb (fun k => Nat.ltb k n) (snd e))%bool) d.

  (* measures.impose_collapse.  Indices below -len(weights) are not modelled (None). *)
  Definition collapse_weights (d : cdict) (x w : list E) : list E * list E :=
    fold_left collapse_entry d (x, w).
  Definition impose_collapse (pairs : list (Z * Z)) (x w : list E) : option (list E * list E) :=
    obind (mean x (Some w)) (fun m =>
    obind (all_some (map (pair_index (length w)) pairs)) (fun ps =>
      let d := connected ps in
      if (in_range (length w) d && in_range (length x) d)%bool then
        let xw := collapse_weights d x w in
        obind (impose_mean m (fst xw) (Some (snd xw))) (fun y => Some (y, snd xw))
      else None)).                                                    (* IndexError *)

  (* ---- distance.chebyshev / manhattan / hamming / euclidean for two 1-D points.
     pair=True : coordinate-wise differences (same length); pair=False : all |x_i - x'_j| *)
  Definition absdiff_pair (x y : list E) : list E :=
    map (fun p => abs N (sub N (fst p) (snd p))) (combine x y).
  Definition absdiff_all (x y : list E) : list E :=
    flat_map (fun a => map (fun b => abs N (sub N a b)) y) x.
  Definition chebyshev_d (d : list E) : option E := lmax d.
  Definition manhattan_d (d : list E) : E := nsum N d.
  Definition hamming_d (d : list E) : E := of_nat (length (filter (fun a => negb (is_zero a)) d)).
  Definition euclidean_d (d : list E) : E := sqrtf (nsum N (map (fun a => mul N a a) d)).
End Measures.

Arguments support N {A}. Arguments values N {A}. Arguments ess_minimum N {A}. Arguments ess_maximum N {A}.
Arguments ess_ptp N {A}. Arguments kept N {A}. Arguments expectation N {A}. Arguments expected_moment N {A}.

(* ---- execution helper for the correspondence: a square root on Q that is exact on squares of rationals and
   otherwise accurate to 2^-64 relative (floor of the scaled integer root) *)
From Coq Require Import QArith.
Definition Qsqrt_approx (q : Q) : Q :=
  match Qnum q with
  | Zpos n =>
      let d := Zpos (Qden q) in
      let nd := (Zpos n * d)%Z in
      let r := Z.sqrt nd in
      if Z.eqb (r * r) nd then Qmake r (Qden q)
      else let k := 64%Z in
           let s := Z.sqrt (nd * 2 ^ (2 * k)) in
           Qmake s (Qden q * Z.to_pos (2 ^ k))
  | _ => 0%Q
  end.
