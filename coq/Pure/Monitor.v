(* Model of mystic.monitors.Monitor (and its Verbose/Logging subclasses, which share the record
   keeping) together with the k-scaling helpers of mystic.tools.  Definitions only (executable);
   proofs are in Monitor_Proofs.v.

   A monitor is an immutable record; monitors live in a store (a list), every operation of the
   script language returns a new store.  This is what makes "never alters the monitor passed to
   it" a statement: the other entries of the store are compared before/after.

   Python side                              here
   ------------------------------------     ------------------------------------------
   Monitor._x  (list of recorded x)         mx   : list X        (X opaque: listify(x))
   Monitor._y  (costs, stored times k)      my   : list cost     (scalar or vector valued)
   Monitor._id                              mid  : list (option I)
   Monitor._info                            minfo: list M
   Monitor.k  (None or a number)            mk   : option (T N)
*)
From Coq Require Import List ZArith Bool Arith.
From MV Require Import Common.Num.
Import ListNotations.

Section Monitor.
  Variable N : Num.
  Variables X I M : Type.

  (* a recorded cost: python/numpy scalar, or a (flat) vector-valued cost *)
  Inductive cost := CS (v : T N) | CV (l : list (T N)).
  Definition cmap (f : T N -> T N) (c : cost) : cost :=
    match c with CS v => CS (f v) | CV l => CV (map f l) end.

  Record monitor := mkMon {
    mx : list X; my : list cost; mid : list (option I); minfo : list M; mk : option (T N) }.

  (* Monitor.__init__(k=...) *)
  Definition new_monitor (k : option (T N)) : monitor := mkMon [] [] [] [] k.

  (* Monitor._k -> tools._cmultiply/_multiply/_imultiply: k None => y itself, else y*k elementwise *)
  Definition scale (k : option (T N)) (y : cost) : cost :=
    match k with None => y | Some k => cmap (fun v => mul N v k) y end.
  (* Monitor.get_y -> tools._divide(self._y, 1 if k is None else k): elementwise y/k (k None: a copy) *)
  Definition unscale (k : option (T N)) (y : cost) : cost :=
    match k with None => y | Some k => cmap (fun v => div N v k) y end.

  (* Monitor.__call__(x, y, id) *)
  Definition call (m : monitor) (x : X) (y : cost) (id : option I) : monitor :=
    mkMon (mx m ++ [x]) (my m ++ [scale (mk m) y]) (mid m ++ [id]) (minfo m) (mk m).
  (* Monitor.info(message) *)
  Definition info (m : monitor) (msg : M) : monitor :=
    mkMon (mx m) (my m) (mid m) (minfo m ++ [msg]) (mk m).

  (* properties x, y, id ; __len__ = len(self.x) *)
  Definition get_x (m : monitor) : list X := mx m.
  Definition get_y (m : monitor) : list cost := map (unscale (mk m)) (my m).
  Definition get_id (m : monitor) : list (option I) := mid m.
  Definition mlen (m : monitor) : nat := length (mx m).

  (* tools._kdiv(num, denom, float): None only when both are None, else (num or 1)/(denom or 1) *)
  Definition kval (k : option (T N)) : T N := match k with None => one N | Some k => k end.
  Definition kdiv (num denom : option (T N)) : option (T N) :=
    match num, denom with
    | None, None => None
    | _, _ => Some (div N (kval num) (kval denom))
    end.
  (* Monitor._get_y(monitor) = _idivide(monitor._y, _kdiv(monitor.k, self.k, float)):
     the other monitor's STORED costs, re-expressed in self's scaling *)
  Definition get_y_for (self other : monitor) : list cost :=
    match kdiv (mk other) (mk self) with
    | None => my other
    | Some q => map (cmap (fun v => div N v q)) (my other)
    end.

  (* Monitor.extend(monitor) ; Monitor.prepend(monitor).  The argument's lists are snapshotted before self is
     changed, so monitor may be self: a.extend(a) / a.prepend(a) double the contents *)
  Definition extend (self other : monitor) : monitor :=
    mkMon (mx self ++ mx other) (my self ++ get_y_for self other) (mid self ++ mid other)
          (minfo self ++ minfo other) (mk self).
  Definition prepend (self other : monitor) : monitor :=
    mkMon (mx other ++ mx self) (get_y_for self other ++ my self) (mid other ++ mid self)
          (minfo other ++ minfo self) (mk self).
  (* Monitor.__add__ : deepcopy(self).extend(monitor) *)
  Definition madd (self other : monitor) : monitor := extend self other.

  (* ---- python indexing ---- *)
  (* list.__getitem__(int): negative indices count from the end; None = IndexError *)
  Definition py_index (n : nat) (i : Z) : option nat :=
    let n' := Z.of_nat n in
    if ((0 <=? i) && (i <? n'))%Z then Some (Z.to_nat i)
    else if ((i <? 0) && (0 <=? i + n'))%Z then Some (Z.to_nat (i + n'))
    else None.
  Definition py_nth {A} (l : list A) (i : Z) : option A :=
    match py_index (length l) i with Some j => nth_error l j | None => None end.

  (* Monitor.__getitem__(int) = (self.x[i], self.y[i]) *)
  Definition getitem_int (m : monitor) (i : Z) : option (X * cost) :=
    match py_nth (get_x m) i, py_nth (get_y m) i with
    | Some x, Some y => Some (x, y)
    | _, _ => None
    end.

  (* slice(start, stop, step).indices(n), as in CPython's PySlice_AdjustIndices; None = ValueError *)
  Record pyslice := mkSlice { s_start : option Z; s_stop : option Z; s_step : option Z }.
  Definition clamp_idx (n lower upper : Z) (v : Z) : Z :=
    if (v <? 0)%Z then Z.max (v + n) lower else Z.min v upper.
  Definition slice_bounds (n : nat) (s : pyslice) : option (Z * Z * Z) :=
    let n' := Z.of_nat n in
    let step := match s_step s with None => 1%Z | Some t => t end in
    if (step =? 0)%Z then None else
    let lower := if (step <? 0)%Z then (-1)%Z else 0%Z in
    let upper := if (step <? 0)%Z then (n' - 1)%Z else n' in
    let start := match s_start s with
                 | None => if (step <? 0)%Z then upper else lower
                 | Some v => clamp_idx n' lower upper v end in
    let stop := match s_stop s with
                | None => if (step <? 0)%Z then lower else upper
                | Some v => clamp_idx n' lower upper v end in
    Some (start, stop, step).
  (* range(start, stop, step) as indices, at most [fuel] of them (fuel = len is always enough) *)
  Fixpoint range_idx (fuel : nat) (i stop step : Z) : list nat :=
    match fuel with
    | O => []
    | S f => if (if (0 <? step)%Z then (i <? stop)%Z else (stop <? i)%Z)
             then Z.to_nat i :: range_idx f (i + step)%Z stop step else []
    end.
  Definition slice_indices (n : nat) (s : pyslice) : option (list nat) :=
    match slice_bounds n s with
    | None => None
    | Some (start, stop, step) => Some (range_idx n start stop step)
    end.
  Definition select {A} (l : list A) (idx : list nat) : list A :=
    flat_map (fun j => match nth_error l j with Some a => [a] | None => [] end) idx.
  Definition py_slice {A} (l : list A) (s : pyslice) : option (list A) :=
    option_map (select l) (slice_indices (length l) s).

  (* Monitor.__getitem__(slice): a new monitor; _info is dropped, k kept, stored costs sliced as stored *)
  Definition getitem_slice (m : monitor) (s : pyslice) : option monitor :=
    match py_slice (mx m) s, py_slice (my m) s, py_slice (mid m) s with
    | Some x, Some y, Some i => Some (mkMon x y i [] (mk m))
    | _, _, _ => None
    end.

  (* ---- scripts over a store of monitors ---- *)
  Definition store := list monitor.
  Inductive op :=
  | ONew (k : option (T N))                               (* st.append(Monitor(k=k)) *)
  | OCall (t : nat) (x : X) (y : cost) (id : option I)    (* st[t](x, y, id) *)
  | OInfo (t : nat) (msg : M)                             (* st[t].info(msg) *)
  | OSlice (t : nat) (s : pyslice)                        (* st.append(st[t][s]) *)
  | OAdd (a b : nat)                                      (* st.append(st[a] + st[b]) *)
  | OExtend (a b : nat)                                   (* st[a].extend(st[b])   (a = b allowed) *)
  | OPrepend (a b : nat).                                 (* st[a].prepend(st[b])  (a = b allowed) *)

  Definition upd (st : store) (t : nat) (m : monitor) : store :=
    firstn t st ++ m :: skipn (S t) st.

  (* None = the operation raises (bad slice step) or is outside the modelled language (index not in
     the store) *)
  Definition step (st : store) (o : op) : option store :=
    match o with
    | ONew k => Some (st ++ [new_monitor k])
    | OCall t x y id => option_map (fun m => upd st t (call m x y id)) (nth_error st t)
    | OInfo t msg => option_map (fun m => upd st t (info m msg)) (nth_error st t)
    | OSlice t s => match nth_error st t with
                    | Some m => option_map (fun m' => st ++ [m']) (getitem_slice m s)
                    | None => None end
    | OAdd a b => match nth_error st a, nth_error st b with
                  | Some ma, Some mb => Some (st ++ [madd ma mb])
                  | _, _ => None end
    | OExtend a b =>
                  match nth_error st a, nth_error st b with
                  | Some ma, Some mb => Some (upd st a (extend ma mb))
                  | _, _ => None end
    | OPrepend a b =>
                  match nth_error st a, nth_error st b with
                  | Some ma, Some mb => Some (upd st a (prepend ma mb))
                  | _, _ => None end
    end.

  (* a failing operation leaves the store as it was; the flags record which operations succeeded *)
  Fixpoint run (st : store) (ops : list op) : store * list bool :=
    match ops with
    | [] => (st, [])
    | o :: r => match step st o with
                | Some st' => let sr := run st' r in (fst sr, true :: snd sr)
                | None => let sr := run st r in (fst sr, false :: snd sr)
                end
    end.

  (* n calls in a row on one monitor *)
  Definition record := (X * cost * option I)%type.
  Definition call_all (m : monitor) (rs : list record) : monitor :=
    fold_left (fun m r => call m (fst (fst r)) (snd (fst r)) (snd r)) rs m.

  (* ---- munge.write_raw_file / write_support_file / write_converge_file: the cost column they write ----
     write_raw_file writes mon.y.  The other two build  write_monitor(steps, read_monitor(mon).y, k=mon.k):
     a monitor with k = mon.k whose stored costs are mon.y scaled by k again; write_raw_file then writes
     that monitor's y *)
  Definition raw_file_cost (m : monitor) : list cost := get_y m.
  Definition write_monitor_y (m : monitor) : monitor :=
    mkMon (mx m) (map (scale (mk m)) (get_y m)) (mid m) [] (mk m).
  Definition support_file_cost (m : monitor) : list cost := get_y (write_monitor_y m).
End Monitor.

Arguments CS {N} v.
Arguments CV {N} l.
Arguments cmap {N} f c.
Arguments scale {N} k y.
Arguments unscale {N} k y.
Arguments mkMon {N X I M} mx my mid minfo mk.
Arguments mx {N X I M} m.
Arguments my {N X I M} m.
Arguments mid {N X I M} m.
Arguments minfo {N X I M} m.
Arguments mk {N X I M} m.
Arguments call {N X I M} m x y id.
Arguments info {N X I M} m msg.
Arguments get_x {N X I M} m.
Arguments get_y {N X I M} m.
Arguments get_id {N X I M} m.
Arguments mlen {N X I M} m.
Arguments get_y_for {N X I M} self other.
Arguments extend {N X I M} self other.
Arguments prepend {N X I M} self other.
Arguments madd {N X I M} self other.
Arguments getitem_int {N X I M} m i.
Arguments getitem_slice {N X I M} m s.
Arguments ONew {N X I M} k.
Arguments OCall {N X I M} t x y id.
Arguments OInfo {N X I M} t msg.
Arguments OSlice {N X I M} t s.
Arguments OAdd {N X I M} a b.
Arguments OExtend {N X I M} a b.
Arguments OPrepend {N X I M} a b.
Arguments upd {N X I M} st t m.
Arguments step {N X I M} st o.
Arguments run {N X I M} st ops.
Arguments call_all {N X I M} m rs.
Arguments raw_file_cost {N X I M} m.
Arguments write_monitor_y {N X I M} m.
Arguments support_file_cost {N X I M} m.
Arguments py_index n i : simpl never.
