(* C12 - symbolic constraint text as data: expressions, relations, systems, case lists.

   This is the AST into which the harness parses BOTH the text given to mystic.symbolic.simplify / solve /
   linear_symbolic / symbolic_bounds and the text they return.  Definitions only (no proofs).

   Numbers are exact rationals (Q).  A decimal literal in a constraint string denotes the rational it spells
   (0.1 = 1/10); IEEE rounding inside mystic/sympy is outside the model (see harness/props/c12.py, class "inexact").
   Variables are indices (x0, x1, ... directly; named variables by their position in the [variables] list). *)
From Coq Require Import List ZArith QArith Bool.
Import ListNotations.
Open Scope Q_scope.

Inductive expr : Type :=
| Cst (q : Q)
| Var (n : nat)
| Neg (a : expr)
| Add (a b : expr)
| Sub (a b : expr)
| Mul (a b : expr)
| Div (a b : expr)
| Pow (a : expr) (k : nat).

(* python: '<', '<=', '=' (also '=='), '!=', '>=', '>'  (symbolic.comparator) *)
Inductive cmp : Type := Lt | Le | Eq | Ne | Ge | Gt.

Record rel : Type := Rel { lhs : expr; rcmp : cmp; rhs : expr }.

Definition sys := list rel.          (* conjunction of lines *)
Definition cases := list sys.        (* disjunction of alternative simplifications (simplify(..., all=True)) *)

Definition env := nat -> Q.

Fixpoint qpow (a : Q) (k : nat) : Q := match k with O => 1 | S k' => a * qpow a k' end.

(* value of an expression; division is Q's total division (x/0 = 0) and is guarded by [defined] below *)
Fixpoint eval (e : env) (x : expr) : Q :=
  match x with
  | Cst q => q
  | Var n => e n
  | Neg a => - eval e a
  | Add a b => eval e a + eval e b
  | Sub a b => eval e a - eval e b
  | Mul a b => eval e a * eval e b
  | Div a b => eval e a / eval e b
  | Pow a k => qpow (eval e a) k
  end.

(* python raises ZeroDivisionError exactly when some divisor evaluates to 0: the relation is then not satisfied *)
Fixpoint defined (e : env) (x : expr) : Prop :=
  match x with
  | Cst _ | Var _ => True
  | Neg a | Pow a _ => defined e a
  | Add a b | Sub a b | Mul a b => defined e a /\ defined e b
  | Div a b => defined e a /\ defined e b /\ ~ eval e b == 0
  end.

Definition cmp_holds (c : cmp) (a b : Q) : Prop :=
  match c with
  | Lt => a < b | Le => a <= b | Eq => a == b | Ne => ~ a == b | Ge => b <= a | Gt => b < a
  end.

(* a point satisfies a line iff both sides can be evaluated and the comparison is true *)
Definition holds (e : env) (r : rel) : Prop :=
  defined e (lhs r) /\ defined e (rhs r) /\ cmp_holds (rcmp r) (eval e (lhs r)) (eval e (rhs r)).

Fixpoint holds_sys (e : env) (s : sys) : Prop :=
  match s with [] => True | r :: t => holds e r /\ holds_sys e t end.

Fixpoint holds_cases (e : env) (cs : cases) : Prop :=
  match cs with [] => False | s :: t => holds_sys e s \/ holds_cases e t end.

(* ---- executable versions (used by vm_compute witnesses and by the correspondence terms) *)
Definition Qeqb (a b : Q) : bool := Qeq_bool a b.
Definition Qleb (a b : Q) : bool := Qle_bool a b.
Definition Qltb (a b : Q) : bool := negb (Qle_bool b a).

Fixpoint definedb (e : env) (x : expr) : bool :=
  match x with
  | Cst _ | Var _ => true
  | Neg a | Pow a _ => definedb e a
  | Add a b | Sub a b | Mul a b => definedb e a && definedb e b
  | Div a b => definedb e a && definedb e b && negb (Qeqb (eval e b) 0)
  end.

Definition cmp_holdsb (c : cmp) (a b : Q) : bool :=
  match c with
  | Lt => Qltb a b | Le => Qleb a b | Eq => Qeqb a b | Ne => negb (Qeqb a b) | Ge => Qleb b a | Gt => Qltb b a
  end.

Definition holdsb (e : env) (r : rel) : bool :=
  definedb e (lhs r) && definedb e (rhs r) && cmp_holdsb (rcmp r) (eval e (lhs r)) (eval e (rhs r)).

Definition holds_sysb (e : env) (s : sys) : bool := forallb (holdsb e) s.
Definition holds_casesb (e : env) (cs : cases) : bool := existsb (holds_sysb e) cs.

(* environment from a list of values (x_i = nth i) *)
Definition env_of (l : list Q) : env := fun n => nth n l 0.

(* ---- syntactic equality (python's merge compares the TEXT of the two sides) *)
Definition Qsyn_eqb (a b : Q) : bool := (Z.eqb (Qnum a) (Qnum b) && Pos.eqb (Qden a) (Qden b))%bool.

Fixpoint expr_eqb (x y : expr) : bool :=
  match x, y with
  | Cst p, Cst q => Qsyn_eqb p q
  | Var n, Var m => Nat.eqb n m
  | Neg a, Neg b => expr_eqb a b
  | Add a b, Add c d | Sub a b, Sub c d | Mul a b, Mul c d | Div a b, Div c d => expr_eqb a c && expr_eqb b d
  | Pow a k, Pow b j => expr_eqb a b && Nat.eqb k j
  | _, _ => false
  end.

Definition cmp_eqb (c d : cmp) : bool :=
  match c, d with
  | Lt, Lt | Le, Le | Eq, Eq | Ne, Ne | Ge, Ge | Gt, Gt => true
  | _, _ => false
  end.

Definition same_sides (r s : rel) : bool := expr_eqb (lhs r) (lhs s) && expr_eqb (rhs r) (rhs s).
Definition rel_eqb (r s : rel) : bool := same_sides r s && cmp_eqb (rcmp r) (rcmp s).
Definition rmem (r : rel) (l : sys) : bool := existsb (rel_eqb r) l.
Definition with_cmp (r : rel) (c : cmp) : rel := Rel (lhs r) c (rhs r).

(* ---- linear forms  sum_i c_i * x_i + k *)
Definition lin : Type := (list (nat * Q) * Q)%type.

Fixpoint tsum (e : env) (ts : list (nat * Q)) : Q :=
  match ts with [] => 0 | (v, c) :: t => c * e v + tsum e t end.
Definition leval (e : env) (l : lin) : Q := tsum e (fst l) + snd l.

Definition lconst (q : Q) : lin := ([], q).
Definition lvar (n : nat) : lin := ([(n, 1)], 0).
Definition lscale (k : Q) (l : lin) : lin := (map (fun p => (fst p, k * snd p)) (fst l), k * snd l).
Definition ladd (a b : lin) : lin := (fst a ++ fst b, snd a + snd b).
Definition lneg (a : lin) : lin := lscale (-(1)) a.
Definition lsub (a b : lin) : lin := ladd a (lneg b).

Fixpoint tcoeff (ts : list (nat * Q)) (v : nat) : Q :=
  match ts with [] => 0 | (w, c) :: t => if Nat.eqb w v then c + tcoeff t v else tcoeff t v end.
Definition coeff (l : lin) (v : nat) : Q := tcoeff (fst l) v.
Definition lremove (l : lin) (v : nat) : lin := (filter (fun p => negb (Nat.eqb (fst p) v)) (fst l), snd l).

(* expression -> linear form; None when the expression is not (syntactically) linear.
   Products need one constant factor, quotients a non-zero constant divisor. *)
Definition is_const (l : lin) : bool := match fst l with [] => true | _ => false end.

Fixpoint linearize (x : expr) : option lin :=
  match x with
  | Cst q => Some (lconst q)
  | Var n => Some (lvar n)
  | Neg a => option_map lneg (linearize a)
  | Add a b => match linearize a, linearize b with Some p, Some q => Some (ladd p q) | _, _ => None end
  | Sub a b => match linearize a, linearize b with Some p, Some q => Some (lsub p q) | _, _ => None end
  | Mul a b => match linearize a, linearize b with
               | Some p, Some q => if is_const p then Some (lscale (snd p) q)
                                   else if is_const q then Some (lscale (snd q) p) else None
               | _, _ => None end
  | Div a b => match linearize a, linearize b with
               | Some p, Some q => if is_const q && negb (Qeqb (snd q) 0) then Some (lscale (/ snd q) p) else None
               | _, _ => None end
  | Pow a k => match k with
               | O => match linearize a with Some _ => Some (lconst 1) | None => None end
               | S O => linearize a
               | _ => match linearize a with
                      | Some p => if is_const p then Some (lconst (qpow (snd p) k)) else None
                      | None => None end
               end
  end.

(* a linear form back to an expression (the shape linear_symbolic prints: c0*x0 + c1*x1 + ... ) *)
Fixpoint expr_of_terms (ts : list (nat * Q)) : expr :=
  match ts with
  | [] => Cst 0
  | [(v, c)] => Mul (Cst c) (Var v)
  | (v, c) :: t => Add (Mul (Cst c) (Var v)) (expr_of_terms t)
  end.
Definition expr_of_lin (l : lin) : expr := Add (expr_of_terms (fst l)) (Cst (snd l)).

(* variables 0..n-1 whose (total) coefficients agree, and equal constants: semantic equality of linear forms
   on the variables below [n] *)
Fixpoint lin_eqb_upto (n : nat) (a b : lin) : bool :=
  match n with
  | O => Qeqb (snd a) (snd b)
  | S m => Qeqb (coeff a m) (coeff b m) && lin_eqb_upto m a b
  end.

Fixpoint max_var_terms (ts : list (nat * Q)) : nat :=
  match ts with [] => O | (v, _) :: t => Nat.max (S v) (max_var_terms t) end.
Definition nvars (l : lin) : nat := max_var_terms (fst l).
Definition lin_eqb (a b : lin) : bool := lin_eqb_upto (Nat.max (nvars a) (nvars b)) a b.
