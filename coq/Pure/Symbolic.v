(* C12 - executable model of mystic.symbolic's comparator algebra (definitions only, proofs in Symbolic_Proofs.v).

   python sources modelled:  symbolic._flip / flip, symbolic.merge (both tables), symbolic._simplify1 for a linear line
   (isolate one variable, flip iff the divisor is negative -- mystic decides the flip by evaluating the line before and
   after at a random test point), the sign cases it generates for a single variable divisor, symbolic._simplify
   (product of the per-line cases, exclusive merge), symbolic.absval's inclusive pre-merge (as called by simplify),
   symbolic.linear_symbolic and symbolic.symbolic_bounds.  sympy's solve is not modelled: its answers are validated
   per instance by kernel-checked certificates (see harness/props/c12.py). *)
From Coq Require Import List ZArith QArith Bool.
From MV Require Import Pure.SymExpr.
Import ListNotations.
Open Scope Q_scope.

(* ---------------------------------------------------------------- symbolic._flip *)
(* _flip(cmp): comparator after multiplying/dividing both sides by a negative number (= after swapping the sides) *)
Definition flipc (c : cmp) : cmp :=
  match c with Lt => Gt | Le => Ge | Ge => Le | Gt => Lt | Eq => Eq | Ne => Ne end.

(* _flip(cmp, bounds=True): the complementary bound ('<' to '>=') *)
Definition flipb (c : cmp) : cmp :=
  match c with Ge => Lt | Gt => Le | Le => Gt | Lt => Ge | Eq => Eq | Ne => Ne end.

Definition flip (r : rel) (bounds : bool) : rel := with_cmp r (if bounds then flipb (rcmp r) else flipc (rcmp r)).

Definition is_ineq (c : cmp) : bool := match c with Lt | Le | Ge | Gt => true | _ => false end.
Definition is_strict (c : cmp) : bool := match c with Lt | Gt => true | _ => false end.
Definition is_nonstrict (c : cmp) : bool := match c with Le | Ge => true | _ => false end.

(* ---------------------------------------------------------------- symbolic.merge *)
(* tuple(set(...)): duplicates removed (python's order is arbitrary; the model keeps first occurrences) *)
Fixpoint dedupe (l : sys) : sys :=
  match l with [] => [] | r :: t => if rmem r t then dedupe t else r :: dedupe t end.

(* "('>' in i or '<' in i) and (flip(i) in equations or flip(i,True) in equations)" *)
Definition clash (eqs : sys) (i : rel) : bool :=
  is_ineq (rcmp i) && (rmem (flip i false) eqs || rmem (flip i true) eqs).

(* merge(equations, inclusive=False): conjunction semantics
     ('X >= 0','X <= 0') -> 'X = 0' ; any other opposing pair -> None (no solution) *)
Definition merge_excl_step1 (eqs : sys) : sys :=
  map (fun i => if is_nonstrict (rcmp i) && rmem (flip i false) eqs then with_cmp i Eq else i) eqs.

Definition merge_excl (eqs : sys) : option sys :=
  let e1 := merge_excl_step1 eqs in
  if existsb (clash e1) e1 then None else Some (dedupe e1).

(* merge(equations, inclusive=True): the "union of bounds" table
     ('X > 0','X < 0') -> 'X != 0' ; any other opposing pair -> '' (dropped) *)
Definition merge_incl_step1 (eqs : sys) : sys :=
  map (fun i => if is_strict (rcmp i) && rmem (flip i false) eqs then with_cmp i Ne else i) eqs.

Definition merge_incl (eqs : sys) : sys :=
  let e1 := merge_incl_step1 eqs in
  dedupe (filter (fun i => negb (clash e1 i)) e1).

(* no line of the system has its opposite (strict or complementary) in the system *)
Definition no_opposing (eqs : sys) : bool := negb (existsb (clash eqs) eqs).

(* ---------------------------------------------------------------- _simplify1 on a linear line *)
(* an isolated line  x_v  cmp  (linear form) *)
Record iso : Type := Iso { iv : nat; ic : cmp; il : lin }.

Definition holds_iso (e : env) (i : iso) : Prop := cmp_holds (ic i) (e (iv i)) (leval e (il i)).
Definition rel_of_iso (i : iso) : rel := Rel (Var (iv i)) (ic i) (expr_of_lin (il i)).

(* l1 cmp l2, solved for x_v:  with d = l1 - l2 = a*x_v + rest :  x_v cmp' (-rest/a),  cmp' flipped iff a < 0.
   None when x_v does not occur (a = 0): mystic then tries the next variable. *)
Definition isolate_lin (l1 : lin) (c : cmp) (l2 : lin) (v : nat) : option iso :=
  let d := lsub l1 l2 in
  let a := coeff d v in
  if Qeqb a 0 then None
  else Some (Iso v (if Qltb a 0 then flipc c else c) (lscale (- / a) (lremove d v))).

Definition isolate (r : rel) (v : nat) : option iso :=
  match linearize (lhs r), linearize (rhs r) with
  | Some l1, Some l2 => isolate_lin l1 (rcmp r) l2 v
  | _, _ => None
  end.

(* a line in which every variable cancels (d = constant): True or False everywhere *)
Definition degenerate (r : rel) : option bool :=
  match linearize (lhs r), linearize (rhs r) with
  | Some l1, Some l2 =>
      let d := lsub l1 l2 in
      if lin_eqb (fst d, 0) (lconst 0) then Some (cmp_holdsb (rcmp r) (snd d) 0) else None
  | _, _ => None
  end.

(* ---------------------------------------------------------------- sign cases for a single variable divisor *)
(*  a / x_d  cmp  b   (a, b without division)
    inequality:  (a cmp b*x_d  and  x_d > 0)  or  (a flip(cmp) b*x_d  and  x_d < 0)
    = / != :      a cmp b*x_d  and  x_d != 0                                         *)
Definition isolate_div (a : expr) (d : nat) (c : cmp) (b : expr) : cases :=
  if is_ineq c then
    [ [Rel a c (Mul b (Var d)); Rel (Var d) Gt (Cst 0)];
      [Rel a (flipc c) (Mul b (Var d)); Rel (Var d) Lt (Cst 0)] ]
  else [ [Rel a c (Mul b (Var d)); Rel (Var d) Ne (Cst 0)] ].

(*  n / x_d  cmp  x_a  solved for the DIVISOR variable x_d (what mystic does when x_d is the first variable):
    sympy gives x_d = n/x_a, a new divisor; mystic emits the four strict sign combinations of (x_a, x_d).
    The comparator is flipped iff both have the same sign. *)
Definition isolate_den (n : expr) (d : nat) (c : cmp) (a : nat) : cases :=
  let line (same : bool) := Rel (Var d) (if same then flipc c else c) (Div n (Var a)) in
  [ [line true;  Rel (Var a) Gt (Cst 0); Rel (Var d) Gt (Cst 0)];
    [line false; Rel (Var a) Lt (Cst 0); Rel (Var d) Gt (Cst 0)];
    [line false; Rel (Var a) Gt (Cst 0); Rel (Var d) Lt (Cst 0)];
    [line true;  Rel (Var a) Lt (Cst 0); Rel (Var d) Lt (Cst 0)] ].

Fixpoint divfree (x : expr) : bool :=
  match x with
  | Cst _ | Var _ => true
  | Neg a | Pow a _ => divfree a
  | Add a b | Sub a b | Mul a b => divfree a && divfree b
  | Div _ _ => false
  end.

(* ---------------------------------------------------------------- _simplify: product of cases, exclusive merge *)
(* it.product(eqns) followed by NL.join: one alternative per choice of a case for every line *)
Fixpoint product (css : list cases) : cases :=
  match css with
  | [] => [[]]
  | cs :: rest => flat_map (fun c => map (fun p => c ++ p) (product rest)) cs
  end.

Fixpoint omap {A B} (f : A -> option B) (l : list A) : option (list B) :=
  match l with
  | [] => Some []
  | a :: t => match f a, omap f t with Some b, Some r => Some (b :: r) | _, _ => None end
  end.

(* keep the alternatives whose merge is not None *)
Fixpoint merge_cases (cs : cases) : cases :=
  match cs with
  | [] => []
  | s :: t => match merge_excl s with Some m => m :: merge_cases t | None => merge_cases t end
  end.

(* linear system, one chosen variable per line (mystic's choice is an input of the model) *)
Definition simplify_lin (lines : sys) (targets : list nat) : option cases :=
  match omap (fun p => isolate (fst p) (snd p)) (combine lines targets) with
  | Some isos => Some (merge_cases [map rel_of_iso isos])
  | None => None
  end.

(* simplify = absval's inclusive pre-merge of the user's lines, then _simplify *)
Definition simplify_model (lines : sys) (targets : list nat) : option cases :=
  simplify_lin (merge_incl lines) targets.

(* ---------------------------------------------------------------- linear_symbolic / symbolic_bounds *)
Fixpoint dot_expr (row : list Q) (j : nat) : expr :=
  match row with
  | [] => Cst 0
  | [c] => Mul (Cst c) (Var j)
  | c :: t => Add (Mul (Cst c) (Var j)) (dot_expr t (S j))
  end.

Fixpoint dot (e : env) (row : list Q) (j : nat) : Q :=
  match row with [] => 0 | c :: t => c * e j + dot e t (S j) end.

Definition rows_text (c : cmp) (M : list (list Q)) (v : list Q) : sys :=
  map (fun p => Rel (dot_expr (fst p) 0) c (Cst (snd p))) (combine M v).

(* linear_symbolic(A,b,G,h): inequality lines first, then equality lines; ValueError on inconsistent dimensions *)
Definition text_of_matrix (A : list (list Q)) (b : list Q) (G : list (list Q)) (h : list Q) : option sys :=
  if Nat.eqb (length A) (length b) && Nat.eqb (length G) (length h)
  then Some (rows_text Le G h ++ rows_text Eq A b) else None.

(* symbolic_bounds(min,max): None entries are infinite; ValueError if some min > max or lengths differ *)
Fixpoint bound_lines (c : cmp) (bs : list (option Q)) (j : nat) : sys :=
  match bs with
  | [] => []
  | None :: t => bound_lines c t (S j)
  | Some q :: t => Rel (Var j) c (Cst q) :: bound_lines c t (S j)
  end.

Fixpoint bounds_ok (lo hi : list (option Q)) : bool :=
  match lo, hi with
  | [], [] => true
  | l :: lt, h :: ht =>
      (match l, h with Some a, Some b => Qleb a b | _, _ => true end) && bounds_ok lt ht
  | _, _ => false
  end.

Definition text_of_bounds (lo hi : list (option Q)) : option sys :=
  if bounds_ok lo hi then Some (bound_lines Ge lo 0 ++ bound_lines Le hi 0) else None.

Fixpoint in_bounds (e : env) (lo hi : list (option Q)) (j : nat) : Prop :=
  match lo, hi with
  | l :: lt, h :: ht =>
      (match l with Some a => a <= e j | None => True end) /\
      (match h with Some b => e j <= b | None => True end) /\ in_bounds e lt ht (S j)
  | _, _ => True
  end.

(* ---------------------------------------------------------------- comparison helpers for the correspondence *)
Definition Qabs' (a : Q) : Q := if Qltb a 0 then - a else a.
Definition qclose (tol a b : Q) : bool := Qleb (Qabs' (a - b)) (tol * (1 + Qabs' b)).

Fixpoint lin_close_upto (tol : Q) (n : nat) (a b : lin) : bool :=
  match n with
  | O => qclose tol (snd a) (snd b)
  | S m => qclose tol (coeff a m) (coeff b m) && lin_close_upto tol m a b
  end.
Definition lin_close (tol : Q) (a b : lin) : bool := lin_close_upto tol (Nat.max (nvars a) (nvars b)) a b.

(* mystic's output line [o] (parsed) is the model's isolation of input line [r] for the variable on o's left *)
Definition iso_matches (tol : Q) (r o : rel) : bool :=
  match lhs o, linearize (rhs o) with
  | Var v, Some lo =>
      match isolate r v with
      | Some i => cmp_eqb (ic i) (rcmp o) && lin_close tol (il i) lo
      | None => false
      end
  | _, _ => false
  end.

(* every output line is the isolation of some input line and every input line is accounted for
   (degenerate input lines that are true everywhere produce no output) *)
Definition lines_match (tol : Q) (inp out : sys) : bool :=
  forallb (fun o => existsb (fun r => iso_matches tol r o) inp) out &&
  forallb (fun r => existsb (fun o => iso_matches tol r o) out) inp.

(* ---------------------------------------------------------------- clearing a variable divisor (used by the
   per-instance certificates: a verified rewriting step, not a model of mystic code) *)
(* mulden d x = Some x'  ->  x' has no division and  eval x' = x_d * eval x  wherever x_d <> 0;
   every divisor occurring in x must be exactly (Var d) over a division-free numerator *)
Fixpoint mulden (d : nat) (x : expr) : option expr :=
  if divfree x then Some (Mul (Var d) x) else
  match x with
  | Neg a => option_map Neg (mulden d a)
  | Add a b => match mulden d a, mulden d b with Some a', Some b' => Some (Add a' b') | _, _ => None end
  | Sub a b => match mulden d a, mulden d b with Some a', Some b' => Some (Sub a' b') | _, _ => None end
  | Mul a b => if divfree a then option_map (Mul a) (mulden d b)
               else if divfree b then option_map (fun a' => Mul a' b) (mulden d a) else None
  | Div a (Var k) => if Nat.eqb k d && divfree a then Some a else None
  | _ => None
  end.

Definition rel_divfree (r : rel) : bool := divfree (lhs r) && divfree (rhs r).

Definition clear_rel (d : nat) (r : rel) : option rel :=
  match mulden d (lhs r), mulden d (rhs r) with
  | Some l, Some r' => Some (Rel l (rcmp r) r')
  | _, _ => None
  end.

(* ---------------------------------------------------------------- simplify's treatment of the user's lines before isolation *)
(* a line in which every variable cancels is returned as '' (dropped) when its comparator is '=' or '!=':
   sympy finds nothing to solve for and _simplify1 returns the empty solution (inequalities raise instead) *)
Definition dropped (r : rel) : bool :=
  match degenerate r with Some _ => negb (is_ineq (rcmp r)) | None => false end.

(* absval's inclusive merge (the identity up to duplicates unless two lines oppose each other), then the dropped lines *)
Definition simplify_pre (lines : sys) : sys :=
  filter (fun r => negb (dropped r)) (if no_opposing lines then lines else merge_incl lines).

(* no dropped line is false somewhere *)
Definition drops_only_true (lines : sys) : bool :=
  forallb (fun r => if dropped r then match degenerate r with Some b => b | None => true end else true) lines.
