(* Model of (a) the three-column text log written by mystic.monitors.LoggingMonitor.__call__/info and
   parsed by mystic.munge.logfile_reader, over character lists, with an ABSTRACT number printer
   (Python's repr/eval is the trusted printer), and (b) the parameter files of mystic.munge:
   raw_to_converge / converge_to_support (zip( *steps) transposes), the readers' second conversion,
   _process_ids / _reduce_ids and write_raw_file's id compression.
   Definitions only (executable); proofs are in LogCodec_Proofs.v. *)
From Coq Require Import List Ascii String Bool Arith ZArith.
Import ListNotations.
Notation length := List.length (only parsing).

Definition str := list ascii.
Definition c_sp : ascii := " "%char.
Definition c_comma : ascii := ","%char.
Definition c_lb : ascii := "["%char.
Definition c_rb : ascii := "]"%char.
Definition c_lp : ascii := "("%char.
Definition c_rp : ascii := ")"%char.
Definition c_hash : ascii := "#"%char.
Definition c_nl : ascii := "010"%char.
Definition is_sp (c : ascii) : bool := Ascii.eqb c c_sp.
Definition is_comma (c : ascii) : bool := Ascii.eqb c c_comma.
Definition is_nl (c : ascii) : bool := Ascii.eqb c c_nl.
Definition lit (s : string) : str := list_ascii_of_string s.

(* ---------------- python str.split on the three separators used ---------------- *)
(* does s start with three spaces / with comma+space *)
Definition starts3 (s : str) : bool :=
  match s with c1 :: c2 :: c3 :: _ => is_sp c1 && is_sp c2 && is_sp c3 | _ => false end.
Definition starts_cs (s : str) : bool :=
  match s with c1 :: c2 :: _ => is_comma c1 && is_sp c2 | _ => false end.

(* line.split("   "): leftmost, non-overlapping; [skip] characters of a matched separator remain *)
Fixpoint split3 (skip : nat) (s acc : str) : list str :=
  match s with
  | [] => [rev acc]
  | c :: r => match skip with
              | S k => split3 k r acc
              | O => if starts3 s then rev acc :: split3 2 r [] else split3 0 r (c :: acc)
              end
  end.
(* the elements of a printed list/tuple are separated by ", " *)
Fixpoint split_cs (skip : nat) (s acc : str) : list str :=
  match s with
  | [] => [rev acc]
  | c :: r => match skip with
              | S k => split_cs k r acc
              | O => if starts_cs s then rev acc :: split_cs 1 r [] else split_cs 0 r (c :: acc)
              end
  end.
(* file.split("\n") *)
Fixpoint split_nl (s acc : str) : list str :=
  match s with
  | [] => [rev acc]
  | c :: r => if is_nl c then rev acc :: split_nl r [] else split_nl r (c :: acc)
  end.
(* eval() ignores leading blanks *)
Fixpoint lstrip (s : str) : str :=
  match s with c :: r => if is_sp c then lstrip r else s | [] => [] end.
Fixpoint join (sep : str) (l : list str) : str :=
  match l with [] => [] | [a] => a | a :: r => a ++ sep ++ join sep r end.
Fixpoint mapM {A B} (f : A -> option B) (l : list A) : option (list B) :=
  match l with
  | [] => Some []
  | a :: r => match f a, mapM f r with Some b, Some bs => Some (b :: bs) | _, _ => None end
  end.
Fixpoint prefixb (p s : str) : bool :=
  match p, s with
  | [], _ => true
  | a :: p', b :: s' => Ascii.eqb a b && prefixb p' s'
  | _ :: _, [] => false
  end.
(* s = open ++ inner ++ close *)
Definition strip_brackets (o c : ascii) (s : str) : option str :=
  match s with
  | a :: r => if Ascii.eqb a o then
                match rev r with
                | d :: r' => if Ascii.eqb d c then Some (rev r') else None
                | [] => None
                end
              else None
  | [] => None
  end.

Section Codec.
  (* the printed numbers: V with Python's "%s"/repr as [show] and eval as [read];
     iteration numbers and ids are integers printed by [showi] *)
  Variable V : Type.
  Variable show : V -> str.
  Variable read : str -> option V.
  Variable showi : Z -> str.
  Variable readi : str -> option Z.

  Inductive costv := YS (v : V) | YV (l : list V).
  (* one logged call: (step, id), cost, parameter list *)
  Record entry := mkEntry { e_step : Z; e_id : option Z; e_cost : costv; e_x : list V }.

  (* "%s" % [a, b, c]  and  "[%s]" % a  (a scalar x is logged as a one-element list) *)
  Definition show_list (l : list V) : str := c_lb :: join (lit ", ") (map show l) ++ [c_rb].
  (* "%s" % (tuple(step),) : (i,) or (i, id) *)
  Definition show_step (i : Z) (id : option Z) : str :=
    match id with
    | None => c_lp :: showi i ++ lit ",)"
    | Some j => c_lp :: showi i ++ lit ", " ++ showi j ++ [c_rp]
    end.
  Definition show_cost (c : costv) : str := match c with YS v => show v | YV l => show_list l end.
  (* LoggingMonitor.__call__: self._file.write("  %s     %s   %s\n" % (tuple(step), y, x)) *)
  Definition format_line (e : entry) : str :=
    lit "  " ++ show_step (e_step e) (e_id e) ++ lit "     " ++ show_cost (e_cost e) ++ lit "   " ++ show_list (e_x e).

  (* eval of the three columns *)
  Definition parse_list (s : str) : option (list V) :=
    match strip_brackets c_lb c_rb s with
    | Some [] => Some []
    | Some inner => mapM read (split_cs 0 inner [])
    | None => None
    end.
  Definition parse_cost (s : str) : option costv :=
    match s with
    | c :: _ => if Ascii.eqb c c_lb then option_map YV (parse_list s) else option_map YS (read s)
    | [] => None
    end.
  Definition strip_trailing_comma (s : str) : option str :=
    match rev s with c :: r => if is_comma c then Some (rev r) else None | [] => None end.
  Definition parse_step (s : str) : option (Z * option Z) :=
    match strip_brackets c_lp c_rp s with
    | Some inner =>
        match split_cs 0 inner [] with
        | [a] => match strip_trailing_comma a with
                 | Some a' => option_map (fun i => (i, None)) (readi a')
                 | None => None end
        | [a; b] => match readi a, readi b with
                    | Some i, Some j => Some (i, Some j)
                    | _, _ => None end
        | _ => None
        end
    | None => None
    end.
  (* logfile_reader, one line: values = line.split("   "); eval(values[0..2]) *)
  Definition parse_line (s : str) : option entry :=
    match split3 0 s [] with
    | [a; b; c] =>
        match parse_step (lstrip a), parse_cost (lstrip b), parse_list (lstrip c) with
        | Some (i, id), Some y, Some x => Some (mkEntry i id y x)
        | _, _, _ => None
        end
    | _ => None
    end.

  (* the whole file: header/info lines "# ..." and entry lines, each terminated by "\n" *)
  Inductive fline := LComment (s : str) | LEntry (e : entry).
  Definition line_text (l : fline) : str :=
    match l with LComment s => c_hash :: c_sp :: s | LEntry e => format_line e end.
  Definition format_file (ls : list fline) : str :=
    flat_map (fun l => line_text l ++ [c_nl]) ls.
  Definition entries (ls : list fline) : list entry :=
    flat_map (fun l => match l with LComment _ => [] | LEntry e => [e] end) ls.
  (* line.startswith(("#","inf =","nan =")) *)
  Definition skipped (line : str) : bool :=
    prefixb [c_hash] line || prefixb (lit "inf =") line || prefixb (lit "nan =") line.
  (* logfile_reader: for line in file.split("\n")[:-1]: skip or parse *)
  Definition parse_file (s : str) : option (list entry) :=
    mapM parse_line (filter (fun l => negb (skipped l)) (removelast (split_nl s []))).

  (* LoggingMonitor(interval): the call that makes the monitor's length n+1 is logged with step n iff
     int(n % interval) == 0; interval 0/None never logs *)
  Definition logged (interval n : nat) : bool :=
    match interval with O => false | _ => Nat.eqb (n mod interval) 0 end.
  (* script on ONE logging monitor: calls and info messages -> lines of the file *)
  Inductive lop := LCall (id : option Z) (y : costv) (x : list V) | LInfo (msg : str).
  Fixpoint log_lines (interval n : nat) (ops : list lop) : list fline :=
    match ops with
    | [] => []
    | LInfo msg :: r => LComment msg :: log_lines interval n r
    | LCall id y x :: r =>
        (if logged interval n then [LEntry (mkEntry (Z.of_nat n) id y x)] else [])
        ++ log_lines interval (S n) r
    end.
End Codec.

Arguments YS {V} v.
Arguments YV {V} l.
Arguments mkEntry {V} e_step e_id e_cost e_x.
Arguments LComment {V} s.
Arguments LEntry {V} e.
Arguments LCall {V} id y x.
Arguments LInfo {V} msg.

(* ---------------- parameter files (munge.write_*_file / read_*_file) ---------------- *)
Section ParamFiles.
  Variable A : Type.

  (* python zip( *rows) as lists: truncated to the shortest row; zip( *[]) = [] *)
  Fixpoint zipcons (r : list A) (m : list (list A)) : list (list A) :=
    match r, m with
    | a :: r', c :: m' => (a :: c) :: zipcons r' m'
    | _, _ => []
    end.
  Fixpoint zipstar (rows : list (list A)) : list (list A) :=
    match rows with
    | [] => []
    | [r] => map (fun a => [a]) r
    | r :: rs => zipcons r (zipstar rs)
    end.
  Definition rect (n : nat) (rows : list (list A)) : Prop := Forall (fun r => length r = n) rows.
End ParamFiles.
Arguments zipcons {A} r m.
Arguments zipstar {A} rows.
Arguments rect {A} n rows.

Section ParamFiles2.
  Variable A : Type.
  Definition traj := list (list A).                 (* monitor.x : iterations x dimensions *)
  Definition traj3 := list (list (list A)).

  (* munge.raw_to_converge on monitor.x (steps[0][0] is a number): every entry becomes a 1-tuple *)
  Definition wrap1 (x : traj) : traj3 := map (map (fun a => [a])) x.
  (* munge.raw_to_converge when steps[0][0] is already a sequence: step -> list(zip( *step)) *)
  Definition rezip (x : traj3) : traj3 := map zipstar x.
  (* munge.converge_to_support: [list(i) for i in zip( *steps)] *)
  Definition conv2supp (x : traj3) : traj3 := zipstar x.

  (* what write_converge_file / write_support_file put in "params = ..." *)
  Definition converge_params (x : traj) : traj3 := wrap1 x.
  Definition support_params (x : traj) : traj3 := conv2supp (wrap1 x).
  (* what read_converge_file / read_support_file return for such a file (second conversion) *)
  Definition read_converge (p : traj3) : traj3 := rezip p.
  Definition read_support (p : traj3) : traj3 := conv2supp (rezip p).
End ParamFiles2.
Arguments wrap1 {A} x.
Arguments rezip {A} x.
Arguments conv2supp {A} x.
Arguments converge_params {A} x.
Arguments support_params {A} x.
Arguments read_converge {A} p.
Arguments read_support {A} p.

(* ids: monitor.id is a list of (int or None) *)
Inductive stepid := S1 (i : nat) | S2 (i : nat) (id : option Z).       (* (i,)  |  (i, id) *)
Inductive ids_in :=
| IdsNone                                  (* no "id = ..." in the file *)
| IdsInt (z : Z)                           (* one id for every entry *)
| IdsList (l : list (option Z))            (* per-entry ids *)
| IdsTuples (l : list stepid).             (* already (iteration, id) tuples, e.g. from logfile_reader *)
Inductive ids_out := PNone | PInt (z : Z) | PList (l : list stepid).

Definition oz_eqb (a b : option Z) : bool :=
  match a, b with Some x, Some y => Z.eqb x y | None, None => true | _, _ => false end.
(* step[i] = (count of ids[i] among ids[:i], ids[i]) *)
Fixpoint count_steps (seen : list (option Z)) (l : list (option Z)) : list stepid :=
  match l with
  | [] => []
  | j :: r => S2 (length (filter (oz_eqb j) seen)) j :: count_steps (seen ++ [j]) r
  end.
Definition is_noneb (a : option Z) : bool := match a with None => true | _ => false end.
Definition drop_id (s : stepid) : stepid := match s with S2 i _ => S1 i | S1 i => S1 i end.

(* munge._process_ids(ids, n) with n = len(cost) given *)
Definition process_ids (ids : ids_in) (n : nat) : ids_out :=
  match ids with
  | IdsNone => if Nat.eqb n 0 then PNone else PList (map S1 (seq 0 n))
  | IdsInt z => if Nat.eqb n 0 then PInt z else PList (map (fun i => S2 i (Some z)) (seq 0 n))
  | IdsList [] => PList (map S1 (seq 0 n))
  | IdsTuples [] => PList (map S1 (seq 0 n))
  | IdsTuples l => PList (firstn n l)
  | IdsList l => let st := count_steps [] l in
                 PList (firstn n (if forallb is_noneb l then map drop_id st else st))
  end.
(* munge._reduce_ids: decided by the FIRST tuple's arity *)
Definition reduce_ids (l : list stepid) : list (option Z) :=
  match l with
  | S1 _ :: _ => map (fun _ => None) l
  | _ => map (fun s => match s with S2 _ id => id | S1 i => Some (Z.of_nat i) end) l
  end.
(* munge.write_raw_file: ids = None if empty, the single value if all equal, else the list *)
Definition compress_ids (l : list (option Z)) : ids_in :=
  match l with
  | [] => IdsNone
  | a :: _ => if forallb (oz_eqb a) l then match a with None => IdsNone | Some z => IdsInt z end
              else IdsList l
  end.
(* write_raw_file then read_raw_file(iter=True): the id column *)
Definition file_ids (l : list (option Z)) (ncost : nat) : ids_out := process_ids (compress_ids l) ncost.
