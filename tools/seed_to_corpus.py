#!/usr/bin/env python3
"""Copy the (shrunk) failing input of every seeded change into corpus/<P>/seed_<name>.json, so that the inputs that once exposed a
property-breaking change are replayed first on every run (they pass on the unchanged tree).  Usage: tools/seed_to_corpus.py"""
import json, os, glob
ROOT = os.path.dirname(os.path.dirname(os.path.abspath(__file__)))
n = 0
for d in sorted(glob.glob(os.path.join(ROOT, "seeded", "*"))):
    name = os.path.basename(d)
    pid = name.split("_")[0]
    rp = os.path.join(d, "replay.json")
    if not os.path.exists(rp):
        continue
    j = json.load(open(rp))
    case = j.get("case")
    if case is None:
        continue
    out = os.path.join(ROOT, "corpus", pid)
    os.makedirs(out, exist_ok=True)
    json.dump(dict(case=case, origin="failing input of seeded change %s (%s)" % (name, j.get("kind"))),
              open(os.path.join(out, "seed_%s.json" % name), "w"), indent=1, sort_keys=True)
    n += 1
print("corpus entries written:", n)
