#!/venv/bin/python
"""regenerate /verif/MANIFEST.json from the property modules (harness/props/cXX.py) -- run after adding a property"""
import json, os, sys, importlib, glob
ROOT = os.path.dirname(os.path.dirname(os.path.abspath(__file__)))
sys.path.insert(0, ROOT)
sys.path.insert(0, "/repo")
props = [json.loads(l) for l in open(os.path.join(ROOT, "properties.jsonl"))]
NA_REASON = json.load(open(os.path.join(ROOT, "tools", "not_applicable.json"))) if os.path.exists(os.path.join(ROOT, "tools", "not_applicable.json")) else {}
checks, na = [], []
for p in props:
    pid = p["id"]
    path = os.path.join(ROOT, "harness", "props", pid.lower() + ".py")
    READY = set(open(os.path.join(ROOT, "tools", "ready.txt")).read().split())
    if not os.path.exists(path) or pid not in READY:
        na.append(dict(property_id=pid, reason=NA_REASON.get(pid, "not yet covered: no model/check has been built for this property so far (work in progress, see DESIGN.md section 5)")))
        continue
    m = importlib.import_module("harness.props." + pid.lower())
    meta = m.META
    checks.append(dict(
        property_id=pid,
        quick_cmd="./check %s quick" % pid,
        thorough_cmd="./check %s thorough" % pid,
        evidence_file="evidence/%s.json" % pid,
        replay_cmd_template="./check %s --replay {path}" % pid,
        engine="coq-model+correspondence",
        level_claimed=dict(category=getattr(m, "LEVEL", "proof"), text=meta["level_text"], design_ref=meta.get("design_ref", "")),
        level_note=meta["level_note"],
        technique=meta["technique"]))
man = dict(
    version=1,
    setup_cmd="cd /verif && /venv/bin/python -c \"import sys; sys.path.insert(0,'/verif'); from harness import proofs; sys.exit(proofs.setup_build())\"",
    hooks=dict(guard="MYSTIC_VERIF", enable="export MYSTIC_VERIF=1 (set by ./check; no source hooks are needed: every observation is made from outside)",
               baseline_off_cmd="cd /repo && env -u MYSTIC_VERIF /venv/bin/python -m pytest -ra -q -p no:cacheprovider --timeout=900 --continue-on-collection-errors",
               source_commits=[], add_only=True),
    engines=[dict(name="coq-model+correspondence", path="coq/ + harness/",
                  serves_properties=[c["property_id"] for c in checks],
                  kind_free_text="Coq 8.16.1 theorems about hand-written executable Gallina models (coq/), tied to /repo on every run by a differential correspondence check (harness/): generated cases are run through the real Python code and through the model under vm_compute")],
    checks=checks,
    notes="See DESIGN.md. ./check <id> quick|thorough ; replays under replays/ ; known findings in known_findings.txt.",
    not_applicable=na)
with open(os.path.join(ROOT, "MANIFEST.json"), "w") as f:
    json.dump(man, f, indent=1)
print("checks:", [c["property_id"] for c in checks], "not claimed:", [n["property_id"] for n in na])
