#!/bin/bash
# usage: tools/run_seed.sh <PROP> <srcdir with patch.diff demo.py meta.json> <name>
# applies the change in a scratch worktree of /repo, confirms the demonstration (PASS on clean, FAIL on changed), runs ./check <PROP> quick
# against the changed tree, records the outcome under /verif/seeded/<name>/, restores the worktree.
set -u
P=$1; SRC=$2; NAME=$3
WT=/tmp/lead_seedwt
if [ ! -d $WT ]; then git -C /repo worktree add --detach $WT HEAD >/dev/null 2>&1; fi
git -C $WT checkout -q --detach $(git -C /repo rev-parse HEAD) 2>/dev/null; git -C $WT checkout -- . ; git -C $WT clean -fdq
OUT=/verif/seeded/$NAME; mkdir -p $OUT
cp $SRC/patch.diff $SRC/demo.py $OUT/ 2>/dev/null
( cd $WT && PYTHONPATH=$WT timeout 600 /venv/bin/python $OUT/demo.py > $OUT/demo_clean.log 2>&1 ); CLEAN=$?
if ! git -C $WT apply $OUT/patch.diff 2> $OUT/apply.log; then echo "$NAME: patch does not apply"; exit 2; fi
( cd $WT && PYTHONPATH=$WT timeout 600 /venv/bin/python $OUT/demo.py > $OUT/demo_patched.log 2>&1 ); PATCHED=$?
cp /verif/evidence/$P.json /tmp/.evidence_$P.keep 2>/dev/null      # the evidence file describes runs on /repo, not on a changed tree
( cd /verif && VERIF_REPO=$WT timeout 1500 ./check $P quick > $OUT/check_quick.log 2>&1 ); CHK=$?
cp /verif/evidence/$P.json $OUT/evidence_changed_tree.json 2>/dev/null
if [ -f /tmp/.evidence_$P.keep ]; then mv /tmp/.evidence_$P.keep /verif/evidence/$P.json; fi
REPLAY=$(grep -m1 '^VIOLATION' $OUT/check_quick.log | sed 's/.*replay=\([^ ]*\).*/\1/')
if [ -n "$REPLAY" ] && [ -f /verif/$REPLAY ]; then cp /verif/$REPLAY $OUT/replay.json; fi
rm -f /verif/replays/${P}-*.json
git -C $WT checkout -- . ; git -C $WT clean -fdq
echo "$NAME: demo_clean_exit=$CLEAN demo_patched_exit=$PATCHED check_exit=$CHK $(grep -c '^VIOLATION' $OUT/check_quick.log) violation lines; $(tail -1 $OUT/check_quick.log | cut -c1-160)"
python3 - "$OUT" "$P" "$SRC" "$CLEAN" "$PATCHED" "$CHK" <<'PY'
import json, sys, os
out, p, src, clean, patched, chk = sys.argv[1:7]
meta = {}
try: meta = json.load(open(os.path.join(src, "meta.json")))
except Exception as e: meta = {"note": "no meta.json from the author: %s" % e}
log = open(os.path.join(out, "check_quick.log")).read()
meta.update(property=p, ran=["demo.py on the unchanged tree (exit %s)" % clean, "demo.py on the changed tree (exit %s)" % patched,
            "VERIF_REPO=<changed worktree> ./check %s quick (exit %s)" % (p, chk)],
            detected=bool(int(chk) == 1 and "VIOLATION" in log),
            violation_lines=[l for l in log.splitlines() if l.startswith("VIOLATION")][:5])
json.dump(meta, open(os.path.join(out, "meta.json"), "w"), indent=1)
PY
