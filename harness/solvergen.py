"""Generators of operation scripts for the solver-API properties (C01-C07)."""
from harness import solverlib as L


def grid(rng, lo=-4, hi=4, q=0.25):
    return rng.randint(int(lo / q), int(hi / q)) * q


def gen_cost(rng, ndim, allow_vector=False):
    k = rng.choice(["quad", "quad", "coarse", "coarse", "l1", "const", "infregion"] + (["vector"] if allow_vector else []))
    if k in ("quad", "l1", "vector"):
        return dict(kind=k, a=[grid(rng, -2, 2) for _ in range(ndim)])
    if k == "coarse":
        return dict(kind=k, q=rng.choice([0.5, 1.0, 2.0]))
    if k == "const":
        return dict(kind=k, c=rng.choice([0.0, 1.0, 3.5]))
    return dict(kind=k, t=rng.choice([0.0, 0.5, 1.0]))


def gen_cons(rng, ndim, box=None, push_out=0.0):
    """deterministic, idempotent constraints that map the box (if any) into itself; with probability push_out (C02 only)
    constraints that push points OUT of the box: a coordinate pinned beyond one of its finite sides"""
    if box is not None and rng.random() < push_out:
        i = rng.randrange(ndim)
        c = box[0][i] - rng.choice([0.25, 1.0]) if rng.random() < 0.5 else box[1][i] + rng.choice([0.25, 1.0])
        if c not in (INF, -INF) and c == c:
            return dict(kind="pin", i=i, c=c, inplace=rng.random() < 0.4)
    kinds = ["ident", "pin", "clamp", "grid"]
    if box is None or (len(set(box[0])) == 1 and len(set(box[1])) == 1):
        kinds.append("tie")
    if ndim >= 2 and (box is None or all(v not in (INF, -INF) for v in box[0] + box[1])):
        kinds += ["affine", "affine"]
    k = rng.choice(kinds)
    inplace = rng.random() < 0.4
    if k == "affine":
        i, j = rng.sample(range(ndim), 2)
        if box is None:
            return dict(kind=k, i=i, j=j, a=rng.choice([0.5, -0.5, 1.0, 2.0]), b=rng.choice([0.0, 1.0, -0.25]), inplace=inplace)
        if box[1][i] == box[0][i]:
            return dict(kind="ident", inplace=inplace)
        # maps the box into itself: x[i] in [lo_i, hi_i]  ->  x[j] in the lower half of [lo_j, hi_j]; a trial with x[i] beyond its range
        # gives an x[j] that is no longer tied once x[i] is clipped back (and_ has to cycle)
        a = 0.5 * (box[1][j] - box[0][j]) / (box[1][i] - box[0][i])
        return dict(kind=k, i=i, j=j, a=a, b=box[0][j] - a * box[0][i], inplace=inplace)
    if k == "pin":
        i = rng.randrange(ndim)
        c = grid(rng, -1, 1) if box is None else box[0][i] + (box[1][i] - box[0][i]) * rng.choice([0, 0.5, 1])
        return dict(kind=k, i=i, c=c, inplace=inplace)
    if k == "clamp":
        if box is None:
            lo = grid(rng, -2, 0)
            return dict(kind=k, lo=lo, hi=lo + rng.choice([0.5, 1, 2]), inplace=inplace)
        lo, hi = max(box[0]), min(box[1])      # a cube inside every coordinate's range, if there is one
        if lo > hi:
            return dict(kind="ident", inplace=inplace)
        return dict(kind=k, lo=lo, hi=hi, inplace=inplace)
    if k == "grid":
        return dict(kind=k, q=0.25 if box is not None else rng.choice([0.25, 0.5, 1.0]), inplace=inplace)
    return dict(kind=k, inplace=inplace)


def gen_pen(rng):
    k = rng.choice(["none", "quad", "lin", "slin"])
    if k == "none":
        return dict(kind=k)
    return dict(kind=k, c=grid(rng, -1, 1), w=rng.choice([1.0, 10.0, 0.5]))


def gen_term(rng, depth=0):
    k = rng.choice(["never", "never", "vtr", "cog", "ncog"] + (["or", "and"] if depth < 1 else []))
    if k == "never":
        return dict(kind=k)
    if k == "vtr":
        return dict(kind=k, tol=rng.choice([0.0, 0.25, 1.0, 4.0]), target=rng.choice([0.0, 1.0]))
    if k in ("cog", "ncog"):
        return dict(kind=k, tol=rng.choice([0.0, 1e-6, 0.5, 1e-2]), g=rng.choice([0, 1, 2, 3, 5]))
    return dict(kind=k, a=gen_term(rng, depth + 1), b=gen_term(rng, depth + 1))


def gen_limits(rng):
    g = rng.choice([None, None, 0, 1, 2, 3, 5, 8])
    e = rng.choice([None, None, 0, 1, 2, 5, 9, 17, 40])
    return dict(op="SetLimits", g=g, e=e, new=rng.random() < 0.35)


def gen_box(rng, ndim):
    lo = [grid(rng, -3, 0) for _ in range(ndim)]
    hi = [l + rng.choice([0.0, 0.5, 1.0, 2.0, 4.0]) for l in lo]
    return lo, hi


INF = float("inf")


def open_sides(rng, box):
    """one-sided / partially infinite variant of a box (some sides at -inf / +inf)"""
    lo, hi = list(box[0]), list(box[1])
    for i in range(len(lo)):
        r = rng.random()
        if r < 0.3:
            lo[i] = -INF
        elif r < 0.6:
            hi[i] = INF
    return lo, hi


def gen_script(rng, solvers=L.SOLVERS, nops=(3, 9), p_mid=0.5, allow_modes=False, allow_vector=False,
               constraints=True, limits=True, monitors=True, push_out=0.0, det_modes=False):
    kind = rng.choice(list(solvers))
    ndim = rng.choice([1, 2, 2, 3])
    npop = rng.choice([4, 5, 6]) if kind in ("DE", "DE2") else 1
    strategies = [s for s in L.STRATEGIES if max(npop, 4) >= (6 if s.startswith("Rand2") else 5 if s.startswith("Best2") else 4)]
    case = dict(solver=kind, ndim=ndim, npop=npop, seed=rng.randrange(10 ** 6),
                strategy=rng.choice(strategies), cross=rng.choice([0.9, 0.5, 1.0, 0.0]),
                scale=rng.choice([0.8, 0.5, 1.0]))
    box = gen_box(rng, ndim) if rng.random() < 0.5 else None
    cfg = []
    vector = allow_vector and rng.random() < 0.25
    cost = gen_cost(rng, ndim)
    if vector:
        cost = dict(kind="vector", a=[grid(rng, -2, 2) for _ in range(ndim)])
        cfg.append(dict(op="SetReducer", red=rng.choice(["sum", "max", "sumsq", "min", "min"])))
    cfg.append(dict(op="SetObjective", cost=cost))
    if rng.random() < 0.6 and kind in ("DE", "DE2"):
        b = box or gen_box(rng, ndim)
        if rng.random() < 0.2:
            cfg.append(dict(op="SetRandomInitialPoints", lo=None, hi=None))    # no limits given: the solver's defaults (+-1e3), whatever else is configured
        else:
            cfg.append(dict(op="SetRandomInitialPoints", lo=b[0], hi=b[1]))
    else:
        cfg.append(dict(op="SetInitialPoints", x0=[grid(rng, -3, 3) for _ in range(ndim)]))
    sbox = box
    if box and rng.random() < 0.25:
        sbox = open_sides(rng, box)        # the strict ranges may have infinite sides; initial points stay in the finite box
    if box and rng.random() < 0.7:
        o = dict(op="SetStrictRanges", lo=sbox[0], hi=sbox[1])
        if allow_modes and rng.random() < 0.5:
            o["tight"], o["clip"] = rng.choice([(True, None), (None, True), (True, True), (False, None)] if det_modes else
                                               [(True, None), (None, True), (True, True), (None, False), (True, False), (False, None), (False, None), (False, None)])
            if any(v in (INF, -INF) for v in sbox[0] + sbox[1]):
                o["tight"], o["clip"] = None, None
        cfg.append(o)
    if constraints and rng.random() < 0.5:
        cfg.append(dict(op="SetConstraints", cons=gen_cons(rng, ndim, box, push_out)))
    cur_box = dict(op="SetStrictRanges", lo=sbox[0], hi=sbox[1]) if any(o["op"] == "SetStrictRanges" for o in cfg) else None
    if rng.random() < 0.4:
        cfg.append(dict(op="SetPenalty", pen=gen_pen(rng)))
    if limits and rng.random() < 0.6:
        cfg.append(gen_limits(rng))
    cfg.append(dict(op="SetTermination", term=gen_term(rng)))
    if monitors and rng.random() < 0.6:
        cfg.append(dict(op="SetEvalMonitor", new=False))
    rng.shuffle(cfg)
    # the reducer must be in place before anything evaluates a vector cost: fine, evaluation only happens in Step
    ops = list(cfg)
    for _ in range(rng.randint(*nops)):
        r = rng.random()
        if r < 0.55:
            ops.append(dict(op="Step", cb=rng.random() < 0.3))
        elif r < 0.65:
            ops.append(dict(op="Solve", cb=rng.random() < 0.3))
            if not any(o["op"] == "SetLimits" for o in ops):
                ops.insert(len(cfg), dict(op="SetLimits", g=rng.choice([2, 4, 6]), e=None, new=False))
        elif rng.random() < p_mid:
            m = rng.choice(["limits", "term", "pen", "cons", "box", "final", "exit", "emon", "smon", "obj"])
            if m == "limits" and limits:
                ops.append(gen_limits(rng))
            elif m == "term":
                o_ = dict(op="SetTermination", term=gen_term(rng))
                ops.append(o_)
                if rng.random() < 0.4:
                    o_["defer"] = True           # given as the `termination=` argument of the Step that follows
                    ops.append(dict(op="Step", cb=rng.random() < 0.3))
            elif m == "pen":
                o_ = dict(op="SetPenalty", pen=gen_pen(rng))
                ops.append(o_)
                if kind != "POW" and o_["pen"]["kind"] != "none" and rng.random() < 0.35 and not any(q["op"] == "SetStrictRanges" for q in ops):
                    o_["defer"] = True           # given as the `penalty=` keyword of the Step that follows
                    ops.append(dict(op="Step", cb=False))
            elif m == "cons" and constraints:
                cb = box
                if cb is None:      # a box installed mid-run (below) is the one the new constraints have to respect
                    inst = [o for o in ops if o["op"] == "SetStrictRanges" and o["lo"] is not None]
                    if inst and all(v not in (INF, -INF) for v in inst[-1]["lo"] + inst[-1]["hi"]):
                        cb = (inst[-1]["lo"], inst[-1]["hi"])
                o_ = dict(op="SetConstraints", cons=gen_cons(rng, ndim, cb, push_out))
                if kind != "POW" and o_["cons"]["kind"] != "ident" and rng.random() < 0.35 and not any(q["op"] == "SetStrictRanges" for q in ops):
                    # installed through the keyword of the next Step: solver.Step(constraints=c) (one real call, two machine operations)
                    o_["defer"] = True
                    ops.append(o_)
                    ops.append(dict(op="Step", cb=False))
                else:
                    ops.append(o_)
            elif m == "box":
                last = [o for o in ops if o["op"] == "SetStrictRanges" and o["lo"] is not None]
                if last and rng.random() < 0.35:
                    # switch the ranges off and install the very same box again (possibly with steps in between)
                    ops.append(dict(op="SetStrictRanges", lo=None, hi=None))
                    if rng.random() < 0.5:
                        ops.append(dict(op="Step", cb=False))
                    ops.append(dict(last[-1]))
                elif rng.random() < 0.2:
                    ops.append(dict(op="SetStrictRanges", lo=None, hi=None))
                else:
                    if box is None:
                        b = gen_box(rng, ndim) if not any(o["op"] == "SetConstraints" for o in ops) else None
                    else:
                        b = ([l - rng.choice([0, 0.5, 1.0]) for l in box[0]], [h + rng.choice([0, 0.5, 1.0]) for h in box[1]])
                    if b is not None:
                        ops.append(dict(op="SetStrictRanges", lo=b[0], hi=b[1]))
            elif m == "final":
                ops.append(dict(op="Finalize"))
            elif m == "exit":
                ops.append(dict(op="RequestExit"))
            elif m == "emon" and monitors:
                o = dict(op="SetEvalMonitor", new=rng.random() < 0.3)
                if any(q["op"] == "SetEvalMonitor" for q in ops) and rng.random() < 0.35:
                    o["same"] = True      # hand the solver the monitor it is already using (e.g. Solve(EvaluationMonitor=m) a second time)
                ops.append(o)
                if kind in ("DE", "NM") and not o["new"] and not o.get("same") and rng.random() < 0.35 and not any(q["op"] == "SetStrictRanges" for q in ops):
                    o["defer"] = True            # given as the `EvaluationMonitor=` keyword of the Step that follows
                    ops.append(dict(op="Step", cb=False))
            elif m == "obj":
                ops.append(dict(op="SetObjective", cost=gen_cost(rng, ndim) if not vector else dict(kind="vector", a=[grid(rng, -2, 2) for _ in range(ndim)])))
    # DE settings given as sticky keywords of the first Step/Solve instead of attributes (boundary values 0 and 1 included)
    if kind in ("DE", "DE2") and rng.random() < 0.3:
        for o in ops:
            if o["op"] in ("Step", "Solve"):
                o["kw"] = dict(strategy=case["strategy"], CrossProbability=rng.choice([0, 0.0, 1.0, 0.5, 0.9]),
                               ScalingFactor=rng.choice([0, 0.0, 1.0, 0.5, 0.8]))
                case["de_kw"] = True
                break
    # a signed penalty only next to costs that dominate it (cost + a linear term must stay bounded below)
    if any(o["op"] == "SetObjective" and o["cost"]["kind"] != "quad" for o in ops):
        for o in ops:
            if o["op"] == "SetPenalty" and o["pen"]["kind"] == "slin":
                o["pen"]["kind"] = "lin"
    # Nelder-Mead / Powell options given once as keywords of the first Step/Solve: they stay in force (and travel with a saved solver)
    if kind in ("NM", "POW") and rng.random() < 0.3:
        for o in ops:
            if o["op"] in ("Step", "Solve"):
                o["kw"] = rng.choice([dict(adaptive=True), dict(radius=0.3), dict(adaptive=True, radius=0.2)]) if kind == "NM" else \
                          rng.choice([dict(xtol=1e-2), dict(imax=3), dict(xtol=1e-7, imax=6)])
                break
    case["ops"] = ops
    return case


def gen_tight_affine(rng):
    """C03: strict ranges imposed together with the constraints (tight / clip modes, `constraints.and_` of both), an affine tie that maps the
    box into itself, and an objective that pulls the tie's leading coordinate beyond its bound: trial points leave the box, the bounds
    function moves the leader back, and the tie has to be re-imposed (and_ cycles) before the point is evaluated"""
    kind = rng.choice(["DE", "DE", "DE2", "NM", "POW", "POW"])
    ndim = rng.choice([2, 3])
    npop = rng.choice([4, 6]) if kind in ("DE", "DE2") else 1
    lo = [grid(rng, -2, 0) for _ in range(ndim)]
    hi = [l + rng.choice([1.0, 2.0, 4.0]) for l in lo]
    i, j = rng.sample(range(ndim), 2)
    a = 0.5 * (hi[j] - lo[j]) / (hi[i] - lo[i])
    cons = dict(kind="affine", i=i, j=j, a=a, b=lo[j] - a * lo[i], inplace=rng.random() < 0.3)
    centre = [grid(rng, -1, 1) for _ in range(ndim)]
    centre[i] = hi[i] + rng.choice([1.0, 2.0, 3.0]) if rng.random() < 0.7 else lo[i] - rng.choice([1.0, 2.0])
    tight, clip = rng.choice([(True, None), (None, True), (True, True)])
    strategies = [s_ for s_ in L.STRATEGIES if max(npop, 4) >= (6 if s_.startswith("Rand2") else 5 if s_.startswith("Best2") else 4)]
    case = dict(solver=kind, ndim=ndim, npop=npop, seed=rng.randrange(10 ** 6), strategy=rng.choice(strategies), cross=rng.choice([0.9, 0.5, 1.0]),
                scale=rng.choice([0.8, 1.0]))
    cfg = [dict(op="SetObjective", cost=dict(kind="quad", a=centre)),
           dict(op="SetStrictRanges", lo=lo, hi=hi, tight=tight, clip=clip),
           dict(op="SetConstraints", cons=cons),
           dict(op="SetTermination", term=dict(kind="never")),
           dict(op="SetLimits", g=rng.choice([6, 10]), e=None, new=False)]
    if kind in ("DE", "DE2"):
        cfg.append(dict(op="SetRandomInitialPoints", lo=lo, hi=hi))
    else:
        cfg.append(dict(op="SetInitialPoints", x0=[l + 0.25 * (h - l) for l, h in zip(lo, hi)]))
    rng.shuffle(cfg)
    case["ops"] = cfg + [dict(op="Step", cb=False) for _ in range(rng.randint(5, 8) if kind == "POW" else rng.randint(3, 6))] + \
                  ([dict(op="Solve", cb=False)] if rng.random() < 0.3 else [])
    return case


def fix_deferred(ops):
    """a SetConstraints marked `defer` is handed to the Step that follows it directly; anywhere else it is an ordinary call"""
    for i, o in enumerate(ops):
        if o.get("defer") and not (i + 1 < len(ops) and ops[i + 1]["op"] == "Step"):
            o.pop("defer")
    return ops


def gen_edge_start(rng):
    """C02: a start point on (or just inside / outside) a finite side of a box whose opposite side is infinite - where the initial simplex /
    population is built right at the boundary; default range mode, no constraints, a few Steps"""
    kind = rng.choice(["NM", "NM", "NM", "DE", "POW"])
    ndim = rng.choice([1, 2, 3])
    npop = 4 if kind == "DE" else 1
    lo, hi, x0 = [], [], []
    for _ in range(ndim):
        b = rng.choice([-2.0, -1.0, -0.5, 0.5, 1.0, 3.0])
        side = rng.choice(["lo", "lo", "hi", "both"])
        d = rng.choice([0.0, 0.0, 0.01, -0.01, 0.04, -0.5, 0.3])      # offset of the guess from the finite side (negative: outside, clipped back)
        if side == "lo":
            lo.append(b); hi.append(INF); x0.append(b + d)
        elif side == "hi":
            lo.append(-INF); hi.append(b); x0.append(b - d)
        else:
            lo.append(b); hi.append(b + rng.choice([0.5, 2.0])); x0.append(b + d)
    case = dict(solver=kind, ndim=ndim, npop=npop, seed=rng.randrange(10 ** 6), strategy="Best1Bin", cross=0.9, scale=0.8)
    ops = [dict(op="SetTermination", term=dict(kind="never")), dict(op="SetObjective", cost=dict(kind="quad", a=[grid(rng, -2, 2) for _ in range(ndim)])),
           dict(op="SetInitialPoints", x0=x0), dict(op="SetStrictRanges", lo=lo, hi=hi)]
    rng.shuffle(ops)
    case["ops"] = ops + [dict(op="Step", cb=False) for _ in range(rng.choice([2, 3, 4]))]
    return case
