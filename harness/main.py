"""./check Cxx quick|thorough | --replay <file>

Per property module (harness/props/cxx.py) interface -- see harness/props/README.md:
  ID, TITLE, PROPS_FILE, ALLOWED_AXIOMS (optional), SIZES = {tier: n}, PARALLEL (optional)
  generate(rng, n, tier)      -> iterable of JSON-able case dicts (every random choice from rng)
  run_impl(case)              -> JSON-able dict of property-level observables of /repo's code
  oracle(case, obs)           -> list of failures dict(clause, site, pattern, detail)  ([] = property holds)
  coq_preamble()              -> Gallina text (Requires + helper definitions) for the cases files
  coq_terms(case, obs)        -> list of Gallina bool terms "model agrees with implementation" ([] = not modelled)
  classify(case, obs)         -> (distinct_key, nontrivial: bool, tags: [str])
  shrink(case)                -> iterable of smaller candidate cases            (optional)
  TRUSTED, ASSUMPTIONS        -> lists of strings for the evidence file
"""
import sys, os, json, time, random, importlib, hashlib, traceback, collections

from . import coqio, proofs

ROOT = os.path.dirname(os.path.dirname(os.path.abspath(__file__)))
WORK = os.path.join(ROOT, ".work")
KNOWN = os.path.join(ROOT, "known_findings.txt")

TRUSTED_COMMON = [
    "Coq 8.16.1 kernel and its bytecode VM (vm_compute); native_compute is not used; no extraction",
    "harness: case generators, drivers observing /repo, printers from Python values to Gallina literals (harness/coqio.py), oracles, shrinker",
    "correspondence is differential testing of the hand-written Gallina model against /repo on generated cases (not a proof about the Python source)",
]


def jdump(x):
    return json.dumps(x, sort_keys=True, default=repr)


def load_known(pid):
    out = []
    files = [KNOWN] + sorted(__import__("glob").glob(os.path.join(ROOT, "known_findings.d", "*.txt")))
    for fn in files:
        if not os.path.exists(fn):
            continue
        for line in open(fn):
            line = line.strip()
            if not line.startswith("finding:"):
                continue
            kv = dict(t.split("=", 1) for t in line[len("finding:"):].split() if "=" in t)
            if kv.get("property") == pid:
                out.append(kv)
    return out


def is_known(known, f):
    for k in known:
        if k.get("site") == f.get("site") and k.get("pattern") == f.get("pattern"):
            return k
    return None


def safe_run(mod, case):
    try:
        return mod.run_impl(case)
    except Exception as e:  # an exception escaping the driver is itself an observable
        out = {"__exception__": type(e).__name__, "__msg__": str(e)[:300], "__tb__": traceback.format_exc()[-1500:]}
        # raised by the harness' own code (not inside the library): the harness no longer fits the code (a renamed attribute, a changed
        # signature): that breaks the correspondence, it is not an input on which the property fails
        tb = e.__traceback__
        while tb is not None and tb.tb_next is not None:
            tb = tb.tb_next
        if tb is not None and os.path.abspath(tb.tb_frame.f_code.co_filename).startswith(os.path.join(ROOT, "harness")) \
           and type(e).__name__ in ("AttributeError", "TypeError", "ImportError", "NameError", "KeyError"):
            out["__harness__"] = True
        return out


def _worker(args):
    modname, case = args
    mod = importlib.import_module(modname)
    obs = safe_run(mod, case)
    try:
        fails = mod.oracle(case, obs)
    except Exception as e:
        fails = [dict(clause="oracle-crashed", site="harness", pattern=type(e).__name__,
                      detail=traceback.format_exc()[-1500:])]
    return obs, fails


def run_cases(mod, cases):
    if getattr(mod, "PARALLEL", False) and len(cases) > 8:
        import multiprocessing as mp
        ctx = mp.get_context("fork")
        with ctx.Pool(min(16, os.cpu_count() or 4)) as pool:
            return pool.map(_worker, [(mod.__name__, c) for c in cases], chunksize=max(1, len(cases) // 64))
    return [_worker((mod.__name__, c)) for c in cases]


def shrink_case(mod, case, sig):
    """greedy delta-debugging with the module's candidate generator; keeps (clause, site, pattern)"""
    if not hasattr(mod, "shrink"):
        return case
    budget, improved = 300, True
    while improved and budget > 0:
        improved = False
        for cand in mod.shrink(case):
            budget -= 1
            if budget <= 0:
                break
            obs, fails = _worker((mod.__name__, cand))
            if any((f.get("clause"), f.get("site"), f.get("pattern")) == sig for f in fails):
                case, improved = cand, True
                break
    return case


def write_replay(pid, kind, payload):
    os.makedirs(os.path.join(ROOT, "replays"), exist_ok=True)
    h = hashlib.sha1(jdump(payload).encode()).hexdigest()[:10]
    path = os.path.join("replays", "%s-%s-%s.json" % (pid, kind, h))
    payload = dict(payload, property=pid, kind=kind,
                   how_to_replay="./check %s --replay %s" % (pid, path))
    with open(os.path.join(ROOT, path), "w") as f:
        json.dump(payload, f, indent=1, sort_keys=True, default=repr)
    return path


def corpus_cases(pid):
    d = os.path.join(ROOT, "corpus", pid)
    out = []
    if os.path.isdir(d):
        for fn in sorted(os.listdir(d)):
            if fn.endswith(".json"):
                j = json.load(open(os.path.join(d, fn)))
                out.append(j.get("case", j))
    return out


def preamble_files(mod):
    """the MV files the generated cases files import (they must be built too, not only the theorem file's closure)"""
    import re
    out = []
    try:
        pre = mod.coq_preamble()
    except Exception:
        return out
    for m in re.finditer(r"From\s+MV\s+Require\s+(?:Import|Export)\s+([\w.\s]+?)\.\s", pre + "\n"):
        for name in m.group(1).split():
            cand = name.replace(".", "/") + ".v"
            if os.path.exists(os.path.join(proofs.COQ, cand)) and cand not in out:
                out.append(cand)
    for m in re.finditer(r"Require\s+(?:Import|Export)\s+((?:MV\.[\w.]+\s*)+)\.\s", pre + "\n"):
        for name in m.group(1).split():
            cand = name[3:].replace(".", "/") + ".v"
            if os.path.exists(os.path.join(proofs.COQ, cand)) and cand not in out:
                out.append(cand)
    return out


def proof_stage(mod, tier, workdir):
    """build + re-check this property's theorem file.  returns (info dict, problems list)"""
    problems = []
    ok, log, secs = proofs.ensure_built(targets=[mod.PROPS_FILE] + preamble_files(mod))
    info = dict(build_ok=ok, build_s=round(secs, 1))
    if not ok:
        problems.append(dict(what="coq build failed", theorem="make (coq/)", log=log[-3000:]))
        return info, problems
    bad = proofs.scan_forbidden([os.path.join(proofs.COQ, r) for r in proofs.deps_closure(mod.PROPS_FILE)])
    if bad:
        problems.append(dict(what="forbidden vernacular", theorem="%s:%d" % (bad[0][0], bad[0][1]), log=str(bad[:10])))
    closure = proofs.deps_closure(mod.PROPS_FILE)
    stmts = proofs.count_statements(closure)
    res = proofs.check_property_file(mod.PROPS_FILE, workdir, getattr(mod, "ALLOWED_AXIOMS", ()))
    info.update(files=closure, obligations=len(stmts), theorems=res["theorems"],
                assumptions=res["assumptions"])
    if not res["ok"]:
        problems.append(dict(what="property theorems do not check", theorem=mod.PROPS_FILE,
                             log=res["log"], bad_axioms=res["bad_axioms"]))
        info["discharged"] = 0
    else:
        info["discharged"] = len(stmts)
    if not res["theorems"]:
        problems.append(dict(what="no Print Assumptions in property file", theorem=mod.PROPS_FILE, log=""))
    if tier == "thorough" and not problems:
        ok, log = proofs.coqchk(mod.PROPS_FILE)
        info["coqchk_ok"] = ok
        info["coqchk_tail"] = log[-1500:]
        if not ok:
            problems.append(dict(what="coqchk failed", theorem=mod.PROPS_FILE, log=log))
    return info, problems


def correspondence(mod, cases, results, workdir, name="cases"):
    """returns (n_terms, mismatching [(case idx, term idx)], errors)"""
    terms, owner = [], []
    for i, (c, (obs, fails)) in enumerate(zip(cases, results)):
        try:
            ts = mod.coq_terms(c, obs)
        except AssertionError as e:
            if "nat literal too large" in str(e):
                ts = []       # the run produced counts beyond what a unary Gallina literal can carry: this case is judged by the oracle only
            else:
                return 0, [], [("coq_terms", "case %d: %s" % (i, traceback.format_exc()[-1500:]))]
        except Exception as e:
            return 0, [], [("coq_terms", "case %d: %s" % (i, traceback.format_exc()[-1500:]))]
        for k, t in enumerate(ts or []):
            terms.append(t); owner.append((i, k))
    if not terms:
        return 0, [], []
    r = coqio.run_shards(workdir, name, mod.coq_preamble(), terms,
                         shard=getattr(mod, "SHARD", 300), timeout=getattr(mod, "COQ_TIMEOUT", 900))
    mism = [owner[g] for g in r["failing"]]
    return len(terms), mism, r["errors"]


def run_check(mod, tier, seed):
    t0 = time.time()
    pid = mod.ID
    workdir = os.path.join(WORK, pid)
    os.makedirs(workdir, exist_ok=True)
    import mystic
    repo = os.path.abspath(os.environ.get("VERIF_REPO", "/repo"))
    assert os.path.abspath(mystic.__file__).startswith(repo + "/"), (mystic.__file__, repo)
    known = load_known(pid)
    lines, violations = [], []

    pinfo, pproblems = proof_stage(mod, tier, workdir)

    rng = random.Random(seed * 1000003 + 17)
    n = mod.SIZES[tier]
    cases = corpus_cases(pid)
    ncorpus = len(cases)
    cases += list(mod.generate(rng, n, tier))
    results = run_cases(mod, cases)

    # ---- oracle verdicts
    known_hits = collections.Counter()
    new_fail = []
    harness_errs = []
    for i, (c, (obs, fails)) in enumerate(zip(cases, results)):
        if isinstance(obs, dict) and obs.get("__harness__"):
            harness_errs.append(("run_impl", "case %d: %s" % (i, obs.get("__tb__", "")[-1200:])))
            continue
        for f in fails:
            k = is_known(known, f)
            if k:
                known_hits[(f.get("site"), f.get("pattern"))] += 1
            elif f.get("clause") == "oracle-crashed":
                harness_errs.append(("oracle", "case %d: %s" % (i, str(f.get("detail"))[-1200:])))
            else:
                new_fail.append((i, f))
    for (site, pat), cnt in sorted(known_hits.items()):
        lines.append("KNOWN-FINDING: property=%s site=%s pattern=%s (%d cases this run)" % (pid, site, pat, cnt))

    # ---- model vs implementation
    nterms, mism, cerrs = correspondence(mod, cases, results, workdir)
    ncompared = 0
    for c, (obs, fails) in zip(cases, results):
        try:
            ncompared += 1 if mod.coq_terms(c, obs) else 0
        except Exception:
            pass

    reported = set()
    for i, f in new_fail:
        sig = (f.get("clause"), f.get("site"), f.get("pattern"))
        if sig in reported:
            continue
        reported.add(sig)
        small = shrink_case(mod, cases[i], sig)
        obs2, fails2 = _worker((mod.__name__, small))
        path = write_replay(pid, "property_violation", dict(seed=seed, tier=tier, case=small, observed=obs2,
                            failures=[x for x in fails2 if (x.get("clause"), x.get("site"), x.get("pattern")) == sig] or [f],
                            clause=f.get("clause")))
        violations.append("VIOLATION property=%s replay=%s" % (pid, path))

    corr_only = []
    failing_case_idx = set(i for i, _ in new_fail)
    for (i, k) in mism:
        if i in failing_case_idx:
            continue
        # a mismatch on a case whose only oracle failures are known findings is still a mismatch:
        corr_only.append((i, k))
    cerrs = list(cerrs) + harness_errs[:3]
    if cerrs:
        path = write_replay(pid, "correspondence_broken", dict(seed=seed, tier=tier, errors=cerrs[:3],
                            theorem_or_correspondence="cases files of %s do not evaluate" % pid))
        violations.append("VIOLATION property=%s replay=%s no-failing-input-found" % (pid, path))
    if corr_only and not new_fail:
        # widen: look for a genuine failing input around the disagreement before giving up
        found = None
        if hasattr(mod, "widen"):
            wcases = list(mod.widen(random.Random(seed + 99), [cases[i] for i, _ in corr_only[:5]], tier))
        else:
            wcases = list(mod.generate(random.Random(seed * 7919 + 1), min(5 * n, 20000), tier))
        wres = run_cases(mod, wcases)
        for c, (obs, fails) in zip(wcases, wres):
            ff = [f for f in fails if not is_known(known, f)]
            if ff:
                found = (c, obs, ff); break
        if found:
            c, obs, ff = found
            sig = (ff[0].get("clause"), ff[0].get("site"), ff[0].get("pattern"))
            small = shrink_case(mod, c, sig)
            obs2, fails2 = _worker((mod.__name__, small))
            path = write_replay(pid, "property_violation", dict(seed=seed, tier=tier, case=small, observed=obs2,
                                failures=fails2 or ff, clause=ff[0].get("clause"), found_by="widened search after model/implementation disagreement"))
            violations.append("VIOLATION property=%s replay=%s" % (pid, path))
        else:
            i, k = corr_only[0]
            dbg = None
            if hasattr(mod, "coq_debug"):
                try:
                    ok, out = coqio.eval_term(workdir, "debug", mod.coq_preamble(), mod.coq_debug(cases[i], results[i][0], k))
                    dbg = out[-3000:]
                except Exception:
                    dbg = traceback.format_exc()[-1000:]
            path = write_replay(pid, "correspondence_only", dict(seed=seed, tier=tier, case=cases[i], observed=results[i][0],
                                term_index=k, model_says=dbg, n_disagreements=len(corr_only),
                                theorem_or_correspondence="model of %s (%s) no longer agrees with /repo; widened search (%d more cases) found no input violating the property itself" % (pid, mod.PROPS_FILE, len(wcases))))
            violations.append("VIOLATION property=%s replay=%s no-failing-input-found" % (pid, path))
    for pb in pproblems:
        path = write_replay(pid, "proof_broken", dict(seed=seed, tier=tier, theorem_or_correspondence=pb["theorem"], what=pb["what"], log=pb.get("log", "")))
        violations.append("VIOLATION property=%s replay=%s no-failing-input-found" % (pid, path))

    # ---- evidence
    keys, tags, nontriv = set(), collections.Counter(), set()
    for c, (obs, fails) in zip(cases, results):
        try:
            key, nt, tg = mod.classify(c, obs)
        except Exception:
            key, nt, tg = jdump(c), False, ["classify-crashed"]
        keys.add(key)
        if nt:
            nontriv.add(key)
        for t in tg:
            tags[t] += 1
    samples = []
    for c, (obs, fails) in list(zip(cases, results))[ncorpus:ncorpus + 400:133][:3]:
        s = jdump(dict(case=c, observed=obs))
        samples.append(json.loads(s) if len(s) < 4000 else dict(truncated=s[:4000]))
    ax = sorted({a for v in pinfo.get("assumptions", {}).values() for a in v})
    ev = dict(
        property_id=pid, tier=tier, seed=seed, level=getattr(mod, "LEVEL", "proof"),
        coverage=dict(
            obligations=pinfo.get("obligations", 0), discharged=pinfo.get("discharged", 0),
            checker_cmd="make -C coq (coqc 8.16.1, full .vo build) + coqc %s with Print Assumptions%s" % (
                mod.PROPS_FILE, "; coqchk -o" if tier == "thorough" else ""),
            trusted_base=TRUSTED_COMMON + list(getattr(mod, "TRUSTED", [])) +
                ["axioms reported by Print Assumptions for this property's theorems: " + (", ".join(ax) if ax else "none (closed under the global context)")],
            property_theorems=pinfo.get("theorems", []), assumptions_per_theorem=pinfo.get("assumptions", {}),
            coq_files=pinfo.get("files", []), coqchk_ok=pinfo.get("coqchk_ok"),
            evaluations=len(cases), distinct_nontrivial=len(nontriv), distinct=len(keys),
            rule=getattr(mod, "RULE", ""), samples=samples or [dict(note="no cases")],
            traces_validated_against_impl=ncompared,
            model_vs_impl_comparisons=nterms, model_vs_impl_disagreements=len(mism),
            oracle_failures_new=len(new_fail), known_finding_hits=sum(known_hits.values()),
            corpus_cases=ncorpus, input_distribution=dict(tags.most_common(60)),
            exhaustive=bool(getattr(mod, "EXHAUSTIVE", {}).get(tier, False)),
        ),
        assumptions=list(getattr(mod, "ASSUMPTIONS", [])),
        wall_s=round(time.time() - t0, 2), violations=len(violations),
    )
    os.makedirs(os.path.join(ROOT, "evidence"), exist_ok=True)
    with open(os.path.join(ROOT, "evidence", pid + ".json"), "w") as f:
        json.dump(_strict_json(ev), f, indent=1, sort_keys=True, default=repr, allow_nan=False)
    for l in lines:
        print(l)
    for v in violations:
        print(v)
    print("%s %s: %d cases (%d distinct non-trivial), %d model comparisons, %d disagreements, %d new oracle failures, "
          "%d obligations/%d discharged, %.1fs" % (pid, tier, len(cases), len(nontriv), nterms, len(mism), len(new_fail),
          pinfo.get("obligations", 0), pinfo.get("discharged", 0), time.time() - t0))
    return 1 if violations else 0


def run_replay(mod, path):
    j = json.load(open(path if os.path.isabs(path) else os.path.join(ROOT, path)))
    pid = mod.ID
    workdir = os.path.join(WORK, pid)
    known = load_known(pid)
    if j.get("kind") in ("proof_broken", "correspondence_broken"):
        pinfo, pproblems = proof_stage(mod, "quick", workdir)
        if pproblems:
            print("VIOLATION property=%s replay=%s no-failing-input-found" % (pid, path)); return 1
        print("replay: proofs check again"); return 0
    case = j["case"]
    obs, fails = _worker((mod.__name__, case))
    ff = [f for f in fails if not is_known(known, f)]
    print("observed:", jdump(obs)[:2000])
    if ff:
        print("failures:", jdump(ff)[:2000])
        print("VIOLATION property=%s replay=%s" % (pid, path)); return 1
    proofs.ensure_built(targets=[mod.PROPS_FILE] + preamble_files(mod))
    nterms, mism, cerrs = correspondence(mod, [case], [(obs, fails)], workdir, name="replay")
    if mism or cerrs:
        print("model/implementation disagreement persists:", mism, cerrs[:1])
        print("VIOLATION property=%s replay=%s no-failing-input-found" % (pid, path)); return 1
    print("replay: no longer fails"); return 0


def _strict_json(x):
    """evidence files are strict JSON: non-finite floats (infinite energies, NaN) are written as strings"""
    if isinstance(x, float) and (x != x or x in (float("inf"), float("-inf"))):
        return "nan" if x != x else ("inf" if x > 0 else "-inf")
    if isinstance(x, dict):
        return {str(k): _strict_json(v) for k, v in x.items()}
    if isinstance(x, (list, tuple)):
        return [_strict_json(v) for v in x]
    return x


def main(argv):
    if len(argv) < 2:
        print(__doc__); return 2
    pid = argv[0].upper()
    mod = importlib.import_module("harness.props." + pid.lower())
    if argv[1] == "--replay":
        return run_replay(mod, argv[2])
    tier = argv[1]
    assert tier in ("quick", "thorough")
    seed = int(os.environ.get("VERIF_SEED", "0") or 0)
    return run_check(mod, tier, seed)


if __name__ == "__main__":
    sys.exit(main(sys.argv[1:]))
