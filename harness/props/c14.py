"""C14 - compiled condition and penalty functions measure exactly the stated violation.

Implementation under test: mystic.symbolic.generate_conditions(text, variables, nvars, locals) (through penalty_parser),
mystic.symbolic.generate_penalty(conditions, k=, h=) with the default penalty kinds, and the composition with
generate_constraint(generate_solvers(text)) on the same text.
Model: coq/Pure/SymCompile.v (compiled_conditions, compiled_penalty, compiled_constraint) executed in binary64 (NumF).
Condition values are compared bit-for-bit; penalty values within 1e-9 relative (python computes pf**2 with libm pow, the
model multiplies; zero must be exactly zero).  Oracle: the property statement evaluated directly on the observed values.
"""
import json, math
from fractions import Fraction
from harness.props import c13_ast as A
from harness.props import c13 as C13
from harness.coqio import flit, natlit, lst

ID = "C14"
TITLE = "Compiled condition and penalty functions measure exactly the stated violation"
PROPS_FILE = "Props/Properties_C14.v"
LEVEL = "proof"
SIZES = {"quick": 2400, "thorough": 30000}
PARALLEL = True
SHARD = 400
RULE = ("cases: kind pen = general texts `lhs cmp rhs' of 1-4 lines (lhs a variable or an expression), kind iso = isolated "
        "non-feeding texts compiled both as constraint and as penalty; 2-14 variables (indexed x, other base, named lists; "
        ">= 11 variables in ~40%), every comparator incl. '==', expressions linear / products / abs / min / max / division "
        "by constants / names from locals, penalty multiplier k default or overridden (h overridden too: no effect at "
        "iteration 0); points on dyadic grids, random floats, tiny and large magnitudes, with lhs placed exactly on the "
        "boundary, one ulp beside it, inside the tol sliver, at / around rhs+-tol(rhs); tol/rel default or overridden (0, "
        "dyadic, negative); short vectors; plus, on every run, a deterministic sweep comparator x 13 boundary placements x 3 magnitudes of `x0 cmp x1'; non-trivial = some line is violated or a boundary placement was used; "
        "distinct = distinct case JSON")
TRUSTED = ["real-number axioms of Coq's standard library (theorems are stated over the NumR instance of the model)",
           "the harness prints one expression tree both as mystic text and as a Gallina term (harness/props/c13_ast.py)",
           "binary64 execution of the model (PrimFloat under vm_compute): condition values compared bit-for-bit, penalty "
           "values within 1e-9 relative (pf**2 via libm pow vs multiplication), zero exactly"]
ASSUMPTIONS = ["IEEE rounding/underflow: the theorems are over the reals; 'positive elsewhere' is checked by the oracle only for "
               "violations larger than 1e-150 (the square of a smaller value underflows to 0.0 in binary64)",
               "strictness clauses are checked only where the tolerance term tol+|rhs|*rel is positive and not absorbed by rounding "
               "(tol=rel=0 through locals turns < into <= by the user's request)",
               "condition expressions raising exceptions (ZeroDivisionError -> penalty inf, OverflowError of pf**2 beyond ~1e154), "
               "NaN/inf values are not modelled; non-default penalty kinds belong to C15",
               "the text -> tree direction (mystic's string replacement of variable names) is validated by the correspondence on "
               "generated texts, not proved"]
META = dict(
    technique="Coq proof over a Gallina model of the condition expressions and stacked quadratic penalties + model/implementation correspondence (vm_compute, binary64)",
    level_text=("For all lhs/rhs values, comparators and k>0: the condition value is lhs-rhs oriented so that =,<=,>=,!= hold iff the "
                "value is 0 / <=0; the penalty is the sum of k*c^2 / 2k*max(0,c)^2 over the lines, zero iff every condition is "
                "satisfied, positive elsewhere; for < and > the literal orientation clause is REFUTED (known finding: the sliver "
                "rhs-tol < lhs < rhs has positive value) and the version with margin tol(rhs) is proved; the constraint compiled from "
                "an isolated non-feeding text drives the penalty compiled from the same text to exactly zero.  Texts are sampled."),
    level_note=("Trusted: Coq kernel+VM, harness printers/oracles. Theorems over R (stdlib real axioms); programs (texts) are "
                "sampled; only the default quadratic penalty kinds at iteration 0 are modelled here (others: C15)."),
    design_ref="5/C14, 7/F7")

SITE_STRICT = "symbolic.penalty_parser"
PAT_STRICT = "strict-comparator-tol-sliver-positive"

K_CHOICES = [None, None, None, None, {"k": 1}, {"k": 2.5}, {"k": 1000, "h": 7}, {"h": 3}, {"k": 0.125}]


def _kval(kopt):
    return float((kopt or {}).get("k", 100))


# ------------------------------------------------------------------ generation
def _gen_pen(rng, tier):
    nv = rng.choice([2, 3, 3, 4, 5, 6, 11, 12, 12, 13, 14])
    scheme = A.gen_scheme(rng, nv)
    locs = {}
    if rng.random() < 0.3:
        for n in rng.sample(A.LOCAL_NAMES, rng.choice([1, 2])):
            locs[n] = A.gen_const(rng)
    tl = rng.choice(A.TOL_CHOICES)
    tol, rel = A.tolrel(tl)
    tolp, relp = max(tol, 0.0), max(rel, 0.0)
    idx = list(range(nv))
    for attempt in range(30):
        nl = rng.choice([1, 1, 2, 2, 3, 4])
        style = rng.choice(["linear", "product", "absminmax", "mixed", "mixed"])
        x = A.gen_point(rng, nv, rng.choice(["grid", "grid", "int", "float", "tiny", "big"]) if attempt < 15 else "grid")
        lines, places, ok = [], [], True
        for _ in range(nl):
            c = rng.choice(A.CMPS)
            form = rng.choice(["isolated", "isolated", "expr-const", "expr-expr"])
            mode = rng.choice(A.PLACEMENTS)
            if nv >= 11 and rng.random() < 0.6:
                pool = [j for j in (1, 10, 11, 12, 0) if j < nv]
            else:
                pool = idx
            if form == "isolated":
                i = rng.choice(pool)
                others = [j for j in idx if j != i]
                rhs = A.gen_expr(rng, others if rng.random() < 0.8 else idx, rng.choice([0, 1, 1, 2]), locs, style)
                if nv >= 11 and rng.random() < 0.5:
                    rhs = ["+", ["v", 10 if i != 10 else 1], rhs]
                lhs = ["v", i]
                if i not in A.evars(rhs) and A.finite_everywhere(rhs, x):
                    f = A.pyeval(rhs, x)
                    v = A.place(rng, mode, f, tolp, relp)
                    if v is not None and math.isfinite(v) and abs(f) < 1e100:
                        x[i] = v
                    else:
                        mode = "keep"
                else:
                    mode = "keep"
            elif form == "expr-const":
                lhs = A.gen_expr(rng, pool, rng.choice([1, 1, 2]), locs, style)
                if not A.finite_everywhere(lhs, x):
                    ok = False; break
                a = A.pyeval(lhs, x)
                # choose the constant right-hand side relative to the value of the left-hand side
                t = A.tolerance(a, tolp, relp)
                b = {"eq": a, "ulp-above": A.nudge(a, -1), "ulp-below": A.nudge(a, 1), "sliver-above": a - t / 2, "sliver-below": a + t / 2,
                     "at-tol-above": a - t, "at-tol-below": a + t, "far-above": a - 3.0, "far-below": a + 3.0}.get(mode)
                if b is None or not math.isfinite(b):
                    b, mode = A.gen_const(rng), "keep"
                rhs = ["c", b]
            else:
                lhs = A.gen_expr(rng, pool, rng.choice([0, 1, 2]), locs, style)
                rhs = A.gen_expr(rng, idx, rng.choice([0, 1, 2]), locs, style)
                mode = "keep"
            lines.append(dict(lhs=lhs, cmp=c, rhs=rhs, eqeq=bool(c == "=" and rng.random() < 0.25)))
            places.append(mode)
        if not ok:
            continue
        # all values finite and far from the overflow of pf**2
        good = True
        for l in lines:
            if not (A.finite_everywhere(l["lhs"], x) and A.finite_everywhere(l["rhs"], x)):
                good = False; break
            a, b = A.pyeval(l["lhs"], x), A.pyeval(l["rhs"], x)
            if not (abs(a) < 1e120 and abs(b) < 1e120):
                good = False; break
        if good:
            break
    else:
        lines = [dict(lhs=["v", 0], cmp="<=", rhs=["v", 1], eqeq=False)]
        x = [1.0] * nv
        places = ["keep"]
    used = set()
    for l in lines:
        used |= A.evars(l["lhs"]) | A.evars(l["rhs"])
    nvars = nv if (scheme["type"] != "names" and rng.random() < 0.3) else None
    case = dict(kind="pen", scheme=scheme, nv=nv, lines=lines, locals=locs, tl=tl, x=x, nvars=nvars, kopt=rng.choice(K_CHOICES),
                fmt=[rng.randint(0, 34) for _ in lines], places=places)
    if rng.random() < 0.03 and used and max(used) > 0:
        case["x"] = x[:max(used)]
    return case


def _gen_iso(rng, tier):
    for _ in range(50):
        c = C13._gen_sys(rng, tier)
        if c["cls"] in ("single", "nofeed", "neqcombo") and all(abs(v) < 1e100 for v in c["x"]):
            ok = True
            for l in c["lines"]:
                if abs(A.pyeval(l["rhs"], c["x"])) > 1e100:
                    ok = False
            if ok:
                break
    c = dict(c, kind="iso", kopt=rng.choice(K_CHOICES))
    return c


def generate(rng, n, tier):
    # fixed regression points: the F7 sliver, seen through the condition / the penalty
    yield dict(kind="pen", scheme={"type": "x"}, nv=2, lines=[dict(lhs=["v", 0], cmp=">", rhs=["v", 1], eqeq=False)], locals={},
               tl=None, x=[5e-16, 0.0], nvars=None, kopt=None, fmt=[0], places=["sliver-above"])
    # deterministic boundary sweep (every run, every seed): each comparator x each placement of x0 around rhs = x1
    for c in A.CMPS:
        for mode in A.PLACEMENTS[1:]:
            for f in (0.0, 3.0, -1e+20):
                v = A.place(rng, mode, f, 1e-15, 1e-15)
                yield dict(kind="iso", cls="single", scheme={"type": "x"}, nv=2, lines=[dict(lhs=0, cmp=c, rhs=["v", 1], eqeq=False)],
                           locals={}, tl=None, x=[v, f], nvars=None, kopt=None, fmt=[0], places=[mode])
    for i in range(n):
        if rng.random() < 0.3:
            yield _gen_iso(rng, tier)
        else:
            yield _gen_pen(rng, tier)


# ------------------------------------------------------------------ implementation
def _glines(case):
    """lines as (lhs tree, cmp, rhs tree) for both kinds"""
    if case["kind"] == "iso":
        return [(["v", l["lhs"]], l["cmp"], l["rhs"]) for l in case["lines"]]
    return [(l["lhs"], l["cmp"], l["rhs"]) for l in case["lines"]]


def case_text(case):
    sch = case["scheme"]
    rows = []
    for (lh, c, rh), l in zip(_glines(case), case["lines"]):
        cc = "==" if l.get("eqeq") else c
        rows.append((A.text(lh, sch, top=True), cc, A.text(rh, sch, top=True)))
    return A.build_text(case["fmt"], rows)


def run_impl(case):
    import warnings
    warnings.simplefilter("ignore")
    import mystic.symbolic as ms
    txt = case_text(case)
    locs = dict(case["locals"])
    if case["tl"]:
        locs.update(case["tl"])
    use_locals = bool(locs) or case["tl"] is not None
    var = A.mystic_variables(case["scheme"])
    kw = dict(case["kopt"] or {})
    out = {"text": txt}
    try:
        cond = ms.generate_conditions(txt, variables=var, nvars=case["nvars"], locals=dict(locs) if use_locals else None)
        ineq, eq = cond
        pen = ms.generate_penalty(cond, **kw)
        # an unrelated compilation with other tolerances / extra names must not influence functions compiled earlier
        try:
            ms.generate_penalty(ms.generate_conditions("x0 > x1 + zz", nvars=2, locals=dict(tol=0.125, rel=0.5, zz=3.0)))
            ms.generate_conditions("x0 < 2.0", nvars=1, locals=dict(tol=0.0, rel=0.0))
        except Exception:
            pass
        x = list(case["x"])
        out["ineq"] = [float(f(list(x))) for f in ineq]
        out["eq"] = [float(f(list(x))) for f in eq]
        out["names"] = [f.__name__ for f in ineq] + [f.__name__ for f in eq]
        out["p"] = float(pen(list(x)))
        # the same conditions combined with join=and_ / or_ (coupler): the multipliers must reach the per-group penalties
        try:
            from mystic.coupler import and_ as _pand, or_ as _por
            out["p_and"] = float(ms.generate_penalty(cond, join=_pand, **kw)(list(x)))
            out["p_or"] = float(ms.generate_penalty(cond, join=_por, **kw)(list(x)))
        except Exception as e:
            out["p_join_error"] = "%s: %s" % (type(e).__name__, str(e)[:120])
        # the iteration counter of the stacked per-line terms: set to 3 and back to 0, the penalty is the n = 0 sum again
        try:
            if hasattr(pen, "iter"):
                pen.iter(3); out["p_iter3"] = float(pen(list(x))); pen.iter(0); out["p_iter0"] = float(pen(list(x)))
        except Exception as e:
            out["p_iter_error"] = "%s: %s" % (type(e).__name__, str(e)[:120])
        # one penalty kind named for all lines: the sum of that kind's terms over EVERY compiled line
        try:
            import mystic.penalty as _mp
            kk = dict(k=kw["k"]) if "k" in kw else {}
            out["p_single"] = float(ms.generate_penalty(cond, ptype=_mp.linear_inequality, **kw)(list(x)))
            # linear_inequality at iteration 0: 2k * max(0, condition) per line (k = 100 unless given)
            out["p_single_ref"] = float(sum(2.0 * kk.get("k", 100) * max(0.0, float(f(list(x)))) for f in list(ineq) + list(eq)))
        except Exception as e:
            out["p_single_error"] = "%s: %s" % (type(e).__name__, str(e)[:120])
        # the same conditions handed over in another order (equalities first; interleaved flat list): the penalty kind goes with the condition
        try:
            out["p_rev"] = float(ms.generate_penalty((eq, ineq), **kw)(list(x)))
            flat = [f for pair in zip(list(ineq) + [None] * len(eq), list(eq) + [None] * len(ineq)) for f in reversed(pair) if f is not None]
            out["p_flat"] = float(ms.generate_penalty(flat, **kw)(list(x))) if flat else 0.0
        except Exception as e:
            out["p_order_error"] = "%s: %s" % (type(e).__name__, str(e)[:120])
        if case["kind"] == "iso":
            solv = ms.generate_solvers(txt, variables=var, nvars=case["nvars"], locals=dict(locs) if use_locals else None)
            con = ms.generate_constraint(solv)
            y = [float(v) for v in con(list(x))]
            out["y"] = y
            out["py"] = float(pen(list(y)))
    except Exception as e:
        out["error"] = type(e).__name__
        out["msg"] = str(e)[:200]
    return out


# ------------------------------------------------------------------ oracle
def _fail(clause, site, pattern, detail):
    return dict(clause=clause, site=site, pattern=pattern, detail=detail)


def _expected_error(case):
    tol, rel = A.tolrel(case["tl"])
    if tol < 0 or rel < 0:
        return "ValueError"
    used = set()
    for lh, c, rh in _glines(case):
        used |= A.evars(lh) | A.evars(rh)
    if used and max(used) >= len(case["x"]):
        return "IndexError"
    return None


def _split(case):
    """indices of the lines in the order generate_conditions returns them: (inequality lines, equality lines)"""
    gl = _glines(case)
    ine = [j for j, (_, c, _) in enumerate(gl) if c in ("<", "<=", ">=", ">")]
    eqs = [j for j, (_, c, _) in enumerate(gl) if c in ("=", "!=")]
    return ine, eqs


def oracle(case, obs):
    if "__exception__" in obs:
        return [_fail("no-crash", "harness.run_impl", obs["__exception__"], obs.get("__msg__"))]
    out = []
    exp_err = _expected_error(case)
    if "error" in obs or exp_err:
        if obs.get("error") != exp_err:
            out.append(_fail("errors", "symbolic.generate_conditions", "unexpected-outcome",
                             dict(expected=exp_err, got=obs.get("error"), msg=obs.get("msg"))))
        return out
    tol, rel = A.tolrel(case["tl"])
    k = _kval(case["kopt"])
    x = case["x"]
    gl = _glines(case)
    ine, eqs = _split(case)
    if len(obs["ineq"]) != len(ine) or len(obs["eq"]) != len(eqs):
        return [_fail("cond_orientation", "symbolic.penalty_parser", "wrong-classification",
                      dict(ineq=len(obs["ineq"]), eq=len(obs["eq"]), expected=(len(ine), len(eqs))))]
    vals = {}
    for j, v in zip(ine, obs["ineq"]):
        vals[j] = v
    for j, v in zip(eqs, obs["eq"]):
        vals[j] = v
    sliver = []
    all_hold, all_sat = True, True
    tiny_violation = False
    for j, (lh, c, rh) in enumerate(gl):
        a, b = A.pyeval(lh, x), A.pyeval(rh, x)
        v = vals[j]
        t = A.tolerance(b, tol, rel)
        h = A.holds(c, a, b)
        sat = (v == 0) if c in ("=", "!=") else (v <= 0)
        all_hold &= h
        all_sat &= sat
        if not sat and abs(v) < 1e-150:
            tiny_violation = True
        if c in ("=", "<="):
            if v != a - b:
                out.append(_fail("cond_value", "symbolic.penalty_parser", "not-lhs-minus-rhs:" + c, dict(line=j, a=a, b=b, v=v)))
        elif c == ">=":
            if v != -(a - b):
                out.append(_fail("cond_value", "symbolic.penalty_parser", "not-lhs-minus-rhs:" + c, dict(line=j, a=a, b=b, v=v)))
        elif c == "!=":
            if v not in (0.0, 1.0):
                out.append(_fail("cond_value", "symbolic.penalty_parser", "not-indicator:" + c, dict(line=j, a=a, b=b, v=v)))
        if c in ("=", "<=", ">=", "!="):
            if h != sat:
                out.append(_fail("cond_orientation", "symbolic.penalty_parser", "orientation:" + c, dict(line=j, a=a, b=b, v=v)))
        else:
            # strict: value <= 0 iff the relation holds with margin tol(b); |value - (+-(a-b))| is the tolerance term
            edge = (b - t) if c == "<" else (b + t)
            margin = (a <= edge) if c == "<" else (a >= edge)
            absorbed = (edge == b)
            if sat != margin:
                out.append(_fail("cond_orientation", "symbolic.penalty_parser", "strict-margin:" + c, dict(line=j, a=a, b=b, v=v, t=t)))
            elif sat and not h and not absorbed:
                out.append(_fail("cond_orientation", "symbolic.penalty_parser", "strict-unsound:" + c, dict(line=j, a=a, b=b, v=v, t=t)))
            elif h and not sat:
                in_sliver = (b - t < a < b) if c == "<" else (b < a < b + t)
                if in_sliver:
                    sliver.append(j)
                else:
                    out.append(_fail("cond_orientation", "symbolic.penalty_parser", "orientation:" + c, dict(line=j, a=a, b=b, v=v, t=t)))
    # ---- penalty
    p = obs["p"]
    F = Fraction
    exp = sum(2 * F(k) * max(F(0), F(obs["ineq"][n])) ** 2 for n in range(len(ine))) + sum(F(k) * F(obs["eq"][n]) ** 2 for n in range(len(eqs)))
    if not (p == p) or p < 0:
        out.append(_fail("penalty_positive_elsewhere", "symbolic.generate_penalty", "negative-or-nan", p))
    elif abs(F(p) - exp) > F(1, 10 ** 9) * max(abs(exp), F(p)) and not (exp < F(1, 10 ** 300)):
        out.append(_fail("penalty_is_sum_of_terms", "symbolic.generate_penalty", "not-the-sum", dict(p=p, expected=float(exp), k=k)))
    if "p_iter0" in obs and p == p and (obs["p_iter0"] != p) and not (obs["p_iter0"] != obs["p_iter0"]):
        out.append(_fail("penalty_is_sum_of_terms", "penalty.iter", "iter-0-does-not-reset-the-multiplier", dict(p=p, after_iter0=obs["p_iter0"], at_iter3=obs.get("p_iter3"))))
    if "p_iter_error" in obs:
        out.append(_fail("penalty_is_sum_of_terms", "penalty.iter", "iter-raised", obs["p_iter_error"]))
    if "p_single" in obs:
        a_, b_ = obs["p_single"], obs["p_single_ref"]
        if a_ == a_ and b_ == b_ and abs(a_) != float("inf") and abs(b_) != float("inf") and abs(F(a_) - F(b_)) > F(1, 10 ** 9) * max(abs(F(a_)), abs(F(b_))):
            out.append(_fail("penalty_is_sum_of_terms", "symbolic.generate_penalty", "single-ptype-not-applied-to-every-line", dict(p=a_, expected=b_)))
    if "p_single_error" in obs:
        out.append(_fail("penalty_is_sum_of_terms", "symbolic.generate_penalty", "single-ptype-rejected", obs["p_single_error"]))
    for key in ("p_rev", "p_flat"):
        q = obs.get(key)
        if q is not None and p == p and p >= 0 and p != float("inf") and not (exp < F(1, 10 ** 300)):
            if not (q == q) or q == float("inf") or abs(F(q) - exp) > F(1, 10 ** 9) * max(abs(exp), abs(F(q))):
                out.append(_fail("penalty_is_sum_of_terms", "symbolic.generate_penalty", "not-the-sum:conditions-reordered", dict(which=key, p=q, expected=float(exp), k=k)))
    if "p_order_error" in obs:
        out.append(_fail("penalty_is_sum_of_terms", "symbolic.generate_penalty", "reordered-conditions-rejected", obs["p_order_error"]))
    if "p_and" in obs and p == p and p >= 0 and p != float("inf"):
        pa, po = obs["p_and"], obs["p_or"]
        if not (pa == pa) or abs(F(pa) - F(p)) > F(1, 10 ** 9) * max(F(p), F(abs(pa))):
            out.append(_fail("penalty_is_sum_of_terms", "symbolic.generate_penalty", "join-and-differs-from-sum", dict(p=p, p_and=pa, k=k)))
        if not (po == po) or po < 0 or F(po) > F(pa) * (1 + F(1, 10 ** 9)):
            out.append(_fail("penalty_is_sum_of_terms", "symbolic.generate_penalty", "join-or-above-join-and", dict(p_or=po, p_and=pa, k=k)))
    if all_sat and p != 0.0:
        out.append(_fail("penalty_zero_iff_all_hold", "symbolic.generate_penalty", "positive-on-satisfied", dict(p=p)))
    if not all_sat and p == 0.0 and not tiny_violation:
        out.append(_fail("penalty_positive_elsewhere", "symbolic.generate_penalty", "zero-on-violated", dict(p=p, ineq=obs["ineq"], eq=obs["eq"])))
    if all_hold and p != 0.0 and not sliver and not out:
        out.append(_fail("penalty_zero_iff_all_hold", "symbolic.generate_penalty", "positive-on-holding-text", dict(p=p)))
    # ---- constraint then penalty
    if case["kind"] == "iso" and case.get("cls") in ("single", "nofeed") and "py" in obs:
        absorbed = False
        for l in case["lines"]:
            if l["cmp"] == "!=":
                f = A.pyeval(l["rhs"], x)
                if not (x[l["lhs"]] + A.tolerance(f, tol, rel) * 1.1 != x[l["lhs"]]):
                    absorbed = True
        if obs["py"] != 0.0 and not absorbed:
            out.append(_fail("constraint_then_penalty_zero", "symbolic.generate_penalty", "penalty-after-constraint-nonzero",
                             dict(y=obs["y"], py=obs["py"])))
    if sliver and not out:
        out.append(_fail("cond_orientation", SITE_STRICT, PAT_STRICT,
                         dict(lines=sliver, x=x, ineq=obs["ineq"], p=p,
                              note="rhs-tol(rhs) < lhs < rhs satisfies the strict relation but the condition value / penalty is positive")))
    return out


# ------------------------------------------------------------------ Coq side
def coq_preamble():
    return A.PREAMBLE


def _gsys_term(case):
    rows = ["(G %s %s %s)" % (A.gal(lh), A.COQ_CMP[c], A.gal(rh)) for lh, c, rh in _glines(case)]
    return "(%s : list (grel NumF))" % lst(rows)


def coq_terms(case, obs):
    if "__exception__" in obs:
        return []
    tol, rel = A.tolrel(case["tl"])
    tt = "%s %s" % (flit(tol), flit(rel))
    k = flit(_kval(case["kopt"]))
    g = _gsys_term(case)
    x = A.fl(case["x"])
    if "error" in obs:
        return ["opair_eq (compiled_conditions F %s %s %s) None" % (tt, g, x),
                "oclose (compiled_penalty F %s %s %s %s) None" % (tt, k, g, x)]
    T = ["opair_eq (compiled_conditions F %s %s %s) (Some (%s, %s))" % (tt, g, x, A.fl(obs["ineq"]), A.fl(obs["eq"])),
         "oclose (compiled_penalty F %s %s %s %s) (Some %s)" % (tt, k, g, x, flit(obs["p"]))]
    if case["kind"] == "iso" and "y" in obs:
        T.append("ovec_eq (compiled_constraint F %s %s %s) (Some %s)" % (tt, C13._sys_term(case), x, A.fl(obs["y"])))
        T.append("oclose (compiled_penalty F %s %s (map (grel_of_rel F) %s) %s) (Some %s)" % (tt, k, C13._sys_term(case), A.fl(obs["y"]), flit(obs["py"])))
    return T


def coq_debug(case, obs, k):
    t = coq_terms(case, obs)[k]
    inner = t[t.index(" ") + 1:]
    depth, end = 0, None
    for pos, ch in enumerate(inner):
        if ch == "(":
            depth += 1
        elif ch == ")":
            depth -= 1
            if depth == 0:
                end = pos; break
    return inner[:end + 1]


def classify(case, obs):
    tags = ["kind:" + case["kind"], "scheme:" + case["scheme"]["type"], "lines:%d" % len(case["lines"]),
            "nv>=11:" + str(case["nv"] >= 11), "tolrel:" + ("default" if case["tl"] is None else "override"),
            "k:" + ("default" if not (case["kopt"] or {}).get("k") else "override"),
            "outcome:" + ("error:" + obs["error"] if "error" in obs else "ok")]
    for l in case["lines"]:
        tags.append("cmp:" + ("==" if l.get("eqeq") else l["cmp"]))
    for p in case.get("places", []):
        tags.append("place:" + p)
    if case["locals"]:
        tags.append("extra-locals")
    if "p" in obs:
        tags.append("penalty:" + ("zero" if obs["p"] == 0.0 else "positive"))
    nontrivial = ("p" in obs and obs["p"] != 0.0) or any(p != "keep" for p in case.get("places", []))
    return json.dumps(case, sort_keys=True), bool(nontrivial), tags


def shrink(case):
    if len(case["lines"]) > 1:
        for i in range(len(case["lines"])):
            yield dict(case, lines=case["lines"][:i] + case["lines"][i + 1:], fmt=case["fmt"][:i] + case["fmt"][i + 1:],
                       places=(case.get("places") or [])[:i] + (case.get("places") or [])[i + 1:])
    for kk, l in enumerate(case["lines"]):
        for side in ("lhs", "rhs"):
            e = l[side]
            if isinstance(e, list) and e[0] not in ("c", "l", "v"):
                for sub in e[1:]:
                    if isinstance(sub, list):
                        yield dict(case, lines=case["lines"][:kk] + [dict(l, **{side: sub})] + case["lines"][kk + 1:])
    if case["scheme"]["type"] != "x":
        yield dict(case, scheme={"type": "x"})
    if case["fmt"] != [0] * len(case["fmt"]):
        yield dict(case, fmt=[0] * len(case["fmt"]))
    if case.get("kopt"):
        yield dict(case, kopt=None)
