"""C16 - constraint transforms land in their target set and leave conforming input alone.

A case is (transform, parameters, vector, container).  run_impl evaluates decorator(...)(identity)(x) on the real mystic code
(and once more on the result: idempotence), recording numpy.random / random draws from outside.  The oracle states the
property per transform with exact rational arithmetic; coq_terms asks the Gallina model (coq/Pure/Transforms.v, executed
over Q) for the same vector.
"""
import json, math
from fractions import Fraction as F
from harness.coqio import qlit, natlit, zlit, lst, opt, blit

ID = "C16"
TITLE = "Constraint transforms land in their target set and leave conforming input alone"
PROPS_FILE = "Props/Properties_C16.v"
LEVEL = "proof"
SIZES = {"quick": 4000, "thorough": 60000}
PARALLEL = True
SHARD = 400
RULE = ("case = (transform, parameters, vector x, list|ndarray); transforms: impose_bounds (list/dict bounds, 1-3 intervals, None ends, "
        "clip/nearest modes with recorded numpy.random draws), discrete, integers, rounded, precision, sorting, monotonic, impose_at, "
        "impose_as, impose_unique, masked, partial, synchronized, suppressed, clipped, with_mean, with_variance, with_spread, normalized; "
        "the decorated function is also reconfigured through its attributes (samples/index/type/digits/clip/nearest) after being built with other "
        "parameters, with unsorted, reversed and duplicated sample sets; "
        "x of length 0-8 on the dyadic grid k/4 (plus values exactly on bounds / samples / midpoints / .5 ties); index forms None, int, "
        "negative, out-of-range, tuples (sorted, unsorted, with duplicates, empty, with one bad member); non-trivial = len(x) >= 2; "
        "distinct = distinct case JSON")
TRUSTED = ["real-number axioms of Coq's standard library (Reals) for the theorems stated over NumR (bounds, discrete, moments, unique)",
           "execution of the model over Q on dyadic inputs, where every float operation performed by the implementation is exact; "
           "compared exactly, except rounded/precision with digits != 0, the drawing modes of impose_bounds (clip=False), "
           "suppressed(clip=False) and with_mean/with_variance/with_spread/normalized: relative tolerance 1e-9 (float division, "
           "multiplication by 10^d and sqrt are not exact)",
           "numpy.random.choice/uniform and random.shuffle are recorded from outside (module attributes of mystic.constraints) and replayed to the model"]
ASSUMPTIONS = ["IEEE rounding is modelled, not verified (see trusted base for where a tolerance is used)",
               "index selection is the code's: a tuple with one out-of-range member selects nothing (numpy IndexError path) for "
               "discrete/integers/rounded/precision; negative or out-of-range indices select nothing for impose_bounds; sorting/monotonic "
               "and impose_at (i < -len) reject out-of-range indices with IndexError -- these rejections are accepted by the oracle",
               "unique(full=float|int|dict|None) draws fresh values at random: oracle only (distinctness holds unless a draw collides)",
               "integer-typed input vectors (numpy truncates assigned values to the array dtype) are checked by the oracle only",
               "impose_as: masks in which every entry tracks at most one partner and no cycle occurs; cyclic masks do not terminate in the real code and are not generated"]
META = dict(
    technique="Coq proof (induction over vectors / index lists; real and rational arithmetic) + model/implementation correspondence by vm_compute",
    level_text=("For each transform the Gallina model is proved to put the selected entries into the target set, to leave unselected and "
                "conforming entries unchanged and to be idempotent (for all vectors, index selections and parameters); input-rewriting "
                "decorators are proved to change exactly the addressed entries.  The model is tied to mystic.constraints / mystic.tools / "
                "mystic.math.measures by running both on generated cases on every run."),
    level_note=("Modelled + proved + compared on every run: impose_bounds/bounded (list and dict bounds, None ends, all four clip/nearest modes; "
                "random modes proved for any recorded draws in range), discrete, integers, rounded/precision, sorting, monotonic, impose_at, "
                "masked/insert_missing, partial, synchronized (index and (index,factor) sources), suppressed(clip=True), clipped (scalar bounds), "
                "with_mean, with_variance (sqrt as an explicit premise), with_spread, normalized, impose_unique(full=list, any shuffle). "
                "Modelled + compared, partly proved: impose_as (length, untouched entries, single pair; the general clause is refuted by three "
                "witnesses), suppressed(clip=False) (compared within 1e-9, no theorem). Oracle only: impose_unique(full=None|int|float|dict), "
                "outer=/exit= variants (identical under the identity function). Not covered: integer-dtype input vectors with non-integral "
                "parameters (numpy truncates on assignment), callable sources of synchronized, vector-valued clipped bounds, with_std, "
                "cyclic impose_as masks (the real loop does not terminate), an int passed to the index() setter (API misuse: TypeError on the next call). "
                "Refuted clauses = known findings: integers(ints=True,index) truncates unselected entries; impose_as with an offset drifts when the "
                "group root chosen by connected() is itself tracked, or when a partner index is out of range. Repaired in /repo and now proved / "
                "checked as plain property clauses: impose_at list target with dropped indices, synchronized (index,factor) sources on ndarrays, "
                "connected() merging bridged groups, suppressed(clip=False) on an empty vector. Theorems over R use the stdlib real axioms."),
    design_ref="5/C16")

# ---------------------------------------------------------------------------------------------- generation

TRANSFORMS = (["bounds"] * 10 + ["discrete"] * 5 + ["integers"] * 3 + ["rounded"] * 3 + ["precision"] * 2 + ["sorting"] * 3 +
              ["monotonic"] * 3 + ["impose_at"] * 4 + ["impose_as"] * 3 + ["unique"] * 3 + ["masked"] * 2 + ["partial"] * 2 +
              ["synchronized"] * 3 + ["suppressed"] * 2 + ["clipped"] * 2 + ["with_mean"] * 2 + ["with_variance"] * 2 +
              ["with_spread"] * 2 + ["normalized"] * 2)


def _val(rng, lo=-12, hi=48):
    return rng.randint(lo, hi) / 4.0


def _vec(rng, n=None, special=()):
    n = rng.choice([0, 1, 1, 2, 2, 3, 3, 4, 4, 5, 6, 7, 8]) if n is None else n
    special = list(special)
    return [float(rng.choice(special)) if special and rng.random() < 0.45 else _val(rng) for _ in range(n)]


def _idx(rng, n, allow_empty=True):
    r = rng.random()
    if r < 0.28:
        return None
    if r < 0.36:
        return rng.randrange(n) if n else 0
    if r < 0.42:
        return -rng.randint(1, n) if n else -1
    if r < 0.47:
        return rng.choice([n, n + 2, -n - 1])
    if r < 0.50 and allow_empty:
        return []
    if n == 0:
        return [0]
    k = rng.randint(1, min(n, 4))
    ps = rng.sample(range(n), k)
    if r < 0.72:
        return sorted(ps)
    if r < 0.80:
        return ps
    if r < 0.88:
        return [p - n if rng.random() < 0.5 else p for p in ps]
    if r < 0.94:
        return ps + [rng.choice([n, n + 1, -n - 1])]
    return ps + [rng.choice(ps)]


def _intervals(rng):
    k = rng.choice([1, 1, 1, 2, 2, 3])
    kind = rng.random()
    bs = []
    if kind < 0.7:      # disjoint increasing
        cur = rng.randint(-2, 3)
        for _ in range(k):
            w = rng.choice([0, 1, 2, 3, 5])
            bs.append([float(cur), float(cur + w)])
            cur += w + rng.choice([1, 2, 2, 3, 4])
        if rng.random() < 0.3:
            rng.shuffle(bs)
    else:               # arbitrary (overlapping, nested, degenerate)
        for _ in range(k):
            a = rng.randint(-2, 10)
            bs.append([float(a), float(a + rng.choice([0, 0, 1, 2, 4, 8]))])
    if k == 1 and rng.random() < 0.25:
        bs[0][rng.randrange(2)] = None
    elif k > 1 and rng.random() < 0.15:
        lo_i = min(range(k), key=lambda i: bs[i][0])
        hi_i = max(range(k), key=lambda i: bs[i][1])
        if rng.random() < 0.5:
            bs[lo_i][0] = None
        else:
            bs[hi_i][1] = None
    if rng.random() < 0.03:
        bs[0] = [bs[0][1], bs[0][0]] if None not in bs[0] else bs[0]   # possibly empty interval (malformed)
    return bs


def _offset_loop_terminates(pairs):
    """impose_as's `while pairs:` loop (on the integer labels) -- it spins forever on a cyclic mask"""
    pairs = [tuple(p) for p in pairs]
    for _ in range(len(pairs) + 2):
        if not pairs:
            return True
        trac = set(j for _, j in pairs)
        indx = trac & set(i for i, _ in pairs)
        pairs = [m for m in pairs if m[0] in indx]
    return False


def _bspecial(bs):
    out = []
    ends = [v for b in bs for v in b if v is not None]
    for v in ends:
        out += [v, v - 0.25, v + 0.25]
    ends = sorted(set(ends))
    out += [(a + b) / 2 for a, b in zip(ends, ends[1:])]
    return out or [0.0]


def generate(rng, n, tier):
    for _ in range(n):
        t = rng.choice(TRANSFORMS)
        c = dict(t=t, arr=rng.random() < 0.4, seed=rng.randrange(1 << 30))
        if t == "bounds":
            mode = rng.choice(["clipnear"] * 6 + ["cliprand", "drawnear", "drawrand"])
            if rng.random() < 0.2:
                nkeys = rng.randint(1, 3)
                x = _vec(rng, rng.randint(1, 8))
                keys = rng.sample(range(len(x) + 1), min(nkeys, len(x) + 1))
                d = [[k, _intervals(rng)] for k in keys]
                if mode != "clipnear":
                    d = [[k, [[(0.0 if v is None else v) for v in b] for b in bs]] for k, bs in d]
                sp = [v for _, bs in d for v in _bspecial(bs)]
                x = [float(rng.choice(sp)) if rng.random() < 0.5 else v for v in x]
                idx = None if (rng.random() < 0.6 or mode != "clipnear") else rng.sample(range(len(x) + 1), rng.randint(0, min(3, len(x) + 1)))
                c.update(form="dict", d=d, idx=idx, mode=mode, x=x)
            else:
                bs = _intervals(rng)
                if mode in ("drawnear", "drawrand"):
                    bs = [[(0.0 if v is None else v) for v in b] for b in bs]
                x = _vec(rng, special=_bspecial(bs))
                c.update(form="list", bs=bs, idx=_idx(rng, len(x)), mode=mode, x=x, flat=(len(bs) == 1 and rng.random() < 0.5))
        elif t == "discrete":
            m = rng.choice([0, 1, 2, 3, 3, 4, 5])
            s = [float(rng.randint(-4, 12)) / rng.choice([1, 1, 2]) for _ in range(m)]
            sp = s + [(a + b) / 2 for a in s for b in s] + [v + 0.25 for v in s]
            x = _vec(rng, special=sp or [0.0])
            c.update(samples=s, idx=_idx(rng, len(x)), x=x)
        elif t == "integers":
            x = _vec(rng, special=[0.5, 1.5, 2.5, -0.5, -1.5, 3.0, -2.0, 0.0, 0.75, -3.5])
            c.update(ints=rng.choice([True, False, False]), idx=_idx(rng, len(x)), x=x)
        elif t in ("rounded", "precision"):
            d = rng.choice([0, 0, 1, 1, 2, -1, None])
            dd = d or 0
            sp = [0.5, 1.5, 2.5, -0.5, 0.125, 0.375, 0.25, 0.75, -0.125, 2.0, 25.0, 35.0, 15.0, -45.0, 5.0, 12.5,
                  float(F(rng.randint(-99, 99), 10 ** max(dd, 0))), float(F(rng.randint(-99, 99), 10 ** max(dd, 0)))]
            x = _vec(rng, special=sp)
            if dd < 0:
                x = [v * 10 for v in x]
            c.update(digits=d, idx=_idx(rng, len(x)), x=x)
        elif t in ("sorting", "monotonic"):
            x = [float(rng.randint(-2, 5)) if rng.random() < 0.7 else _val(rng) for _ in range(rng.choice([0, 1, 2, 3, 4, 5, 6, 8]))]
            if rng.random() < 0.2:
                x = sorted(x, reverse=rng.random() < 0.4)
            c.update(asc=rng.random() < 0.6, outer=rng.random() < 0.3, idx=_idx(rng, len(x)), x=x)
        elif t == "impose_at":
            x = _vec(rng)
            n0 = len(x)
            k = rng.choice([0, 1, 1, 2, 2, 3, 4])
            index = [rng.randint(-n0 - 1, n0 + 2) if rng.random() < 0.35 else (rng.randrange(n0) if n0 else 0) for _ in range(k)]
            r = rng.random()
            if r < 0.45:
                target = _val(rng)
            elif r < 0.9:
                target = [_val(rng) for _ in index]
            else:
                target = [_val(rng) for _ in range(rng.choice([1, max(0, k - 1), k + 1]))]
            c.update(index=index, target=target, x=x)
        elif t == "impose_as":
            x = _vec(rng, rng.randint(0, 8))
            n0 = max(len(x), 2)
            nodes = list(range(n0 + (1 if rng.random() < 0.2 else 0)))
            rng.shuffle(nodes)
            pairs = []
            for q in range(1, len(nodes)):         # random forest: nodes[q] tracks an earlier node
                if rng.random() < 0.55:
                    pairs.append([nodes[rng.randrange(q)], nodes[q]])
            pairs = pairs[:5]
            rng.shuffle(pairs)
            if rng.random() < 0.15 and pairs:
                a = rng.choice(rng.choice(pairs))   # one entry is named by its negative index everywhere (may be out of range)
                pairs = [[i - len(x) if i == a else i, j - len(x) if j == a else j] for i, j in pairs]
            off = rng.choice([None, 0.0, 0.0, 1.0, 0.5, -2.0])
            if rng.random() < 0.2 and len(pairs) >= 2 and len(x) >= 3:
                # a pair that bridges two groups (an entry tied to two partners): only meaningful without an offset
                a, b_ = rng.sample(range(len(pairs)), 2)
                pairs.append([pairs[a][rng.randrange(2)], pairs[b_][1]])
                pairs = [p for i, p in enumerate(pairs) if p[0] != p[1] and p not in pairs[:i]]
                off = rng.choice([None, 0.0])
            if rng.random() < 0.15 and len(x) >= 3:
                # the docstring shape: one entry tracks two free partners (they are made equal), with an offset; possibly a follower behind it
                idx_ = rng.sample(range(len(x)), min(len(x), 4))
                pairs = [[idx_[0], idx_[2]], [idx_[1], idx_[2]]] + ([[idx_[2], idx_[3]]] if len(idx_) == 4 and rng.random() < 0.5 else [])
                off = rng.choice([1.0, 0.5, -2.0, 10.0])
            if not _offset_loop_terminates(pairs):
                pairs = []
            _n = len(x) or 1
            _tracked = set(j % _n for _, j in pairs)
            _fanin = [j for j in _tracked if len(set(i % _n for i, jj in pairs if jj % _n == j)) > 1]
            # (an entry tracking two partners that are themselves free entries is fine: the partners are made equal, as in the docstring example)
            if off and any((i % _n) in _tracked for j in _fanin for i, jj in pairs if jj % _n == j):
                # an entry that tracks two different partners: with a non-zero offset both relations hold only if the partners (entries that are
                # not selected) already agree - no target set to land in; such masks are meaningful without an offset only
                off = rng.choice([None, 0.0])
            c.update(mask=pairs, offset=off, x=x)
        elif t == "unique" and rng.random() < 0.3:
            kind = rng.choice(["none", "int", "float", "dict"])
            x = [rng.randint(0, 6) for _ in range(rng.choice([1, 2, 3, 4, 5, 6]))]
            if kind in ("float", "none") and rng.random() < 0.5:
                x = [v + rng.choice([0.0, 0.5]) for v in x]
            c.update(full=kind, x=x, lo=min(x) - rng.randint(0, 2), hi=max(x) + rng.randint(1, 3), arr=False)
        elif t == "unique":
            full = [float(v) for v in rng.sample(range(-3, 9), rng.randint(0, 7))]
            if rng.random() < 0.3 and full:      # allowed values named more than once (also as int and float): still one candidate each
                for _ in range(rng.choice([1, 2, 3])):
                    full.insert(rng.randrange(len(full) + 1), rng.choice(full))
            pool = full if rng.random() < 0.85 or not full else full + [20.0]
            x = [rng.choice(pool) for _ in range(rng.choice([0, 1, 2, 3, 4, 5, 6]))] if pool else []
            if rng.random() < 0.2:
                # a short allowed list in which one value is named twice or three times, an input that repeats ONE other value: the replacements
                # must still be pairwise distinct
                vals = [float(v) for v in rng.sample(range(-3, 9), rng.randint(3, 5))]
                full = vals + [vals[0]] * rng.choice([1, 2])
                rng.shuffle(full)
                x = [vals[1]] * rng.choice([2, 3])
            c.update(full=full, x=x)
        elif t == "masked":
            x = _vec(rng)
            m = rng.randint(0, 3)
            hi = len(x) + m + (1 if rng.random() < 0.2 else -1)
            keys = rng.sample(range(-1 if rng.random() < 0.1 else 0, max(hi + 1, 1)), min(m, max(hi + 1, 1)))
            c.update(mask=[[k, _val(rng)] for k in keys], x=x)
        elif t == "partial":
            x = _vec(rng)
            n0 = len(x)
            keys = rng.sample(range(-n0 - 1, n0 + 2), min(rng.randint(0, 4), 2 * n0 + 3))
            c.update(mask=[[k, _val(rng)] for k in keys], x=x)
        elif t == "synchronized":
            x = _vec(rng)
            n0 = len(x)
            keys = rng.sample(range(-n0 - 1, n0 + 2), min(rng.randint(0, 3), 2 * n0 + 3))
            mask = []
            for k in keys:
                j = rng.randint(-n0 - 1, n0 + 1)
                r = rng.random()
                mask.append([k, j] if r < 0.6 else [k, [j, rng.choice([2.0, -1.0, 0.5, 1.0, 0.0])]] if r < 0.9 else [k, [j]])
            c.update(mask=mask, x=x)
        elif t == "suppressed":
            tol = rng.choice([1.0, 0.5, 2.0, 0.25, 0.0])
            x = _vec(rng, special=[tol, -tol, tol - 0.25, 0.25 - tol, 0.0, tol + 0.25])
            c.update(tol=tol, clip=rng.random() < 0.65, exit=rng.random() < 0.3, x=x)
        elif t == "clipped":
            lo, hi = rng.choice([(0.0, 1.0), (None, 2.0), (-1.0, None), (None, None), (1.0, 1.0), (-2.0, 3.5), (2.0, 0.0)])
            x = _vec(rng, special=[v for v in (lo, hi) if v is not None] + [0.25, 0.5])
            c.update(lo=lo, hi=hi, exit=rng.random() < 0.3, x=x)
        else:   # moment transforms
            x = _vec(rng, rng.choice([0, 1, 2, 2, 3, 4, 5, 8]))
            if rng.random() < 0.1 and x:
                x = [x[0]] * len(x)
            r = rng.random()
            if t == "with_mean":
                cur = float(sum(F(v) for v in x) / len(x)) if x else 0.0
            elif t == "with_variance":
                if x:
                    m = sum(F(v) for v in x) / len(x)
                    cur = float(sum((F(v) - m) ** 2 for v in x) / len(x))
                else:
                    cur = 0.0
            elif t == "with_spread":
                cur = max(x) - min(x) if x else 0.0
            else:
                cur = float(sum(F(v) for v in x))
            if r < 0.25:
                target = cur
            elif r < 0.33:
                target = cur * (1 + 3e-8)
            elif r < 0.41:
                target = cur * (1 + 3e-7) if cur else 0.001
            else:
                target = rng.choice([1.0, 2.0, 0.5, 4.0, 0.0, 9.0]) if t != "with_mean" else _val(rng)
            if t == "with_variance" and r >= 0.41 and cur and rng.random() < 0.6:
                target = cur * rng.choice([4.0, 0.25, 9.0, 2.25])      # rational scale
            if t == "with_variance" and len(set(x)) > 1 and rng.random() < 0.1:
                x = [v * 2.0 ** -34 for v in x]                          # entries of size 1e-10: a variance of 1e-20 is small, not zero
                target = rng.choice([1.0, 2.0, 4.0])
            c.update(target=target, x=x)
        _add_via(rng, c)
        yield c


_MODES = ["clipnear", "cliprand", "drawnear", "drawrand"]


def _add_via(rng, c):
    """with some probability build the decorated function with DIFFERENT parameters and then set the final ones through the
    attributes it exposes (f.samples(), f.index(), f.type(), f.digits(), f.clip()/f.nearest()); the case fields stay the final ones"""
    t = c["t"]
    if t not in ("discrete", "integers", "rounded", "precision", "sorting", "monotonic", "bounds") or rng.random() > 0.4:
        return
    init = {}
    n = len(c["x"])
    if t == "discrete":
        if rng.random() < 0.85:
            r = rng.random()
            s = list(c["samples"])
            if r < 0.3:
                s = sorted(s, reverse=True)                     # reversed
            elif r < 0.55 and s:
                s = s + [rng.choice(s) for _ in range(rng.randint(1, 2))]      # duplicated
                rng.shuffle(s)
            elif r < 0.8:
                rng.shuffle(s)                                  # unsorted
            c["samples"] = s
            init["samples"] = rng.choice([[0.0, 50.0], [100.0], sorted(s)[:1] or [1.0]])
    if t == "integers" and rng.random() < 0.6:
        init["ints"] = not c["ints"]
    if t in ("rounded", "precision") and rng.random() < 0.6:
        init["digits"] = (c["digits"] or 0) + rng.choice([1, 2, -1])
    if t == "bounds":
        if c["form"] != "list" or c["mode"] in ("drawnear", "drawrand"):
            return
        init["mode"] = rng.choice([m for m in _MODES[:2] if m != c["mode"]])
    elif rng.random() < 0.6 or not init:
        if isinstance(c["idx"], int):
            c["idx"] = [c["idx"]]           # the setters store the index as given: an int is not converted to a tuple
        if t in ("sorting", "monotonic") and c["idx"] is not None and len(c["idx"]) == 1 and rng.random() < 0.5:
            pass
        init["idx"] = rng.choice([None, [0] if n else [], list(range(min(n, 2)))])
    c["via"] = dict(init=init)


# ---------------------------------------------------------------------------------------------- implementation driver

def _pyidx(idx):
    return tuple(idx) if isinstance(idx, list) else idx


def _decorator(case):
    import mystic.constraints as C
    import mystic.tools as T
    t = case["t"]
    if t == "bounds":
        clip = case["mode"] in ("clipnear", "cliprand")
        nearest = case["mode"] in ("clipnear", "drawnear")
        if case["form"] == "dict":
            b = dict((k, [tuple(p) for p in bs] if len(bs) > 1 else tuple(bs[0])) for k, bs in case["d"])
        else:
            b = [tuple(p) for p in case["bs"]]
            if case.get("flat"):
                b = b[0]
        return C.impose_bounds(b, index=_pyidx(case["idx"]), clip=clip, nearest=nearest)
    if t == "discrete":
        return C.discrete(list(case["samples"]), index=_pyidx(case["idx"]))
    if t == "integers":
        return C.integers(ints=case["ints"], index=_pyidx(case["idx"]))
    if t == "rounded":
        return C.rounded(case["digits"], index=_pyidx(case["idx"]))
    if t == "precision":
        return C.precision(case["digits"], index=_pyidx(case["idx"]))
    if t == "sorting":
        return C.sorting(ascending=case["asc"], outer=case["outer"], index=_pyidx(case["idx"]))
    if t == "monotonic":
        return C.monotonic(ascending=case["asc"], outer=case["outer"], index=_pyidx(case["idx"]))
    if t == "impose_at":
        return C.impose_at(list(case["index"]), case["target"] if not isinstance(case["target"], list) else list(case["target"]))
    if t == "impose_as":
        return C.impose_as([tuple(p) for p in case["mask"]], case["offset"])
    if t == "unique" and isinstance(case["full"], str):
        k = case["full"]
        full = {"none": None, "int": int, "float": float, "dict": dict(min=case["lo"], max=case["hi"]),
                "dictint": dict(min=case["lo"], max=case["hi"], type=int)}[k]
        return C.impose_unique(full)
    if t == "unique":
        return C.impose_unique(list(case["full"]))
    if t == "masked":
        return T.masked(dict((k, v) for k, v in case["mask"]))
    if t == "partial":
        return T.partial(dict((k, v) for k, v in case["mask"]))
    if t == "synchronized":
        return T.synchronized(dict((k, (tuple(j) if isinstance(j, list) else j)) for k, j in case["mask"]))
    if t == "suppressed":
        return T.suppressed(case["tol"], exit=case["exit"], clip=case["clip"])
    if t == "clipped":
        return T.clipped(case["lo"], case["hi"], exit=case["exit"])
    if t == "with_mean":
        return C.with_mean(case["target"])
    if t == "with_variance":
        return C.with_variance(case["target"])
    if t == "with_spread":
        return C.with_spread(case["target"])
    if t == "normalized":
        return C.normalized(case["target"])
    raise ValueError(t)


def _build(case):
    """decorator(...)(identity), possibly reconfigured through the attributes of the decorated function"""
    ident = lambda v: v
    via = case.get("via")
    if not via:
        return _decorator(case)(ident)
    f = _decorator(dict(case, **via["init"]))(ident)
    for key in via["init"]:
        if key == "samples":
            f.samples(list(case["samples"]))
        elif key == "idx":
            f.index(_pyidx(case["idx"]))
        elif key == "ints":
            f.type(case["ints"])
        elif key == "digits":
            f.digits(case["digits"])
        elif key == "mode":
            f.clip(case["mode"] in ("clipnear", "cliprand"))
            f.nearest(case["mode"] in ("clipnear", "drawnear"))
    return f


def _canon(r):
    import numpy as np
    vals = [float(v) for v in r]
    if any(v != v for v in vals):
        return dict(nan=True, n=len(vals))
    if any(math.isinf(v) for v in vals):
        return dict(inf=True, n=len(vals))
    return dict(v=vals, type="ndarray" if isinstance(r, np.ndarray) else type(r).__name__)


def _call(case, x, rec):
    """one application of decorator(identity) with recording of the random draws"""
    import numpy as np, random, warnings
    import mystic.constraints as C
    real = (C.choice, C.uniform, C.shuffle)

    def choice(n, size=None):
        r = real[0](n, size=size)
        rec["picks"].extend(int(v) for v in np.ravel(r))
        return r

    def uniform(a, b, size=None):
        r = real[1](a, b, size=size)
        rec["unifs"].extend(float(v) for v in np.ravel(r))
        return r

    def shuffle(l):
        real[2](l)
        rec["shuffled"].append([float(v) for v in l])

    C.choice, C.uniform, C.shuffle = choice, uniform, shuffle
    try:
        with warnings.catch_warnings():
            warnings.simplefilter("ignore")
            with np.errstate(all="ignore"):
                f = _build(case)
                r = f(x)
                rec["raw"] = r
                return _canon(r)
    except Exception as e:
        return dict(error=type(e).__name__, msg=str(e)[:120])
    finally:
        C.choice, C.uniform, C.shuffle = real


def _container(case, vals):
    import numpy as np
    if case["arr"]:
        return np.array(vals, dtype=float)
    if case["t"] == "unique" and isinstance(case.get("full"), str):
        return [int(v) if float(v) == int(v) and not isinstance(v, float) else v for v in vals]
    return [float(v) for v in vals]


def run_impl(case):
    import numpy as np, random
    np.random.seed(case["seed"] % (2 ** 32))
    random.seed(case["seed"])
    rec = dict(picks=[], unifs=[], shuffled=[])
    out = _call(case, _container(case, case["x"]), rec)
    obs = dict(out=out, picks=rec["picks"], unifs=rec["unifs"], shuffled=rec["shuffled"])
    if "v" in out:
        import copy
        rec2 = dict(picks=[], unifs=[], shuffled=[])
        obs["again"] = _call(case, copy.copy(rec["raw"]), rec2)      # decorator(...)(identity) applied to its own result
        obs["again_draws"] = len(rec2["picks"]) + len(rec2["unifs"])
    if case["t"] == "impose_as":
        import mystic.tools as T
        try:
            g = T.connected([tuple(p) for p in case["mask"]])
            obs["groups"] = len(g)
            obs["roots"] = [int(k) for k in g]
        except Exception as e:
            obs["groups"] = None
            obs["roots"] = []
    return obs


# ---------------------------------------------------------------------------------------------- oracle

def _fail(clause, site, pattern, detail=None):
    return dict(clause=clause, site=site, pattern=pattern, detail=detail)


def _norm(i, n):
    if 0 <= i < n:
        return i
    if -n <= i < 0:
        return n + i
    return None


def _np_selected(idx, n):
    """discrete/integers/rounded/precision: numpy fancy-index mask; one bad index and nothing is selected"""
    if idx is None:
        return set(range(n))
    l = [idx] if isinstance(idx, int) else list(idx)
    ps = [_norm(i, n) for i in l]
    return set() if any(p is None for p in ps) else set(ps)


def _close(a, b, rel=1e-9):
    return abs(F(a) - F(b)) <= F(rel) * (1 + abs(F(b)))


def _inb(v, b):
    return (b[0] is None or F(b[0]) <= v) and (b[1] is None or v <= F(b[1]))


def _rhe(q):
    f = math.floor(q)
    r = q - f
    if r < F(1, 2):
        return f
    if r > F(1, 2):
        return f + 1
    return f if f % 2 == 0 else f + 1


def _components(pairs):
    parent = {}

    def find(a):
        parent.setdefault(a, a)
        while parent[a] != a:
            parent[a] = parent[parent[a]]
            a = parent[a]
        return a
    for i, j in pairs:
        parent[find(i)] = find(j)
    return len(set(find(a) for a in list(parent)))


def oracle(case, obs):
    if "__exception__" in obs:
        return [_fail("no-crash", "harness.run_impl", obs["__exception__"], obs.get("__msg__"))]
    t = case["t"]
    site = {"bounds": "constraints.impose_bounds", "unique": "constraints.impose_unique"}.get(
        t, ("tools." if t in ("masked", "partial", "synchronized", "suppressed", "clipped") else "constraints.") + t)
    x = [F(v) for v in case["x"]]
    n = len(x)
    out = obs["out"]
    fails = []

    # ---------------- which errors are legitimate rejections
    exp_err = None
    if t == "discrete" and (not case["samples"] or n == 0):
        exp_err = {"IndexError", "ValueError"}
    elif t in ("sorting", "monotonic"):
        idx = case["idx"]
        if isinstance(idx, list) and len(idx) != 1 and n != 1:
            if not idx:
                exp_err = {"TypeError"}
            elif any(_norm(i, n) is None for i in idx):
                exp_err = {"IndexError"}
    elif t == "impose_at":
        # only i >= len(x) is dropped; i < -len(x) is rejected with IndexError.  A list target is paired with the indices (zip)
        used = case["index"] if not isinstance(case["target"], list) else case["index"][:len(case["target"])]
        if any(i < -n for i in used):
            exp_err = {"IndexError"}
    elif t == "unique" and isinstance(case["full"], str):
        k = case["full"]
        allint = all(not isinstance(v, float) for v in case["x"])
        u = set(x)
        if k in ("int", "none", "dictint") and (k != "none" or allint):
            lo, hi = (min(u), max(u)) if k != "dictint" else (F(case["lo"]), F(case["hi"]) - 1)
            if k == "int" and not allint:
                exp_err = {"ValueError"}
            elif k == "dictint" and not (min(u) >= F(case["lo"]) and max(u) < F(case["hi"])):
                exp_err = {"ValueError"}
            elif n > hi - lo + 1:
                exp_err = {"ValueError"}
            elif k == "dictint" and not allint:
                exp_err = {"ValueError", "TypeError"}
        else:
            lo, hi = (min(u), max(u)) if k != "dict" else (F(case["lo"]), F(case["hi"]))
            if k == "dict" and not (min(u) >= lo and max(u) < hi):
                exp_err = {"ValueError"}
            elif lo == hi and n > 1:
                exp_err = {"ValueError"}
        if exp_err is None and "error" in out:
            pass
    elif t == "unique":
        u = set(x)
        fullset = set(F(v) for v in case["full"])
        if not u <= fullset or n > len(case["full"]):
            exp_err = {"ValueError"}
        elif n > len(fullset):
            exp_err = {"IndexError", "ValueError"}
    elif t == "masked":
        keys = [k for k, _ in case["mask"]]
        if keys and (min(keys) < 0 or max(keys) > n + len(keys) - 1):
            exp_err = {"KeyError"}
    elif t in ("with_mean", "with_variance") and n == 0:
        exp_err = {"ZeroDivisionError"}
    elif t == "with_spread" and n == 0:
        exp_err = {"ValueError"}

    if "error" in out:
        if exp_err and out["error"] in exp_err:
            return []
        return [_fail("unexpected-exception", site, "raises-" + out["error"], out)]
    if exp_err:
        return [_fail("missing-rejection", site, "accepts-invalid-input", dict(expected=sorted(exp_err), out=out))]

    # ---------------- non-finite results: only the documented degenerate moments
    if "nan" in out or "inf" in out:
        degenerate = False
        if t == "with_spread" and n:
            degenerate = (max(x) == min(x)) and not _almost(0, case["target"])
        if t == "with_variance" and n:
            degenerate = (len(set(x)) == 1) and case["target"] != 0 and not _almost(0, case["target"])
        return [] if degenerate else [_fail("finite", site, "non-finite-result", out)]
    y = [F(v) for v in out["v"]]
    if t != "masked" and len(y) != n:
        return [_fail("length", site, "length-changed", out)]

    def unchanged(ps, clause="unselected_unchanged", pattern="unselected-entry-changed"):
        bad = [p for p in ps if y[p] != x[p]]
        if bad:
            fails.append(_fail(clause, site, pattern, dict(positions=bad, out=out["v"])))

    # ---------------- per transform
    if t == "bounds":
        if case["form"] == "dict":
            dd = dict((k, bs) for k, bs in case["d"])
            if case["idx"] is not None:
                dd = dict((k, bs) for k, bs in dd.items() if k in case["idx"])
            per = dict((k, bs) for k, bs in dd.items() if 0 <= k < n)
        else:
            idx = case["idx"]
            if idx is None:
                sel = set(range(n))
            else:
                l = [idx] if isinstance(idx, int) else idx
                sel = set(i for i in l if 0 <= i < n)
            per = dict((p, case["bs"]) for p in sel)
        unchanged([p for p in range(n) if p not in per])
        clip = case["mode"] in ("clipnear", "cliprand")
        malformed = False
        for p, bs in per.items():
            wellformed = all(b[0] is None or b[1] is None or b[0] <= b[1] for b in bs) and bs
            if any(_inb(x[p], b) for b in bs):
                if y[p] != x[p]:
                    fails.append(_fail("conforming_unchanged", site, "entry-inside-interval-changed", dict(p=p, x=case["x"][p], y=out["v"][p])))
                continue
            if not wellformed:
                malformed = True
                continue
            if clip or all(b[0] == b[1] for b in bs if None not in b):
                inside = any(_inb(y[p], b) for b in bs)
            else:
                inside = any(_inb(y[p], b) or (None not in b and _close(y[p], b[0]) or _close(y[p], b[1])) for b in bs)
            if not inside:
                fails.append(_fail("in_target", site, "entry-outside-every-interval", dict(p=p, x=case["x"][p], y=out["v"][p], bs=bs)))
            elif clip:
                ends = [F(v) for b in bs for v in b if v is not None]
                if y[p] not in ends:
                    fails.append(_fail("in_target", site, "clipped-entry-not-at-an-interval-end", dict(p=p, y=out["v"][p])))
                if len(bs) == 1:
                    lo, hi = bs[0]
                    want = F(lo) if (lo is not None and x[p] < F(lo)) else F(hi)
                    if y[p] != want:
                        fails.append(_fail("in_target", site, "not-the-nearest-end", dict(p=p, x=case["x"][p], y=out["v"][p])))
    elif t == "discrete":
        sel = _np_selected(case["idx"], n)
        s = [F(v) for v in case["samples"]]
        unchanged([p for p in range(n) if p not in sel])
        for p in sel:
            best = min(abs(v - x[p]) for v in s)
            want = min(v for v in s if abs(v - x[p]) == best)     # ties to the lower member
            if y[p] not in s:
                fails.append(_fail("in_target", site, "not-a-member", dict(p=p, y=out["v"][p])))
            elif abs(y[p] - x[p]) != best:
                fails.append(_fail("in_target", site, "not-the-nearest-member", dict(p=p, x=case["x"][p], y=out["v"][p])))
            elif y[p] != want:
                fails.append(_fail("in_target", site, "tie-not-to-lower-member", dict(p=p, x=case["x"][p], y=out["v"][p])))
    elif t == "integers":
        sel = _np_selected(case["idx"], n)
        rest = [p for p in range(n) if p not in sel]
        if case["ints"] and case["idx"] is not None:
            bad = [p for p in rest if y[p] != x[p]]
            if bad:
                if all(y[p] == math.trunc(x[p]) for p in bad):
                    fails.append(_fail("unselected_unchanged", site, "ints-index-truncates-unselected", dict(positions=bad, out=out["v"])))
                else:
                    fails.append(_fail("unselected_unchanged", site, "unselected-entry-changed", dict(positions=bad, out=out["v"])))
        else:
            unchanged(rest)
        for p in sel:
            if y[p] != _rhe(x[p]):
                fails.append(_fail("in_target", site, "not-nearest-integer-half-even", dict(p=p, x=case["x"][p], y=out["v"][p])))
    elif t in ("rounded", "precision"):
        sel = _np_selected(case["idx"], n)
        unchanged([p for p in range(n) if p not in sel])
        d = case["digits"] or 0
        sc = F(10) ** d
        for p in sel:
            q = x[p] * sc
            fr = q - math.floor(q)
            if fr != F(1, 2) and abs(fr - F(1, 2)) < F(1, 10 ** 9):
                continue                      # float product may fall on either side of the tie
            want = F(_rhe(q)) / sc
            if not _close(y[p], want, 1e-12):
                fails.append(_fail("in_target", site, "not-rounded-to-digits-half-even", dict(p=p, x=case["x"][p], y=out["v"][p], want=float(want))))
    elif t in ("sorting", "monotonic"):
        idx = case["idx"]
        if idx is None:
            ps = list(range(n))
        elif isinstance(idx, int) or len(idx) == 1 or n == 1:
            ps = []                           # documented: a single index (or a single entry) is left alone
        else:
            ps = sorted(_norm(i, n) for i in idx)
        dup = len(set(ps)) != len(ps)
        unchanged([p for p in range(n) if p not in ps])
        if not dup:
            vals = [x[p] for p in ps]
            got = [y[p] for p in ps]
            if t == "sorting":
                want = sorted(vals, reverse=not case["asc"])
            else:
                want, cur = [], None
                for v in vals:
                    cur = v if cur is None else (max(cur, v) if case["asc"] else min(cur, v))
                    want.append(cur)
            okorder = all((a <= b) if case["asc"] else (a >= b) for a, b in zip(got, got[1:]))
            if not okorder:
                fails.append(_fail("in_target", site, "selected-entries-not-in-order", dict(ps=ps, out=out["v"])))
            elif got != want:
                fails.append(_fail("in_target", site, "not-the-sorted-permutation" if t == "sorting" else "not-the-running-extreme", dict(ps=ps, out=out["v"])))
            conf = all((a <= b) if case["asc"] else (a >= b) for a, b in zip(vals, vals[1:]))
            if conf and y != x:
                fails.append(_fail("conforming_unchanged", site, "ordered-input-changed", dict(out=out["v"])))
    elif t == "impose_at":
        tg = case["target"]
        exp = list(x)
        pairs = list(zip(case["index"], tg)) if isinstance(tg, list) else [(i, tg) for i in case["index"]]
        for i, v in pairs:
            p = _norm(i, n)
            if p is not None:
                exp[p] = F(v)
        addressed = set(_norm(i, n) for i, _ in pairs) - {None}
        unchanged([p for p in range(n) if p not in addressed], "exactly_addressed_entries", "unaddressed-entry-changed")
        if y != exp:
            fails.append(_fail("in_target", site, "entry-not-pinned-to-target", dict(out=out["v"], want=[float(v) for v in exp])))
    elif t == "impose_as":
        off = F(case["offset"] or 0)
        mentioned = set()
        bad = []
        for i, j in case["mask"]:
            pi, pj = _norm(i, n), _norm(j, n)
            mentioned |= {pi, pj}
            if pi is not None and pj is not None and y[pj] != y[pi] + off:
                bad.append([i, j])
        unchanged([p for p in range(n) if p not in mentioned], "exactly_addressed_entries", "unaddressed-entry-changed")
        if bad:
            if any(_norm(i, n) is None for i, _ in case["mask"]):
                fails.append(_fail("in_target", site, "out-of-range-partner", dict(pairs=bad, out=out["v"])))
            else:
                fails.append(_fail("in_target", site, "entry-does-not-track-partner",
                                   dict(pairs=bad, out=out["v"], groups=obs.get("groups"), components=_components(case["mask"]))))
    elif t == "unique":
        if len(set(y)) != len(y):
            fails.append(_fail("in_target", site, "values-not-pairwise-distinct", out["v"]))
        if isinstance(case["full"], str):
            k = case["full"]
            lo, hi = (F(case["lo"]), F(case["hi"])) if k.startswith("dict") else (min(x), max(x))
            if any(not (lo <= v <= hi) for v in y):
                fails.append(_fail("in_target", site, "value-not-allowed", out["v"]))
            if k in ("int", "dictint") and any(v.denominator != 1 for v in y):
                fails.append(_fail("in_target", site, "value-not-allowed", out["v"]))
        else:
            full = set(F(v) for v in case["full"])
            if not set(y) <= full:
                fails.append(_fail("in_target", site, "value-not-allowed", out["v"]))
        first = [p for p in range(n) if x[p] not in x[:p]]
        unchanged(first, "conforming_unchanged", "first-occurrence-changed")
    elif t == "masked":
        keys = dict((k, F(v)) for k, v in case["mask"])
        if len(y) != n + len(keys):
            fails.append(_fail("exactly_addressed_entries", site, "wrong-length", out["v"]))
        else:
            if any(y[k] != v for k, v in keys.items()):
                fails.append(_fail("exactly_addressed_entries", site, "masked-value-not-at-its-index", out["v"]))
            if [v for p, v in enumerate(y) if p not in keys] != x:
                fails.append(_fail("exactly_addressed_entries", site, "free-entries-not-the-input", out["v"]))
    elif t == "partial":
        exp = list(x)
        for k, v in case["mask"]:
            p = _norm(k, n)
            if p is not None:
                exp[p] = F(v)
        if y != exp:
            fails.append(_fail("exactly_addressed_entries", site, "not-exactly-the-fixed-entries", dict(out=out["v"], want=[float(v) for v in exp])))
    elif t == "synchronized":
        exp = list(x)
        for k, j in case["mask"]:
            pk = _norm(k, n)
            pj = _norm(j[0] if isinstance(j, list) else j, n)
            c = F(j[1]) if isinstance(j, list) and len(j) > 1 else F(1)
            if pk is not None and pj is not None:
                exp[pk] = c * exp[pj]
        if y != exp:
            fails.append(_fail("exactly_addressed_entries", site, "not-exactly-the-tied-entries", dict(out=out["v"], want=[float(v) for v in exp])))
    elif t == "suppressed":
        tol = F(case["tol"])
        smallp = [p for p in range(n) if abs(x[p]) < tol]
        if any(y[p] != 0 for p in smallp):
            fails.append(_fail("exactly_addressed_entries", site, "small-entry-not-zeroed", out["v"]))
        rest = [p for p in range(n) if p not in smallp]
        if case["clip"]:
            unchanged(rest, "exactly_addressed_entries", "large-entry-changed")
        elif rest:
            sh = sum(x[p] for p in smallp) / len(rest)
            if any(not _close(y[p], x[p] + sh) for p in rest):
                fails.append(_fail("exactly_addressed_entries", site, "sum-not-spread-over-large-entries", out["v"]))
    elif t == "clipped":
        lo, hi = case["lo"], case["hi"]
        exp = []
        for v in x:
            w = v if lo is None else max(v, F(lo))
            exp.append(w if hi is None else min(w, F(hi)))
        if y != exp:
            fails.append(_fail("exactly_addressed_entries", site, "not-exactly-the-clipped-entries", dict(out=out["v"], want=[float(v) for v in exp])))
    else:
        tg = F(case["target"])
        if t == "with_mean":
            stat = lambda v: sum(v) / len(v)
        elif t == "with_variance":
            stat = lambda v: sum((a - sum(v) / len(v)) ** 2 for a in v) / len(v)
        elif t == "with_spread":
            stat = lambda v: max(v) - min(v)
        else:
            stat = lambda v: sum(v)
        if n or t == "normalized":
            cur = stat(x) if n else F(0)
            if _almost(cur, tg):
                if y != x:
                    fails.append(_fail("conforming_unchanged", site, "conforming-input-changed", out["v"]))
            else:
                degenerate = (t == "normalized" and (sum(abs(v) for v in x) == 0 or sum(x) == 0)) or \
                             (t == "with_variance" and tg < 0)
                if degenerate:
                    pass
                elif not _close(stat(y), tg, 1e-9) and not _almost(stat(y), tg):
                    fails.append(_fail("in_target", site, "target-statistic-not-reached", dict(got=float(stat(y)), want=float(tg))))
                if t in ("with_variance", "with_spread") and n and not _close(sum(y) / n, sum(x) / n):
                    fails.append(_fail("in_target", site, "mean-not-preserved", out["v"]))

    # ---------------- applying it twice equals applying it once
    again = obs.get("again")
    no_idem_claim = t in ("masked", "synchronized") or (t == "suppressed" and not case["clip"]) or \
        (t == "bounds" and malformed)
    if again is not None and not fails and not no_idem_claim:
        tol_cmp = t in ("with_mean", "with_variance", "with_spread", "normalized") or \
            (t == "suppressed" and not case["clip"]) or (t in ("rounded", "precision"))
        if "v" not in again:
            if not (t == "integers" and case["ints"]):
                fails.append(_fail("idempotent", site, "second-application-fails", again))
        else:
            z = [F(v) for v in again["v"]]
            same = (z == y) or (tol_cmp and len(z) == len(y) and all(_close(a, b) for a, b in zip(z, y)))
            if not same:
                pat = "twice-differs-from-once"
                if t == "impose_as" and (case["offset"] or 0) != 0:
                    if any(_norm(i, n) is None for i, _ in case["mask"]):
                        pat = "out-of-range-partner"
                    elif any(r in [j for _, j in case["mask"]] for r in obs.get("roots", [])):
                        pat = "offset-with-tracked-group-root-drifts"
                fails.append(_fail("idempotent", site, pat, dict(once=out["v"], twice=again["v"])))
            if obs.get("again_draws"):
                fails.append(_fail("idempotent", site, "conforming-input-consumes-random-draws", obs["again_draws"]))
    return fails


def _almost(a, b, tol=1e-18, rel=1e-7):
    return abs(F(a) - F(b)) <= F(tol) + F(rel) * abs(F(b))


# ---------------------------------------------------------------------------------------------- Coq side

def coq_preamble():
    return r"""
From Coq Require Import Qabs Qround.
From MV Require Import Common.Num Pure.Transforms.
Open Scope Q_scope.
Definition qclose (a b : Q) : bool := Qle_bool (Qabs (a - b)) ((1 # 1000000000) * (1 + Qabs b)).
Definition qlist_close (a b : list Q) : bool :=
  (Nat.eqb (length a) (length b) && forallb (fun p => qclose (fst p) (snd p)) (combine a b))%bool.
Definition oq_eq (m e : option (list Q)) : bool :=
  match m, e with Some a, Some b => qlist_eq a b | None, None => true | _, _ => false end.
Definition oq_close (m e : option (list Q)) : bool :=
  match m, e with Some a, Some b => qlist_close a b | None, None => true | _, _ => false end.
Definition tolQ : Q := 1 # 1000000000000000000.
Definition relQ : Q := 1 # 10000000.
"""


def _ql(xs):
    return "(%s : list Q)" % lst(xs, qlit)


def _zl(xs):
    return "(%s : list Z)" % lst(xs, zlit)


def _cidx(idx):
    if idx is None:
        return "INone"
    if isinstance(idx, int):
        return "(IInt %s)" % zlit(idx)
    return "(ITuple %s)" % _zl(idx)


def _oq(v):
    return "None" if v is None else "(Some %s)" % qlit(v)


def _cbs(bs):
    return "(%s : list (interval NumQ))" % lst(["(%s, %s)" % (_oq(b[0]), _oq(b[1])) for b in bs])


_MODE = dict(clipnear="ClipNearest", cliprand="ClipRandom", drawnear="DrawNearest", drawrand="DrawRandom")


def _expected(out):
    """expected model answer for option-valued models: Some list | None"""
    if "v" in out:
        return "(Some %s)" % _ql(out["v"])
    return "None"


def coq_terms(case, obs):
    if "__exception__" in obs:
        return []
    t = case["t"]
    out = obs["out"]
    x = _ql(case["x"])
    if "inf" in out:
        return []
    if t == "bounds":
        if "v" not in out:
            return []
        st = "(mkDraws NumQ %s %s)" % (lst(obs["picks"], natlit) if obs["picks"] else "(nil : list nat)", _ql(obs["unifs"]))
        cmp_ = "qlist_eq" if case["mode"] in ("clipnear", "cliprand") else "qlist_close"
        if case["form"] == "dict":
            d = "(%s : list (Z * list (interval NumQ)))" % lst(["(%s, %s)" % (zlit(k), _cbs(bs)) for k, bs in case["d"]])
            return ["%s (fst (impose_bounds_dict NumQ %s %s %s %s %s)) %s" % (cmp_, _MODE[case["mode"]], d, _cidx(case["idx"]), st, x, _ql(out["v"]))]
        return ["%s (fst (impose_bounds NumQ %s %s %s %s %s)) %s" % (cmp_, _MODE[case["mode"]], _cbs(case["bs"]), _cidx(case["idx"]), st, x, _ql(out["v"]))]
    if t == "discrete":
        return ["oq_eq (discrete NumQ %s %s %s) %s" % (_ql(case["samples"]), _cidx(case["idx"]), x, _expected(out))]
    if t == "integers":
        if "v" not in out:
            return []
        return ["qlist_eq (integers %s %s %s) %s" % (blit(case["ints"]), _cidx(case["idx"]), x, _ql(out["v"]))]
    if t in ("rounded", "precision"):
        if "v" not in out:
            return []
        return ["qlist_close (rounded %s %s %s) %s" % (zlit(case["digits"] or 0), _cidx(case["idx"]), x, _ql(out["v"]))]
    if t in ("sorting", "monotonic"):
        return ["oq_eq (%s NumQ %s %s %s) %s" % (t, blit(case["asc"]), _cidx(case["idx"]), x, _expected(out))]
    if t == "impose_at":
        tg = case["target"]
        tt = "(TList NumQ %s)" % _ql(tg) if isinstance(tg, list) else "(TScalar NumQ %s)" % qlit(tg)
        return ["oq_eq (impose_at NumQ %s %s %s) %s" % (_zl(case["index"]), tt, x, _expected(out))]
    if t == "impose_as":
        m = "(%s : list (Z * Z))" % lst(["(%s, %s)" % (zlit(i), zlit(j)) for i, j in case["mask"]])
        return ["oq_eq (impose_as NumQ %s %s %s) %s" % (m, qlit(case["offset"] or 0), x, _expected(out))]
    if t == "unique" and isinstance(case["full"], str):
        return []            # fresh values are drawn at random: oracle only
    if t == "unique":
        sh = obs["shuffled"][0] if obs["shuffled"] else []
        return ["oq_eq (unique_list NumQ %s %s %s) %s" % (_ql(case["full"]), _ql(sh), x, _expected(out))]
    if t in ("masked", "partial"):
        m = "(%s : list (Z * Q))" % lst(["(%s, %s)" % (zlit(k), qlit(v)) for k, v in case["mask"]])
        if t == "masked":
            return ["oq_eq (insert_missing NumQ %s %s) %s" % (m, x, _expected(out))]
        return ["qlist_eq (partial NumQ %s %s) %s" % (m, x, _ql(out["v"]))] if "v" in out else []
    if t == "synchronized":
        if "v" not in out:
            return []
        def src(j):
            if isinstance(j, list):
                return "(SMul NumQ %s %s)" % (zlit(j[0]), qlit(j[1] if len(j) > 1 else 1))
            return "(SIdx NumQ %s)" % zlit(j)
        m = "(%s : list (Z * source NumQ))" % lst(["(%s, %s)" % (zlit(k), src(j)) for k, j in case["mask"]])
        return ["qlist_eq (synchronized NumQ %s %s) %s" % (m, x, _ql(out["v"]))]
    if t == "suppressed":
        if "v" not in out:
            return []
        return ["%s (suppress NumQ %s %s %s) %s" % ("qlist_eq" if case["clip"] else "qlist_close", qlit(case["tol"]), blit(case["clip"]), x, _ql(out["v"]))]
    if t == "clipped":
        if "v" not in out:
            return []
        return ["qlist_eq (clipped NumQ %s %s %s) %s" % (_oq(case["lo"]), _oq(case["hi"]), x, _ql(out["v"]))]
    exp = _expected(out)       # error or nan -> None
    tg = qlit(case["target"])
    if t == "with_mean":
        return ["oq_close (with_mean NumQ tolQ relQ %s %s) %s" % (tg, x, exp)]
    if t == "with_variance":
        return ["oq_close (with_variance NumQ qsqrt tolQ relQ %s %s) %s" % (tg, x, exp)]
    if t == "with_spread":
        return ["oq_close (with_spread NumQ tolQ relQ %s %s) %s" % (tg, x, exp)]
    if t == "normalized":
        if case["x"] and sum(F(v) for v in case["x"]) == 0 and not _almost(0, case["target"]):
            return []      # degenerate (sum = 0): the float code divides by a rounding residue of x/w, the exact model returns zeros
        return ["qlist_close (normalized NumQ tolQ relQ %s %s) %s" % (tg, x, _ql(out["v"]))] if "v" in out else []
    return []


def coq_debug(case, obs, k):
    ts = coq_terms(case, obs)
    if not ts:
        return "tt"
    term = ts[k]
    # print the model's value: strip the comparison wrapper
    for head in ("oq_eq ", "oq_close ", "qlist_eq ", "qlist_close "):
        if term.startswith(head):
            body = term[len(head):]
            depth, i = 0, 0
            for i, ch in enumerate(body):
                depth += ch == "("
                depth -= ch == ")"
                if depth == 0 and ch == ")":
                    break
            return body[:i + 1]
    return term


def classify(case, obs):
    t = case["t"]
    out = obs.get("out", {})
    n = len(case["x"])
    tags = ["t:" + t, "len:%d" % n, "container:" + ("ndarray" if case["arr"] else "list")]
    if case.get("via"):
        tags.append("set-through-attribute:" + "+".join(sorted(case["via"]["init"])))
        if t == "discrete" and "samples" in case["via"]["init"]:
            sm = case["samples"]
            tags.append("attribute-samples:" + ("ascending" if sm == sorted(sm) else "descending" if sm == sorted(sm, reverse=True) else "unsorted")
                        + ("+dup" if len(set(sm)) != len(sm) else ""))
    idx = case.get("idx", "n/a")
    if idx != "n/a":
        if idx is None:
            f = "None"
        elif isinstance(idx, int):
            f = "int" if 0 <= idx < n else ("negative" if -n <= idx < 0 else "out-of-range")
        elif not idx:
            f = "empty-tuple"
        elif any(_norm(i, n) is None for i in idx):
            f = "tuple-with-bad-member"
        elif len(set(idx)) != len(idx):
            f = "tuple-dup"
        elif any(i < 0 for i in idx):
            f = "tuple-negative"
        else:
            f = "tuple"
        tags.append("idx:" + f)
    if "error" in out:
        tags.append("outcome:" + out["error"])
    elif "nan" in out:
        tags.append("outcome:nan")
    elif "v" in out:
        tags.append("outcome:" + ("unchanged" if out["v"] == case["x"] else "changed"))
    if t == "bounds":
        tags.append("bounds:%s/%s/%d" % (case["form"], case["mode"], len(case.get("bs", [])) if case["form"] == "list" else len(case["d"])))
        if case["form"] == "list":
            ends = [v for b in case["bs"] for v in b if v is not None]
            tags.append("on-a-bound:%s" % any(v in ends for v in case["x"]))
            mids = [(a + b) / 2 for a in ends for b in ends if a != b]
            tags.append("midpoint-tie:%s" % any(v in mids for v in case["x"]))
    if t == "discrete" and case["samples"]:
        s = case["samples"]
        tags.append("discrete-tie:%s" % any((a + b) / 2 == v for v in case["x"] for a in s for b in s if a != b))
        tags.append("discrete-member:%s" % any(v in s for v in case["x"]))
    if t in ("integers", "rounded", "precision"):
        d = case.get("digits") or 0
        tags.append("half-tie:%s" % any((F(v) * F(10) ** d) % 1 == F(1, 2) for v in case["x"]))
    return json.dumps(case, sort_keys=True), n >= 2, tags


def shrink(case):
    x = case["x"]
    t = case["t"]
    if case.get("arr"):
        yield dict(case, arr=False)
    if case.get("via"):
        yield dict((k, v) for k, v in case.items() if k != "via")
    if t in ("bounds", "discrete", "integers", "rounded", "precision", "sorting", "monotonic", "suppressed", "clipped",
             "with_mean", "with_variance", "with_spread", "normalized", "unique", "partial", "synchronized", "impose_at", "impose_as", "masked"):
        for i in reversed(range(len(x))):
            yield dict(case, x=x[:i] + x[i + 1:])
    if isinstance(case.get("idx"), list):
        for i in range(len(case["idx"])):
            yield dict(case, idx=case["idx"][:i] + case["idx"][i + 1:])
    if t == "bounds" and case["form"] == "list" and len(case["bs"]) > 1:
        for i in range(len(case["bs"])):
            yield dict(case, bs=case["bs"][:i] + case["bs"][i + 1:], flat=False)
    for key in ("mask", "index", "samples", "full"):
        if isinstance(case.get(key), list) and len(case[key]) > 1:
            for i in range(len(case[key])):
                c = dict(case)
                c[key] = case[key][:i] + case[key][i + 1:]
                if key == "index" and isinstance(case.get("target"), list) and len(case["target"]) == len(case["index"]):
                    c["target"] = case["target"][:i] + case["target"][i + 1:]
                yield c
