"""C19 - discrete measures: parameter-vector round trips and product structure."""
import itertools, math
from fractions import Fraction
from harness.coqio import qlit, natlit, lst, opt, blit

ID = "C19"
TITLE = "Discrete measures: parameter-vector round trips and product structure"
PROPS_FILE = "Props/Properties_C19.v"
LEVEL = "proof"
SIZES = {"quick": 1500, "thorough": 30000}
PARALLEL = True
SHARD = 250
RULE = ("cases: kind in {roundtrip, update, pack, stats, setters}; shapes 1-4 factors x 0-4 points, weights/positions on the "
        "dyadic grid k/8 (weights include zeros and negatives), scenarios with values, parameter vectors too short / exact / "
        "with extra values; non-trivial = more than one point mass in total; distinct = distinct case JSON")
TRUSTED = ["real-number axioms of Coq's standard library (Reals) for the three arithmetic theorems",
           "float arithmetic is exact on the generated dyadic inputs, so the Q instance of the model is compared exactly "
           "(expect(): within 1e-12 relative)"]
ASSUMPTIONS = ["IEEE rounding of weights/products on non-dyadic inputs is modelled, not verified",
               "set_expect* (optimisation-based setters) are outside C19's model; center_mass/range/var setters are checked by the oracle only"]
META = dict(
    technique="Coq proof (induction over factor lists; real-arithmetic sums) + model/implementation correspondence by vm_compute",
    level_text=("Round trips (flatten/unflatten/load, compose/decompose, pack/unpack), update exactness, Cartesian-product structure, "
                "total mass = product of masses, expect/pof = explicit sums are theorems about the Gallina model for all shapes and "
                "values; the model is tied to mystic.math.discrete / measures by running both on generated measures every run."),
    level_note=("Trusted: Coq kernel+VM, harness printers/oracles; arithmetic theorems are over R (stdlib real axioms), executed "
                "over Q on dyadic inputs where float arithmetic is exact; set_expect* optimisers not modelled."),
    design_ref="5/C19")


def _grid(rng, zeros=True, neg=False):
    k = rng.choice([0, 0, 1, 2, 3, 4, 6, 8, 12, 16] if zeros else [1, 2, 3, 4, 6, 8, 12, 16])
    if neg and rng.random() < 0.3:
        k = -k
    return k / 8.0


def _measure_set(rng, nfac=None, allow_empty=False):
    nfac = nfac or rng.choice([1, 1, 2, 2, 3, 4])
    lo = 0 if allow_empty and rng.random() < 0.3 else 1
    pts = [rng.randint(lo, 4 if nfac < 4 else 3) for _ in range(nfac)]
    w = [[_grid(rng) for _ in range(n)] for n in pts]
    x = [[_grid(rng, neg=True) + i for i in range(n)] for n in pts]
    if rng.random() < 0.5:   # well-formed: positive weights
        w = [[abs(v) + 0.125 for v in r] for r in w]
    return pts, w, x


def generate(rng, n, tier):
    kinds = ["roundtrip"] * 4 + ["update"] * 3 + ["pack"] * 2 + ["stats"] * 3 + ["setters"]
    for i in range(n):
        kind = rng.choice(kinds)
        if kind == "roundtrip":
            pts, w, x = _measure_set(rng, allow_empty=True)
            vals = [_grid(rng, neg=True) for _ in range(rng.choice([0, 0, 1, 3]))]
            extra = [_grid(rng) for _ in range(rng.choice([0, 0, 2]))]
            yield dict(kind=kind, pts=pts, w=w, x=x, values=vals, extra=extra)
        elif kind == "update":
            pts, w, x = _measure_set(rng, allow_empty=rng.random() < 0.3)
            full = 2 * sum(pts)
            ln = rng.choice([full, full, full, full + 2, max(0, full - 1), max(0, full - rng.randint(0, full)), 0])
            params = [_grid(rng, neg=True) + 10 + j for j in range(ln)]
            vals = [_grid(rng) for _ in range(rng.choice([0, 2, 3]))]
            yield dict(kind=kind, pts=pts, w=w, x=x, values=vals, params=params, scenario=rng.random() < 0.5)
        elif kind == "pack":
            nf = rng.choice([1, 2, 2, 3, 3, 4])
            s = [[_grid(rng, neg=True) + 3 * i + j for j in range(rng.randint(1, 4 if nf < 4 else 3))] for i in range(nf)]
            if rng.random() < 0.15:
                s[rng.randrange(nf)] = []
            yield dict(kind=kind, samples=s)
        elif kind == "stats":
            pts, w, x = _measure_set(rng)
            a = [rng.choice([-2, -1, 0, 1, 1, 2, 0.5]) for _ in pts]
            b = rng.choice([0, -1, 1, -2.5, 0.25])
            yield dict(kind=kind, pts=pts, w=w, x=x, a=a, b=b, tol=rng.choice([0, 0, 0.125, 0.25, 0.5, 1.0]))
        else:
            pts, w, x = _measure_set(rng, nfac=1)
            n0 = max(2, pts[0])
            w0 = [abs(_grid(rng)) + 0.125 for _ in range(n0)]
            x0 = [_grid(rng, neg=True) + 2 * j for j in range(n0)]
            if n0 >= 3 and rng.random() < 0.35:
                w0[rng.choice([0, n0 - 1, rng.randrange(n0)])] = 0.0     # a point without support, preferably the lowest / highest position
            yield dict(kind=kind, w=[w0], x=[x0], pts=[n0], target=rng.choice([0.5, 1.0, 2.0, 3.5]),
                       which=rng.choice(["center_mass", "range", "var"]))


def _build(case):
    from mystic.math.discrete import compose, product_measure, measure, point_mass
    c = product_measure()
    for wi, xi in zip(case["w"], case["x"]):
        m = measure()
        for ww, xx in zip(wi, xi):
            m.append(point_mass(xx, ww))
        c.append(m)
    return c


def _wx(c):
    return [list(map(float, m.weights)) for m in c], [list(map(float, m.positions)) for m in c]


def _try(f):
    try:
        return f()
    except Exception as e:
        return {"error": type(e).__name__}


def run_impl(case):
    from mystic.math import discrete as D
    from mystic.math import measures as M
    k = case["kind"]
    if k == "roundtrip":
        c = _build(case)
        out = {}
        flat = D.flatten(c)
        out["flatten"] = [float(v) for v in flat]
        out["pm_flatten"] = [float(v) for v in c.flatten()]
        out["pts"] = [int(p) for p in c.pts]
        def _unfl():
            u = D.unflatten(list(flat) + case["extra"], c.pts)
            return _wx(u)
        out["unflatten"] = _try(_unfl)
        def _load():
            l = D.product_measure().load(list(flat) + case["extra"], c.pts)
            return _wx(l)
        out["load"] = _try(_load)
        def _dec():
            x, w = D.decompose(c)
            c2 = D.compose(x, w)
            return dict(x=[list(map(float, r)) for r in x], w=[list(map(float, r)) for r in w], back=_wx(c2))
        out["decompose"] = _try(_dec)
        def _sc():
            s = D.scenario(c, list(case["values"]))
            f = s.flatten()
            s2 = D.scenario().load(f, s.pts)
            return dict(flat=[float(v) for v in f], flat_noall=[float(v) for v in s.flatten(all=False)],
                        back=_wx(s2), values=[float(v) for v in s2.values])
        out["scenario"] = _try(_sc)
        return out
    if k == "update":
        c = _build(case)
        def _up():
            if case["scenario"]:
                shared = list(case["values"])
                s = D.scenario(c, shared)
                twin = D.scenario(_build(case), shared)     # another scenario built from the same values list
                s.update(list(case["params"]))
                return dict(wx=_wx(s), values=[float(v) for v in s.values], twin_values=[float(v) for v in twin.values], twin_wx=_wx(twin))
            c.update(list(case["params"]))
            return dict(wx=_wx(c), values=None)
        return {"update": _try(_up)}
    if k == "pack":
        s = case["samples"]
        out = {}
        def _p():
            return [list(map(float, t)) for t in M._pack(s)]
        out["pack"] = _try(_p)
        def _u():
            return [list(map(float, t)) for t in M._unpack(M._pack(s), [len(r) for r in s])]
        out["unpack"] = _try(_u)
        return out
    if k == "stats":
        c = _build(case)
        a, b = case["a"], case["b"]
        f = lambda x: b + sum(ai * xi for ai, xi in zip(a, x))
        out = dict(weights=[float(v) for v in c.weights], positions=[list(map(float, p)) for p in c.positions],
                   mass=[float(v) for v in c.mass], npts=int(c.npts))
        e = _try(lambda: float(c.expect(f)))
        out["expect"] = e if isinstance(e, dict) else (None if (e != e or math.isinf(e)) else e)
        v = _try(lambda: float(c.expect_var(f)))
        out["expect_var"] = v if isinstance(v, dict) else (None if (v != v or math.isinf(v)) else v)
        out["pof"] = float(c.pof(f))
        out["support"] = [list(map(float, p)) for p in c.support()]
        out["support_tol"] = [list(map(float, p)) for p in c.support(case.get("tol", 0))]
        out["support_index_tol"] = [int(i) for i in c.support_index(case.get("tol", 0))]
        out["support_index"] = [int(i) for i in c.support_index()]
        return out
    if k == "setters":
        c = _build(case)
        m = c[0]
        before = dict(mean=float(m.center_mass), rng=float(m.range), var=float(m.var))
        setattr(m, case["which"], case["target"])
        return dict(before=before, after=dict(mean=float(m.center_mass), rng=float(m.range), var=float(m.var)),
                    weights=[float(v) for v in m.weights])
    raise ValueError(k)


def _fail(clause, site, pattern, detail):
    return dict(clause=clause, site=site, pattern=pattern, detail=detail)


def oracle(case, obs):
    """direct statement of C19 on the implementation's behaviour (independent of the Gallina model)"""
    out = []
    if "__exception__" in obs:
        return [_fail("no-crash", "discrete", obs["__exception__"], obs.get("__msg__"))]
    k = case["kind"]
    if k == "roundtrip":
        w, x = case["w"], case["x"]
        exp_flat = [v for wi, xi in zip(w, x) for v in list(wi) + list(xi)]
        if obs["flatten"] != exp_flat or obs["pm_flatten"] != exp_flat:
            out.append(_fail("flatten_layout", "discrete.flatten", "layout", obs["flatten"]))
        if obs["pts"] != case["pts"]:
            out.append(_fail("pts", "product_measure.pts", "pts", obs["pts"]))
        for name in ("unflatten", "load"):
            if obs[name] != [w, x] and obs[name] != (w, x):
                if list(obs[name]) != [w, x]:
                    out.append(_fail("unflatten_flatten", "discrete." + name, "roundtrip", obs[name]))
        d = obs["decompose"]
        if isinstance(d, dict) and "error" in d:
            out.append(_fail("compose_decompose", "discrete.decompose", d["error"], d))
        else:
            if d["x"] != x or d["w"] != w or list(d["back"]) != [w, x]:
                out.append(_fail("compose_decompose", "discrete.decompose", "roundtrip", d))
        s = obs["scenario"]
        if isinstance(s, dict) and "error" in s:
            out.append(_fail("scenario_roundtrip", "discrete.scenario", s["error"], s))
        else:
            # note: scenario(pm=[]) (empty product measure) is falsy and skipped by the constructor
            if s["flat"] != exp_flat + case["values"] or s["flat_noall"] != exp_flat or list(s["back"]) != [w, x] \
               or s["values"] != case["values"]:
                out.append(_fail("scenario_roundtrip", "discrete.scenario", "roundtrip", s))
    elif k == "update":
        u = obs["update"]
        full = 2 * sum(case["pts"])
        if len(case["params"]) >= full and all(p > 0 for p in case["pts"]):
            if "error" in u:
                out.append(_fail("update_exact", "product_measure.update", u["error"], u))
            else:
                w, x = u["wx"]
                got = [v for wi, xi in zip(w, x) for v in list(wi) + list(xi)]
                if got != case["params"][:full] or [len(r) for r in w] != case["pts"]:
                    out.append(_fail("update_exact", "product_measure.update", "addressed", u))
                if case["scenario"]:
                    vals = case["params"][full:]
                    old = case["values"]
                    exp = (vals[:len(old)] + old[len(vals):]) if len(case["params"]) > full else old
                    if u["values"] != exp:
                        out.append(_fail("update_exact", "scenario.update", "values", u))
                    if case["pts"] and "twin_values" in u and u["twin_values"] != [float(v) for v in old]:
                        out.append(_fail("update_exact", "scenario.update", "changes-another-scenario", dict(twin=u["twin_values"], expected=old)))
    elif k == "pack":
        s = case["samples"]
        exp = [list(reversed(t)) for t in itertools.product(*reversed(s))]
        if obs["pack"] != exp:
            out.append(_fail("positions_cartesian", "measures._pack", "order", obs["pack"]))
        if all(len(r) > 0 for r in s):
            if obs["unpack"] != s:
                out.append(_fail("unpack_pack", "measures._unpack", "roundtrip", obs["unpack"]))
    elif k == "stats":
        w, x = case["w"], case["x"]
        F = Fraction
        expw = [math.prod(F(v) for v in reversed(t)) for t in itertools.product(*reversed(w))]
        expx = [list(reversed(t)) for t in itertools.product(*reversed(x))]
        if [F(v) for v in obs["weights"]] != expw:
            out.append(_fail("weights_are_products", "product_measure.weights", "product", obs["weights"]))
        if obs["positions"] != expx:
            out.append(_fail("positions_cartesian", "product_measure.positions", "order", obs["positions"]))
        if [F(v) for v in obs["mass"]] != [sum(F(v) for v in r) for r in w]:
            out.append(_fail("mass", "product_measure.mass", "sum", obs["mass"]))
        if sum(expw) != math.prod(sum(F(v) for v in r) for r in w):
            out.append(_fail("total_mass", "oracle", "arith", None))
        if sum(F(v) for v in obs["weights"]) != math.prod(F(v) for v in obs["mass"]):
            out.append(_fail("total_mass_is_product", "product_measure.weights", "total", obs["weights"]))
        if obs["npts"] != len(expx):
            out.append(_fail("positions_count", "product_measure.npts", "count", obs["npts"]))
        a, b = case["a"], case["b"]
        fx = [F(b) + sum(F(ai) * F(xi) for ai, xi in zip(a, p)) for p in expx]
        tot = sum(expw)
        if tot != 0:
            e = sum(f * ww for f, ww in zip(fx, expw)) / tot
            if isinstance(obs["expect"], dict) or obs["expect"] is None or abs(F(obs["expect"]) - e) > F(1, 10**12) * (1 + abs(e)):
                out.append(_fail("expect_is_explicit_sum", "product_measure.expect", "value", [obs["expect"], float(e)]))
            v = sum((fi - e) ** 2 * ww for fi, ww in zip(fx, expw)) / tot
            if isinstance(obs["expect_var"], dict) or obs["expect_var"] is None or abs(F(obs["expect_var"]) - v) > F(1, 10**9) * (1 + abs(v)):
                out.append(_fail("expect_var_is_explicit_sum", "product_measure.expect_var", "value", [obs["expect_var"], float(v)]))
        p = sum(ww for f, ww in zip(fx, expw) if f <= 0)
        if F(obs["pof"]) != p:
            out.append(_fail("pof_is_indicator_sum", "product_measure.pof", "value", [obs["pof"], float(p)]))
        if obs["support"] != [q for q, ww in zip(expx, expw) if ww > 0]:
            out.append(_fail("support", "product_measure.support", "value", obs["support"]))
        if obs["support_index"] != [i for i, ww in enumerate(expw) if ww > 0]:
            out.append(_fail("support", "product_measure.support_index", "value", obs["support_index"]))
        tl = F(case.get("tol", 0))
        if "support_tol" in obs and obs["support_tol"] != [q for q, ww in zip(expx, expw) if ww > tl]:
            out.append(_fail("support", "product_measure.support", "value-with-tolerance", dict(tol=float(tl), got=obs["support_tol"])))
        if "support_index_tol" in obs and obs["support_index_tol"] != [i for i, ww in enumerate(expw) if ww > tl]:
            out.append(_fail("support", "product_measure.support_index", "value-with-tolerance", dict(tol=float(tl), got=obs["support_index_tol"])))
    elif k == "setters":
        a, t = obs["after"], case["target"]
        key = {"center_mass": "mean", "range": "rng", "var": "var"}[case["which"]]
        if abs(a[key] - t) > 1e-9 * (1 + abs(t)):
            out.append(_fail("setter_reaches_value", "measure." + case["which"], "value", obs))
        if obs["weights"] != case["w"][0]:
            out.append(_fail("setter_keeps_weights", "measure." + case["which"], "weights", obs))
    return out


# ------------------------------------------------------------------ Coq side

def coq_preamble():
    return r"""
From Coq Require Import Qabs.
From MV Require Import Common.Num Pure.Discrete.
Open Scope Q_scope.
Definition qll_eq (a b : list (list Q)) : bool :=
  (Nat.eqb (length a) (length b) && forallb (fun p => qlist_eq (fst p) (snd p)) (combine a b))%bool.
Definition wx_eq (c : option (pmeasure Q)) (w x : list (list Q)) : bool :=
  match c with Some c => (qll_eq (wts c) w && qll_eq (pos c) x)%bool | None => false end.
Definition is_none {B} (o : option B) : bool := match o with None => true | _ => false end.
Definition natl_eq (a b : list nat) : bool :=
  (Nat.eqb (length a) (length b) && forallb (fun p => Nat.eqb (fst p) (snd p)) (combine a b))%bool.
Definition flin (a : list Q) (b : Q) (x : list Q) : Q :=
  fold_left Qplus (map (fun p => fst p * snd p) (combine a x)) b.
Definition qclose (a b : Q) : bool := Qle_bool (Qabs (a - b)) ((1 # 1000000000000) * (1 + Qabs b)).
Definition oq_close9 (m : option Q) (e : option Q) : bool :=
  match m, e with Some a, Some b => Qle_bool (Qabs (a - b)) ((1 # 1000000000) * (1 + Qabs b)) | None, None => true | _, _ => false end.
Definition oq_close (m : option Q) (e : option Q) : bool :=
  match m, e with Some a, Some b => qclose a b | None, None => true | _, _ => false end.
"""


def _ql(xs):
    return "(%s : list Q)" % lst(xs, qlit)


def _qll(xss):
    return "(%s : list (list Q))" % lst([_ql(r) for r in xss])


def _pm(w, x):
    return "(%s : pmeasure Q)" % lst([lst(["(%s, %s)" % (qlit(a), qlit(b)) for a, b in zip(wi, xi)]) for wi, xi in zip(w, x)])


def coq_terms(case, obs):
    if "__exception__" in obs:
        return []
    k = case["kind"]
    T = []
    if k == "roundtrip":
        c = _pm(case["w"], case["x"])
        T.append("qlist_eq (flatten %s) %s" % (c, _ql(obs["flatten"])))
        T.append("natl_eq (pts %s) %s" % (c, lst(obs["pts"], natlit)))
        params = _ql(obs["flatten"] + case["extra"])
        pts = lst(case["pts"], natlit)
        for name, fn in (("unflatten", "unflatten %s %s"), ("load", "load nil %s %s")):
            o = obs[name]
            if isinstance(o, dict):
                T.append("is_none (%s)" % (fn % (params, pts)))
            else:
                T.append("wx_eq (%s) %s %s" % (fn % (params, pts), _qll(o[0]), _qll(o[1])))
        d = obs["decompose"]
        if not (isinstance(d, dict) and "error" in d):
            T.append("(qll_eq (fst (decompose %s)) %s && qll_eq (snd (decompose %s)) %s)%%bool" % (c, _qll(d["x"]), c, _qll(d["w"])))
            T.append("wx_eq (compose (fst (decompose %s)) (snd (decompose %s))) %s %s" % (c, c, _qll(d["back"][0]), _qll(d["back"][1])))
        s = obs["scenario"]
        if not (isinstance(s, dict) and "error" in s) and case["pts"]:
            T.append("qlist_eq (sc_flatten %s %s true) %s" % (c, _ql(case["values"]), _ql(s["flat"])))
            T.append("match sc_load nil nil %s %s with Some (c', v) => (wx_eq (Some c') %s %s && qlist_eq v %s)%%bool | None => false end"
                     % (_ql(s["flat"]), pts, _qll(s["back"][0]), _qll(s["back"][1]), _ql(s["values"])))
    elif k == "update":
        c = _pm(case["w"], case["x"])
        u = obs["update"]
        p = _ql(case["params"])
        if case["scenario"] and not case["pts"]:
            return []   # scenario([]) is not built from an empty product measure (falsy); not modelled
        if "error" in u:
            T.append("is_none (update %s %s)" % (c, p))
        elif case["scenario"]:
            T.append("match sc_update %s %s %s with Some (c', v) => (wx_eq (Some c') %s %s && qlist_eq v %s)%%bool | None => false end"
                     % (c, _ql(case["values"]), p, _qll(u["wx"][0]), _qll(u["wx"][1]), _ql(u["values"])))
        else:
            T.append("wx_eq (update %s %s) %s %s" % (c, p, _qll(u["wx"][0]), _qll(u["wx"][1])))
    elif k == "pack":
        s = _qll(case["samples"])
        if isinstance(obs["pack"], list):
            T.append("qll_eq (pack %s) %s" % (s, _qll(obs["pack"])))
        npts = lst([len(r) for r in case["samples"]], natlit)
        if isinstance(obs["unpack"], list):
            T.append("match unpack (pack %s) %s with Some u => qll_eq u %s | None => false end" % (s, npts, _qll(obs["unpack"])))
        else:
            T.append("is_none (unpack (pack %s) %s)" % (s, npts))
    elif k == "stats":
        c = _pm(case["w"], case["x"])
        T.append("qlist_eq (weights NumQ %s) %s" % (c, _ql(obs["weights"])))
        T.append("qll_eq (positions %s) %s" % (c, _qll(obs["positions"])))
        T.append("qlist_eq (mass NumQ %s) %s" % (c, _ql(obs["mass"])))
        f = "(flin %s %s)" % (_ql(case["a"]), qlit(case["b"]))
        if not isinstance(obs["expect"], dict):
            T.append("oq_close (expect NumQ %s %s) %s" % (f, c, opt(obs["expect"], qlit)))
        if not isinstance(obs.get("expect_var"), dict):
            T.append("oq_close9 (expect_var NumQ %s %s) %s" % (f, c, opt(obs["expect_var"], qlit)))
        T.append("Qeq_bool (pof NumQ %s %s) %s" % (f, c, qlit(obs["pof"])))
        T.append("qll_eq (support NumQ %s) %s" % (c, _qll(obs["support"])))
        T.append("natl_eq (support_index NumQ %s) %s" % (c, lst(obs["support_index"], natlit)))
    return T


def classify(case, obs):
    import json
    k = case["kind"]
    n = sum(case.get("pts", [])) if "pts" in case else sum(len(r) for r in case.get("samples", []))
    tags = ["kind:" + k, "factors:%d" % len(case.get("pts", case.get("samples", [])))]
    if k == "update":
        full = 2 * sum(case["pts"])
        tags.append("params:" + ("exact" if len(case["params"]) == full else "extra" if len(case["params"]) > full else "short"))
        tags.append("update:" + ("error" if "error" in obs.get("update", {}) else "ok"))
    if k == "stats":
        tags.append("expect:" + ("undefined" if obs.get("expect") is None else "value"))
        tags.append("zero-weights:" + str(any(v == 0 for r in case["w"] for v in r)))
    return json.dumps(case, sort_keys=True), n > 1, tags


def shrink(case):
    k = case["kind"]
    if "pts" in case and len(case["pts"]) > 1 and k != "setters":
        for i in range(len(case["pts"])):
            c = dict(case)
            for key in ("pts", "w", "x"):
                c[key] = case[key][:i] + case[key][i + 1:]
            if "a" in c:
                c["a"] = case["a"][:i] + case["a"][i + 1:]
            if "params" in c:
                c["params"] = case["params"][:2 * sum(c["pts"])]
            yield c
    if k == "pack" and len(case["samples"]) > 1:
        for i in range(len(case["samples"])):
            yield dict(case, samples=case["samples"][:i] + case["samples"][i + 1:])
