"""C11 - dimensional collapse is detected per definition, applied exactly, reported once.

Part A (kinds at / as / weight / position / impose / cost): the real detectors of mystic.collapse, the Collapse*
termination wrappers + collapse.collapsed round trip, mask.update_mask and constraints.impose_at / impose_as are run on
generated monitors / masks / vectors and compared with the Gallina model (coq/Pure/Collapse.v) bit-exactly (NumF).
Part B (kind solve): real solvers (NelderMead, Powell, DE) run with Or(ChangeOverGeneration, CollapseAt/CollapseAs) on
objectives with flat or tied directions; the cost is wrapped to record every evaluated point and the oracle checks the
collapsed relation EXACTLY on every later evaluation and on bestSolution, mask growth, no second report, termination.
"""
import json, math, os, time
from harness.coqio import flit, natlit, zlit, lst, opt, blit, slit

ID = "C11"
TITLE = "Dimensional collapse is detected per definition, applied exactly, reported once"
PROPS_FILE = "Props/Properties_C11.v"
LEVEL = "proof"
SIZES = {"quick": 2200, "thorough": 24000}
PARALLEL = True
SHARD = 220
COQ_TIMEOUT = 900
RULE = ("cases: kind in {at, as, weight, position, impose, cost, solve}; histories 0-9 generations x 1-5 parameters with "
        "flat / tied / offset-tied / converging / grid-noise columns on a dyadic grid (so tolerance ties occur), windows "
        "None/0/1/.../longer than the history/negative, tolerances 0/denormal/grid/huge/inf, masks None/empty/partial/full in "
        "every accepted format (set of ints, set of pairs+ints, dict, set of tuples, where-tuples/lists) plus malformed masks; "
        "termination trees bare/Or/nested/two collapse leaves; solve: NelderMead/Powell/DE, 2-5 parameters, separable "
        "quadratics with zero-weight (flat) and tied coordinates; non-trivial = detector ran on >=2 generations and >=2 "
        "candidates, or a solve with >=1 applied collapse; distinct = distinct case JSON")
TRUSTED = ["python set/dict iteration order of impose_as/impose_at masks is recorded from the running interpreter and handed to the model "
           "(the model is order-sensitive exactly where tools.connected is)",
           "string-level message round trip (str(set) -> eval) is exercised on the real code; the model abstracts it to (doc, result) pairs"]
ASSUMPTIONS = ["NaN parameters and ragged (non-rectangular) histories are excluded (numpy max/min NaN propagation not modelled)",
               "collapse_cost is NOT modelled in Coq: oracle-only, single-parameter-interval sanity statement (partial)",
               "impose_bounds / impose_measure (CollapseCost / CollapseWeight / CollapsePosition inside a solver) are not exercised in solver runs",
               "solver part: the inner optimisation loop is a Section variable of collapse_loop_terminates (its own termination is C05's subject); "
               "solver runs are judged by the oracle only, with evaluation limits and a wall-clock guard",
               "float rounding: the detectors are executed bit-exactly in binary64; algebraic characterisations are proved over R"]
META = dict(
    technique="Coq proof (filters over recorded histories, abstract strict weak order / reals; finite-measure loop termination) + "
              "bit-exact model/implementation correspondence by vm_compute + direct oracle on real solver runs",
    level_text=("Detectors (collapse_at/as/weight/position) = {candidates meeting the tolerance test} minus mask, idempotent under their own "
                "output, masks grow by exactly what was applied, nothing is reported twice: theorems for all histories, windows, tolerances "
                "and masks. impose_at makes x_i = target exactly and is framed; the tie stage of impose_as makes x_i = x_j exactly for every "
                "pair (tools.connected as repaired by fix 8baa3a7: groups always disjoint, full theorem); composition with other collapses "
                "preserves a relation only when the transformations applied after it do not write its coordinates (proved; refuted in "
                "general: known finding); CollapseAt-only runs: every applied relation holds after any number of rounds; the _Solve "
                "collapse loop terminates within |unmasked candidates| rounds for any inner solver.  Solver runs are checked by oracle."),
    level_note=("collapse_cost oracle-only (partial); impose_as offset stage and solver integration are covered by correspondence / oracle "
                "on generated runs, the Coq part is the abstract composition/termination argument; four genuine defects of /repo are "
                "listed as known findings (list target subset, relation overwritten by another collapse, offset=True imposed as +1, "
                "where-mask with inner lists)."),
    design_ref="5/C11")

INF = float("inf")

# ------------------------------------------------------------------ generators

GRID = [0.0, 0.125, 0.25, 0.5, 1.0, 2.0, -0.125, -1.0, 3.0]
STEPS = [0.0, 0.0, 0.125, -0.125, 0.25, -0.25, 0.5]
TOLS = [0.0, 0.0, 0.125, 0.125, 0.25, 0.5, 1.0, 5e-324, 1e-300, 1e-3, 1e300, INF, -0.125]


def _gen_hist(rng, ncol=None, nrow=None):
    ncol = ncol or rng.choice([1, 2, 2, 3, 3, 4, 5])
    nrow = rng.choice([0, 1, 1, 2, 3, 4, 5, 6, 9]) if nrow is None else nrow
    cols = []
    for j in range(ncol):
        kind = rng.choice(["flat", "flat", "tied", "offtied", "conv", "noise", "noise", "rand", "sign"])
        base = rng.choice(GRID)
        if kind in ("tied", "offtied", "sign") and not cols:
            kind = "noise"
        if kind == "flat":
            c = [base] * nrow
        elif kind == "tied":
            c = list(cols[rng.randrange(len(cols))])
        elif kind == "offtied":
            d = rng.choice([0.125, 0.25, 1.0, -0.5])
            c = [v + d for v in cols[rng.randrange(len(cols))]]
        elif kind == "sign":   # |x_a - x_b| constant while the difference flips sign
            src = cols[rng.randrange(len(cols))]
            d = rng.choice([0.125, 0.5])
            c = [v + (d if k % 2 else -d) for k, v in enumerate(src)]
        elif kind == "conv":
            c = [base + 2.0 ** (-k - rng.choice([0, 1, 3])) for k in range(nrow)]
        elif kind == "noise":
            c = [base + rng.choice(STEPS) for _ in range(nrow)]
        else:
            c = [rng.uniform(-2, 2) for _ in range(nrow)]
        if kind in ("flat", "tied") and nrow and rng.random() < 0.3:   # a late or early outlier: window matters
            c[rng.choice([0, nrow - 1, rng.randrange(nrow)])] += rng.choice([0.125, 0.25, -0.5, 1e-9])
        cols.append(c)
    return [[cols[j][i] for j in range(ncol)] for i in range(nrow)], ncol


def _gen_gens(rng, nrow):
    return rng.choice([None, 0, 1, 1, 2, 3, nrow, nrow + 1, max(nrow - 1, 0), nrow + 5, -1, -nrow - 1, 50])


def _tree(rng):
    return rng.choice(["bare", "or", "or", "nested", "two"])


def _gen_at(rng):
    hist, n = _gen_hist(rng)
    r = rng.random()
    if r < 0.4:
        target = None
    elif r < 0.75:
        target = rng.choice(GRID)
    else:
        ln = n if rng.random() < 0.8 or n <= 2 else rng.choice([n - 1, n + 1])
        if n == 1 or ln == 1:
            ln = n   # (broadcasting corner of numpy: length-1 targets / one column are not modelled)
        target = [rng.choice(GRID) for _ in range(ln)]
        if n == 1:
            target = target[0]
    m = rng.random()
    if m < 0.3:
        mask = None
    elif m < 0.85:
        mask = {"set": sorted(set(rng.randrange(n + 1) for _ in range(rng.choice([0, 1, 1, 2, n]))))}
    else:
        mask = {"bad": rng.choice(["elem", "list", "dict", "tuple"])}
    return dict(kind="at", hist=hist, target=target, tol=rng.choice(TOLS), gens=_gen_gens(rng, len(hist)), mask=mask,
                tree=_tree(rng), lg=rng.choice([len(hist)] * 4 + [0, len(hist) + 1]))


def _gen_as(rng):
    hist, n = _gen_hist(rng, ncol=rng.choice([1, 2, 3, 3, 4, 4, 5]))
    m = rng.random()
    if m < 0.3:
        mask = None
    elif m < 0.85:
        el = []
        for _ in range(rng.choice([0, 1, 1, 2, 3])):
            if rng.random() < 0.35:
                el.append(rng.randrange(n + 1))
            else:
                a, b = rng.randrange(n), rng.randrange(n)
                if a != b:
                    el.append([a, b])
        mask = {"set": el}
    else:
        mask = {"bad": rng.choice(["elem3", "list", "dict"])}
    return dict(kind="as", hist=hist, offset=rng.random() < 0.4, tol=rng.choice(TOLS), gens=_gen_gens(rng, len(hist)), mask=mask,
                tree=_tree(rng), lg=rng.choice([len(hist)] * 4 + [0, len(hist) + 1]))


def _gen_measure(rng, which):
    nm = rng.choice([1, 2, 2, 3])
    k = rng.choice([1, 2, 2, 3, 3, 4])
    npts = [k] * nm
    if rng.random() < 0.12:
        npts = [rng.choice([1, 2, 3, 4]) for _ in range(nm)]   # unequal: exercises get_ipos/reshape as written
    width = 2 * sum(npts)
    nrow = rng.choice([0, 1, 1, 2, 3, 4, 6])
    hist, _ = _gen_hist(rng, ncol=width, nrow=nrow)
    if which == "weight":   # weights: make many exact zeros / small values
        for r in hist:
            for j in range(width):
                if rng.random() < 0.5:
                    r[j] = rng.choice([0.0, 0.0, 0.125, -0.125, 0.25])
    if rng.random() < 0.05 and width > 1:
        hist = [r[:-1] for r in hist]
    fmt = rng.choice(["none", "dict", "dict", "set", "set", "where", "where", "wherelist", "whereinner", "bad"])
    ent = []
    for _ in range(rng.choice([0, 0, 1, 2, 3])):
        mm = rng.randrange(nm)
        if which == "weight":
            ent.append([mm, rng.randrange(k + 1)])
        else:
            a, b = rng.randrange(k + 1), rng.randrange(k + 1)
            if a != b:
                ent.append([mm, [a, b]])
    if fmt == "whereinner" and not ent:
        fmt = "wherelist"
    mask = {"fmt": fmt, "entries": ent}
    if fmt == "bad":
        mask["bad"] = rng.choice(["int", "ragged", "elem1", "dictval"])
    return dict(kind=which, hist=hist, npts=npts, tol=rng.choice(TOLS), gens=_gen_gens(rng, len(hist)), mask=mask,
                tree=_tree(rng))


def _cyclic(pairs):
    adj = {}
    for a, b in pairs:
        adj.setdefault(a, []).append(b)
    state = {}

    def visit(u):
        if state.get(u) == 1:
            return True
        if state.get(u) == 2:
            return False
        state[u] = 1
        r = any(visit(v) for v in adj.get(u, []))
        state[u] = 2
        return r
    return any(visit(u) for u in list(adj))


def _gen_impose(rng):
    n = rng.choice([1, 2, 3, 4, 5, 6])
    x = [rng.choice(GRID) + i for i in range(n)]
    if rng.random() < 0.2:   # the real AbstractSolver.__collapse_constraints for CollapseAt(target=list) on an index subset
        idx = sorted(set(rng.randrange(n) for _ in range(rng.choice([1, 1, 2, 3, n]))))
        return dict(kind="impose", which="collapse", x=x, idx=idx, target=[rng.choice(GRID) + 20 + j for j in range(n)])
    if rng.random() < 0.5:
        idx = sorted(set(rng.randrange(n + 2) for _ in range(rng.choice([0, 1, 2, 3]))))
        r = rng.random()
        if r < 0.5:
            tgt = rng.choice(GRID)
        else:
            kept = len([i for i in idx if i < n])
            ln = rng.choice([kept, kept, kept, len(idx), 1, kept + 1])
            tgt = [rng.choice(GRID) + 10 + j for j in range(ln)]
        return dict(kind="impose", which="at", x=x, idx=idx, target=tgt)
    pairs = set()
    if n >= 4 and rng.random() < 0.3:
        # chains / V shapes joining two groups late: what a tolerance test that is not transitive produces
        ii = sorted(rng.sample(range(n), 4))
        tpl = rng.choice([[(0, 1), (2, 3), (0, 3)], [(0, 1), (2, 3), (1, 2)], [(0, 1), (2, 3), (1, 3)], [(0, 2), (1, 3), (0, 3)],
                          [(0, 1), (2, 3), (0, 2)], [(0, 3), (1, 2), (2, 3)]])
        pairs = set((ii[a], ii[b]) for a, b in tpl)
    for _ in range(rng.choice([0, 1, 2, 3, 3, 4, 5]) if not pairs else rng.choice([0, 0, 1])):
        a, b = rng.randrange(n + 1), rng.randrange(n + 1)
        if a < b:
            pairs.add((a, b))
        elif b < a and rng.random() < 0.15:
            pairs.add((a, b))   # (larger, smaller): accepted by impose_as; cyclic sets are filtered out below
    pairs = sorted(pairs)
    if _cyclic(pairs):   # impose_as never returns on a cyclic mask; the detectors only produce i<j pairs
        pairs = [p for p in pairs if p[0] < p[1]]
    return dict(kind="impose", which="as", x=x, pairs=[list(p) for p in pairs],
                offset=rng.choice([None, False, 0, 0, True, 0.5, 10]))


def _gen_cost(rng):
    n = rng.choice([1, 1, 2])
    npts = rng.choice([3, 5, 8, 12])
    jit = 0.0 if rng.random() < 0.4 else 0.5       # without jitter parameter values repeat (a coordinate held fixed, a discrete parameter)
    xs = [[rng.choice([0.0, 1.0, 2.0, 3.0, 4.0, 5.0, 6.0, 7.0]) + rng.random() * jit for _ in range(n)] for _ in range(npts)]
    ys = [rng.choice([0.0, 0.5, 1.0, 2.0, 5.0]) for _ in range(npts)]
    return dict(kind="cost", xs=xs, ys=ys, clip=rng.random() < 0.3, limit=rng.choice([0.5, 1.0, 1.0, 4.0]),
                samples=rng.choice([None, 1, 1, 2, 3]))


def _gen_solve(rng, i, tier):
    n = rng.choice([2, 2, 3, 3, 4, 5])
    solver = rng.choice(["NM", "PW", "DE"])
    w = [rng.choice([0, 0, 1, 1, 10]) for _ in range(n)]
    c = [rng.choice([0.0, 0.0, 1.0, -1.0, 2.0]) for _ in range(n)]
    ties = [[rng.randrange(n), rng.randrange(n)] for _ in range(rng.choice([0, 0, 1, 2, 3]))]
    ties = [t for t in ties if t[0] != t[1]]
    which = rng.choice(["at0", "at0", "atN", "atN", "as", "as", "asoff", "at+as", "atN+as", "atL", "at+as-lead", "at+as-lead"])
    terms = []
    g = rng.choice([1, 2, 3, 5, 10])
    tol = rng.choice([1e-2, 1e-3, 1e-4, 1e-6])
    if which in ("at0", "at+as"):
        terms.append(["at", rng.choice([0.0, 1.0, -1.0]), tol, g])
    if which == "atL":
        terms.append(["at", [float(v) for v in c], tol, g])
    if which in ("atN", "atN+as"):
        terms.append(["at", None, tol, g])
    if which in ("as", "at+as", "atN+as"):
        terms.append(["as", False, tol, g])
    if which == "asoff":
        terms.append(["as", True, tol, g])
        ties = ties or [[0, 1]]
    if which == "at+as-lead":
        # both kinds reported by the SAME termination check and sharing a parameter: x_i settles at the target, x_j settles a little
        # further away than the CollapseAt tolerance but within the CollapseAs tolerance, so i is fixed AND leads the pair (i, j)
        i_, j_ = rng.sample(range(n), 2)
        t_ = rng.choice([0.0, 1.0, -1.0])
        c[i_], c[j_] = t_, t_ + 0.005
        w[i_], w[j_] = 1, 1
        ties = []
        g = rng.choice([20, 40, 60])
        terms = [["as", False, 1e-2, g], ["at", t_, 1e-3, g]]
        solver = rng.choice(["PW", "PW", "NM"])
    x0 = [round(rng.uniform(-3, 3), 3) for _ in range(n)]
    cog = [1e-12, rng.choice([20, 50])]
    if rng.random() < 0.12:
        # the ordinary stop condition and the collapse become true in the SAME generation (a start next to the optimum, equal windows): the run
        # stops there; a collapse that is applied nevertheless would leave a final solution that does not satisfy it
        t_ = rng.choice([0.0, 1.0, -1.0])
        solver, g = rng.choice(["NM", "NM", "PW"]), rng.choice([2, 3, 5])
        c, w, ties = [t_] * n, [1] * n, []
        terms, cog = [["at", t_, 1e-2, g]], [1e-2, g]
        x0 = [t_ + rng.choice([1e-4, -2e-4, 3e-4]) for _ in range(n)]
    return dict(kind="solve", solver=solver, n=n, w=w, c=c, ties=ties, tiegap=rng.choice([0.0, 0.0, 0.5]) if which == "asoff" else 0.0,
                terms=terms, cog=cog, x0=x0, seed=i, maxfun=rng.choice([3000, 20000]),
                strict=rng.random() < 0.15)


def generate(rng, n, tier):
    nsolve = 40 if tier == "quick" else 400
    kinds = ["at"] * 6 + ["as"] * 6 + ["weight"] * 3 + ["position"] * 3 + ["impose"] * 4 + ["cost"]
    stride = max(1, n // nsolve)
    for i in range(n):
        if i % stride == 0 and i // stride < nsolve:   # spread the (slow) solver runs over the worker chunks
            yield _gen_solve(rng, i // stride, tier)
            continue
        k = rng.choice(kinds)
        if k == "at":
            yield _gen_at(rng)
        elif k == "as":
            yield _gen_as(rng)
        elif k in ("weight", "position"):
            yield _gen_measure(rng, k)
        elif k == "impose":
            yield _gen_impose(rng)
        else:
            yield _gen_cost(rng)


# ------------------------------------------------------------------ driving the implementation

def _err(e):
    return {"error": type(e).__name__}


def _monitor(hist, npts=None):
    from mystic.monitors import Monitor
    m = Monitor()
    for r in hist:
        m(list(r), 0.0)
    if npts is not None:
        m._npts = tuple(npts)
    return m


class _Stub(object):
    pass


def _stub(hist, lg, npts=None):
    s = _Stub()
    s._stepmon = _monitor(hist, npts)
    s.energy_history = [float(10 * (lg - k)) for k in range(lg)]   # strictly decreasing: ChangeOverGeneration stays quiet
    s.bestEnergy = s.energy_history[-1] if lg else None
    s.generations = lg
    s._EARLYEXIT = False
    return s


def _mask_at(spec):
    if spec is None:
        return None
    if "set" in spec:
        return set(spec["set"])
    return {"elem": {0, (0, 1)}, "list": [0], "dict": {0: 1}, "tuple": (0,)}[spec["bad"]]


def _mask_as(spec):
    if spec is None:
        return None
    if "set" in spec:
        return set(tuple(e) if isinstance(e, list) else e for e in spec["set"])
    return {"elem3": {(0, 1, 2)}, "list": [(0, 1)], "dict": {0: 1}}[spec["bad"]]


def _mask_m(spec, which):
    fmt, ent = spec["fmt"], spec["entries"]
    e2 = [(m, tuple(v) if isinstance(v, list) else v) for m, v in ent]
    if fmt == "none":
        return None
    if fmt == "set":
        return set(e2)
    if fmt == "dict":
        d = {}
        for m, v in e2:
            d.setdefault(m, set()).add(v)
        return d
    if fmt == "where":
        return (tuple(m for m, v in e2), tuple(v for m, v in e2)) if e2 else ()
    if fmt == "whereinner":   # accepted by the detectors (numpy object array of ndim 2), inner sequences are lists
        return [[m for m, v in e2], [v for m, v in e2]]
    if fmt == "wherelist":
        return [tuple(m for m, v in e2), tuple(v for m, v in e2)] if e2 else []
    bad = spec["bad"]
    if which == "weight":
        return {"int": 3, "ragged": ((0, 1), (2,)), "elem1": {(0,)}, "dictval": {0: 2}}[bad]
    return {"int": 3, "ragged": ((1,), (1,)), "elem1": {(0,)}, "dictval": {1: {1}}}[bad]


def _canon_at(v):
    return sorted(int(i) for i in v)


def _canon_as(v):
    return sorted([int(a), int(b)] for a, b in v)


def _canon_as_mask(v):
    out = []
    for e in v:
        out.append([int(e[0]), int(e[1])] if hasattr(e, "__len__") else int(e))
    return sorted(out, key=lambda t: (0, t, 0) if isinstance(t, int) else (1, t[0], t[1]))


def _canon_m(v, which):
    """any of the three formats -> (format name, sorted entry list)"""
    if isinstance(v, dict):
        ent = [(int(m), x) for m, s in v.items() for x in s]
        f = "dict"
    elif isinstance(v, (set, frozenset)):
        ent = [(int(m), x) for m, x in v]
        f = "set"
    else:
        ent = list(zip(*v)) if len(v) else []
        ent = [(int(m), x) for m, x in ent]
        f = "where"
    if which == "weight":
        ent = [[m, int(x)] for m, x in ent]
    else:
        ent = [[m, [int(x[0]), int(x[1])]] for m, x in ent]
    return f, sorted(ent)


def _build_tree(leaf, other, shape):
    from mystic.termination import Or, And, ChangeOverGeneration as COG, VTR
    if shape == "bare":
        return leaf, ["L"]
    if shape == "or":
        return Or(COG(1e-9, 3), leaf), ["cog", "L"]
    if shape == "nested":
        return Or(VTR(-1e300), Or(leaf, COG(1e-9, 3))), ["vtr", ["L", "cog"]]
    return Or(leaf, other, COG(1e-9, 3)), ["L", "O", "cog"]


def _tree_leaves(t):
    """leaves of a termination tree in traversal order"""
    if isinstance(t, tuple):
        out = []
        for c in t:
            out += _tree_leaves(c)
        return out
    return [t]


def _tree_shape(t, counter=None):
    """nested lists of leaf numbers mirroring the tree (an int = a leaf)"""
    counter = counter if counter is not None else [0]
    if isinstance(t, tuple):
        return [_tree_shape(c, counter) for c in t]
    counter[0] += 1
    return counter[0] - 1


def _tree_docs(t):
    return [l.__doc__ for l in _tree_leaves(t)]


def _tree_masks(t, canon):
    """per leaf (traversal order): {"m": canonical mask or None} or "nomask" """
    from mystic.termination import state
    out = []
    for l in _tree_leaves(t):
        kw = list(state(l).values())[0]
        if "mask" not in kw:
            out.append("nomask")
        else:
            out.append({"m": None if kw["mask"] is None else canon(kw["mask"])})
    return out


def _term_level(case, make, canon_res, canon_mask, stub):
    """termination wrapper -> message -> collapsed() -> update_mask -> state, and a second evaluation"""
    import mystic.collapse as ct
    from mystic.mask import update_mask
    out = {}
    try:
        leaf, other = make()
    except Exception as e:
        return {"build": _err(e)}
    tree, names = _build_tree(leaf, other, case["tree"])
    leaves = _tree_leaves(tree)
    out["docs"] = _tree_docs(tree)
    out["shape"] = _tree_shape(tree)
    out["leaf_index"] = [i for i, l in enumerate(leaves) if l is leaf][0]
    out["other_index"] = ([i for i, l in enumerate(leaves) if l is other] or [None])[0]
    out["masks_before"] = _tree_masks(tree, canon_mask)
    try:
        msg = tree(stub, True)
    except Exception as e:
        out["msg"] = _err(e)
        return out
    coll = ct.collapsed(msg) if msg else None
    out["reported"] = None
    out["keys"] = sorted(coll.keys()) if coll else []
    if coll and leaf.__doc__ in coll:
        out["reported"] = canon_res(coll[leaf.__doc__])
    out["reported_other"] = canon_res(coll[other.__doc__]) if coll and out["other_index"] is not None and other.__doc__ in coll else None
    if not coll:
        return out
    try:
        new = update_mask(tree, coll)
    except Exception as e:
        out["update"] = _err(e)
        return out
    out["masks_after"] = _tree_masks(new, canon_mask)
    try:
        msg2 = new(stub, True)
        coll2 = ct.collapsed(msg2) if msg2 else None
        out["again"] = sorted([k.split(" with ")[0], canon_res(v)] for k, v in coll2.items()) if coll2 else []
    except Exception as e:
        out["again"] = _err(e)
    return out


def _run_at(case):
    import mystic.collapse as ct
    from mystic.termination import CollapseAt
    hist, tg, tol, gens = case["hist"], case["target"], case["tol"], case["gens"]
    mon = _monitor(hist)
    out = {}
    try:
        out["det"] = _canon_at(ct.collapse_at(mon, tg, tol, gens, _mask_at(case["mask"])))
    except Exception as e:
        out["det"] = _err(e)
    if isinstance(out["det"], list) and (case["mask"] is None or "set" in case["mask"]):
        m2 = set((case["mask"] or {}).get("set", [])) | set(out["det"])
        try:
            out["det_own_mask"] = _canon_at(ct.collapse_at(mon, tg, tol, gens, m2))
        except Exception as e:
            out["det_own_mask"] = _err(e)
    make = lambda: (CollapseAt(tg, tol, gens, _mask_at(case["mask"])), CollapseAt(tg, INF, gens, _mask_at(case["mask"])))
    if not (case["mask"] and "bad" in case["mask"]):
        out["term"] = _term_level(case, make, _canon_at, _canon_at, _stub(hist, case["lg"]))
    return out


def _run_as(case):
    import mystic.collapse as ct
    from mystic.termination import CollapseAs
    hist, off, tol, gens = case["hist"], case["offset"], case["tol"], case["gens"]
    mon = _monitor(hist)
    out = {}
    try:
        out["det"] = _canon_as(ct.collapse_as(mon, off, tol, gens, _mask_as(case["mask"])))
    except Exception as e:
        out["det"] = _err(e)
    if isinstance(out["det"], list) and (case["mask"] is None or "set" in case["mask"]):
        m2 = (_mask_as(case["mask"]) or set()) | set(tuple(p) for p in out["det"])
        try:
            out["det_own_mask"] = _canon_as(ct.collapse_as(mon, off, tol, gens, m2))
        except Exception as e:
            out["det_own_mask"] = _err(e)
    make = lambda: (CollapseAs(off, tol, gens, _mask_as(case["mask"])), CollapseAs(off, INF, gens, _mask_as(case["mask"])))
    if not (case["mask"] and "bad" in case["mask"]):
        out["term"] = _term_level(case, make, _canon_as, _canon_as_mask, _stub(hist, case["lg"]))
    return out


def _run_measure(case):
    import warnings
    import mystic.collapse as ct
    from mystic.termination import CollapseWeight, CollapsePosition
    which = case["kind"]
    f = ct.collapse_weight if which == "weight" else ct.collapse_position
    T = CollapseWeight if which == "weight" else CollapsePosition
    hist, tol, gens, npts = case["hist"], case["tol"], case["gens"], case["npts"]
    out = {}
    with warnings.catch_warnings():
        warnings.simplefilter("ignore")
        try:
            r = f(_monitor(hist, npts), tol, gens, _mask_m(case["mask"], which))
            out["det"] = list(_canon_m(r, which))
        except Exception as e:
            out["det"] = _err(e)
        if isinstance(out["det"], list) and case["mask"]["fmt"] != "bad" and isinstance(gens, int) and gens >= 0:
            canon = lambda v: _canon_m(v, which)[1]
            make = lambda: (T(tol, gens, _mask_m(case["mask"], which)), None)
            c2 = dict(case, tree="or" if case["tree"] == "two" else case["tree"])
            out["term"] = _term_level(c2, make, canon, canon, _stub(hist, len(hist), npts))
    return out


def _run_impose(case):
    import numpy as np
    from mystic.constraints import impose_at, impose_as
    x = np.array(case["x"], dtype=float)
    out = {}
    if case["which"] == "collapse":
        from mystic.solvers import NelderMeadSimplexSolver
        from mystic.termination import CollapseAt, state
        s = NelderMeadSimplexSolver(len(x))
        term = CollapseAt(list(case["target"]), 0.0, 1)
        s.SetTermination(term)
        idx = set(np.int64(i) for i in case["idx"])
        out["order"] = [int(i) for i in idx]
        try:
            cons = s._AbstractSolver__collapse_constraints(state(term), {term.__doc__: idx})
            out["y"] = [float(v) for v in cons(x)]
        except Exception as e:
            out["y"] = _err(e)
        return out
    if case["which"] == "at":
        idx = set(case["idx"])
        out["order"] = [int(i) for i in idx]
        try:
            y = impose_at(idx, case["target"])(lambda v: v)(x)
            out["y"] = [float(v) for v in y]
        except Exception as e:
            out["y"] = _err(e)
        return out
    mask = set((np.int64(a), np.int64(b)) for a, b in case["pairs"])
    out["order"] = [[int(a), int(b)] for a, b in mask]
    try:
        y = impose_as(mask, case["offset"])(lambda v: v)(x)
        out["y"] = [float(v) for v in y]
    except Exception as e:
        out["y"] = _err(e)
    return out


def _run_cost(case):
    import warnings
    import mystic.collapse as ct
    from mystic.monitors import Monitor
    m = Monitor()
    for xx, yy in zip(case["xs"], case["ys"]):
        m(list(xx), yy)
    with warnings.catch_warnings():
        warnings.simplefilter("ignore")
        try:
            r = ct.collapse_cost(m, clip=case["clip"], limit=case["limit"], samples=case["samples"])
            out = {"det": {str(int(k)): [[float(a), float(b)] for a, b in v] for k, v in r.items()}}
            if r:       # the detector fed its own output as mask
                try:
                    r2 = ct.collapse_cost(m, clip=case["clip"], limit=case["limit"], samples=case["samples"], mask=r)
                    out["again"] = {str(int(k)): [[float(a), float(b)] for a, b in v] for k, v in r2.items()}
                except Exception as e:
                    out["again"] = _err(e)
            return out
        except Exception as e:
            return {"det": _err(e)}


# ---- Part B

def _cost_fn(case):
    w, c, ties, gap = case["w"], case["c"], case["ties"], case.get("tiegap", 0.0)

    def cost(x):
        return sum(wi * (xi - ci) ** 2 for wi, xi, ci in zip(w, x, c)) + \
               sum(50.0 * (x[a] - x[b] - gap) ** 2 for a, b in ties)
    return cost


class _Timeout(BaseException):
    pass


def _run_solve(case):
    import random, numpy as np
    from mystic.solvers import NelderMeadSimplexSolver, PowellDirectionalSolver, DifferentialEvolutionSolver
    from mystic.termination import Or, ChangeOverGeneration as COG, CollapseAt, CollapseAs, state
    n = case["n"]
    random.seed(case["seed"]); np.random.seed(case["seed"])
    s = {"NM": NelderMeadSimplexSolver, "PW": PowellDirectionalSolver}.get(case["solver"], None)
    s = s(n) if s else DifferentialEvolutionSolver(n, 4 * n)
    if case["solver"] == "DE":
        s.SetRandomInitialPoints([-5.0] * n, [5.0] * n)
    else:
        s.SetInitialPoints(list(case["x0"]))
    if case.get("strict"):
        s.SetStrictRanges([-6.0] * n, [6.0] * n)
    s.SetEvaluationLimits(evaluations=case["maxfun"])
    terms = [COG(*case["cog"])]
    for t in case["terms"]:
        terms.append(CollapseAt(t[1], t[2], t[3]) if t[0] == "at" else CollapseAs(t[1], t[2], t[3]))
    raw = _cost_fn(case)
    log, events = [], []
    deadline = time.time() + 12.0

    def cost(x):
        if time.time() > deadline:
            raise _Timeout()
        log.append([float(v) for v in x])
        return raw(x)

    def canon(v):
        v = list(v)
        if v and hasattr(v[0], "__len__"):
            return sorted([int(a), int(b)] for a, b in v)
        return sorted(int(i) for i in v)

    def masks(term):
        return {k.split(" with ")[0] + "|" + json.dumps([kw.get("target", kw.get("offset")), kw["tolerance"], kw["generations"]]):
                (None if kw["mask"] is None else canon(kw["mask"])) for k, kw in state(term).items() if "mask" in kw}

    orig = s.Collapse

    def Collapse(disp=False):
        best = [float(v) for v in s.bestSolution]
        before = masks(s._termination)
        st = state(s._termination)
        r = orig(disp)
        ev = dict(at=len(log), best=best, before=before, after=masks(s._termination), collapses=[])
        for k, v in r.items():
            kw = st[k]
            ev["collapses"].append(dict(key=k.split(" with ")[0] + "|" + json.dumps([kw.get("target", kw.get("offset")), kw["tolerance"], kw["generations"]]),
                                        det=k.split(" with ")[0], target=kw.get("target"), offset=kw.get("offset"),
                                        order=[[int(a), int(b)] for a, b in v] if k.startswith("CollapseAs") else [int(i) for i in v],
                                        what=canon(v)))
        events.append(ev)
        return r
    s.Collapse = Collapse
    out = dict(finished=False)
    t0 = time.time()
    try:
        s.Solve(cost, Or(*terms))
        out["finished"] = True
    except _Timeout:
        out["timeout"] = True
    except _WallClock:
        raise
    except Exception as e:
        out["exception"] = type(e).__name__
        out["exception_msg"] = str(e)[:200]
    out["evals"] = len(log)
    out["events"] = events
    out["best"] = [float(v) for v in s.bestSolution]
    out["stop"] = (s.Terminated(info=True) or "").split(" with ")[0] if out["finished"] else None
    out["final_masks"] = masks(s._termination)
    out["wall"] = round(time.time() - t0, 2)
    # compress the evaluation log: per event, the first point after it violating nothing is not needed -> keep only
    # what the oracle needs: the points evaluated after the first collapse (bounded)
    first = events[0]["at"] if events else len(log)
    out["log_from"] = first
    out["log"] = log[first:]
    return out


class _WallClock(BaseException):
    pass


def run_impl(case):
    """every case runs under a wall-clock guard: a hang becomes an observable (oracle: solve_terminates / no-crash)"""
    import signal

    def _alarm(*a):
        raise _WallClock("wall-clock guard expired")
    try:
        old = signal.signal(signal.SIGALRM, _alarm)
        signal.alarm(150)
    except ValueError:      # not in the main thread
        old = None
    try:
        return _run_impl(case)
    except _WallClock:
        return {"__exception__": "WallClockGuard", "__msg__": "case did not finish within 150 s", "__tb__": ""}
    finally:
        if old is not None:
            signal.alarm(0)
            signal.signal(signal.SIGALRM, old)


def _run_impl(case):
    k = case["kind"]
    if k == "at":
        return _run_at(case)
    if k == "as":
        return _run_as(case)
    if k in ("weight", "position"):
        return _run_measure(case)
    if k == "impose":
        return _run_impose(case)
    if k == "cost":
        return _run_cost(case)
    if k == "solve":
        return _run_solve(case)
    raise ValueError(k)


# ------------------------------------------------------------------ oracle: the property statement, evaluated directly

def _fail(clause, site, pattern, detail):
    return dict(clause=clause, site=site, pattern=pattern, detail=detail)


def _window(hist, gens):
    return hist if gens is None else hist[-gens:] if gens != 0 else hist[:]


def _def_at(case):
    """the documented definition of collapse_at, evaluated with plain Python floats"""
    w = _window(case["hist"], case["gens"])
    if not w:
        return None
    n = len(w[0])
    tg = case["target"]
    if isinstance(tg, list) and len(tg) != n:
        return None
    out = []
    for i in range(n):
        col = [r[i] for r in w]
        if tg is None:
            ch = max(col) - min(col)
        else:
            t = tg[i] if isinstance(tg, list) else tg
            ch = max(abs(v - t) for v in col)
        if ch <= case["tol"]:
            out.append(i)
    return out


def _def_as(case):
    w = _window(case["hist"], case["gens"])
    if not w:
        return None
    n = len(w[0])
    out = []
    for i in range(n):
        for j in range(i + 1, n):
            d = [abs(r[i] - r[j]) for r in w]
            ch = (max(d) - min(d)) if case["offset"] else max(d)
            if ch <= case["tol"]:
                out.append([i, j])
    return out


def _def_measure(case):
    """documented definition of collapse_weight / collapse_position for the regular layout (all measures have k points:
    measure m occupies x[2mk : 2mk+k] (weights) and x[2mk+k : 2mk+2k] (positions)); None = not covered here"""
    npts, hist = case["npts"], case["hist"]
    if len(set(npts)) != 1 or not hist or any(len(r) < 2 * sum(npts) for r in hist):
        return None
    w = _window(hist, case["gens"])
    if not w:
        return None
    k, nm, tol = npts[0], len(npts), case["tol"]
    out = []
    for m in range(nm):
        if case["kind"] == "weight":
            for i in range(k):
                if max(r[2 * m * k + i] for r in w) <= tol:
                    out.append([m, i])
        else:
            for a in range(k):
                for b in range(a + 1, k):
                    if max(abs(r[2 * m * k + k + a] - r[2 * m * k + k + b]) for r in w) <= tol:
                        out.append([m, [a, b]])
    return out


def _as_masked(mask, p):
    for e in mask:
        if isinstance(e, list):
            if (e[0], e[1]) in ((p[0], p[1]), (p[1], p[0])):
                return True
        elif e in p:
            return True
    return False


def _mval(m):
    return [] if m == "nomask" or m["m"] is None else m["m"]


def _oracle_term(case, obs, out, site):
    """message round trip, mask growth and no-second-report on the real termination objects"""
    t = obs.get("term")
    if not t or "build" in t or isinstance(t.get("msg"), dict):
        return
    rep = t.get("reported")
    det = obs.get("det")
    lg, g = case.get("lg", len(case["hist"])), case["gens"]
    detv0 = det if case["kind"] in ("at", "as") else (det[1] if isinstance(det, list) else det)
    if isinstance(g, int) and "reported" in t:
        # the wrapper reports iff the history is longer than the look-back and the detector result is non-empty
        should = lg > 0 and lg > g and isinstance(detv0, list) and len(detv0) > 0
        if should != (rep is not None) and not isinstance(det, dict):
            out.append(_fail("termination_reports_detector_result", site, "guard", dict(lg=lg, generations=g, det=det, reported=rep)))
    if rep is None:
        return
    # message round trip: what collapsed(message) yields is exactly what the detector returned
    detv = det if case["kind"] in ("at", "as") else (det[1] if isinstance(det, list) else det)
    if isinstance(det, list) and rep != detv:
        out.append(_fail("message_round_trip", "collapse.collapsed", "roundtrip", dict(reported=rep, det=det)))
    if "update" in t:
        pat = t["update"]["error"]
        if case["kind"] in ("weight", "position") and case["mask"]["fmt"] == "whereinner":
            pat = "where-mask-inner-lists"
        out.append(_fail("mask_grows_by_applied", "mask._extend_mask", pat, dict(mask=case["mask"], reported=rep)))
        return
    docs, mb, ma = t["docs"], t["masks_before"], t["masks_after"]
    for i, d in enumerate(docs):
        reported_here = rep if i == t["leaf_index"] else (t.get("reported_other") if i == t.get("other_index") else None)
        if mb[i] == "nomask" or reported_here is None:
            if ma[i] != mb[i]:
                out.append(_fail("mask_grows_by_applied", "mask.update_mask", "untouched-leaf-changed", dict(doc=d, before=mb[i], after=ma[i])))
            continue
        want = _union(_mval(mb[i]), reported_here)
        if ma[i] == "nomask" or ma[i]["m"] is None or _union(ma[i]["m"], []) != want:
            out.append(_fail("mask_grows_by_applied", "mask.update_mask", "wrong-mask", dict(before=mb[i], reported=reported_here, after=ma[i])))
    # never reported twice: re-evaluating the updated termination on the same solver state reports nothing
    ag = t.get("again")
    if isinstance(ag, dict):
        out.append(_fail("never_reported_twice", site, ag["error"], t))
    elif ag:
        out.append(_fail("never_reported_twice", site, "reported-again", dict(first=rep, again=ag)))


def _union(a, b):
    out = []
    for e in list(a) + list(b):
        if e not in out:
            out.append(e)
    return sorted(out, key=lambda t: json.dumps(t))


def oracle(case, obs):
    out = []
    if "__exception__" in obs:
        return [_fail("no-crash", "harness", obs["__exception__"], obs.get("__tb__"))]
    k = case["kind"]
    if k in ("at", "as"):
        det = obs["det"]
        spec = case["mask"]
        bad = spec is not None and "bad" in spec
        defn = _def_at(case) if k == "at" else _def_as(case)
        site = "collapse.collapse_" + k
        if bad:
            exp = "TypeError" if spec["bad"] in ("list", "dict", "tuple") else "ValueError"
            if not (isinstance(det, dict) and det["error"] == exp):
                out.append(_fail("bad_mask_rejected", site, "bad-mask", dict(mask=spec, got=det)))
        elif defn is None:
            if not isinstance(det, dict):
                out.append(_fail("detector_is_definition", site, "undefined-input-accepted", det))
        elif isinstance(det, dict):
            out.append(_fail("detector_is_definition", site, det["error"], det))
        else:
            m = (spec or {}).get("set", [])
            want = [i for i in defn if (i not in m if k == "at" else not _as_masked(m, i))]
            if det != want:
                out.append(_fail("detector_is_definition", site, "wrong-set", dict(want=want, got=det)))
            if obs.get("det_own_mask") != []:
                out.append(_fail("detector_idempotent_under_own_mask", site, "not-empty", obs.get("det_own_mask")))
        _oracle_term(case, obs, out, "CollapseAt" if k == "at" else "CollapseAs")
    elif k in ("weight", "position"):
        det = obs["det"]
        if isinstance(det, list):
            fmt, ent = det
            want_fmt = {"none": "dict", "dict": "dict", "set": "set", "where": "where", "wherelist": "where", "whereinner": "where"}.get(case["mask"]["fmt"])
            if want_fmt and fmt != want_fmt:
                out.append(_fail("mask_format_kept", "collapse.collapse_" + k, "format", det))
            defn = _def_measure(case)
            if defn is not None and case["mask"]["fmt"] != "bad":
                mk = case["mask"]["entries"] if case["mask"]["fmt"] != "none" else []
                want = [e for e in defn if e not in mk and not (k == "position" and [e[0], e[1][::-1]] in mk)]
                if sorted(want) != ent:
                    out.append(_fail("detector_is_definition", "collapse.collapse_" + k, "wrong-set", dict(want=want, got=ent)))
            for e in ent:   # nothing in the mask is reported (positions: in either orientation)
                for m in (case["mask"]["entries"] if case["mask"]["fmt"] not in ("none", "bad") else []):
                    if e == m or (k == "position" and e[0] == m[0] and e[1] == m[1][::-1]):
                        out.append(_fail("detector_is_definition", "collapse.collapse_" + k, "masked-entry-reported", dict(e=e)))
            _oracle_term(case, obs, out, "CollapseWeight" if k == "weight" else "CollapsePosition")
    elif k == "impose":
        y = obs["y"]
        x = case["x"]
        if case["which"] == "collapse":
            if isinstance(y, dict):
                out.append(_fail("after_collapse_relation_exact", "abstract_solver.Collapse", y["error"], obs))
            else:
                if any(y[i] != case["target"][i] for i in case["idx"]):
                    out.append(_fail("after_collapse_relation_exact", "abstract_solver.Collapse", "not-at-own-target", obs))
                if any(y[i] != x[i] for i in range(len(x)) if i not in case["idx"]) or len(y) != len(x):
                    out.append(_fail("impose_at_frame", "abstract_solver.Collapse", "other-coordinate-moved", obs))
        elif case["which"] == "at":
            tg = case["target"]
            if isinstance(tg, list):   # target k belongs to index k (iteration order of the set); out-of-range pairs are dropped
                at = [(i, t) for i, t in zip(obs["order"], tg) if i < len(x)]
            else:
                at = [(i, tg) for i in obs["order"] if i < len(x)]
            if isinstance(y, dict):
                out.append(_fail("impose_at_exact", "constraints.impose_at", y["error"], obs))
            else:
                if any(y[i] != t for i, t in at):
                    out.append(_fail("impose_at_exact", "constraints.impose_at", "not-at-target", obs))
                kept = [i for i, t in at]
                if any(y[i] != x[i] for i in range(len(x)) if i not in kept) or len(y) != len(x):
                    out.append(_fail("impose_at_frame", "constraints.impose_at", "other-coordinate-moved", obs))
        else:
            off = case["offset"] or 0
            if isinstance(y, dict):
                out.append(_fail("impose_as_exact", "constraints.impose_as", y["error"], obs))
            elif off == 0:
                n = len(x)
                # (out-of-range members make tools.connected pick an unusable leader; the detectors never produce them,
                #  so the relation is required only for masks that are entirely in range)
                inrange = all(p[0] < n and p[1] < n for p in case["pairs"])
                bad = [p for p in case["pairs"] if inrange and y[p[0]] != y[p[1]]]
                if bad:
                    out.append(_fail("impose_as_exact", "constraints.impose_as", "not-equal", dict(bad=bad, obs=obs)))
                wr = set(p[1] for p in case["pairs"]) | set(p[0] for p in case["pairs"])
                if any(y[i] != x[i] for i in range(n) if i not in wr):
                    out.append(_fail("impose_as_frame", "constraints.impose_as", "other-coordinate-moved", obs))
    elif k == "cost":
        det = obs["det"]
        if isinstance(det, dict) and "error" not in det:
            # partial, oracle-only: every returned interval is non-degenerate-ordered and no sample whose cost is within
            # `limit` of the minimum lies strictly outside all kept intervals of its parameter (clip=False)
            ymin = min(case["ys"])
            for p, ivs in det.items():
                p = int(p)
                for a, b in ivs:
                    if not a <= b:
                        out.append(_fail("cost_intervals_ordered", "collapse.collapse_cost", "inverted-interval", det))
            again = obs.get("again")
            if again:       # {} expected: nothing new under its own mask
                degenerate = any(a == b for ivs in det.values() for a, b in ivs)
                out.append(_fail("detector_idempotent_under_own_mask", "collapse.collapse_cost",
                                 "own-output-as-mask-reports-again" + (":degenerate-interval-in-output" if degenerate else ""), dict(det=det, again=again)))
    elif k == "solve":
        out += _oracle_solve(case, obs)
    return out


def _groups_disjoint(order):
    """the PRE-REPAIR tools.connected (no merging) re-implemented: would its groups have been pairwise disjoint?
    Only used to tag inputs on which the old code failed (chained pairs)."""
    groups = []
    for i, j in order:
        for g in groups:
            if i in g:
                g.append(j) if j not in g else None
                break
            if j in g:
                g.append(i) if i not in g else None
                break
        else:
            groups.append([i, j])
    mem = [m for g in groups for m in g]
    return len(mem) == len(set(mem))


def _oracle_solve(case, obs):
    out = []
    solver = {"NM": "NelderMeadSimplexSolver", "PW": "PowellDirectionalSolver", "DE": "DifferentialEvolutionSolver"}[case["solver"]]
    if obs.get("exception"):
        return [_fail("solve_terminates", solver, obs["exception"], obs.get("exception_msg"))]
    if obs.get("timeout") or not obs["finished"]:
        return [_fail("solve_terminates", solver, "timeout", dict(evals=obs["evals"]))]
    events = obs["events"]
    log, base = obs["log"], obs["log_from"]
    # what each applied transformation writes (to recognise interference between different collapses)
    applied = []
    for ei, e in enumerate(events):
        for c in e["collapses"]:
            wr = set(c["what"]) if c["det"] == "CollapseAt" else set(p[1] for p in c["what"]) | set(p[0] for p in c["what"])
            applied.append((ei, c, wr))
    seen = {}
    for ei, e in enumerate(events):
        # masks grow by exactly what was applied; nothing is reported twice
        for c in e["collapses"]:
            b, a = e["before"].get(c["key"]), None
            # the key changes with the mask; find the leaf by its parameters
            a = e["after"].get(c["key"])
            want = _union(b or [], c["what"])
            if a is None or _union(a, []) != want:
                out.append(_fail("mask_grows_by_applied", "abstract_solver.Collapse", "wrong-mask", dict(before=b, applied=c["what"], after=a)))
            prev = seen.setdefault(c["key"], [])
            dup = [x for x in c["what"] if x in prev]
            if dup:
                out.append(_fail("never_reported_twice", "abstract_solver.Collapse", "reported-again", dict(dup=dup, event=ei)))
            prev.extend(c["what"])
        for kname, a in e["after"].items():
            if kname not in [c["key"] for c in e["collapses"]] and e["before"].get(kname) != a:
                out.append(_fail("mask_grows_by_applied", "abstract_solver.Collapse", "other-mask-changed", dict(key=kname)))
        # relation exact on every later evaluation and on the final solution
        pts = log[e["at"] - base:] + [obs["best"]]
        for c in e["collapses"]:
            # coordinates written by transformations APPLIED AFTER this one (known finding: they may overwrite it).  The composition is
            # c0 o I(round 1) o ... o I(round N), i.e. later rounds are applied first, and within a round impose_at is applied before
            # impose_as: after an impose_at come the impose_as of its own round and everything of earlier rounds; after an impose_as only
            # the earlier rounds.  (An impose_as overwritten by the impose_at of its OWN round is not the documented order.)
            others = set()
            for (ej, c2, wr) in applied:
                if c2 is c:
                    continue
                if ej < ei or (ej == ei and c["det"] == "CollapseAt" and c2["det"] != "CollapseAt"):
                    others |= wr
            if c["det"] == "CollapseAt":
                for i in c["what"]:
                    t = c["target"]
                    tt = e["best"][i] if t is None else (t[i] if isinstance(t, list) else t)
                    bad = next((q for q, p in enumerate(pts) if p[i] != tt), None)
                    if bad is not None:
                        final_only = bad == len(pts) - 1
                        if i in others:
                            site, pat = "abstract_solver.Collapse", "relation-overwritten-by-other-collapse"
                        elif final_only and obs["best"] == e["best"]:
                            # nothing evaluated after the collapse beat the best-so-far, which predates the collapse
                            site, pat = solver, "best-predates-collapse"
                        else:
                            site, pat = (solver, "final-solution-off-target") if final_only else (solver, "evaluated-off-target")
                        out.append(_fail("after_collapse_relation_exact", site, pat, dict(index=i, target=tt, got=pts[bad][i], where="final" if final_only else bad, event=ei)))
            else:
                offset_true = c["offset"] is True
                for (i, j) in c["what"]:
                    if offset_true:
                        d = e["best"][j] - e["best"][i]
                        bad = next((q for q, p in enumerate(pts) if p[j] - p[i] != d), None)
                    else:
                        bad = next((q for q, p in enumerate(pts) if p[i] != p[j]), None)
                    if bad is not None:
                        final_only = bad == len(pts) - 1
                        dd = pts[bad][j] - pts[bad][i]
                        if offset_true and abs(dd - round(dd)) < 1e-9 and 1 <= round(dd) <= case["n"]:
                            site, pat = "abstract_solver.Collapse", "offset-true-imposed-as-plus-one"
                        elif i in others or j in others:
                            site, pat = "abstract_solver.Collapse", "relation-overwritten-by-other-collapse"
                        elif final_only and obs["best"] == e["best"]:
                            site, pat = solver, "best-predates-collapse"
                        else:
                            site, pat = (solver, "final-solution-not-tied") if final_only else (solver, "evaluated-not-tied")
                        out.append(_fail("after_collapse_relation_exact", site, pat, dict(pair=[i, j], point=pts[bad], where="final" if final_only else bad, event=ei)))
    # the loop ended because Collapse() returned nothing: last event (if any) has no collapses
    if events and events[-1]["collapses"]:
        out.append(_fail("solve_terminates", "abstract_solver._Solve", "loop-ended-after-nonempty-collapse", None))
    return out


# ------------------------------------------------------------------ Coq side

def coq_preamble():
    return r"""
From Coq Require Import PrimFloat.
From Coq Require Import String.
From MV Require Import Common.Num Pure.Collapse.
Definition natl_eq (a b : list nat) : bool :=
  (Nat.eqb (List.length a) (List.length b) && forallb (fun p => Nat.eqb (fst p) (snd p)) (combine a b))%bool.
Definition pl_eq (a b : list (nat * nat)) : bool :=
  (Nat.eqb (List.length a) (List.length b) && forallb (fun p => pair_eqb (fst p) (snd p)) (combine a b))%bool.
Definition ppl_eq (a b : list (nat * (nat * nat))) : bool :=
  (Nat.eqb (List.length a) (List.length b) && forallb (fun p => ppair_eqb (fst p) (snd p)) (combine a b))%bool.
Definition err_eqb (a b : err) : bool :=
  match a, b with ErrValue, ErrValue | ErrType, ErrType | ErrIndex, ErrIndex => true | _, _ => false end.
Definition res_eq {A} (eq : A -> A -> bool) (a b : res A) : bool :=
  match a, b with Ok x, Ok y => eq x y | Err e, Err f => err_eqb e f | _, _ => false end.
Definition opt_eq {A} (eq : A -> A -> bool) (a b : option A) : bool :=
  match a, b with Some x, Some y => eq x y | None, None => true | _, _ => false end.
(* set equality on canonical entry lists *)
Definition nset_eq (a b : list nat) : bool := (forallb (fun x => memb x b) a && forallb (fun x => memb x a) b)%bool.
Definition pset_eq (a b : list (nat * nat)) : bool := (forallb (fun x => pmemb x b) a && forallb (fun x => pmemb x a) b)%bool.
Definition melem_eqb (a b : melem) : bool :=
  match a, b with MInt x, MInt y => Nat.eqb x y | MPair x y, MPair u v => (Nat.eqb x u && Nat.eqb y v)%bool | _, _ => false end.
Definition mset_eq (a b : list melem) : bool :=
  (forallb (fun x => existsb (melem_eqb x) b) a && forallb (fun x => existsb (melem_eqb x) a) b)%bool.
Definition ppset_eq (a b : list (nat * (nat * nat))) : bool :=
  (forallb (fun x => existsb (ppair_eqb x) b) a && forallb (fun x => existsb (ppair_eqb x) a) b)%bool.
Definition fmt_eqb (a b : mfmt) : bool := match a, b with FDict, FDict | FSet, FSet | FWhere, FWhere => true | _, _ => false end.
Definition fl_eq (a b : option (list PrimFloat.float)) : bool := opt_eq flist_eq a b.
Definition masks_eq {M} (eq : M -> M -> bool) (a b : list M) : bool :=
  (Nat.eqb (List.length a) (List.length b) && forallb (fun p => eq (fst p) (snd p)) (combine a b))%bool.
"""


def _fl(xs):
    return "(%s : list PrimFloat.float)" % lst(xs, flit)


def _hist(h):
    return "(%s : list (list PrimFloat.float))" % lst([_fl(r) for r in h])


def _nl(xs):
    return "(%s : list nat)" % lst(xs, natlit)


def _pl(ps):
    return "(%s : list (nat * nat))" % lst(["(%s, %s)" % (natlit(a), natlit(b)) for a, b in ps])


def _ppl(es):
    return "(%s : list (nat * (nat * nat)))" % lst(["(%s, (%s, %s))" % (natlit(m), natlit(p[0]), natlit(p[1])) for m, p in es])


def _gens(g):
    return "(None : option Z)" if g is None else "(Some %s)" % zlit(g)


def _errname(e):
    return {"ValueError": "ErrValue", "TypeError": "ErrType", "IndexError": "ErrIndex"}.get(e)


def _target(tg):
    if tg is None:
        return "(@TNone NumF)"
    if isinstance(tg, list):
        return "(@TList NumF %s)" % _fl(tg)
    return "(@TScalar NumF %s)" % flit(tg)


def _mask_at_coq(spec):
    if spec is None:
        return "MaNone"
    if "set" in spec:
        return "(MaSet %s)" % _nl(spec["set"])
    return "MaBadElem" if spec["bad"] == "elem" else "MaNotSet"


def _melems(el):
    return "(%s : list melem)" % lst(["(MPair %s %s)" % (natlit(e[0]), natlit(e[1])) if isinstance(e, list) else "(MInt %s)" % natlit(e) for e in el])


def _mask_as_coq(spec):
    if spec is None:
        return "MsNone"
    if "set" in spec:
        return "(MsSet %s)" % _melems(spec["set"])
    return "MsBadElem" if spec["bad"] == "elem3" else "MsNotSet"


def _res(obs, okprinter):
    if isinstance(obs, dict):
        e = _errname(obs["error"])
        return None if e is None else "(Err %s)" % e
    return "(Ok %s)" % okprinter(obs)


def _doc_tree(shape, docs, masks, mprinter):
    """cond literal from the shape / docs / masks observed on the real termination"""
    if isinstance(shape, list):
        return "(Node %s)" % lst([_doc_tree(c, docs, masks, mprinter) for c in shape])
    d, m = docs[shape], masks[shape]
    if m == "nomask":
        return "(Leaf %s false %s)" % (slit(d), mprinter([]))
    return "(Leaf %s true %s)" % (slit(d), mprinter(m["m"] or []))


def _ascii(docs):
    if isinstance(docs, list):
        return all(_ascii(d) for d in docs)
    return all(32 <= ord(c) < 127 for c in docs)


def _term_terms(case, obs, T, model_term, res_printer, eqname, mprinter, seteq, to_mask_coq):
    t = obs.get("term")
    if not t or "build" in t:
        return
    if "msg" in t and isinstance(t["msg"], dict):
        e = _errname(t["msg"]["error"])
        if e and case["tree"] in ("bare", "or"):
            T.append("res_eq (opt_eq %s) (%s) (Err %s)" % (eqname, model_term, e))
        return
    T.append("res_eq (opt_eq %s) (%s) (Ok %s)" % (eqname, model_term, opt(t["reported"], res_printer)))
    if t.get("reported") is not None and "masks_after" in t and case["tree"] != "two" and _ascii(t["docs"]):
        # mask._update_masks on the real tree shape and docs
        key = t["docs"][t["leaf_index"]]
        tree = _doc_tree(t["shape"], t["docs"], t["masks_before"], mprinter)
        exp = lst([mprinter(_mval(m)) for m in t["masks_after"]])
        T.append("masks_eq %s (map snd (leaves (update_masks (@extend_mask _) %s %s %s))) %s"
                 % (seteq, tree, slit(key), to_mask_coq(t["reported"]), exp))


def coq_terms(case, obs):
    if "__exception__" in obs:
        return []
    k = case["kind"]
    T = []
    if k == "at":
        args = "%s %s %s %s" % (_hist(case["hist"]), _target(case["target"]), flit(case["tol"]), _gens(case["gens"]))
        r = _res(obs["det"], _nl)
        if r:
            T.append("res_eq natl_eq (collapse_at NumF %s %s) %s" % (args, _mask_at_coq(case["mask"]), r))
        if "det_own_mask" in obs and isinstance(obs["det"], list):
            own = sorted(set((case["mask"] or {}).get("set", [])) | set(obs["det"]))
            r2 = _res(obs["det_own_mask"], _nl)
            if r2:
                T.append("res_eq natl_eq (collapse_at NumF %s (MaSet %s)) %s" % (args, _nl(own), r2))
        _term_terms(case, obs, T, "term_at NumF %s %s %s" % (natlit(case["lg"]), args, _mask_at_coq(case["mask"])),
                    _nl, "natl_eq", _nl, "nset_eq", _nl)
    elif k == "as":
        args = "%s %s %s %s" % (_hist(case["hist"]), blit(case["offset"]), flit(case["tol"]), _gens(case["gens"]))
        r = _res(obs["det"], _pl)
        if r:
            T.append("res_eq pl_eq (collapse_as NumF %s %s) %s" % (args, _mask_as_coq(case["mask"]), r))
        if "det_own_mask" in obs and isinstance(obs["det"], list):
            own = list((case["mask"] or {}).get("set", [])) + [list(p) for p in obs["det"]]
            r2 = _res(obs["det_own_mask"], _pl)
            if r2:
                T.append("res_eq pl_eq (collapse_as NumF %s (MsSet %s)) %s" % (args, _melems(own), r2))
        _term_terms(case, obs, T, "term_as NumF %s %s %s" % (natlit(case["lg"]), args, _mask_as_coq(case["mask"])),
                    _pl, "pl_eq", _melems, "mset_eq", lambda r: "(as_mask_of %s)" % _pl(r))
    elif k in ("weight", "position"):
        spec = case["mask"]
        fmt = spec["fmt"]
        pr = _pl if k == "weight" else _ppl
        if fmt == "none":
            m = "MmNone"
        elif fmt == "bad":
            m = "(MmBad %s)" % ("ErrType" if spec["bad"] in ("int", "ragged") else "ErrValue")
        else:
            m = "(MmMask %s %s)" % ({"dict": "FDict", "set": "FSet", "where": "FWhere", "wherelist": "FWhere", "whereinner": "FWhere"}[fmt], pr(spec["entries"]))
        fn = "collapse_weight" if k == "weight" else "collapse_position"
        det = obs["det"]
        call = "%s NumF %s %s %s %s %s" % (fn, _hist(case["hist"]), _nl(case["npts"]), flit(case["tol"]), _gens(case["gens"]), m)
        if isinstance(det, dict):
            e = _errname(det["error"])
            if e:
                T.append("match %s with Err e => err_eqb e %s | Ok _ => false end" % (call, e))
        else:
            f = {"dict": "FDict", "set": "FSet", "where": "FWhere"}[det[0]]
            eq = "pl_eq" if k == "weight" else "ppl_eq"
            T.append("match %s with Ok (f, l) => (fmt_eqb f %s && %s l %s)%%bool | Err _ => false end" % (call, f, eq, pr(det[1])))
            t = obs.get("term")
            if t and t.get("reported") is not None and "masks_after" in t and _ascii(t["docs"]):
                seteq = "pset_eq" if k == "weight" else "ppset_eq"
                tree = _doc_tree(t["shape"], t["docs"], t["masks_before"], pr)
                exp = lst([pr(_mval(mm)) for mm in t["masks_after"]])
                T.append("masks_eq %s (map snd (leaves (update_masks (@extend_mask _) %s %s %s))) %s"
                         % (seteq, tree, slit(t["docs"][t["leaf_index"]]), pr(t["reported"]), exp))
    elif k == "impose":
        y = obs["y"]
        x = _fl(case["x"])
        if case["which"] == "collapse":
            if not isinstance(y, dict):
                T.append("res_eq flist_eq (collapse_at_list NumF %s %s %s) (Ok %s)" % (_nl(obs["order"]), _fl(case["target"]), x, _fl(y)))
        elif case["which"] == "at":
            tg = case["target"]
            tgc = "(@AtList NumF %s)" % _fl(tg) if isinstance(tg, list) else "(@AtScalar NumF %s)" % flit(tg)
            call = "impose_at NumF %s %s %s" % (_nl(obs["order"]), tgc, x)
            if isinstance(y, dict):
                e = _errname(y["error"])
                if e:
                    T.append("res_eq flist_eq (%s) (Err %s)" % (call, e))
            else:
                T.append("res_eq flist_eq (%s) (Ok %s)" % (call, _fl(y)))
        else:
            off = case["offset"]
            off = 0.0 if off in (None, False) else 1.0 if off is True else float(off)
            if not isinstance(y, dict):
                T.append("fl_eq (impose_as NumF %s %s %s) (Some %s)" % (_pl(obs["order"]), flit(off), x, _fl(y)))
    return T


def coq_debug(case, obs, k):
    ts = coq_terms(case, obs)
    t = ts[k]
    # print the model's side of the comparison: strip the comparison wrapper heuristically
    return "(%s)" % t


# ------------------------------------------------------------------ evidence classification / shrinking

def classify(case, obs):
    k = case["kind"]
    tags = ["kind:" + k]
    nt = False
    if k in ("at", "as", "weight", "position"):
        h = case["hist"]
        g = case["gens"]
        tags.append("window:" + ("None" if g is None else "0" if g == 0 else "neg" if g < 0 else "longer" if g > len(h) else "full" if g == len(h) else "1" if g == 1 else "inner"))
        tags.append("tol:" + ("0" if case["tol"] == 0 else "inf" if case["tol"] == INF else "neg" if case["tol"] < 0 else "tiny" if case["tol"] < 1e-100 else "huge" if case["tol"] > 1e100 else "grid"))
        m = case["mask"]
        if k in ("at", "as"):
            tags.append("mask:" + ("None" if m is None else "bad-" + m["bad"] if "bad" in m else "empty" if not m["set"] else "set"))
            if k == "at":
                tags.append("target:" + ("None" if case["target"] is None else "list" if isinstance(case["target"], list) else "scalar"))
            else:
                tags.append("offset:%s" % case["offset"])
                if m and "set" in m:
                    tags.append("asmask:" + ("ints+pairs" if any(isinstance(e, int) for e in m["set"]) and any(isinstance(e, list) for e in m["set"])
                                             else "ints" if any(isinstance(e, int) for e in m["set"]) else "pairs" if m["set"] else "empty"))
        else:
            tags.append("mask:" + m["fmt"] + ("" if m["entries"] or m["fmt"] in ("none", "bad") else "-empty"))
            tags.append("npts:" + ("equal" if len(set(case["npts"])) == 1 else "unequal"))
        det = obs.get("det")
        tags.append("det:" + ("error-" + det["error"] if isinstance(det, dict) and "error" in det else "empty" if (det == [] or (isinstance(det, list) and k in ("weight", "position") and not det[1])) else "nonempty"))
        t = obs.get("term") or {}
        if "reported" in t:
            tags.append("term:" + ("reported" if t["reported"] is not None else "quiet"))
            tags.append("tree:" + case["tree"])
        w = _window(h, g) if g is None or isinstance(g, int) else h
        ncand = len(h[0]) if h else 0
        nt = len(w) >= 2 and ncand >= 2 and not isinstance(det, dict)
        # tie counter for the <= decision site: change == tolerance exactly on some candidate
        if k == "at" and w and not (isinstance(case["target"], list) and len(case["target"]) != len(w[0])):
            for i in range(len(w[0])):
                col = [r[i] for r in w]
                tg = case["target"]
                ch = (max(col) - min(col)) if tg is None else max(abs(v - (tg[i] if isinstance(tg, list) else tg)) for v in col)
                if ch == case["tol"]:
                    tags.append("tie:change==tolerance"); break
        if k == "as" and w:
            n = len(w[0])
            for i in range(n):
                for j in range(i + 1, n):
                    d = [abs(r[i] - r[j]) for r in w]
                    if ((max(d) - min(d)) if case["offset"] else max(d)) == case["tol"]:
                        tags.append("tie:change==tolerance"); break
                else:
                    continue
                break
    elif k == "impose":
        tags.append("impose:" + case["which"])
        y = obs.get("y")
        tags.append("impose-result:" + ("error" if isinstance(y, dict) else "ok"))
        if case["which"] == "as" and "order" in obs:
            tags.append("chained-pairs:%s" % (not _groups_disjoint(obs.get("order", []))))
            tags.append("offset:%s" % case["offset"])
        nt = len(case["x"]) >= 2
    elif k == "solve":
        ev = obs.get("events", [])
        nco = sum(1 for e in ev if e["collapses"])
        tags += ["solver:" + case["solver"], "collapse-rounds:%d" % min(nco, 4), "terms:" + "+".join(t[0] + ("N" if t[1] is None else "L" if isinstance(t[1], list) else "T" if t[1] is True else "") for t in case["terms"]),
                 "stop:%s" % obs.get("stop"), "finished:%s" % obs.get("finished")]
        nt = nco >= 1
    elif k == "cost":
        det = obs.get("det")
        tags.append("cost:" + ("error" if isinstance(det, dict) and "error" in det else "empty" if not det else "bounds"))
        nt = bool(det) and "error" not in det
    key = json.dumps(case, sort_keys=True)
    return key, nt, tags


def shrink(case):
    k = case["kind"]
    if k in ("at", "as", "weight", "position"):
        h = case["hist"]
        for i in range(len(h)):
            yield dict(case, hist=h[:i] + h[i + 1:], lg=max(0, case.get("lg", len(h)) - 1)) if "lg" in case else dict(case, hist=h[:i] + h[i + 1:])
        if k in ("at", "as") and h and len(h[0]) > 1:
            n = len(h[0])
            for j in range(n):
                c = dict(case, hist=[r[:j] + r[j + 1:] for r in h], mask=None)
                if k == "at" and isinstance(case["target"], list):
                    c["target"] = case["target"][:j] + case["target"][j + 1:]
                yield c
        if case.get("tree") != "bare":
            yield dict(case, tree="bare")
        if case.get("mask") not in (None,) and k in ("at", "as"):
            yield dict(case, mask=None)
    elif k == "impose" and case["which"] == "as":
        for i in range(len(case["pairs"])):
            yield dict(case, pairs=case["pairs"][:i] + case["pairs"][i + 1:])
    elif k == "solve":
        if len(case["terms"]) > 1:
            for i in range(len(case["terms"])):
                yield dict(case, terms=case["terms"][:i] + case["terms"][i + 1:])
        if case["ties"]:
            yield dict(case, ties=case["ties"][1:])
        if case.get("strict"):
            yield dict(case, strict=False)
