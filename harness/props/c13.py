"""C13 - compiled constraint functions enforce exactly the stated relation.

Implementation under test: mystic.symbolic.generate_constraint(generate_solvers(text, variables, nvars, locals))(x),
mystic.symbolic.symbolic_bounds, mystic.constraints.boundsconstrain.
Model: coq/Pure/SymCompile.v (compiled_constraint, bounds_clip, boundsconstrain) executed in binary64 (NumF), compared
bit-for-bit with the implementation's output vector.  Oracle: the property statement evaluated directly on the output.
"""
import json, math, re
from harness.props import c13_ast as A
from harness.coqio import flit, natlit, lst

ID = "C13"
TITLE = "Compiled constraint functions enforce exactly the stated relation"
PROPS_FILE = "Props/Properties_C13.v"
LEVEL = "proof"
SIZES = {"quick": 2400, "thorough": 30000}
PARALLEL = True
SHARD = 400
RULE = ("cases: isolated-form texts of 1-3 lines (classes single / nofeed / neqcombo / feed / error) over 2-14 variables "
        "(indexed x, other base, named lists; >= 11 variables in ~40% so that x10/x11 and x1 coexist), every comparator "
        "(incl. '=='), right-hand sides linear / products / abs / min / max / division by constants / names from locals; "
        "points on dyadic grids, random floats, tiny and huge magnitudes, with the left variable placed exactly on the "
        "boundary, one ulp beside it, inside the tol sliver, exactly at / one ulp around f+-tol(f); tol/rel default or "
        "overridden through locals (0, dyadic, negative); bounds cases (symbolic_bounds text, boundsconstrain symbolic "
        "and impose_bounds variants) with None/inf entries, degenerate boxes, points on the bounds; plus, on every run, a deterministic sweep comparator x 13 boundary placements x 3 magnitudes of `x0 cmp x1'; non-trivial = the "
        "output differs from the input or a boundary placement was used; distinct = distinct case JSON")
TRUSTED = ["real-number axioms of Coq's standard library (theorems are stated over the NumR instance of the model)",
           "the harness prints one expression tree both as mystic text and as a Gallina term (harness/props/c13_ast.py)",
           "binary64 execution of the model (PrimFloat under vm_compute) is compared bit-for-bit with the implementation"]
ASSUMPTIONS = ["IEEE rounding: the theorems are over the reals; that f-tol(f) < f also holds in binary64 for the default "
               "tol=rel=1e-15 is checked by the oracle on every run, not proved",
               "right-hand sides raising exceptions (division by zero), NaN/inf values and non-float inputs are not modelled",
               "sympy's simplify (used inside boundsconstrain(symbolic=True)) is not modelled: only its effect of printing "
               "bounds with 15 significant digits is reproduced by the harness when it feeds the model",
               "the text -> tree direction (mystic's string replacement of variable names) is validated by the "
               "correspondence on generated texts, not proved",
               "the correspondence pins the exact output vector, hence also the constants the property leaves free (the size "
               "1.1*tol(f) of the `!=' nudge, clamping onto f-+tol(f)): changing them is reported as model drift "
               "(no-failing-input-found), not as a property violation"]
META = dict(
    technique="Coq proof over a Gallina model of the compiled assignment statements + bit-exact model/implementation correspondence (vm_compute, binary64)",
    level_text=("For every right-hand-side function independent of x_i, every comparator and every vector: the relation holds after "
                "the compiled line (strictly when tol(f)>0), only x_i changes, satisfied inputs are fixed points for =,<=,>=,!=; "
                "for < and > the literal identity clause is REFUTED (known finding: f < x_i < f+tol(f) is moved) and the partial "
                "version with margin tol(f) is proved; systems with distinct non-feeding left variables satisfy all lines; "
                "the bounds constraint is a clip into the box and the identity inside.  Texts are sampled in the correspondence."),
    level_note=("Trusted: Coq kernel+VM, harness printers/oracles. Theorems over R (stdlib real axioms); programs (texts) "
                "are sampled; sympy inside boundsconstrain not modelled (known finding: bounds rounded to 15 digits)."),
    design_ref="5/C13, 7/F7")

SITE_STRICT = "symbolic.constraints_parser"
PAT_STRICT = "strict-comparator-tol-sliver-moved"
SITE_BOUNDS = "constraints.boundsconstrain"
PAT_BOUNDS = "symbolic-bound-rounded-to-15-digits"
PAT_DEGEN = "symbolic-degenerate-interval-not-clipped"


# ------------------------------------------------------------------ generation
def _gen_lines(rng, cls, nv, locs):
    style = rng.choice(["linear", "product", "absminmax", "mixed", "mixed"])
    depth = rng.choice([0, 1, 1, 2, 2, 3])
    idx = list(range(nv))
    lines = []
    if cls == "single":
        i = rng.choice(idx)
        if nv >= 11 and rng.random() < 0.7:
            i = rng.choice([1, 10, 11 if nv > 11 else 10, 0])
        others = [j for j in idx if j != i]
        if nv >= 11 and rng.random() < 0.8:   # force x10 / x11 next to x1 in the same text
            pool = [j for j in (1, 10, 11, 12) if j < nv and j != i]
            e = ["+", ["v", pool[0]], A.gen_expr(rng, pool + others[:2], max(1, depth), locs, style)]
        else:
            e = A.gen_expr(rng, others, depth, locs, style)
        lines.append(dict(lhs=i, cmp=rng.choice(A.CMPS), rhs=e))
    elif cls == "nofeed":
        n = rng.choice([2, 2, 3])
        n = min(n, nv - 1)
        lh = rng.sample(idx, n)
        others = [j for j in idx if j not in lh]
        for i in lh:
            lines.append(dict(lhs=i, cmp=rng.choice(A.CMPS), rhs=A.gen_expr(rng, others, depth, locs, style)))
    elif cls == "neqcombo":
        i = rng.choice(idx)
        others = [j for j in idx if j != i]
        sub = rng.choice(["same-rhs", "same-rhs", "var-rhs", "two-neq"])
        if sub == "same-rhs":     # xi != e ; xi <= e   (eta switches the <= into a strict clamp when rhs values are equal)
            e = A.gen_expr(rng, others, rng.choice([0, 0, 1]), locs, style)
            e2 = e if rng.random() < 0.7 else A.gen_expr(rng, others, 0, locs, style)
            lines = [dict(lhs=i, cmp="!=", rhs=e), dict(lhs=i, cmp=rng.choice(["<=", ">=", "<=", ">=", "<", "="]), rhs=e2)]
            if rng.random() < 0.5:
                lines.reverse()
        elif sub == "var-rhs" and others:    # xk != xi ; xi >= f   (symmetric entry of the neq list)
            k = rng.choice(others)
            rest = [j for j in others if j != k] or others
            lines = [dict(lhs=k, cmp="!=", rhs=["v", i]),
                     dict(lhs=i, cmp=rng.choice(["<=", ">="]), rhs=A.gen_expr(rng, rest, rng.choice([0, 0, 1]), locs, style))]
            if rng.random() < 0.5:
                lines.reverse()
        else:
            e = A.gen_expr(rng, others, 0, locs, style)
            e1 = A.gen_expr(rng, others, 0, locs, style)
            lines = [dict(lhs=i, cmp="!=", rhs=e), dict(lhs=i, cmp="!=", rhs=e1), dict(lhs=i, cmp=rng.choice(["<=", ">="]), rhs=e)]
    else:  # feed: later lines read variables assigned by earlier ones (order of application is observable)
        n = min(rng.choice([2, 3]), nv)
        lh = rng.sample(idx, n)
        for i in lh:
            lines.append(dict(lhs=i, cmp=rng.choice(["=", "=", "<=", ">=", "<", ">", "!="]),
                              rhs=A.gen_expr(rng, [j for j in idx if j != i], rng.choice([1, 2]), locs, style)))
    for l in lines:
        l["eqeq"] = bool(l["cmp"] == "=" and rng.random() < 0.25)
    return lines


def _gen_sys(rng, tier):
    cls = rng.choice(["single"] * 9 + ["nofeed"] * 6 + ["neqcombo"] * 3 + ["feed"] * 2)
    nv = rng.choice([2, 3, 3, 4, 5, 6, 11, 12, 12, 13, 14])
    scheme = A.gen_scheme(rng, nv)
    locs = {}
    if rng.random() < 0.3:
        for n in rng.sample(A.LOCAL_NAMES, rng.choice([1, 2])):
            locs[n] = A.gen_const(rng)
    tl = rng.choice(A.TOL_CHOICES)
    tol, rel = A.tolrel(tl)
    for attempt in range(20):
        lines = _gen_lines(rng, cls, nv, locs)
        # chains that feed one another / collide are kept away from overflow (inf - inf = nan is out of scope)
        pmode = rng.choice(["grid", "grid", "int", "float", "tiny"]) if cls in ("feed", "neqcombo") else None
        x = A.gen_point(rng, nv, pmode if attempt < 10 else "grid")
        places = []
        if cls in ("single", "nofeed", "neqcombo"):
            ok = True
            for l in lines:
                if not A.finite_everywhere(l["rhs"], x):
                    ok = False; break
                f = A.pyeval(l["rhs"], x)
                if abs(f) > 1e300:
                    ok = False; break
                mode = rng.choice(A.PLACEMENTS)
                v = A.place(rng, mode, f, max(tol, 0.0), max(rel, 0.0))
                if v is not None and math.isfinite(v):
                    x[l["lhs"]] = v
                places.append(mode)
            if cls == "neqcombo":
                # make the `!=' right-hand sides collide with the other line's value / variable often
                for l in lines:
                    if l["cmp"] == "!=" and l["rhs"][0] == "v" and rng.random() < 0.6:
                        x[l["lhs"]] = x[l["rhs"][1]]
            if not ok:
                continue
        else:
            if not all(A.finite_everywhere(l["rhs"], x) for l in lines):
                continue
        break
    else:
        lines = [dict(lhs=0, cmp="<", rhs=["v", 1], eqeq=False)]
        x = [0.5] + [1.0] * (nv - 1)
        places = ["keep"]
        cls = "single"
    used = set()
    for l in lines:
        used |= {l["lhs"]} | A.evars(l["rhs"])
    nvars = None
    if scheme["type"] != "names" and rng.random() < 0.3:
        nvars = nv
    case = dict(kind="sys", cls=cls, scheme=scheme, nv=nv, lines=lines, locals=locs, tl=tl, x=x, nvars=nvars,
                fmt=[rng.randint(0, 34) for _ in lines], places=places)
    if rng.random() < 0.04 and max(used) > 0:   # vector shorter than the highest index used: IndexError
        case["x"] = x[:max(used)]
        case["cls"] = "error"
    return case


def _gen_bounds(rng, variant):
    n = rng.choice([1, 2, 3, 4, 6])
    lo, hi = [], []
    nice = rng.random() < 0.6
    for _ in range(n):
        a = rng.randint(-16, 16) / 4.0 if nice else rng.choice([0.1 + 0.2, 1.0 / 3.0, -2.0 / 3.0, 1e-20, -1e300, 0.7, 123456.789012345678, -0.30000000000000004, 5.0])
        w = rng.choice([0.0, 0.25, 1.0, 3.5, 100.0]) if nice else rng.choice([0.0, 1.0 / 7.0, 2.0 / 3.0, 1e300, 1e-17])
        b = a + w
        r = rng.random()
        if r < 0.12:
            a = rng.choice([None, -math.inf])
        elif r < 0.24:
            b = rng.choice([None, math.inf])
        lo.append(a); hi.append(b)
    x = []
    for a, b in zip(lo, hi):
        aa = -5.0 if a is None or a == -math.inf else a
        bb = 5.0 if b is None or b == math.inf else b
        m = rng.choice(["in", "in", "lo", "hi", "below", "above", "ulp-below", "ulp-above", "ulp-in-lo", "ulp-in-hi", "far"])
        v = {"in": aa + (bb - aa) * rng.choice([0.5, 0.25, 0.75]), "lo": aa, "hi": bb,
             "below": aa - rng.choice([0.125, 1.0, 10.0]), "above": bb + rng.choice([0.125, 1.0, 10.0]),
             "ulp-below": A.nudge(aa, -1), "ulp-above": A.nudge(bb, 1), "ulp-in-lo": A.nudge(aa, 1), "ulp-in-hi": A.nudge(bb, -1),
             "far": rng.choice([-1e300, 1e300, -1e30, 1e30])}[m]
        if not math.isfinite(v):
            v = aa
        x.append(v)
    for _ in range(rng.choice([0, 0, 1, 2])):
        x.append(rng.choice([-7.5, 0.0, 1e10]))      # coordinates beyond the bounds lists are untouched
    case = dict(kind="bounds", variant=variant, lo=lo, hi=hi, x=x)
    r = rng.random()
    if variant != "impose":
        if r < 0.05 and n >= 1:      # min > max somewhere: ValueError
            i = rng.randrange(n)
            case["lo"][i], case["hi"][i] = 2.0, 1.0
            case["x"] = x
        elif r < 0.08:               # lengths differ: ValueError
            case["hi"] = hi + [1.0]
        elif r < 0.11 and len(x) >= 1 and any(b is not None and b not in (math.inf, -math.inf) for b in (lo[-1], hi[-1])):
            case["x"] = x[:n - 1]    # short vector: IndexError
    return case


def generate(rng, n, tier):
    nsym = 12 if tier == "quick" else 120
    # corpus of fixed regression points (the F7 witness of DESIGN section 7 and the 15-digit bound)
    yield dict(kind="sys", cls="single", scheme={"type": "x"}, nv=2, lines=[dict(lhs=0, cmp=">", rhs=["v", 1], eqeq=False)],
               locals={}, tl=None, x=[5e-16, 0.0], nvars=None, fmt=[0], places=["sliver-above"])
    yield dict(kind="bounds", variant="symbolic", lo=[0.1 + 0.2], hi=[0.7], x=[0.0])
    # deterministic boundary sweep (every run, every seed): each comparator x each placement of x0 around f = x1
    for c in A.CMPS:
        for mode in A.PLACEMENTS[1:]:
            for f in (0.0, 3.0, -1e+20):
                v = A.place(rng, mode, f, 1e-15, 1e-15)
                yield dict(kind="sys", cls="single", scheme={"type": "x"}, nv=2, lines=[dict(lhs=0, cmp=c, rhs=["v", 1], eqeq=False)],
                           locals={}, tl=None, x=[v, f], nvars=None, fmt=[0], places=[mode])
    for i in range(n):
        r = rng.random()
        if i < nsym:
            yield _gen_bounds(rng, "symbolic")
        elif r < 0.10:
            yield _gen_bounds(rng, rng.choice(["symtext", "symtext", "impose"]))
        else:
            yield _gen_sys(rng, tier)


# ------------------------------------------------------------------ implementation
def case_text(case):
    sch = case["scheme"]
    rows = []
    for l in case["lines"]:
        c = "==" if l.get("eqeq") else l["cmp"]
        rows.append((A.var_name(sch, l["lhs"]), c, A.text(l["rhs"], sch, top=True)))
    return A.build_text(case["fmt"], rows)


_DOC = re.compile(r"x\[(\d+)\] = (min|max)\((\S+) [-+] \(_tol")


def _doc_lines(doc):
    out = []
    for ln in (doc or "").splitlines():
        m = _DOC.search(ln)
        if not m:
            if ln.strip():
                return None
            continue
        out.append([int(m.group(1)), m.group(2), float(m.group(3))])
    return out


def _floats(y):
    return [float(v) for v in y]


def run_impl(case):
    import warnings
    warnings.simplefilter("ignore")
    import mystic.symbolic as ms
    if case["kind"] == "bounds":
        lo, hi = list(case["lo"]), list(case["hi"])
        try:
            if case["variant"] == "symbolic":
                from mystic.constraints import boundsconstrain
                import io, contextlib
                with contextlib.redirect_stdout(io.StringIO()):     # sympy path prints "'=' is not an equation!"
                    c = boundsconstrain(lo, hi)
            elif case["variant"] == "impose":
                from mystic.constraints import boundsconstrain
                c = boundsconstrain(lo, hi, symbolic=False)
            else:
                txt = ms.symbolic_bounds(lo, hi)
                c = ms.generate_constraint(ms.generate_solvers(txt, nvars=len(lo)))
            out = {"y": _floats(c(list(case["x"])))}
            if case["variant"] == "symbolic":
                # sympy (inside simplify) is an external library: record the lines it produced, in the order the
                # compiled function lists them (= reverse order of application), from the docstring
                out["lines"] = _doc_lines(c.__doc__)
            return out
        except Exception as e:
            return {"error": type(e).__name__, "msg": str(e)[:200]}
    txt = case_text(case)
    locs = dict(case["locals"])
    if case["tl"]:
        locs.update(case["tl"])
    try:
        solv = ms.generate_solvers(txt, variables=A.mystic_variables(case["scheme"]), nvars=case["nvars"],
                                   locals=locs if (locs or case["tl"] is not None) else None)
        con = ms.generate_constraint(solv)
        # an unrelated compilation with other tolerances / extra names between compiling and using the function must not
        # influence it (each generated function keeps its own settings)
        try:
            ms.generate_constraint(ms.generate_solvers("x0 > x1 + zz", nvars=2, locals=dict(tol=0.125, rel=0.5, zz=3.0)))
            ms.generate_solvers("x0 != 2.0", nvars=1, locals=dict(tol=0.0, rel=0.0))
        except Exception:
            pass
        x = list(case["x"])
        y = con(x)
        out = {"y": _floats(y), "text": txt, "nsolvers": len(solv)}
        # the same relations handed over as a tuple of strings ("constraints may be a tuple of strings"): generate_solvers returns a
        # nested tuple of solvers and generate_constraint flattens it: the compiled function must be the same function
        lines = [l for l in txt.split("\n") if l.strip()]
        if len(lines) >= 2:
            h = (len(lines) + 1) // 2
            try:
                solv2 = ms.generate_solvers(("\n".join(lines[:h]), "\n".join(lines[h:])), variables=A.mystic_variables(case["scheme"]), nvars=case["nvars"],
                                            locals=locs if (locs or case["tl"] is not None) else None)
                out["y_grouped"] = _floats(ms.generate_constraint(solv2)(list(case["x"])))
            except Exception as e:
                out["y_grouped"] = {"error": type(e).__name__, "msg": str(e)[:200]}
        return out
    except Exception as e:
        return {"error": type(e).__name__, "msg": str(e)[:200], "text": txt}


# ------------------------------------------------------------------ oracle (the property, directly on the implementation)
def _fail(clause, site, pattern, detail):
    return dict(clause=clause, site=site, pattern=pattern, detail=detail)


def r15(b):
    """a float printed with 15 significant digits and read back (what sympy's printer does to the bounds)"""
    return float("%.15g" % b)


def _expected_error(case):
    if case["kind"] == "bounds":
        lo, hi = case["lo"], case["hi"]
        if case["variant"] == "impose":
            return None
        if len(lo) != len(hi):
            return "ValueError"
        L = [-math.inf if a is None else a for a in lo]
        H = [math.inf if b is None else b for b in hi]
        if any(a > b for a, b in zip(L, H)):
            return "ValueError"
        need = 0
        for i, (a, b) in enumerate(zip(L, H)):
            if a != -math.inf or b != math.inf:
                need = i + 1
        return "IndexError" if len(case["x"]) < need else None
    tol, rel = A.tolrel(case["tl"])
    if tol < 0 or rel < 0:
        return "ValueError"
    used = set()
    for l in case["lines"]:
        used |= {l["lhs"]} | A.evars(l["rhs"])
    if used and max(used) >= len(case["x"]):
        return "IndexError"
    return None


def oracle(case, obs):
    if "__exception__" in obs:
        return [_fail("no-crash", "harness.run_impl", obs["__exception__"], obs.get("__msg__"))]
    out = []
    exp_err = _expected_error(case)
    if "error" in obs or exp_err:
        if obs.get("error") == "ZeroDivisionError" and case["kind"] == "bounds" and _degenerate(case):
            return [_fail("bounds_clip_into_box", SITE_BOUNDS, PAT_DEGEN,
                          dict(lo=case["lo"], hi=case["hi"], error=obs.get("error"), msg=obs.get("msg"),
                               note="min[i] == max[i] for the only bounded variable(s): symbolic.simplify raises"))]
        if exp_err == "IndexError" and "error" not in obs and case["kind"] == "bounds" and _degenerate(case):
            # the lines of the missing coordinate were dropped by simplify: nothing indexes it any more
            return [_fail("bounds_clip_into_box", SITE_BOUNDS, PAT_DEGEN,
                          dict(lo=case["lo"], hi=case["hi"], x=case["x"], note="degenerate interval dropped: no IndexError on a short vector"))]
        if obs.get("error") != exp_err:
            out.append(_fail("errors", "symbolic.generate_solvers" if case["kind"] == "sys" else "constraints.boundsconstrain",
                             "unexpected-outcome", dict(expected=exp_err, got=obs.get("error"), msg=obs.get("msg"))))
        return out
    x, y = case["x"], obs["y"]
    if len(y) != len(x):
        return [_fail("only_xi_changes", "symbolic.generate_constraint", "length-changed", y)]
    if any(v != v for v in y):
        return [_fail("holds_after", "symbolic.generate_constraint", "nan-output", y)]
    if case["kind"] == "bounds":
        return _oracle_bounds(case, x, y, obs)
    _lhs = [l["lhs"] for l in case["lines"]]
    _independent = len(set(_lhs)) == len(_lhs) and not any(set(A.evars(l["rhs"])) & set(_lhs) for l in case["lines"])
    if _independent and "y_grouped" in obs and obs["y_grouped"] != y and not (isinstance(obs["y_grouped"], list) and [repr(v) for v in obs["y_grouped"]] == [repr(v) for v in y]):
        out.append(_fail("holds_after", "symbolic.generate_constraint", "tuple-of-strings-path-differs-from-one-text",
                         dict(one_text=y, tuple_of_strings=obs["y_grouped"])))
    tol, rel = A.tolrel(case["tl"])
    lines = case["lines"]
    lhs = [l["lhs"] for l in lines]
    # (2) only the left variables may change -- for every class of text
    for j in range(len(x)):
        if j not in lhs and y[j] != x[j]:
            out.append(_fail("only_xi_changes", "symbolic.generate_constraint", "other-coordinate-changed", dict(j=j, x=x[j], y=y[j])))
            return out
    if case["cls"] not in ("single", "nofeed"):
        return out
    sliver_hits = []
    for l in lines:
        i, c = l["lhs"], l["cmp"]
        f = A.pyeval(l["rhs"], x)
        fy = A.pyeval(l["rhs"], y)
        if fy != f:
            out.append(_fail("holds_after", "harness.oracle", "rhs-moved", dict(f=f, fy=fy)))
            continue
        t = A.tolerance(f, tol, rel)
        # (1) the relation holds afterwards; strictly, whenever the tolerance term is not absorbed by rounding
        if c in ("=", "<=", ">="):
            good = A.holds(c, y[i], f)
        elif c == "<":
            good = y[i] < f if f - t < f else y[i] <= f
        elif c == ">":
            good = y[i] > f if f + t > f else y[i] >= f
        else:
            good = (y[i] != f) or not (x[i] + t * 1.1 != x[i])
        if not good:
            out.append(_fail("holds_after", "symbolic.constraints_parser", "relation-violated-after:" + c,
                             dict(line=l, f=f, xi=x[i], yi=y[i], tol=t)))
            continue
        # (3) a vector that already satisfies the relation is returned unchanged
        if A.holds(c, x[i], f) and y[i] != x[i]:
            in_sliver = (c == ">" and f < x[i] < f + t and y[i] == f + t) or (c == "<" and f - t < x[i] < f and y[i] == f - t)
            if in_sliver:
                sliver_hits.append(l)
            else:
                out.append(_fail("identity_if_satisfied", "symbolic.constraints_parser", "satisfied-input-moved:" + c,
                                 dict(line=l, f=f, xi=x[i], yi=y[i], tol=t)))
    if sliver_hits and not out:
        out.append(_fail("identity_if_satisfied", SITE_STRICT, PAT_STRICT,
                         dict(lines=sliver_hits, x=x, y=y, note="f < x_i < f+tol(f) satisfies the strict relation but is moved to f+-tol(f)")))
    return out


def _degenerate(case):
    return case["variant"] == "symbolic" and len(case["lo"]) == len(case["hi"]) and any(
        a is not None and b is not None and math.isfinite(a) and math.isfinite(b) and r15(a) == r15(b)
        for a, b in zip(case["lo"], case["hi"]))


def _oracle_bounds(case, x, y, obs=None):
    out = []
    lo, hi = case["lo"], case["hi"]
    rounded = dropped = False
    rec = (obs or {}).get("lines")
    for j in range(len(x)):
        if j >= len(lo):
            if y[j] != x[j]:
                out.append(_fail("bounds_identity_inside", "constraints.boundsconstrain", "unbounded-coordinate-changed", dict(j=j)))
            continue
        a = -math.inf if lo[j] is None else lo[j]
        b = math.inf if hi[j] is None else hi[j]
        exp = b if x[j] > b else (a if x[j] < a else x[j])
        if y[j] == exp:
            continue
        # not the clip.  Known findings: the symbolic variant sends the text through sympy (symbolic.simplify), which
        # (i) prints the bounds with 15 significant digits, (ii) drops a variable whose interval is a single point
        if case["variant"] == "symbolic" and rec is not None:
            mine = [r for r in rec if r[0] == j]
            a15 = a if a == -math.inf else r15(a)
            b15 = b if b == math.inf else r15(b)
            if not mine and a15 == b15 and y[j] == x[j]:
                dropped = True
                continue
            exp15 = b15 if x[j] > b15 else (a15 if x[j] < a15 else x[j])
            if y[j] == exp15 and (a15 != a or b15 != b) and all(r[2] in (a15, b15) for r in mine):
                rounded = True
                continue
        inside = a <= y[j] <= b
        out.append(_fail("bounds_clip_into_box" if not inside else "bounds_identity_inside", "constraints.boundsconstrain",
                         "not-the-clip", dict(j=j, lo=a, hi=b, x=x[j], y=y[j])))
    if not out and rounded:
        out.append(_fail("bounds_clip_into_box", SITE_BOUNDS, PAT_BOUNDS,
                         dict(lo=lo, hi=hi, x=x, y=y, note="bounds pass through sympy (symbolic.simplify) and are re-read with 15 significant digits")))
    if not out and dropped:
        out.append(_fail("bounds_clip_into_box", SITE_BOUNDS, PAT_DEGEN,
                         dict(lo=lo, hi=hi, x=x, y=y, note="min[i] == max[i]: symbolic.simplify drops both lines, the coordinate is not clipped")))
    return out


# ------------------------------------------------------------------ Coq side
def coq_preamble():
    return A.PREAMBLE


def _sys_term(case):
    rows = ["(R %s %s %s)" % (natlit(l["lhs"]), A.COQ_CMP[l["cmp"]], A.gal(l["rhs"])) for l in case["lines"]]
    return "(%s : list (irel NumF))" % lst(rows)


def coq_terms(case, obs):
    if "__exception__" in obs:
        return []
    exp = "None" if "error" in obs else "(Some %s)" % A.fl(obs["y"])
    if case["kind"] == "bounds":
        lo, hi = case["lo"], case["hi"]
        t15 = flit(1e-15)
        if case["variant"] == "symbolic":
            # sympy is a recorded oracle: the model compiles the lines sympy produced (recorded from the docstring,
            # listed in reverse order of application) -- not modelled: which lines sympy produces
            rec = obs.get("lines")
            if "error" in obs:
                return [] if _degenerate(case) else ["ovec_eq (boundsconstrain F %s %s %s %s %s) None" % (t15, t15, A.oflist(lo), A.oflist(hi), A.fl(case["x"]))]
            if rec is None:
                return ["false"]
            rows = ["(R %s %s (K %s))" % (natlit(i), "Cle" if k == "min" else "Cge", flit(b)) for i, k, b in reversed(rec)]
            T = ["ovec_eq (compiled_constraint F %s %s (%s : list (irel NumF)) %s) %s" % (t15, t15, lst(rows), A.fl(case["x"]), exp)]
            lo2 = [None] * len(lo); hi2 = [None] * len(lo)
            for i, k, b in rec:
                if i < len(lo):
                    if k == "min": hi2[i] = b
                    else: lo2[i] = b
            T.append("ovec_eq (Some (bounds_clip F %s %s %s)) %s" % (A.oflist(lo2), A.oflist(hi2), A.fl(case["x"]), exp))
            return T
        T = []
        if case["variant"] != "impose":
            T.append("ovec_eq (boundsconstrain F %s %s %s %s %s) %s" % (t15, t15, A.oflist(lo), A.oflist(hi), A.fl(case["x"]), exp))
        if "error" not in obs:
            T.append("ovec_eq (Some (bounds_clip F %s %s %s)) %s" % (A.oflist(lo), A.oflist(hi), A.fl(case["x"]), exp))
        return T
    tol, rel = A.tolrel(case["tl"])
    return ["ovec_eq (compiled_constraint F %s %s %s %s) %s" % (flit(tol), flit(rel), _sys_term(case), A.fl(case["x"]), exp)]


def coq_debug(case, obs, k):
    t = coq_terms(case, obs)[k]
    # print the model's own answer instead of the comparison
    inner = t[len("ovec_eq "):]
    depth, end = 0, None
    for pos, ch in enumerate(inner):
        if ch == "(":
            depth += 1
        elif ch == ")":
            depth -= 1
            if depth == 0:
                end = pos; break
    return inner[:end + 1]


def classify(case, obs):
    tags = ["kind:" + case["kind"]]
    key = json.dumps(case, sort_keys=True)
    if case["kind"] == "bounds":
        tags += ["bounds:" + case["variant"], "outcome:" + ("error:" + obs["error"] if "error" in obs else "ok")]
        moved = "y" in obs and obs["y"] != case["x"]
        if moved:
            tags.append("bounds:clipped")
        return key, True, tags
    tags += ["class:" + case["cls"], "scheme:" + case["scheme"]["type"], "lines:%d" % len(case["lines"]),
             "nv>=11:" + str(case["nv"] >= 11), "tolrel:" + ("default" if case["tl"] is None else "override"),
             "outcome:" + ("error:" + obs["error"] if "error" in obs else "ok")]
    for l in case["lines"]:
        tags.append("cmp:" + ("==" if l.get("eqeq") else l["cmp"]))
    for p in case.get("places", []):
        tags.append("place:" + p)
    if case["locals"]:
        tags.append("extra-locals")
    if "y" in obs:
        tags.append("moved" if obs["y"] != case["x"] else "unchanged")
    nontrivial = ("y" in obs and obs["y"] != case["x"]) or any(p != "keep" for p in case.get("places", []))
    return key, bool(nontrivial), tags


def shrink(case):
    if case["kind"] == "bounds":
        n = min(len(case["lo"]), len(case["hi"]))
        if n > 1 and len(case["lo"]) == len(case["hi"]):
            for i in range(n):
                yield dict(case, lo=case["lo"][:i] + case["lo"][i + 1:], hi=case["hi"][:i] + case["hi"][i + 1:],
                           x=case["x"][:i] + case["x"][i + 1:])
        return
    if len(case["lines"]) > 1:
        for i in range(len(case["lines"])):
            yield dict(case, lines=case["lines"][:i] + case["lines"][i + 1:], fmt=case["fmt"][:i] + case["fmt"][i + 1:],
                       places=(case.get("places") or [])[:i] + (case.get("places") or [])[i + 1:],
                       cls="single" if len(case["lines"]) == 2 and case["cls"] == "nofeed" else case["cls"])
    for k, l in enumerate(case["lines"]):
        e = l["rhs"]
        if e[0] not in ("c", "l", "v"):
            for sub in e[1:]:
                if isinstance(sub, list):
                    yield dict(case, lines=case["lines"][:k] + [dict(l, rhs=sub)] + case["lines"][k + 1:])
    if case["scheme"]["type"] != "x":
        yield dict(case, scheme={"type": "x"})
    if case["fmt"] != [0] * len(case["fmt"]):
        yield dict(case, fmt=[0] * len(case["fmt"]))
