"""C10: printing cases as Gallina terms over Pure/Termination.v (PrimFloat instance, bit exact)."""
import math
from harness.coqio import flit, zlit, natlit, blit, lst, opt
from harness.props import c10_util as U

WARN_CLASS = 4999


def coq_preamble():
    return r"""
From Coq Require Import PrimFloat.
From MV Require Import Common.Num Pure.Termination.
Definition eta : PrimFloat.float := %s.
Definition outcome_eqb (a b : outcome) : bool :=
  match a, b with Sat, Sat | Unsat, Unsat | Warn, Warn | Err, Err => true | _, _ => false end.
Definition outs_eqb (a b : list outcome) : bool :=
  (Nat.eqb (length a) (length b) && forallb (fun p => outcome_eqb (fst p) (snd p)) (combine a b))%%bool.
Definition kind_eqb (a b : kind) : bool :=
  match a, b with KWhen, KWhen | KAnd, KAnd | KOr, KOr => true | _, _ => false end.
Fixpoint same_shape {A B} (t : tree A) (u : tree B) {struct t} : bool :=
  match t, u with
  | Leaf i _, Leaf j _ => Nat.eqb i j
  | Node k ts, Node k' us =>
      (kind_eqb k k' &&
       (fix go (ts : list (tree A)) (us : list (tree B)) {struct ts} : bool :=
          match ts, us with
          | nil, nil => true
          | x :: xs, y :: ys => (same_shape x y && go xs ys)%%bool
          | _, _ => false
          end) ts us)%%bool
  | _, _ => false
  end.
Definition obool_eqb (a b : option bool) : bool :=
  match a, b with Some x, Some y => Bool.eqb x y | None, None => true | _, _ => false end.
Definition nset_eqb (a b : list nat) : bool :=
  (forallb (fun x => existsb (Nat.eqb x) b) a && forallb (fun x => existsb (Nat.eqb x) a) b)%%bool.
Definition cls (classes : list nat) (p : nat * bool) : nat := if snd p then %d%%nat else nth (fst p) classes 4777%%nat.
Definition CT := cond_tree NumF.
(* behaviour of one condition object: (run, info classes, 'self' size) *)
Definition beh (classes : list nat) (t : CT) (s : view NumF) : option bool * list nat * nat :=
  (tree_run NumF eta t s, map (cls classes) (tree_info NumF eta t s), tree_selfn NumF eta t s).
Definition beh_eqb (m : option bool * list nat * nat) (r : option bool) (names : list nat) (n : nat) (cmp : bool) : bool :=
  (obool_eqb (fst (fst m)) r && (negb cmp || (nset_eqb (snd (fst m)) names && Nat.eqb (snd m) n)))%%bool.
""" % (flit(U.ETA), WARN_CLASS)


def _fl(xs):
    return "(%s : list PrimFloat.float)" % lst(xs, flit)


def _fll(xss):
    return "(%s : list (list PrimFloat.float))" % lst([_fl(r) for r in xss])


def _oz(g):
    return "None" if g is None else "(Some %s)" % zlit(int(g))


def view_lit(v):
    t = v["trial"]
    trial = "(@Trial2 NumF %s)" % _fll(t) if (t and isinstance(t[0], list)) else "(@Trial1 NumF %s)" % _fl(t)
    grad = "None" if v["gradient"] is None else "(Some %s)" % _fll(v["gradient"])
    return "(@mkView NumF %s %s %s %s %s %s %s %s %s %s %s %s)" % (
        _fl(v["hist"]), _fll(v["pop"]), _fl(v["popE"]), _fl(v["best"]), trial, zlit(v["gens"]), zlit(v["fcalls"]),
        blit(v["exit"]), grad, _fl(U.approx_grad(v) if v["gradient"] is None else []), flit(v["tstart"]), flit(v["tnow"]))


def cond_lit(c):
    f, kw = c["f"], c["kw"]
    F = flit
    if f == "VTR":
        return "(@VTR NumF %s %s)" % (F(kw["tolerance"]), F(kw["target"]))
    if f == "ChangeOverGeneration":
        return "(@COG NumF %s %s)" % (F(kw["tolerance"]), _oz(kw["generations"]))
    if f == "NormalizedChangeOverGeneration":
        return "(@NCOG NumF %s %s)" % (F(kw["tolerance"]), _oz(kw["generations"]))
    if f == "CandidateRelativeTolerance":
        return "(@CRT NumF %s %s)" % (F(kw["xtol"]), F(kw["ftol"]))
    if f == "SolutionImprovement":
        return "(@SI NumF %s)" % F(kw["tolerance"])
    if f == "NormalizedCostTarget":
        fv = "None" if kw["fval"] is None else "(Some %s)" % F(kw["fval"])
        return "(@NCT NumF %s %s %s)" % (fv, F(kw["tolerance"]), _oz(kw["generations"]))
    if f == "VTRChangeOverGeneration":
        return "(@VTRCOG NumF %s %s %s %s)" % (F(kw["ftol"]), F(kw["gtol"]), _oz(kw["generations"]), F(kw["target"]))
    if f == "PopulationSpread":
        return "(@PS NumF %s)" % F(kw["tolerance"])
    if f == "GradientNormTolerance":
        n = kw["norm"]
        return "(@GNT NumF %s %s)" % (F(kw["tolerance"]), "NormInf" if n == math.inf else "NormOne" if n == 1 else "NormZero")
    if f == "EvaluationLimits":
        return "(@EL NumF %s %s)" % (_oz(kw["generations"]), _oz(kw["evaluations"]))
    if f == "TimeLimits":
        return "(@TL NumF %s)" % F(kw["seconds"])
    if f == "SolverInterrupt":
        return "(@SINT NumF)"
    raise ValueError(f)


KIND = {"When": "KWhen", "And": "KAnd", "Or": "KOr"}


def expr_lit(e):
    """constructor calls -> the model's constructors"""
    if e[0] == "L":
        return "(Leaf %s c%d)" % (natlit(e[1]), e[1])
    if e[1] == "When":
        return "(mk_when %s)" % expr_lit(e[2][0])
    return "(mk %s %s)" % (KIND[e[1]], "(%s : list CT)" % lst([expr_lit(a) for a in e[2]]))


def skel_lit(s):
    if s[0] == "L":
        return "(Leaf %s tt)" % natlit(s[1])
    return "(Node %s (%s : list (tree unit)))" % (KIND[s[1]], lst([skel_lit(m) for m in s[2]]))


OUT = {"sat": "Sat", "unsat": "Unsat", "warn": "Warn", "err": "Err"}


def _classes(obs):
    first = {}
    cl = []
    for k, d in enumerate(obs["docs"]):
        first.setdefault(d, k)
        cl.append(first[d])
    return cl, first


def _beh_check(model, o, first):
    """model : Gallina term of type option bool * list nat * nat; o = observe() result"""
    if isinstance(o["bool"], str):
        return "beh_eqb %s None nil 0%%nat false" % model
    cmp = not (isinstance(o["info"], str) or isinstance(o["self"], str))
    names = [WARN_CLASS if n == U.WARN else first.get(n, 4776) for n in (o["info"] if cmp else [])]
    return "beh_eqb %s (Some %s) (%s : list nat) %s %s" % (model, blit(o["bool"]), lst(names, natlit),
                                                          natlit(o["self"] if cmp else 0), blit(cmp))


def _parts(case, obs):
    conds = case["conds"]
    cl, first = _classes(obs)
    lets = ["let s := %s in" % view_lit(case["view"])]
    for k, c in enumerate(conds):
        lets.append("let c%d := %s in" % (k, cond_lit(c)))
    lets.append("let classes := (%s : list nat) in" % lst(cl, natlit))
    checks = []
    outs = [U.leaf_outcome(o, obs["docs"][k]) for k, o in enumerate(obs["leaf"])]
    if any(o == "inconsistent" for o in outs):
        checks.append("false")
    else:
        checks.append("outs_eqb (map (fun c => leaf_eval NumF eta c s) (%s : list (cond NumF))) (%s : list outcome)" % (
            lst(["c%d" % k for k in range(len(conds))]), lst([OUT[o] for o in outs])))
    sk = obs.get("skeleton")
    if isinstance(sk, str):
        checks.append("false")
        return lets, checks
    lets.append("let t := (%s : CT) in" % expr_lit(case["tree"]))
    checks.append("same_shape t %s" % skel_lit(sk))
    checks.append(_beh_check("(beh classes t s)", obs["top"], first))
    rs = obs.get("rebuilt_skeleton")
    if isinstance(rs, str):
        checks.append("match build (describe t) with None => true | Some _ => false end")
    else:
        checks.append("match build (describe t) with None => false | Some t' => (same_shape t' %s && %s)%%bool end" % (
            skel_lit(rs), _beh_check("(beh classes t' s)", obs["rebuilt"], first)))
    return lets, checks


def coq_terms(case, obs):
    if "__exception__" in obs:
        return []
    lets, checks = _parts(case, obs)
    return ["(" + "\n  ".join(lets) + "\n  (" + " && ".join("(%s)" % c for c in checks) + ")%bool)"]


def coq_debug(case, obs, k):
    lets, checks = _parts(case, obs)
    body = ("(map (fun c => leaf_eval NumF eta c s) (%s : list (cond NumF)), " % lst(["c%d" % i for i in range(len(case["conds"]))]))
    if any(l.startswith("let t :=") for l in lets):
        body += "t, beh classes t s, option_map (fun t' => (t', beh classes t' s)) (build (describe t)), (%s))" % ", ".join(checks)
    else:
        body += "tt)"
    return "(" + "\n  ".join(lets) + "\n  " + body + ")"
