"""C06 - a checkpointed solver resumes exactly as if it had never been interrupted; copies are independent."""
import json, os, copy, random, io, contextlib, warnings
import numpy as np
from harness import solverlib as L, solvergen as G
from harness.props import solver_common as SC

ID = "C06"
TITLE = "A checkpointed solver resumes exactly as if it had never been interrupted"
PROPS_FILE = "Props/Properties_C06.v"
LEVEL = "proof"
SIZES = {"quick": 260, "thorough": 4000}
PARALLEL = True
SHARD = 30
COQ_TIMEOUT = 1200
RULE = ("run a generated API script to a generation boundary, then snapshot the solver by SaveSolver+LoadSolver / periodic SetSaveFrequency dump + LoadSolver / "
        "dill dumps+loads / copy.deepcopy, continue the ORIGINAL with a generated tail of operations, then restore the RNG state and run the same tail on the snapshot; "
        "DE, DE2, Nelder-Mead, Powell with bounds, constraints, penalties, monitors, terminations that read the trial solution; non-trivial = the tail executes at least 2 iterations")
TRUSTED = SC.TRUSTED + ["dill's byte format and file I/O are not modelled: what is compared is the behaviour of the restored object",
                        "the Python and numpy global RNG states are saved/restored by the harness around the snapshot"]
ASSUMPTIONS = SC.ASSUMPTIONS
META = dict(
    technique="Coq proof (store of machine states: frame, snapshot, resume-equivalence theorems) + differential resume/independence check on /repo + trace correspondence by vm_compute",
    level_text=("Theorems (Core/Store.v, any algorithm): a restored/copied solver started from a snapshot reaches exactly the state the original reaches under the same operations and oracle inputs, whatever is "
                "done to other solvers in between; advancing one solver never changes another; each keeps its own faithful counter. That the REAL save/load/deepcopy captures the whole state and shares nothing mutable is "
                "decided on every run by continuing original and snapshot side by side on /repo (all observables equal after every op; originals untouched) and by replaying the snapshot's run through the machine from the same prefix."),
    level_note=("Trusted: Coq kernel+VM; harness; dill (byte format), file system, global RNG save/restore. Oracle inputs as in C01-C05. Shallow copy.copy is not claimed independent (it shares by definition). "
                "Compared after every op: population, energies, best, counters, histories, monitor contents and shapes, limits, trial solution(s) and the termination verdict."),
    design_ref="5/C06")

WORK = os.path.join(os.path.dirname(os.path.dirname(os.path.dirname(os.path.abspath(__file__)))), ".work", "C06")


def generate(rng, n, tier):
    import shutil
    shutil.rmtree(os.path.join(os.path.dirname(WORK), "logs"), ignore_errors=True)      # log files of logging monitors of earlier runs
    for _ in range(n):
        c = G.gen_script(rng, nops=(2, 5), p_mid=0.3, solvers=("DE", "DE2", "NM", "POW") if rng.random() < 0.6 else L.SOLVERS)
        ops = c["ops"]
        # make sure the prefix ends at a generation boundary and limits do not stop everything at once
        ops = [o for o in ops if o["op"] not in ("RequestExit",)]
        if not any(o["op"] in ("Step", "Solve") for o in ops):
            ops.append(dict(op="Step", cb=False))
        ops.append(dict(op="Step", cb=False))
        tail = []
        for _ in range(rng.randint(2, 5)):
            r = rng.random()
            if r < 0.7:
                tail.append(dict(op="Step", cb=rng.random() < 0.2))
            elif r < 0.8:
                tail.append(G.gen_limits(rng))
            elif r < 0.9:
                pen = G.gen_pen(rng)
                if pen["kind"] == "slin" and any(o["op"] == "SetObjective" and o["cost"]["kind"] != "quad" for o in ops):
                    pen["kind"] = "lin"          # a signed penalty only next to costs that dominate it (see solvergen.gen_script)
                tail.append(dict(op="SetPenalty", pen=pen))
            else:
                tail.append(dict(op="Solve", cb=False))
                tail.insert(0, dict(op="SetLimits", g=rng.choice([3, 5]), e=None, new=True))
        if rng.random() < 0.2 and not any(o["op"] == "SetEvalMonitor" for o in ops):
            # an evaluation monitor attached only after some evaluations: it holds fewer records than the counter counts
            firsts = [i for i, o in enumerate(ops) if o["op"] == "Step"]
            if firsts:
                ops.insert(firsts[0] + 1, dict(op="SetEvalMonitor", new=False))
                ops.insert(firsts[0] + 2, dict(op="Step", cb=False))
        if rng.random() < 0.12 and not any(o["op"] == "SetStepMonitor" for o in ops):
            # a logging step monitor with a cost multiplier: its records must survive a save / copy as they are
            ops.insert(0, dict(op="SetStepMonitor", new=False, log_k=rng.choice([1000.0, 0.5])))
        c["pre"], c["post"] = ops, tail
        del c["ops"]
        c["action"] = rng.choice(["deepcopy", "saveload", "dill", "savefreq"])
        if rng.random() < 0.3:
            # independence: a SECOND copy is given another objective and stepped alternately with the original while the original runs its tail;
            # whatever that copy does must not show in the original (compared with the first copy, which runs the same tail alone afterwards)
            c["diverge"] = dict(cost=G.gen_cost(rng, c["ndim"]), how=rng.choice(["deepcopy", "deepcopy", "dill"]))
            if rng.random() < 0.6:
                for o in c["pre"]:
                    if o["op"] == "SetTermination":
                        o["term"] = dict(kind="or_collapse", a=dict(kind="never"), tol=rng.choice([1e-9, 1e-12]), g=rng.choice([2, 3]))
                # a smooth cost (the original keeps moving) and a tail of plain Steps, long enough for the copy's collapse to be detected
                for o in c["pre"]:
                    if o["op"] == "SetObjective" and o["cost"]["kind"] != "vector":
                        o["cost"] = dict(kind="quad", a=[G.grid(rng, -2, 2) + 0.125 for _ in range(c["ndim"])])
                c["pre"] = [o for o in c["pre"] if o["op"] not in ("Step", "Solve", "SetLimits", "Finalize")] + \
                           [dict(op="Step", cb=False) for _ in range(rng.randint(2, 4))]
                c["post"] = [dict(op="Step", cb=False) for _ in range(rng.randint(5, 8))]
        if rng.random() < 0.25 and not any(o["op"] == "SetTermination" and o["term"].get("kind") == "or_collapse" for o in c["pre"]):
            # a termination condition that reads the trial solution(s) the last iteration left behind: part of the state a snapshot must carry
            for o in c["pre"] + c["post"]:
                if o["op"] == "SetTermination":
                    o["term"] = dict(kind="or", a=o["term"], b=dict(kind="solimp", tol=rng.choice([0.05, 0.25, 1.0, 3.0])))
        if rng.random() < 0.2:
            # one long Solve (DE settings given as keywords) with periodic dumps; resume from the last dump and catch up
            cfg = [o for o in ops if o["op"] not in ("Step", "Solve", "SetLimits", "Finalize")]
            G_ = rng.choice([4, 5, 7])
            solve = dict(op="Solve", cb=False)
            if c["solver"] in ("DE", "DE2"):
                solve["kw"] = dict(strategy=c["strategy"], CrossProbability=rng.choice([0.9, 0.5, 1.0]), ScalingFactor=rng.choice([0.8, 0.5]))
                c["de_kw"] = True
            elif rng.random() < 0.6:      # the same for the options of Nelder-Mead / Powell: given once to Solve, in force after a restore
                solve["kw"] = rng.choice([dict(adaptive=True), dict(radius=0.3)]) if c["solver"] == "NM" else rng.choice([dict(xtol=1e-2), dict(imax=3)])
            c["pre"] = cfg + [dict(op="SetLimits", g=G_, e=None, new=False), solve]
            c["post"] = []
            c["action"] = "midsolve"
            c["every"] = rng.choice([2, 3])
        if c["solver"] == "POW" and c["action"] == "savefreq" and rng.random() < 0.5 and any(o["op"] == "Step" for o in c["pre"]):
            # the prefix ends with a penalty installed in the middle of the run: Powell's Finalize flushes its pending record and dumps
            c["pre"] = c["pre"] + [dict(op="SetPenalty", pen=dict(kind="quad", c=G.grid(rng, -1, 1), w=10.0))]
            if not any(o["op"] == "Step" for o in c["post"]):
                c["post"] = c["post"] + [dict(op="Step", cb=False), dict(op="Step", cb=False)]
        G.fix_deferred(c["pre"]); G.fix_deferred(c["post"])
        yield c


FIELDS = ("pop", "popE", "bestX", "bestE", "evals", "gens", "ehist", "shist", "emx", "emy", "msg", "ncalls", "maxiter", "maxfun", "mon_shape", "term_now", "trial")


def view(s):
    return {k: s[k] for k in FIELDS}


def run_impl(case):
    with warnings.catch_warnings():
        warnings.simplefilter("ignore")
        with contextlib.redirect_stdout(io.StringIO()):
            return _run(case)


def _run(case):
    from mystic.solvers import LoadSolver
    import dill
    os.makedirs(WORK, exist_ok=True)
    kind = case["solver"]
    random.seed(case["seed"]); np.random.seed(case["seed"] % (2 ** 31))
    tag0 = L.new_tag(); rec0 = L.REG[tag0] = L.Rec()
    tag1 = L.new_tag()
    fname = os.path.join(WORK, "c06_%d_%d.pkl" % (os.getpid(), case["seed"]))
    try:
        s0 = L.build_solver(kind, case["ndim"], case.get("npop", 4))
        s0._verif_tag = tag0
        if kind in ("DE", "DE2") and not case.get("de_kw"):
            s0.strategy = case.get("strategy", "Best1Bin"); s0.probability = case.get("cross", 0.9); s0.scale = case.get("scale", 0.8)
        if case["action"] == "savefreq":
            s0.SetSaveFrequency(1, fname)
        if case["action"] == "midsolve":
            return _run_midsolve(case, s0, rec0, tag0, tag1, fname)
        pre_trace, pre_res = [], []
        with L.Instrumented():
            for k, op in enumerate(case["pre"]):
                res, msg = L.apply_op(s0, rec0, op, k, tag0)
                pre_res.append(res); pre_trace.append(L.snapshot(s0, rec0, msg))
            at = L.snapshot(s0, rec0, None)
            rng_state = (random.getstate(), np.random.get_state())
            # ---- snapshot
            a = case["action"]
            if a == "deepcopy":
                s1 = copy.deepcopy(s0)
            elif a == "dill":
                s1 = dill.loads(dill.dumps(s0))
            elif a == "saveload":
                s0.SaveSolver(fname)
                saved_changed = [q for q in FIELDS if L.snapshot(s0, rec0, None)[q] != at[q]]      # writing a checkpoint is not an operation on the solver
                s1 = LoadSolver(fname)
            else:
                # the periodic dump is the state at the end of the last EXECUTED iteration: comparable with the original
                # only if the last operation of the prefix executed one and did not stop (a stop finalizes the original)
                # (when it did stop, the dump forced at the stop is the finalized solver: comparable too)
                last_ok = len(pre_trace) >= 2 and pre_trace[-1]["nstep"] > pre_trace[-2]["nstep"]
                # Powell also dumps when a Set* call finalizes it in the middle of a run (its pending record is flushed): that file is the solver
                # as that call left it
                if kind == "POW" and case["pre"] and case["pre"][-1]["op"] in ("SetPenalty", "SetConstraints") and not case["pre"][-1].get("defer") \
                   and len(pre_trace) >= 2 and not pre_trace[-1]["live"] and pre_trace[-2]["live"] and pre_trace[-1]["nsm"] > pre_trace[-2]["nsm"]:
                    last_ok = True
                # (restored from a COPY of the restart file: the restored solver then dumps to the copy, not to the original's file)
                bak = fname + ".bak"
                if os.path.exists(fname) and last_ok:
                    import shutil as _sh
                    _sh.copyfile(fname, bak)
                    s1 = LoadSolver(bak)
                    state_ok = (getattr(s1, "_state", None) == bak)
                else:
                    s1 = None
            saved_gens = None
            if s1 is not None and a == "savefreq" and int(s1.generations) != at["gens"]:
                s1 = None      # the last dump is of an earlier generation (Powell logs a generation every other phase)
            if s1 is not None:
                rec1 = L.REG[tag1] = rec0.fork()
                L.retag(s1, tag1)
                saved_gens = int(s1.generations)
                snap1_at = L.snapshot(s1, rec1, None)
            # ---- a second, diverging copy (independence)
            s2 = None
            if case.get("diverge") and not isinstance(s0, type(None)):
                tag2 = L.new_tag(); rec2 = L.REG[tag2] = rec0.fork()
                try:
                    s2 = copy.deepcopy(s0) if case["diverge"]["how"] == "deepcopy" else dill.loads(dill.dumps(s0))
                    L.retag(s2, tag2)
                    L.apply_op(s2, rec2, dict(op="SetObjective", cost=case["diverge"]["cost"]), 10 ** 6, tag2)
                    # ... and a coordinate held fixed, so that a collapse is detected in the copy but not in the original
                    L.apply_op(s2, rec2, dict(op="SetConstraints", cons=dict(kind="pin", i=0, c=float(s2.bestSolution[0]) if at["nsm"] else 0.5, inplace=False)), 10 ** 6, tag2)
                except Exception:
                    s2 = None
            # ---- continue the original
            n0 = len(case["pre"])
            t0, r0 = [], []
            for k, op in enumerate(case["post"]):
                if s2 is not None:
                    st = (random.getstate(), np.random.get_state())
                    try:
                        L.apply_op(s2, rec2, dict(op="Step", cb=False), 10 ** 6 + 1 + k, tag2)
                    except Exception:
                        pass
                    random.setstate(st[0]); np.random.set_state(st[1])     # the diverging copy must not shift the original's random stream
                res, msg = L.apply_op(s0, rec0, op, n0 + k, tag0)
                r0.append(res); t0.append(L.snapshot(s0, rec0, msg))
            if s2 is not None:
                L.REG.pop(tag2, None)
            final0 = L.snapshot(s0, rec0, None)
            out = dict(pre_trace=pre_trace, pre_res=pre_res, at=at, t0=t0, r0=r0, action=a, restored=s1 is not None, saved_gens=saved_gens,
                       saved_changed=(saved_changed if a == "saveload" else []),
                       p0=L.pack(rec0, pre_trace + t0, pre_res + r0))
            if s1 is None:
                return out
            out["snap1_untouched"] = view(L.snapshot(s1, rec1, None)) == view(snap1_at)
            out["snap1_at"] = snap1_at
            # ---- run the same tail on the snapshot, from the same RNG state
            random.setstate(rng_state[0]); np.random.set_state(rng_state[1])
            import hashlib as _hl
            _digest = lambda pth: _hl.sha1(open(pth, "rb").read()).hexdigest() if os.path.exists(pth) else None
            h_before = _digest(fname) if a == "savefreq" else None
            t1, r1 = [], []
            for k, op in enumerate(case["post"]):
                res, msg = L.apply_op(s1, rec1, op, n0 + k, tag0)
                r1.append(res); t1.append(L.snapshot(s1, rec1, msg))
            if a == "savefreq":
                out["restart_file"] = dict(state_ok=bool(state_ok), original_file_untouched=(_digest(fname) == h_before))
            out.update(t1=t1, r1=r1, orig_untouched=view(L.snapshot(s0, rec0, None)) == view(final0),
                       p1=L.pack(rec1, pre_trace + t1, pre_res + r1))
            return out
    finally:
        L.REG.pop(tag0, None); L.REG.pop(tag1, None)
        for pth in (fname, fname + ".bak"):
            if os.path.exists(pth):
                os.remove(pth)


def _run_midsolve(case, s0, rec0, tag0, tag1, fname):
    """one long Solve with periodic dumps; restore an EARLIER dump (copied aside when written), give it the RNG state of that
    moment, let it Solve() to the end with no keywords, and compare the final states"""
    import shutil
    from mystic.solvers import LoadSolver
    from mystic.abstract_solver import AbstractSolver
    s0.SetSaveFrequency(case["every"], fname)
    dumps = []
    origSave = AbstractSolver.SaveSolver
    def SaveSolver(self, *a, **k):
        r = origSave(self, *a, **k)
        if getattr(self, "_verif_tag", None) == tag0 and os.path.exists(fname):
            cp = "%s.g%d" % (fname, len(dumps))
            shutil.copy(fname, cp)
            dumps.append(dict(gens=int(self.generations), rng=(random.getstate(), np.random.get_state()), file=cp, rec=rec0.fork()))
        return r
    AbstractSolver.SaveSolver = SaveSolver
    try:
        with L.Instrumented():
            trace = []
            for k, op in enumerate(case["pre"]):
                res, msg = L.apply_op(s0, rec0, op, k, tag0)
                trace.append(L.snapshot(s0, rec0, msg))
            final0 = L.snapshot(s0, rec0, None)
            AbstractSolver.SaveSolver = origSave
            early = [d for d in dumps if 0 < d["gens"] < final0["gens"]]
            out = dict(restored=False, action="midsolve", at=final0, t0=[], pre_trace=trace, ndumps=len(dumps))
            if not early:
                return out
            d = early[len(early) // 2]
            s1 = LoadSolver(d["file"])
            rec1 = L.REG[tag1] = d["rec"]
            L.retag(s1, tag1)
            random.setstate(d["rng"][0]); np.random.set_state(d["rng"][1])
            s1.SetSaveFrequency(None)
            s1.Solve()
            final1 = L.snapshot(s1, rec1, None)
            out.update(restored=True, mid=True, from_gens=d["gens"], final0=view(final0), final1=view(final1),
                       orig_untouched=view(L.snapshot(s0, rec0, None)) == view(final0))
            return out
    finally:
        AbstractSolver.SaveSolver = origSave
        for d in dumps:
            if os.path.exists(d["file"]):
                os.remove(d["file"])


def oracle(case, out):
    f = []
    site = {"DE": "DifferentialEvolutionSolver", "DE2": "DifferentialEvolutionSolver2", "NM": "NelderMeadSimplexSolver", "POW": "PowellDirectionalSolver"}[case["solver"]]
    if "__exception__" in out:
        return [SC.fail("no-crash", site, out["__exception__"], out.get("__msg__"))]
    if not out["restored"]:
        return f
    if out.get("mid"):
        v0, v1 = dict(out["final0"]), dict(out["final1"])
        for q in ("msg", "maxiter", "maxfun"):
            v0.pop(q, None); v1.pop(q, None)
        if v0 != v1:
            diff = [q for q in v0 if v0[q] != v1[q]]
            f.append(SC.fail("resume_equiv", site, "resumed-solve-differs:periodic-dump", dict(from_generation=out["from_gens"], fields=diff)))
        if not out["orig_untouched"]:
            f.append(SC.fail("copy_independent", site, "original-changed-by-snapshot:periodic-dump"))
        return f
    a = out["action"]
    rf = out.get("restart_file")
    if rf and not (rf["state_ok"] and rf["original_file_untouched"]):
        f.append(SC.fail("copy_independent", site, "restored-solver-writes-the-original-restart-file", rf))
        return f
    if out.get("saved_changed"):
        f.append(SC.fail("copy_independent", site, "original-changed-by-saving", dict(fields=out["saved_changed"])))
        return f
    # the snapshot is the original at the boundary (a periodic dump is taken inside the last iteration)
    va, v1 = view(out["at"]), view(out["snap1_at"])
    # _live decides whether the next Step re-decorates the objective (re-clipping / rebuilding the population under strict ranges):
    # a snapshot that differs in it does not resume like the original
    va["live"], v1["live"] = out["at"].get("live"), out["snap1_at"].get("live")
    ignore = ("msg", "maxiter", "maxfun") if a == "savefreq" else ("msg",)
    if a == "savefreq" and va["live"] is False:
        # the periodic dump is written inside the iteration; a Finalize that the same Step performed afterwards (a termination condition that held
        # for a moment - e.g. a collapse detected before Powell's pending record was flushed - without a stop being reported) is not in it:
        # what matters is that both continue alike, which the tail comparison below decides
        ignore += ("live",)
    if {k: v for k, v in va.items() if k not in ignore} != {k: v for k, v in v1.items() if k not in ignore}:
        diff = [k for k in va if k not in ignore and va[k] != v1[k]]
        f.append(SC.fail("snapshot_equals_original", site, "restored-state-differs:" + a, dict(fields=diff)))
        return f
    if not out["snap1_untouched"]:
        f.append(SC.fail("copy_independent", site, "snapshot-changed-by-original:" + a))
    if not out["orig_untouched"]:
        f.append(SC.fail("copy_independent", site, "original-changed-by-snapshot:" + a))
    for k, (x, y) in enumerate(zip(out["t0"], out["t1"])):
        vx, vy = view(x), view(y)
        if vx != vy:
            diff = [q for q in vx if vx[q] != vy[q]]
            f.append(SC.fail("resume_equiv", site, "resumed-run-differs:" + a, dict(op=k, opname=case["post"][k]["op"], fields=diff)))
            break
    for y in out["t1"]:
        if y["evals"] != y["ncalls"] and case["solver"] != "DE2":
            f.append(SC.fail("copy_counts_own_evals", site, "snapshot-counter-not-own-calls:" + a, dict(evals=y["evals"], real=y["ncalls"])))
            break
    return f


def coq_preamble():
    return L.PREAMBLE


def coq_terms(case, out):
    if "__exception__" in out or not out.get("restored") or out.get("mid") or case["solver"] not in L.MODELLED:
        return []
    full = dict(case, ops=case["pre"] + case["post"])
    if not L.modelled(full):
        return []
    terms = [L.check_term(full, out["p0"], "mask_all")]
    if "p1" in out:
        terms.append(L.check_term(full, out["p1"], "mask_all"))
    return terms


def coq_debug(case, out, k):
    full = dict(case, ops=case["pre"] + case["post"])
    return L.debug_term(full, out["p1"] if k == 1 and "p1" in out else out["p0"])


def classify(case, out):
    tags = ["solver:" + case["solver"], "action:" + case["action"]]
    if "__exception__" in out:
        return json.dumps(case, sort_keys=True), False, tags + ["exception:" + out["__exception__"]]
    tags.append("restored:%s" % out["restored"])
    n = 0
    if out.get("mid"):
        n = out["final1"]["gens"] - out["from_gens"]
    if out.get("t1"):
        n = out["t1"][-1]["nstep"] - out["at"]["nstep"]
    tags.append("tail-iterations:%s" % ("0" if n == 0 else "1" if n == 1 else "2+"))
    tags += ["tail-has:" + o for o in sorted(set(x["op"] for x in case["post"]))]
    return json.dumps(case, sort_keys=True), n >= 2, tags


def shrink(case):
    for i in range(len(case["post"]) - 1, -1, -1):
        yield dict(case, post=case["post"][:i] + case["post"][i + 1:])
    for i in range(len(case["pre"]) - 1, -1, -1):
        if case["pre"][i]["op"] not in ("SetObjective", "SetTermination"):
            yield dict(case, pre=case["pre"][:i] + case["pre"][i + 1:])
