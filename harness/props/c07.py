"""C07 - results depend only on configuration and seed, not on call order or schedule."""
import json, random, io, contextlib, warnings, math, os
import numpy as np
from harness import solverlib as L, solvergen as G
from harness.props import solver_common as SC

ID = "C07"
TITLE = "Results depend only on configuration and seed, not on call order or schedule"
PROPS_FILE = "Props/Properties_C07.v"
LEVEL = "proof"
SIZES = {"quick": 200, "thorough": 2500}
PARALLEL = True
SHARD = 30
COQ_TIMEOUT = 1200
RULE = ("kind=order: one configuration (at most one Set* per setting) applied in 4-6 random permutations before the same Step/Solve tail with the same seed, DE/DE2/NM/Powell; "
        "kind=map: DifferentialEvolutionSolver2 with the builtin map vs reversed / shuffled / thread-pool maps; kind=ensemble: lattice/buckshot ensembles of Nelder-Mead/Powell members "
        "under serial, reversed, shuffled and thread-pool maps, and Step-loop vs Solve; non-trivial = at least 2 executed iterations")
TRUSTED = SC.TRUSTED + ["thread interleavings inside one work item and process-based maps are not modelled (a schedule is a permutation of whole work items)"]
ASSUMPTIONS = SC.ASSUMPTIONS + ["ensemble members draw no random numbers while running (Nelder-Mead / Powell members)"]
META = dict(
    technique="Coq proof (pairwise commutation of configuration ops lifted over Permutation; schedule-independence of item-wise evaluation) + differential runs on /repo + trace correspondence by vm_compute",
    level_text=("Theorems: any permutation of configuration calls (one per setting) yields the same machine state, hence the same trajectory, from any state, for every algorithm with a trivial Finalize (DE, DE2, NM) and for Powell from every state with no pending record (config_order_irrelevant_G); "
                "evaluating work items in any order gives every item the same energy and the same number of real calls. On /repo every run applies one configuration in several orders and DE2/ensembles under several maps "
                "and requires identical trajectories; each DE/NM/Powell run is also replayed through the machine."),
    level_note=("Trusted: Coq kernel+VM; harness; a schedule is modelled as a permutation of whole work items (real thread interleavings inside an item, process pools: not modelled); ensembles: differential oracle only."),
    design_ref="5/C07")

CFG_KINDS = ("SetObjective", "SetPenalty", "SetConstraints", "SetStrictRanges", "SetReducer", "SetLimits", "SetTermination", "SetEvalMonitor",
             "SetRandomInitialPoints", "SetInitialPoints")


def generate(rng, n, tier):
    for _ in range(n):
        r = rng.random()
        if r < 0.6:
            c = G.gen_script(rng, nops=(2, 6), p_mid=0.0, solvers=("DE", "DE2", "NM", "POW") if rng.random() < 0.2 else L.SOLVERS, allow_vector=True)
            if not any(o["op"] in ("Step", "Solve") for o in c["ops"]):
                c["ops"].append(dict(op="Step", cb=False))
            first = next(i for i, o in enumerate(c["ops"]) if o["op"] in ("Step", "Solve"))
            cfg, tail = c["ops"][:first], c["ops"][first:]
            seen, cfg2 = set(), []
            for o in cfg:           # at most one call per setting
                key = "pop" if o["op"] in ("SetRandomInitialPoints", "SetInitialPoints") else o["op"]
                if key not in seen:
                    seen.add(key); cfg2.append(o)
            if rng.random() < 0.35:
                # start points drawn from numpy's generator: no other configuration call may consume random numbers, whatever the order
                for o in cfg2:
                    if o["op"] == "SetInitialPoints":
                        o["how"], o["var"] = "multinormal", rng.choice([0.25, 1.0])
            if c["solver"] != "DE2" and rng.random() < 0.3:
                # an evaluation monitor that already holds records, and limits that count from now on (new=True): neither call may read the other's state
                cfg2 = [o for o in cfg2 if o["op"] not in ("SetEvalMonitor", "SetLimits")]
                cfg2 += [dict(op="SetEvalMonitor", new=False, prefill=rng.choice([5, 25])), dict(op="SetLimits", g=None, e=rng.choice([8, 20, 40]), new=True)]
            perms = []
            for _ in range(rng.choice([3, 4, 5])):
                p = list(range(len(cfg2))); rng.shuffle(p); perms.append(p)
            c.pop("ops")
            c.update(kind="order", cfg=cfg2, tail=tail, perms=perms)
            yield c
        elif r < 0.78:
            c = G.gen_script(rng, nops=(2, 6), p_mid=0.2, solvers=("DE2",), allow_modes=rng.random() < 0.5)   # incl. clip=False: random re-draws while trial vectors are built
            if rng.random() < 0.25:       # a run in which trial vectors keep leaving the box and are re-drawn at random (clip=False)
                nd = c["ndim"]; lo = [rng.choice([-1.0, 0.0]) for _ in range(nd)]; hi = [l + rng.choice([1.0, 2.0]) for l in lo]
                c["scale"] = 1.0
                c.pop("de_kw", None)
                c["ops"] = [dict(op="SetTermination", term=G.gen_term(rng)), dict(op="SetObjective", cost=dict(kind="quad", a=[h + 1.5 for h in hi])),
                            dict(op="SetRandomInitialPoints", lo=lo, hi=hi), dict(op="SetStrictRanges", lo=lo, hi=hi, tight=rng.choice([None, True]), clip=False)] + \
                           [dict(op="Step", cb=False) for _ in range(rng.choice([3, 5]))]
            elif rng.random() < 0.4:        # random re-draws (clip=False) for whatever leaves the box: drawn while the trial vectors are built, before the map
                for o in c["ops"]:
                    if o["op"] == "SetStrictRanges" and o.get("lo") and all(abs(v) != math.inf for v in o["lo"] + o["hi"]):
                        o["tight"], o["clip"] = rng.choice([None, True]), False
            c.update(kind="map", maps=["reversed", "shuffled", "threads"], mapseed=rng.randrange(10 ** 6))
            yield c
        elif r < 0.85:
            # one configuration reached along different API paths: SetConstraints + Step loop, Step(constraints=c) then Steps, Solve(constraints=c)
            nd = rng.choice([2, 3])
            lo = [rng.choice([-1.0, 0.0]) for _ in range(nd)]
            yield dict(kind="paths", solver=rng.choice(["DE", "DE2", "NM", "POW"]), ndim=nd, npop=rng.choice([4, 6]), lo=lo, hi=[l + rng.choice([2.0, 3.0]) for l in lo],
                       a=[G.grid(rng, -1, 2) + 0.2 for _ in range(nd)], q=rng.choice([0.5, 0.25]), nsteps=rng.choice([3, 4, 6]), ranges=rng.random() < 0.7,
                       seed=rng.randrange(10 ** 6))
        elif r < 0.90:
            # no state shared between solvers of one process: a run is the same whether or not another solver (same box, other range mode) ran before
            nd = rng.choice([2, 3])
            lo = [rng.choice([-1.0, 0.0]) for _ in range(nd)]
            modes = rng.sample([[None, None], [True, None], [None, True], [None, False], [True, True]], 2) if rng.random() < 0.4 else \
                rng.sample([[None, True], [None, False]], 2)
            yield dict(kind="prior", solver=rng.choice(["NM", "POW", "DE", "DE2"]), ndim=nd, npop=4, lo=lo, hi=[l + rng.choice([1.0, 2.0]) for l in lo],
                       a=[G.grid(rng, 1, 3) + 0.2 for _ in range(nd)], mode_b=modes[0], mode_a=modes[1], nsteps=rng.choice([3, 5]), seed=rng.randrange(10 ** 6))
        elif r < 0.93:
            yield dict(kind="seed", seed=rng.choice([0, 0, 1, 7, 2 ** 31, 123456789]), ndim=rng.choice([1, 2]), npts=rng.choice([3, 4]),
                       how=rng.choice(["buckshot", "multinormal", "de"]), cost=G.gen_cost(rng, 2))
        else:
            ndim = rng.choice([1, 2])
            unset = rng.random() < 0.3       # the generation limit left to the defaults (of the members, in every mode): only evaluations are limited
            yield dict(kind="ensemble", ens=rng.choice(["lattice", "buckshot"]), nested=rng.choice(["NM", "POW"]), ndim=ndim,
                       nbins=[rng.choice([1, 2, 3]) for _ in range(ndim)], npts=rng.choice([2, 3, 5]),
                       lo=[-2.0] * ndim, hi=[rng.choice([2.0, 3.0, 0.5, -0.5])] * ndim, cost=G.gen_cost(rng, ndim), seed=rng.randrange(10 ** 6),
                       maxiter=None if unset else rng.choice([3, 5, 8]), maxfun=rng.choice([40, 70]) if unset else None, mapseed=rng.randrange(10 ** 6),
                       inst=rng.random() < 0.5,          # the nested solver given as a configured instance rather than a class
                       cfgperms=[rng.sample(range(6), 6) for _ in range(3)], cons6=True)


def make_map(kind, seed):
    if kind == "reversed":
        return lambda f, *seqs, **kw: list(reversed([f(*a) for a in reversed(list(zip(*seqs)))]))
    if kind == "shuffled":
        def m(f, *seqs, **kw):
            items = list(zip(*seqs)); idx = list(range(len(items))); random.Random(seed).shuffle(idx)
            out = [None] * len(items)
            for i in idx:
                out[i] = f(*items[i])
            return out
        return m
    if kind == "threads":
        def m(f, *seqs, **kw):
            from concurrent.futures import ThreadPoolExecutor
            with ThreadPoolExecutor(max_workers=3) as ex:
                return list(ex.map(f, *seqs))
        return m
    raise ValueError(kind)


FIELDS = ("pop", "popE", "bestX", "bestE", "gens", "ehist", "shist", "msg")


def view(s, with_evals=True):
    d = {k: s[k] for k in FIELDS}
    if with_evals:
        d["evals"] = s["evals"]; d["ncalls"] = s["ncalls"]
    return d


def run_impl(case):
    with warnings.catch_warnings():
        warnings.simplefilter("ignore")
        with contextlib.redirect_stdout(io.StringIO()):
            return _run(case)


def _run(case):
    k = case["kind"]
    if k == "order":
        runs = []
        for p in [list(range(len(case["cfg"])))] + case["perms"]:
            ops = [case["cfg"][i] for i in p] + case["tail"]
            runs.append(dict(perm=p, out=L._run_script(dict(case, ops=ops))))
        return dict(runs=runs)
    if k == "map":
        base = L._run_script(case)
        outs = []
        for m in case["maps"]:
            outs.append(dict(map=m, out=_run_with_map(case, make_map(m, case["mapseed"]))))
        return dict(base=base, outs=outs)
    if k == "seed":
        return dict(a=_run_seeded(case), b=_run_seeded(case))
    if k == "paths":
        return _run_paths(case)
    if k == "prior":
        return _run_prior(case)
    return _run_ensemble(case)


def _run_seeded(case):
    """same seed given to mystic.tools.random_seed twice: everything drawn from the global generators must repeat"""
    from mystic.tools import random_seed
    from mystic.solvers import BuckshotSolver, NelderMeadSimplexSolver, DifferentialEvolutionSolver
    from mystic.termination import VTR
    random_seed(case["seed"])
    nd = case["ndim"]
    cost = _Cost(dict(case["cost"], a=(case["cost"].get("a") or [0.0, 0.0])[:nd]) if "a" in case["cost"] else case["cost"])
    if case["how"] == "buckshot":
        s = BuckshotSolver(nd, case["npts"]); s.SetNestedSolver(NelderMeadSimplexSolver)
        s.SetStrictRanges([-2.0] * nd, [2.0] * nd); s.SetEvaluationLimits(generations=4); s.SetTermination(VTR(-1.0))
        s.SetObjective(cost); s.Solve()
        return dict(bestX=[float(v) for v in s.bestSolution], bestE=float(s.bestEnergy), total=int(s._total_evals))
    if case["how"] == "multinormal":
        s = NelderMeadSimplexSolver(nd); s.SetMultinormalInitialPoints([0.5] * nd, 1.0)
        return dict(pop=[[float(v) for v in p] for p in s.population])
    s = DifferentialEvolutionSolver(nd, 5); s.SetRandomInitialPoints([-2.0] * nd, [2.0] * nd); s.SetEvaluationLimits(generations=3)
    s.SetTermination(VTR(-1.0)); s.SetObjective(cost); s.Solve()
    return dict(bestX=[float(v) for v in s.bestSolution], bestE=float(s.bestEnergy), pop=[[float(v) for v in p] for p in s.population])


def _run_with_map(case, mp):
    kind = case["solver"]
    random.seed(case["seed"]); np.random.seed(case["seed"] % (2 ** 31))
    tag = L.new_tag(); rec = L.REG[tag] = L.Rec()
    try:
        s = L.build_solver(kind, case["ndim"], case.get("npop", 4)); s._verif_tag = tag
        if not case.get("de_kw"):
            s.strategy = case.get("strategy", "Best1Bin"); s.probability = case.get("cross", 0.9); s.scale = case.get("scale", 0.8)
        s.SetMapper(mp)
        trace, opres = [], []
        with L.Instrumented():
            for i, op in enumerate(case["ops"]):
                res, msg = L.apply_op(s, rec, op, i, tag)
                opres.append(res); trace.append(L.snapshot(s, rec, msg))
        return L.pack(rec, trace, opres)
    finally:
        L.REG.pop(tag, None)


def _ident(x):
    return x


class _Cost(object):
    def __init__(self, spec):
        self.spec, self._f = spec, None
    def __getstate__(self):
        return dict(spec=self.spec, _f=None)
    def __call__(self, x):
        if self._f is None:
            self._f = L.make_cost(self.spec)
        return self._f(x)


class _GridCons(object):
    def __init__(self, q):
        self.q = q
    def __call__(self, x):
        return [round(float(v) / self.q) * self.q for v in x]


def _run_paths(case):
    from mystic.termination import VTR
    res = {}
    for path in ("set", "stepkw", "solvekw"):
        random.seed(case["seed"]); np.random.seed(case["seed"] % (2 ** 31))
        s = L.build_solver(case["solver"], case["ndim"], case["npop"])
        if case["solver"] in ("DE", "DE2"):
            s.SetRandomInitialPoints(list(case["lo"]), list(case["hi"]))
        else:
            s.SetInitialPoints([(l + h) / 2 for l, h in zip(case["lo"], case["hi"])])
        if case["ranges"]:
            s.SetStrictRanges(list(case["lo"]), list(case["hi"]))
        s.SetEvaluationLimits(generations=case["nsteps"] - 1)
        s.SetTermination(VTR(-1.0))
        s.SetObjective(_Cost(dict(kind="quad", a=case["a"])))
        c = _GridCons(case["q"])
        if path == "set":
            s.SetConstraints(c)
            for _ in range(case["nsteps"]):
                s.Step()
        elif path == "stepkw":
            s.Step(constraints=c)
            for _ in range(case["nsteps"] - 1):
                s.Step()
        else:
            s.Solve(constraints=c)
        res[path] = dict(pop=[[float(v) for v in p] for p in s.population], popE=[float(e) for e in s.popEnergy], bestX=[float(v) for v in s.bestSolution],
                         bestE=float(s.bestEnergy), evals=int(s.evaluations), gens=int(s.generations))
    return dict(paths=res)


def _prior_single(case, mode, nsteps):
    from mystic.termination import VTR
    if True:
        random.seed(case["seed"]); np.random.seed(case["seed"] % (2 ** 31))
        s = L.build_solver(case["solver"], case["ndim"], case["npop"])
        if case["solver"] in ("DE", "DE2"):
            s.SetRandomInitialPoints(list(case["lo"]), list(case["hi"]))
        else:
            s.SetInitialPoints([(l + h) / 2 for l, h in zip(case["lo"], case["hi"])])
        kw = {}
        if mode[0] is not None: kw["tight"] = mode[0]
        if mode[1] is not None: kw["clip"] = mode[1]
        s.SetStrictRanges(list(case["lo"]), list(case["hi"]), **kw)
        s.SetTermination(VTR(-1.0)); s.SetObjective(_Cost(dict(kind="quad", a=case["a"])))
        for _ in range(nsteps):
            s.Step()
        return dict(pop=[[float(v) for v in p] for p in s.population], popE=[float(e) for e in s.popEnergy], bestX=[float(v) for v in s.bestSolution],
                    bestE=float(s.bestEnergy), evals=int(s.evaluations))


def _run_prior(case):
    # the reference run happens in a fresh interpreter (nothing else has been configured there); here, another solver runs first
    import subprocess, sys
    code = ("import sys, json, warnings; warnings.simplefilter('ignore'); sys.path.insert(0, %r); from harness.props import c07; "
            "c = json.loads(sys.stdin.read()); print('@@' + json.dumps(c07._prior_single(c, c['mode_b'], c['nsteps'])))") % \
        os.path.dirname(os.path.dirname(os.path.dirname(os.path.abspath(__file__))))
    p = subprocess.run([sys.executable, "-c", code], input=json.dumps(case), capture_output=True, text=True, timeout=120)
    line = [l for l in p.stdout.splitlines() if l.startswith("@@")]
    if not line:
        raise RuntimeError("reference interpreter failed: " + (p.stderr or p.stdout)[-300:])
    alone = json.loads(line[0][2:])
    _prior_single(case, case["mode_a"], 2)
    return dict(alone=alone, after=_prior_single(case, case["mode_b"], case["nsteps"]))


def _run_ensemble(case):
    from mystic.solvers import LatticeSolver, BuckshotSolver, NelderMeadSimplexSolver, PowellDirectionalSolver
    from mystic.termination import VTR
    nested = {"NM": NelderMeadSimplexSolver, "POW": PowellDirectionalSolver}[case["nested"]]
    def build(mp, perm=None):
        perm = perm if perm is not None else tuple(range(6 if case.get("cons6") else 5))
        random.seed(case["seed"]); np.random.seed(case["seed"] % (2 ** 31))
        s = LatticeSolver(case["ndim"], case["nbins"]) if case["ens"] == "lattice" else BuckshotSolver(case["ndim"], case["npts"])
        def inner():          # a fully configured member (the ensemble hands an instance on as it is)
            m = nested(case["ndim"])
            m.SetEvaluationLimits(generations=case["maxiter"], evaluations=case.get("maxfun")); m.SetTermination(VTR(-1.0)); m.SetObjective(_Cost(case["cost"]))
            return m
        calls = [lambda: s.SetNestedSolver(inner() if case.get("inst") else nested),
                 lambda: s.SetStrictRanges(list(case["lo"]), list(case["hi"])),
                 lambda: s.SetEvaluationLimits(generations=case["maxiter"], evaluations=case.get("maxfun")),
                 lambda: s.SetTermination(VTR(-1.0)),
                 lambda: s.SetObjective(_Cost(case["cost"]))]
        if case.get("cons6"):
            calls.append(lambda: s.SetConstraints(_ident))
        for i in perm:
            calls[i]()
        if mp is not None:
            s.SetMapper(make_map(mp, case["mapseed"]))
        return s
    def obs(s):
        # (with an infinite best energy every member ties and wanders: the reported point then means nothing)
        return dict(bestE=float(s.bestEnergy), bestX=([float(v) for v in s.bestSolution] if math.isfinite(float(s.bestEnergy)) else None),
                    allE=sorted(float(e) for e in s._all_bestEnergy), total=int(s._total_evals))
    res = {}
    for mp in (None, "reversed", "shuffled", "threads"):
        s = build(mp); s.Solve(); res[str(mp)] = obs(s)
    s = build(None)
    n = 0
    while not s.Step() and n < 200:
        n += 1
    res["steploop"] = obs(s)
    for j, perm in enumerate(case.get("cfgperms", [])):       # the same configuration calls in another order
        s = build(None, perm); s.Solve(); res["order:" + "".join(map(str, perm))] = obs(s)
    return dict(ens=res)


def oracle(case, out):
    f = []
    if "__exception__" in out:
        return [SC.fail("no-crash", "C07-" + case["kind"], out["__exception__"], out.get("__msg__"))]
    k = case["kind"]
    if k == "order":
        site = {"DE": "DifferentialEvolutionSolver", "DE2": "DifferentialEvolutionSolver2", "NM": "NelderMeadSimplexSolver", "POW": "PowellDirectionalSolver"}[case["solver"]]
        base = out["runs"][0]["out"]["trace"][len(case["cfg"]):]
        for r in out["runs"][1:]:
            t = r["out"]["trace"][len(case["cfg"]):]
            for j, (a, b) in enumerate(zip(base, t)):
                if view(a) != view(b):
                    diff = [q for q in view(a) if view(a)[q] != view(b)[q]]
                    f.append(SC.fail("config_order_irrelevant", site, "trajectory-depends-on-configuration-order",
                                     dict(perm=r["perm"], order=[case["cfg"][i]["op"] for i in r["perm"]], op=j, fields=diff)))
                    break
            if f:
                break
    elif k == "map":
        base = out["base"]["trace"]
        infs = any(SC.energy_of_call(case, c) in (math.inf, -math.inf) for c in out["base"]["calls"])
        emon = any(o["op"] == "SetEvalMonitor" for o in case["ops"])
        for r in out["outs"]:
            for j, (a, b) in enumerate(zip(base, r["out"]["trace"])):
                va, vb = view(a, with_evals=not infs), view(b, with_evals=not infs)
                if va != vb:
                    diff = [q for q in va if va[q] != vb[q]]
                    pat = "trajectory-depends-on-map-order:" + r["map"]
                    # python_map + evaluation monitor: DE2's counter is the monitor's length; a supplied map: a Null monitor is fed and the counter
                    # adds the non-infinite energies (F13).  The two counts differ when energies are infinite or the monitor was installed after
                    # some evaluations; so does everything that follows from reaching the evaluation limit at another moment
                    if emon and (set(diff) <= {"evals", "msg"} or "limits" in (a["msg"], b["msg"])):
                        # F13 seen through the evaluation limit: python_map + evaluation monitor counts every call (len(monitor)), a supplied
                        # map feeds a Null monitor and the counter skips infinite energies: only the evaluation-limit stop differs
                        pat = "counter-differs-builtin-vs-supplied-map:de2-counter-is-monitor-length-or-skips-infinite-energies"
                    f.append(SC.fail("schedule_irrelevant", "DifferentialEvolutionSolver2", pat, dict(op=j, fields=diff)))
                    break
        # the supplied maps among themselves: the same work items in another order, interleaving or thread: everything must agree (counters too)
        for r in out["outs"][1:]:
            r0 = out["outs"][0]
            for j, (a, b) in enumerate(zip(r0["out"]["trace"], r["out"]["trace"])):
                if view(a) != view(b):
                    diff = [q for q in view(a) if view(a)[q] != view(b)[q]]
                    f.append(SC.fail("schedule_irrelevant", "DifferentialEvolutionSolver2", "trajectory-depends-on-map-order:%s-vs-%s" % (r0["map"], r["map"]), dict(op=j, fields=diff)))
                    break
    elif k == "paths":
        ref = out["paths"]["set"]
        for name, o in out["paths"].items():
            if o != ref:
                site = {"DE": "DifferentialEvolutionSolver", "DE2": "DifferentialEvolutionSolver2", "NM": "NelderMeadSimplexSolver", "POW": "PowellDirectionalSolver"}[case["solver"]]
                f.append(SC.fail("config_order_irrelevant", site, "result-depends-on-how-constraints-were-given:" + name,
                                 dict(fields=[q for q in ref if ref[q] != o[q]], set=ref["bestX"], got=o["bestX"])))
                break
    elif k == "prior":
        if out["alone"] != out["after"]:
            f.append(SC.fail("same_seed_same_run", "AbstractSolver", "run-depends-on-solvers-configured-earlier-in-the-process",
                             dict(fields=[q for q in out["alone"] if out["alone"][q] != out["after"][q]], mode=case["mode_b"], earlier=case["mode_a"])))
    elif k == "seed":
        if out["a"] != out["b"]:
            f.append(SC.fail("same_seed_same_run", "tools.random_seed", "same-seed-different-run:" + case["how"], dict(seed=case["seed"], a=out["a"], b=out["b"])))
    else:
        e = out["ens"]
        ref = e["None"]
        for name, o in e.items():
            if o != ref:
                diff = [q for q in ref if ref[q] != o[q]]
                f.append(SC.fail("ensemble_schedule_irrelevant", case["ens"] + "/" + case["nested"],
                                 "ensemble-result-depends-on-" + ("step-vs-solve" if name == "steploop" else "configuration-order" if name.startswith("order:") else "map-order:" + name), dict(fields=diff, ref=ref, got=o)))
                break
    return f


def coq_preamble():
    return L.PREAMBLE


def coq_terms(case, out):
    if "__exception__" in out:
        return []
    k = case["kind"]
    T = []
    if k == "order" and case["solver"] in L.MODELLED:
        for r in out["runs"]:
            full = dict(case, ops=[case["cfg"][i] for i in r["perm"]] + case["tail"])
            if L.modelled(full):
                T.append(L.check_term(full, r["out"], "mask_all"))
    elif k == "map":
        if L.modelled(case):
            T.append(L.check_term(case, out["base"], "mask_all"))
            # DE2 given a map other than python_map wraps its cost with a Null monitor (differential_evolution.py
            # _decorate_objective): an installed evaluation monitor then stays empty and the counter is the F13 formula
            # without a monitor.  That mode is not in the machine model: such runs are compared by the oracle only.
            if not any(o["op"] == "SetEvalMonitor" for o in case["ops"]):
                for r in out["outs"]:
                    # under another map the evaluation ORDER (call log, monitor) may differ: compare everything else
                    T.append(L.check_term(case, r["out"], "(mk_mask true true false true false true false true)"))
    return T


def coq_debug(case, out, k):
    if case["kind"] == "order":
        r = out["runs"][min(k, len(out["runs"]) - 1)]
        return L.debug_term(dict(case, ops=[case["cfg"][i] for i in r["perm"]] + case["tail"]), r["out"])
    return L.debug_term(case, out["base"])


def classify(case, out):
    tags = ["kind:" + case["kind"]]
    if "__exception__" in out:
        return json.dumps(case, sort_keys=True), False, tags + ["exception:" + out["__exception__"]]
    n = 0
    if case["kind"] == "order":
        tags += ["solver:" + case["solver"], "nconfig:%d" % len(case["cfg"]), "nperms:%d" % len(case["perms"])]
        n = out["runs"][0]["out"]["trace"][-1]["nstep"]
    elif case["kind"] == "map":
        n = out["base"]["trace"][-1]["nstep"]
    elif case["kind"] == "seed":
        tags += ["seed:%s" % case["seed"], "how:" + case["how"]]
        n = 2
    elif case["kind"] == "paths":
        tags += ["solver:" + case["solver"], "ranges:%s" % case["ranges"]]
        n = case["nsteps"]
    elif case["kind"] == "prior":
        tags += ["solver:" + case["solver"]]
        n = case["nsteps"]
    else:
        tags += ["ens:" + case["ens"], "nested:" + case["nested"]]
        n = 2
    tags.append("iterations:%s" % ("0-1" if n < 2 else "2+"))
    return json.dumps(case, sort_keys=True), n >= 2, tags


def shrink(case):
    if case["kind"] == "order":
        for i in range(len(case["tail"]) - 1, 0, -1):
            yield dict(case, tail=case["tail"][:i] + case["tail"][i + 1:])
        if len(case["perms"]) > 1:
            for i in range(len(case["perms"])):
                yield dict(case, perms=case["perms"][:i] + case["perms"][i + 1:])
    elif case["kind"] == "map":
        for i in range(len(case["ops"]) - 1, -1, -1):
            if case["ops"][i]["op"] not in ("SetObjective", "SetTermination"):
                yield dict(case, ops=case["ops"][:i] + case["ops"][i + 1:])
