"""C02 - Strict ranges: the objective is never evaluated outside the box (solver machine; see solver_common.py / solverlib.py)."""
from harness.props import solver_common as SC

ID = "C02"
TITLE = 'Strict ranges: the objective is never evaluated outside the box'
PROPS_FILE = "Props/Properties_C02.v"
LEVEL = "proof"
SIZES = {"quick": 700, "thorough": 8000}
PARALLEL = SC.PARALLEL
SHARD = SC.SHARD
COQ_TIMEOUT = SC.COQ_TIMEOUT
RULE = 'as C01 plus all tight x clip modes of SetStrictRanges, degenerate / moving boxes; non-trivial = at least 2 executed iterations'
TRUSTED = SC.TRUSTED
ASSUMPTIONS = SC.ASSUMPTIONS
META = dict(technique='Coq proof (call-log invariant for every algorithm program and op sequence) + trace correspondence by vm_compute',
            level_text='Theorem: for EVERY algorithm program over the machine, every user function and every sequence of API operations (SetStrictRanges interleaved with Step), every real call lies inside the box in force when it was made. When the ranges are not changed during a clean run, every logged call was made under that box (C02_box_constant, every algorithm) and the reported best of DE, Nelder-Mead and Powell is an evaluated point inside it or has a top (infinite) energy (C02_de/nm/powell_best_inside). Tied to /repo by replaying generated scripts through the real solvers and the machine (tight / clip=True modes included: the composite constraints.and_ is a recorded table); the oracle checks every recorded cost argument, the best solution and generated initial points, also in the clip=False mode and under constraints that push points out of the box.',
            level_note='Trusted: Coq kernel+VM; harness (generators, instrumentation of /repo from outside, printers, oracles). User cost/constraints/penalty, DE trial vectors, Nelder-Mead candidate points, argsort permutation and post-decoration populations are oracle inputs (recorded in the correspondence, universally quantified in theorems). Powell: line-search probes and the returned index are oracle inputs. Tight / clip=True range modes: the composite constraints.and_(constraints, bounds) is a recorded table. Not in the machine model (oracle only): ensembles, clip=False ranges. No NaN energies.',
            design_ref="5/C02")

_generate0 = SC.make_generate(**dict(allow_modes=True, push_out=0.3))


def _generate(rng, n, tier):
    from harness import solvergen as G
    for c in _generate0(rng, n, tier):
        yield G.gen_edge_start(rng) if rng.random() < 0.05 else c


generate, run_impl, oracle = SC.with_extras(_generate, SC.run_impl, SC.oracle_c02, {"ensbox": (0.08, SC.gen_ensbox, SC.run_ensbox, SC.oracle_ensbox),
                                                                                           "wrapbox": (0.06, SC.gen_wrapbox, SC.run_wrapbox, SC.oracle_wrapbox)})
coq_preamble = SC.coq_preamble
coq_terms = SC.make_coq_terms('(mk_mask true false false false false false true false)')
coq_debug = SC.coq_debug
classify = SC.classify
shrink = SC.shrink
