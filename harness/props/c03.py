"""C03 - Hard constraints hold at every evaluation and for the reported result (solver machine; see solver_common.py / solverlib.py)."""
from harness.props import solver_common as SC

ID = "C03"
TITLE = 'Hard constraints hold at every evaluation and for the reported result'
PROPS_FILE = "Props/Properties_C03.v"
LEVEL = "proof"
SIZES = {"quick": 700, "thorough": 8000}
PARALLEL = SC.PARALLEL
SHARD = SC.SHARD
COQ_TIMEOUT = SC.COQ_TIMEOUT
RULE = 'as C01 with constraint-heavy scripts (pin, clamp, grid rounding, tie; pure and in place), stops at every op boundary; non-trivial = at least 2 executed iterations'
TRUSTED = SC.TRUSTED
ASSUMPTIONS = SC.ASSUMPTIONS
META = dict(technique='Coq proof (call-log invariant: every evaluated point is an output of the constraints in force) + trace correspondence by vm_compute',
            level_text="Theorems: in solvers nesting the constraints in the objective every evaluated point is an output of the constraints in force (so satisfies them when idempotent), for all op sequences incl. mid-run installation; same for both DE solvers. The 'reported result satisfies the constraints' clause is a theorem for both DE solvers (C03_de_result_constrained: best and members were evaluated at outputs of the constraints in force, or never evaluated) and for Nelder-Mead (C03_nm_result_constrained: the reported best is a fixed point of the idempotent constraints function) over clean runs; for Powell and for runs reconfigured in the middle it is decided by the correspondence (machine applies the constraints to the best vertex / trial exactly where the code does) and by the oracle on real runs at every stop point.",
            level_note='Trusted: Coq kernel+VM; harness (generators, instrumentation of /repo from outside, printers, oracles). User cost/constraints/penalty, DE trial vectors, Nelder-Mead candidate points, argsort permutation and post-decoration populations are oracle inputs (recorded in the correspondence, universally quantified in theorems). Powell: line-search probes and the returned index are oracle inputs. Tight / clip=True range modes: the composite constraints.and_(constraints, bounds) is a recorded table. Not in the machine model (oracle only): ensembles, clip=False ranges. No NaN energies.',
            design_ref="5/C03")

_generate = SC.make_generate(**dict(allow_modes=True, det_modes=True))
def generate(rng, n, tier):
    from harness import solvergen as G
    for c in _generate(rng, n, tier):
        yield G.gen_tight_affine(rng) if rng.random() < 0.12 else c
run_impl = SC.run_impl
oracle = SC.oracle_c03
coq_preamble = SC.coq_preamble
coq_terms = SC.make_coq_terms('(mk_mask false true false true false false true false)')
coq_debug = SC.coq_debug
classify = SC.classify
shrink = SC.shrink
