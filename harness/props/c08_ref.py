"""C08 - Python transcriptions of the published reference algorithms (scipy.optimize.fmin / fmin_powell as published in
scipy 0.6-0.9, i.e. the code mystic says it is adapted from).  Used by the ORACLE only (the property statement evaluated on the
implementation's results, independently of the Gallina model).  Nothing here imports mystic; the line search is a parameter.

These are deliberately plain transcriptions: numpy semantics (operation order, argsort) are whatever the installed numpy does, the
same as for the implementation under test.
"""
import numpy


def ref_fmin(func, x0, xtol=1e-4, ftol=1e-4, maxiter=None, maxfun=None, zdelt=0.00025, adaptive=False):
    """scipy.optimize.fmin (Nelder-Mead).  returns dict(x, fval, iter, funcalls, warnflag, sims=[(sim, fsim) per iteration])"""
    ncalls = [0]

    def f(x):
        ncalls[0] += 1
        return func(x)
    x0 = numpy.asarray(x0, dtype='float64').flatten()
    N = len(x0)
    if maxiter is None:
        maxiter = N * 200
    if maxfun is None:
        maxfun = N * 200
    rho = 1; chi = 2; psi = 0.5; sigma = 0.5
    if adaptive:      # Gao & Han (2012), as in scipy.optimize.minimize(method='Nelder-Mead', options={'adaptive': True})
        dim = float(N)
        rho = 1; chi = 1 + 2 / dim; psi = 0.75 - 1 / (2 * dim); sigma = 1 - 1 / dim
    one2np1 = range(1, N + 1)
    sim = numpy.zeros((N + 1, N), dtype=x0.dtype)
    fsim = numpy.zeros((N + 1,), float)
    sim[0] = x0
    fsim[0] = f(x0)
    nonzdelt = 0.05   # zdelt = 0.00025 in the reference
    for k in range(0, N):
        y = numpy.array(x0, copy=True)
        if y[k] != 0:
            y[k] = (1 + nonzdelt) * y[k]
        else:
            y[k] = zdelt
        sim[k + 1] = y
        fsim[k + 1] = f(y)
    ind = numpy.argsort(fsim)
    fsim = numpy.take(fsim, ind, 0)
    sim = numpy.take(sim, ind, 0)
    iterations = 1
    sims = [(sim.copy(), fsim.copy())]
    kinds = []
    import collections
    ties = collections.Counter()
    while ncalls[0] < maxfun and iterations < maxiter:
        if (max(numpy.ravel(abs(sim[1:] - sim[0]))) <= xtol and max(abs(fsim[0] - fsim[1:])) <= ftol):
            break
        xbar = numpy.add.reduce(sim[:-1], 0) / N
        xr = (1 + rho) * xbar - rho * sim[-1]
        fxr = f(xr)
        doshrink = 0
        kind = None
        ties["fxr==f0"] += int(fxr == fsim[0]); ties["fxr==f[-2]"] += int(fxr == fsim[-2]); ties["fxr==f[-1]"] += int(fxr == fsim[-1])
        if fxr < fsim[0]:
            xe = (1 + rho * chi) * xbar - rho * chi * sim[-1]
            fxe = f(xe)
            ties["fxe==fxr"] += int(fxe == fxr)
            if fxe < fxr:
                sim[-1] = xe; fsim[-1] = fxe; kind = "expand"
            else:
                sim[-1] = xr; fsim[-1] = fxr; kind = "reflect"
        else:
            if fxr < fsim[-2]:
                sim[-1] = xr; fsim[-1] = fxr; kind = "reflect"
            else:
                if fxr < fsim[-1]:
                    xc = (1 + psi * rho) * xbar - psi * rho * sim[-1]
                    fxc = f(xc)
                    ties["fxc==fxr"] += int(fxc == fxr)
                    if fxc <= fxr:
                        sim[-1] = xc; fsim[-1] = fxc; kind = "contract-outside"
                    else:
                        doshrink = 1
                else:
                    xcc = (1 - psi) * xbar + psi * sim[-1]
                    fxcc = f(xcc)
                    ties["fxcc==f[-1]"] += int(fxcc == fsim[-1])
                    if fxcc < fsim[-1]:
                        sim[-1] = xcc; fsim[-1] = fxcc; kind = "contract-inside"
                    else:
                        doshrink = 1
                if doshrink:
                    kind = "shrink"
                    for j in one2np1:
                        sim[j] = sim[0] + sigma * (sim[j] - sim[0])
                        fsim[j] = f(sim[j])
        kinds.append(kind)
        ties["sort"] += int(len(set(fsim.tolist())) < len(fsim))
        ind = numpy.argsort(fsim)
        sim = numpy.take(sim, ind, 0)
        fsim = numpy.take(fsim, ind, 0)
        iterations += 1
        sims.append((sim.copy(), fsim.copy()))
    warnflag = 0
    if ncalls[0] >= maxfun:
        warnflag = 1
    elif iterations >= maxiter:
        warnflag = 2
    return dict(x=sim[0].copy(), fval=float(min(fsim)), iter=iterations, funcalls=ncalls[0], warnflag=warnflag, sims=sims, kinds=kinds, ties=dict(ties))


def ref_fmin_powell(func, x0, brent, xtol=1e-4, ftol=1e-4, maxiter=None, maxfun=None, direc=None, first_test=True):
    """scipy.optimize.fmin_powell with the line minimiser `brent(f1d, full_output=1, tol=, maxiter=)` given.
    returns dict(x, fval, direc, iter, funcalls, warnflag, hist=[(x, fval) after each direction sweep])"""
    ncalls = [0]

    def f(x):
        ncalls[0] += 1
        return func(x)

    def linesearch(p, xi, tol):
        def myfunc(alpha):
            return f(p + alpha * xi)
        old = numpy.seterr(all='ignore')
        try:
            alpha_min, fret, it, num = brent(myfunc, full_output=1, tol=tol, maxiter=500)
        finally:
            numpy.seterr(**old)
        xi = alpha_min * xi
        return numpy.squeeze(fret), p + xi, xi
    x = numpy.asarray(x0, dtype='float64').flatten()
    N = len(x)
    if maxiter is None:
        maxiter = N * 1000
    if maxfun is None:
        maxfun = N * 1000
    if direc is None:
        direc = numpy.eye(N, dtype=float)
    else:
        direc = numpy.array(direc, dtype=float)
    fval = numpy.squeeze(f(x))
    x1 = x.copy()
    it = 0
    hist = []
    import collections
    ties = collections.Counter()
    while True:
        fx = fval
        bigind = 0
        delta = 0.0
        altbig = 0
        for i in range(N):
            direc1 = direc[i]
            fx2 = fval
            fval, x, direc1 = linesearch(x, direc1, xtol * 100)
            ties['dec==delta'] += int((fx2 - fval) == delta and i > 0)
            if (fx2 - fval) >= delta:
                altbig = i
            if (fx2 - fval) > delta:
                delta = fx2 - fval
                bigind = i
        it += 1
        hist.append((numpy.array(x, copy=True), float(fval)))
        if (first_test or it > 1) and 2.0 * (fx - fval) <= ftol * (abs(fx) + abs(fval)) + 1e-20:
            break
        if ncalls[0] >= maxfun:
            break
        if it >= maxiter:
            break
        direc1 = x - x1
        x2 = 2 * x - x1
        x1 = x.copy()
        fx2 = numpy.squeeze(f(x2))
        ties['fx==fx2'] += int(fx == fx2)
        ties['extrapolations'] += 1
        if fx > fx2:
            with numpy.errstate(all='ignore'):
                t = 2.0 * (fx + fx2 - 2.0 * fval)
                temp = (fx - fval - delta)
                t *= temp * temp
                temp = fx - fx2
                t -= delta * temp * temp
            ties['t==0'] += int(t == 0.0)
            ties['fx>fx2'] += 1
            if t < 0.0:
                ties['replaced'] += 1
                ties['replaced-with-tied-bigind'] += int(altbig != bigind)
                fval, x, direc1 = linesearch(x, direc1, xtol * 100)
                direc[bigind] = direc[-1]
                direc[-1] = direc1
    warnflag = 0
    if ncalls[0] >= maxfun:
        warnflag = 1
    elif it >= maxiter:
        warnflag = 2
    return dict(x=numpy.array(x, copy=True), fval=float(fval), direc=direc.copy(), iter=it, funcalls=ncalls[0],
                warnflag=warnflag, hist=hist, ties=dict(ties))
