"""C18 - moment-imposing transforms hit their target and keep what they promise to keep; definitions are textbook."""
import math, json
from fractions import Fraction as F
from harness.coqio import qlit, natlit, zlit, lst, opt, blit

ID = "C18"
TITLE = "Moment-imposing transforms hit their target and keep what they promise to keep"
PROPS_FILE = "Props/Properties_C18.v"
LEVEL = "proof"
SIZES = {"quick": 2400, "thorough": 48000}
PARALLEL = True
SHARD = 200
COQ_TIMEOUT = 900
RULE = ("cases: kind in {stats, impose, weights, surgery, norms, order, moment}; samples on the dyadic grid k/8 in [-8,8] "
        "(tie-heavy pools included), weights k/8 >= 0 with zeros (a family with total weight a power of two, on which every "
        "float operation of the implementation is exact and the Q model is compared with Qeq_bool; otherwise within 1e-9 "
        "relative), optional weights=None, boundary stream: empty samples, all-zero weights, zero variance/spread, negative "
        "targets, negative/out-of-range indices, self/symmetric/cyclic/chained pair sets, p in {0,1,2,3,4,inf,-inf,fractional}; "
        "non-trivial = at least two samples with two distinct positions and non-zero total weight; distinct = distinct case JSON")
TRUSTED = ["real-number axioms of Coq's standard library (Reals) for the algebraic theorems (NumR instance of the model)",
           "sqrt enters the theorems as a section variable with hypotheses 0<=a -> sqrt a * sqrt a = a and 0<=a -> 0<=sqrt a; "
           "in the correspondence numpy.sqrt is compared with a rational root exact on squares / 2^-64-accurate otherwise",
           "float arithmetic is exact on the 'exact' input family (dyadic, total weight a power of two, targets chosen so that the "
           "scale factor is dyadic), so the Q instance of the model is compared exactly there; all other comparisons are within "
           "1e-9 relative"]
ASSUMPTIONS = ["IEEE rounding in the moment transforms is modelled, not verified (theorems are over R)",
               "general p-norms (integer p: exact check that answer^p equals the sum of p-th powers; fractional p: float reference), minkowski(p=3), impose_moment, weighted median/mad and the trimmed statistics (tmean/tvariance/tstd and "
               "their impose_* forms) are checked by the oracle against independent exact recomputation only (no Gallina model): partial",
               "impose_collapse indices below -len(weights) and mismatched sample/weight lengths are not generated",
               "numpy's pairwise summation order is not modelled (irrelevant in exact arithmetic)"]
META = dict(
    technique="Coq proof (real-arithmetic sums over lists, affine-map lemmas) + model/implementation correspondence by vm_compute",
    level_text=("impose_mean/variance/std/spread hit their target and keep the stated statistics, normalize/impose_sum/"
                "impose_weight_norm reach the total, impose_support/impose_unweighted zero exactly the designated weights and keep total "
                "weight and weighted mean, mean/variance/moment/expectation/ess_*/L0,L1,L2^2,Linf/chebyshev/manhattan/hamming/"
                "euclidean^2 equal their textbook definitions: theorems about the Gallina model for all lists, weights and targets "
                "(non-degenerate cases; error branches stated separately).  tools.connected (as repaired) returns disjoint "
                "groups with no key among the members, hence impose_collapse keeps the total weight and the weighted mean and "
                "zeroes every group member for EVERY pair selection (full theorems).  The model is tied to mystic.math.measures/distance/tools.connected by "
                "running both on generated inputs on every run."),
    level_note=("Trusted: Coq kernel+VM, harness printers/oracles; theorems over R (stdlib real axioms), executed over Q.  "
                "Oracle-only (partial): general p-norms, minkowski, impose_moment, weighted median, mad and trimmed variants (the unweighted median and impose_median are modelled and proved)."),
    design_ref="5/C18")

REL = F(1, 10**9)


# ------------------------------------------------------------------ generators

def _g(rng, lim=64):
    return rng.randint(-lim, lim) / 8.0


def _samples(rng, n):
    r = rng.random()
    if r < 0.2:      # tie-heavy pool
        pool = [_g(rng, 16) for _ in range(rng.choice([1, 2, 2, 3]))]
        return [rng.choice(pool) for _ in range(n)]
    if r < 0.3:      # integers
        return [float(rng.randint(-8, 8)) for _ in range(n)]
    return [_g(rng) for _ in range(n)]


def _is_pow2(fr):
    fr = F(fr)
    if fr <= 0:
        return False
    n, d = fr.numerator, fr.denominator
    return (n & (n - 1)) == 0 and (d & (d - 1)) == 0


def _weights(rng, n, pow2=None, allow_none=True):
    """-> (weights or None, exact?)   exact: total weight in {1,2,4,8} (or None with n in {1,2,4,8})"""
    if n == 0:
        return ([] if rng.random() < 0.5 or not allow_none else None), False
    if allow_none and rng.random() < 0.15:
        return None, n in (1, 2, 4, 8)
    w = [rng.choice([0, 0, 1, 1, 2, 3, 4, 6, 8]) / 8.0 for _ in range(n)]
    r = rng.random()
    if r < 0.04:
        w = [0.0] * n
    if pow2 is None:
        pow2 = rng.random() < 0.55
    if pow2 and sum(w) > 0:
        s = F(sum(F(v) for v in w))
        tgt = F(1)
        while tgt < s:
            tgt *= 2
        if tgt <= 8:
            i = rng.randrange(n)
            w[i] = float(F(w[i]) + (tgt - s))
    s = sum(F(v) for v in w)
    return w, s in (1, 2, 4, 8)


def _n(rng):
    return rng.choice([1, 2, 2, 3, 3, 4, 4, 5, 6, 8])


def generate(rng, n, tier):
    kinds = ["stats"] * 5 + ["impose"] * 7 + ["weights"] * 3 + ["surgery"] * 5 + ["norms"] * 3 + ["order"] * 3 + ["moment"] * 1
    for _ in range(n):
        kind = rng.choice(kinds)
        if kind == "stats":
            k = 0 if rng.random() < 0.04 else _n(rng)
            x = _samples(rng, k)
            w, ex = _weights(rng, k)
            tol = rng.choice([0.0, 0.0, 0.0, 0.125, 0.25])
            order = rng.choice([0, 1, 2, 2, 3, 4])
            f = [rng.choice([0, 0, 1, -1, 0.5]), rng.choice([1, -1, 2, 0, -0.5]), rng.choice([0, 1, -2.5])]
            if rng.random() < 0.08:
                x = [v + 2.0 ** 20 for v in x]      # a large common offset (exactly representable): variance and spread are those of the scatter
                # only what is well conditioned next to such an offset: second moments (an error d of the mean enters them as d*d) of the
                # samples themselves or of a unit-slope function of them - third and fourth moments and squares of 2**20 lose, legitimately,
                # more digits to cancellation in binary64 than the comparison allows
                order = rng.choice([0, 1, 2, 2])
                f = [f[0], rng.choice([1, -1]), 0]
            yield dict(kind=kind, x=x, w=w, exact=ex, tol=tol, order=order, f=f)
        elif kind == "impose":
            k = 0 if rng.random() < 0.03 else _n(rng)
            x = _samples(rng, k)
            if rng.random() < 0.06:
                x = [v * 2.0 ** -34 for v in x]      # samples of size 1e-10: a variance of 1e-20 is small, not zero
            w, ex = _weights(rng, k)
            which = rng.choice(["mean", "mean", "variance", "variance", "std", "spread", "spread"])
            q = rng.choice([0.5, 1.0, 1.5, 2.0, 3.0, 0.25, 0.0])
            c = dict(kind=kind, which=which, x=x, w=w, exact=False)
            if which == "mean":
                c["t"] = _g(rng)
                c["exact"] = ex
            else:
                st = _ref_stats(x, w)
                base = None if st is None else (st["var"] if which in ("variance", "std") else st["spread"])
                r = rng.random()
                if base is not None and base != 0 and r < 0.6 and which != "std":
                    t = base * F(q) * F(q) if which == "variance" else base * F(q)
                    if float(t) == t:           # representable: scale = q exactly
                        c["t"], c["exact"] = float(t), ex
                    else:
                        c["t"] = float(t)
                elif r < 0.9:
                    c["t"] = rng.choice([0.5, 1.0, 2.0, 3.0, 0.75, 4.0, 0.0])
                else:
                    c["t"] = rng.choice([-1.0, -0.5, 0.0])
            yield c
        elif kind == "weights":
            k = 0 if rng.random() < 0.04 else _n(rng)
            which = rng.choice(["normalize", "normalize", "impose_sum", "l1", "l2", "weight_norm", "weight_norm"])
            w, ex = _weights(rng, k, allow_none=False)
            if rng.random() < 0.15 and w:
                i = rng.randrange(len(w)); w[i] = -w[i] - 0.125; ex = False
            mass = rng.choice([1.0, 2.0, 0.5, 3.0, 0.0, -1.0, 1.25])
            zsum = rng.random() < 0.25
            c = dict(kind=kind, which=which, w=w, mass=mass, zsum=zsum, zmass=rng.choice([1.0, 2.0, 0.5]), exact=ex and which != "l2")
            if which == "weight_norm":
                c["x"] = _samples(rng, k)
            yield c
        elif kind == "surgery":
            k = _n(rng) if rng.random() < 0.97 else 0
            x = _samples(rng, k)
            w, ex = _weights(rng, k, allow_none=False)
            which = rng.choice(["support", "support", "unweighted", "unweighted", "collapse", "collapse", "collapse"])
            c = dict(kind=kind, which=which, x=x, w=w, exact=False)
            if which == "collapse":
                m = rng.choice([0, 1, 1, 2, 2, 3, 4])
                r = rng.random()
                pairs = []
                for _ in range(m):
                    if k == 0:
                        break
                    i, j = rng.randrange(k), rng.randrange(k)
                    if r < 0.75 and i == j:       # mostly proper pairs
                        j = (i + 1) % k
                    if rng.random() < 0.15:
                        i -= k
                    if rng.random() < 0.15:
                        j -= k
                    pairs.append([i, j])
                if pairs and rng.random() < 0.12:       # symmetric duplicate
                    pairs.append([pairs[0][1], pairs[0][0]])
                if k >= 4 and rng.random() < 0.12:      # two separate pairs linked by a later one (chained)
                    a, b, c2, d = rng.sample(range(k), 4)
                    pairs = [[a, b], [c2, d], [a, c2]]
                elif k >= 3 and rng.random() < 0.15:    # a star: everything collapses onto one key
                    a = rng.randrange(k)
                    pairs = [[a, j] for j in rng.sample([j for j in range(k) if j != a], rng.randint(1, min(3, k - 1)))]
                if k and rng.random() < 0.04:
                    pairs.append([0, k + rng.randint(0, 2)])     # out of range
                c["pairs"] = pairs
                c["as_set"] = rng.random() < 0.4
            else:
                if rng.random() < 0.08:
                    c["index"] = None
                else:
                    m = rng.randint(0, max(1, k))
                    c["index"] = [rng.randint(-k, k + 1) if k else rng.randint(-1, 1) for _ in range(m)]
                c["nullable"] = rng.random() < 0.6
            yield c
        elif kind == "norms" and rng.random() < 0.2:
            # a 2-D array: the norm is entry-wise (all entries when axis is None, along the axis otherwise), never a matrix norm
            r_, c_ = rng.randint(1, 3), rng.randint(1, 4)
            yield dict(kind=kind, which="Lnorm2d", v=[_samples(rng, c_) for _ in range(r_)], p=rng.choice([0, 1, 1, 2, 2, 3, "inf", 0.5]),
                       axis=rng.choice([None, None, 0, 1]))
        elif kind == "norms":
            which = rng.choice(["Lnorm", "Lnorm", "dist", "dist"])
            if which == "Lnorm":
                k = 0 if rng.random() < 0.05 else _n(rng)
                v = _samples(rng, k)
                if rng.random() < 0.3:
                    v = [abs(t) for t in v]
                p = rng.choice([0, 1, 1, 2, 2, "inf", "inf", 3, 4, "-inf", 0.5, 1.5, 2.5])
                c = dict(kind=kind, which=which, v=v, p=p)
                if v and rng.random() < 0.2:
                    # a tiny non-zero entry beside ordinary ones (its p-th power underflows): the norm is still the textbook one
                    v = list(v); v[rng.randrange(len(v))] = rng.choice([1e-200, -1e-200, 1e-160, 5e-324, 2.5e-310])
                    c.update(v=v, tiny=True)
                yield c
            else:
                k = 0 if rng.random() < 0.04 else _n(rng)
                pair = rng.random() < 0.6
                a = _samples(rng, k)
                b = _samples(rng, k if pair else max(1, _n(rng) if k else 0))
                if not pair and k == 0:
                    b = []
                for i in range(len(a)):                      # equal coordinates for hamming
                    if i < len(b) and rng.random() < 0.3:
                        b[i] = a[i]
                yield dict(kind=kind, which=which, a=a, b=b, pair=pair,
                           metric=rng.choice(["chebyshev", "manhattan", "hamming", "euclidean", "minkowski"]))
        elif kind == "order":
            k = _n(rng)
            x = _samples(rng, k)
            while len(set(x)) < len(x):          # numpy's argsort is unstable: the order of tied samples is unspecified
                x = [_g(rng) for _ in range(k)]
            w, _ = _weights(rng, k)
            which = rng.choice(["median", "mad", "impose_median", "impose_mad", "tmean", "tvariance", "tstd",
                                "impose_tmean", "impose_tvariance", "impose_tstd"])
            if which in ("median", "impose_median") and rng.random() < 0.4:
                w = None                         # the unweighted forms are the modelled ones (Pure/Median.v)
            kk = rng.choice([0, 0, 10, 25, 12.5, 20, [10, 20], [0, 25], [25, 0], 40])
            yield dict(kind=kind, which=which, x=x, w=w, k=kk, clip=rng.random() < 0.3,
                       t=rng.choice([0.5, 1.0, 2.0, -1.5, 3.0, 0.25]))
        else:
            k = _n(rng)
            x = _samples(rng, k)
            w, _ = _weights(rng, k)
            yield dict(kind=kind, x=x, w=w, order=rng.choice([2, 3, 4, 5]), skew=rng.choice([None, None, False, True]),
                       t=rng.choice([0.5, 1.0, 2.0, -1.0, 3.0, -0.5]))


# ------------------------------------------------------------------ implementation driver

def _enc(v):
    """JSON-able canonical form: finite floats, lists of them; None = no finite answer"""
    try:
        if isinstance(v, (list, tuple)) or (hasattr(v, "shape") and getattr(v, "shape", ()) != ()):
            out = [_enc(t) for t in list(v)]
            return None if any(t is None for t in out) else out
        f = float(v)
        return f if math.isfinite(f) else None
    except Exception:
        return None


def _try(f):
    import warnings
    try:
        with warnings.catch_warnings():
            warnings.simplefilter("ignore")
            return dict(v=_enc(f()))
    except Exception as e:
        return dict(v=None, error=type(e).__name__)


def _poly(c):
    a, b, d = c
    return lambda t: a * t * t + b * t + d


def run_impl(case):
    from mystic.math import measures as M
    from mystic.math import distance as D
    import numpy as np
    k = case["kind"]
    if k == "stats":
        x, w, tol, order = case["x"], case["w"], case["tol"], case["order"]
        f = _poly(case["f"])
        o = {}
        o["mean"] = _try(lambda: M.mean(x, w))
        o["variance"] = _try(lambda: M.variance(x, w))
        o["moment"] = _try(lambda: M.moment(x, w, order))
        o["moment_tol"] = _try(lambda: M.moment(x, w, order, tol))
        o["std"] = _try(lambda: M.std(x, w))
        o["spread"] = _try(lambda: M.spread(x))
        o["expectation"] = _try(lambda: M.expectation(f, x, w, tol))
        o["expected_moment"] = _try(lambda: M._expected_moment(f, x, w, order, tol))
        o["ess_minimum"] = _try(lambda: M.ess_minimum(f, x, w, tol))
        o["ess_maximum"] = _try(lambda: M.ess_maximum(f, x, w, tol))
        o["ess_ptp"] = _try(lambda: M.ess_ptp(f, x, w, tol))
        if w is not None:
            o["support"] = _try(lambda: M.support(x, w, tol))
            o["support_index"] = _try(lambda: [int(i) for i in M.support_index(w, tol)])
        return o
    if k == "impose":
        fn = getattr(M, "impose_" + case["which"])
        return dict(y=_try(lambda: fn(case["t"], list(case["x"]), None if case["w"] is None else list(case["w"]))))
    if k == "weights":
        wh, w = case["which"], list(case["w"])
        if wh == "normalize":
            return dict(r=_try(lambda: M.normalize(w, case["mass"], case["zsum"], case["zmass"])))
        if wh == "impose_sum":
            return dict(r=_try(lambda: M.impose_sum(case["mass"], w, case["zsum"], case["zmass"])))
        if wh == "l1":
            return dict(r=_try(lambda: M.normalize(w, "l1")))
        if wh == "l2":
            return dict(r=_try(lambda: M.normalize(w)))
        return dict(r=_try(lambda: M.impose_weight_norm(list(case["x"]), w, case["mass"])))
    if k == "surgery":
        wh, x, w = case["which"], list(case["x"]), list(case["w"])
        if wh == "support":
            return dict(r=_try(lambda: M.impose_support(case["index"], x, w)))
        if wh == "unweighted":
            return dict(r=_try(lambda: M.impose_unweighted(case["index"], x, w, case["nullable"])))
        pairs = [tuple(p) for p in case["pairs"]]
        arg = set(pairs) if case["as_set"] else pairs
        order = [list(p) for p in arg]                      # iteration order seen by impose_collapse
        out = dict(order=order, r=_try(lambda: M.impose_collapse(arg, x, w)))
        assert x == case["x"] and w == case["w"], "impose_collapse edited its inputs"
        return out
    if k == "norms" and case["which"] == "Lnorm2d":
        import numpy as _np
        p = {"inf": math.inf}.get(case["p"], case["p"])
        def _f():
            r = D.Lnorm(_np.array(case["v"], dtype=float), p, axis=case["axis"])
            return [float(t) for t in _np.ravel(r)]
        return dict(r=_try(_f))
    if k == "norms":
        if case["which"] == "Lnorm":
            p = case["p"]
            p = {"inf": np.inf, "-inf": -np.inf}.get(p, p)
            return dict(r=_try(lambda: D.Lnorm(list(case["v"]), p)))
        fn = getattr(D, case["metric"])
        return dict(r=_try(lambda: fn(list(case["a"]), list(case["b"]), pair=case["pair"])))
    if k == "order":
        wh, x, w, t = case["which"], list(case["x"]), case["w"], case["t"]
        kk = tuple(case["k"]) if isinstance(case["k"], list) else case["k"]
        if wh in ("median", "mad"):
            return dict(r=_try(lambda: getattr(M, wh)(x, w)))
        if wh in ("impose_median", "impose_mad"):
            return dict(r=_try(lambda: getattr(M, wh)(t, x, w)))
        if wh in ("tmean", "tvariance", "tstd"):
            return dict(r=_try(lambda: getattr(M, wh)(x, w, k=kk, clip=case["clip"])))
        return dict(r=_try(lambda: getattr(M, wh)(t, x, w, k=kk, clip=case["clip"])))
    if k == "moment":
        return dict(r=_try(lambda: M.impose_moment(case["t"], list(case["x"]), case["w"], order=case["order"], skew=case["skew"])))
    raise ValueError(k)


# ------------------------------------------------------------------ independent reference (exact rationals)

def _fx(x):
    return [F(v) for v in x]


def _wts(x, w):
    return [F(1)] * len(x) if w is None else _fx(w)


def _ref_mean(x, w):
    x, w = _fx(x), _wts(x, w)
    W = sum(w)
    if W == 0 or len(x) != len(w):
        return None
    return sum(a * b for a, b in zip(x, w)) / W


def _ref_moment(x, w, order):
    mu = _ref_mean(x, w)
    if mu is None:
        return None
    ww = _wts(x, w)
    return sum(b * (F(a) - mu) ** order for a, b in zip(x, ww)) / sum(ww)


def _ref_stats(x, w):
    mu = _ref_mean(x, w)
    if mu is None or not x:
        return None
    return dict(mean=mu, var=_ref_moment(x, w, 2), spread=max(_fx(x)) - min(_fx(x)))


def _close(a, b, scale=0):
    """a: observed (float or Fraction), b: exact reference"""
    if a is None or b is None:
        return False
    a, b = F(a), F(b)
    return abs(a - b) <= REL * (1 + abs(a) + abs(b) + F(scale))


def _ref_sorted(x, w):
    ww = _wts(x, w)
    idx = sorted(range(len(x)), key=lambda i: x[i])          # stable, like numpy's insertion sort on short arrays
    return [F(x[i]) for i in idx], [ww[i] for i in idx]


def _ref_median(x, w):
    """the implementation's definition: first sorted sample(s) whose cumulative weight reaches half of the total;
    the first two of them are averaged when the number of samples is even"""
    xs, ws = _ref_sorted(x, w)
    s = sum(ws)
    c, sel = F(0), []
    for a, b in zip(xs, ws):
        c += b
        if s / 2 - c <= 0:
            sel.append(a)
    sel = sel[0:2 - len(xs) % 2]
    if not sel:
        return None
    return sum(sel) / len(sel)


def _ref_mad(x, w):
    m = _ref_median(x, w)
    if m is None:
        return None
    return _ref_median([abs(F(a) - m) for a in x], w)


def _ref_trim_weights(x, w, k, clip):
    """textbook trimming: remove the fraction klo of the total mass from the low end and khi from the high end of the
    sorted sample (partial weights at the cut points); winsorizing moves the removed mass onto the cut points"""
    xs, ws = _ref_sorted(x, w)
    klo, khi = (k if isinstance(k, (list, tuple)) else (k, k))
    klo, khi = F(klo) / 100, F(khi) / 100
    W = sum(ws)
    if W == 0:
        return xs, None
    lo, hi = klo * W, (1 - khi) * W
    out, c = [], F(0)
    for b in ws:
        out.append(max(F(0), min(c + b, hi) - max(c, lo)))
        c += b
    if clip:
        nz = [i for i, v in enumerate(out) if v > 0]
        if not nz:
            return xs, None
        out[nz[0]] += lo
        out[nz[-1]] += W - hi
    return xs, out


def _ref_tmean(x, w, k, clip):
    xs, tw = _ref_trim_weights(x, w, k, clip)
    if tw is None or sum(tw) == 0:
        return None
    return sum(a * b for a, b in zip(xs, tw)) / sum(tw)


def _ref_tvar(x, w, k, clip):
    xs, tw = _ref_trim_weights(x, w, k, clip)
    if tw is None or sum(tw) == 0:
        return None
    m = sum(a * b for a, b in zip(xs, tw)) / sum(tw)
    return sum(b * (a - m) ** 2 for a, b in zip(xs, tw)) / sum(tw)


def _components(n, pairs):
    parent = list(range(n))
    def find(a):
        while parent[a] != a:
            parent[a] = parent[parent[a]]
            a = parent[a]
        return a
    cyc = False                      # multigraph: a repeated edge (either orientation) or a self pair is a cycle
    for i, j in pairs:
        a, b = find(i), find(j)
        if a == b:
            cyc = True
        else:
            parent[a] = b
    return [find(i) for i in range(n)], cyc


def _norm_idx(n, i):
    return n + i if i < 0 else i


# ------------------------------------------------------------------ oracle

def _fail(clause, site, pattern, detail):
    return dict(clause=clause, site=site, pattern=pattern, detail=detail)


def oracle(case, obs):
    """C18 stated directly on the implementation's behaviour, with independent exact recomputation"""
    if "__exception__" in obs:
        return [_fail("no-crash", "harness.run_impl", obs["__exception__"], obs.get("__msg__"))]
    out = []
    k = case["kind"]
    if k == "stats":
        x, w, tol, order = case["x"], case["w"], case["tol"], case["order"]
        mu = _ref_mean(x, w)
        fx = [F(v) for v in map(_poly([F(c) for c in case["f"]]), _fx(x))]
        if mu is not None and x:
            def chk(name, ref, scale=0):
                v = obs[name]["v"]
                if not _close(v, ref, scale):
                    out.append(_fail(name + "_is_textbook", "measures." + name, "value",
                                     dict(got=v, want=float(ref), err=obs[name].get("error"))))
            chk("mean", mu)
            chk("variance", _ref_moment(x, w, 2))
            chk("moment", F(1) if order == 0 else F(0) if order == 1 else _ref_moment(x, w, order))
            if order >= 2 and "moment_tol" in obs and obs["moment_tol"].get("v") is not None:
                # with a tolerance: still the moment about the TRUE mean, reported as 0 only when it is itself within the tolerance
                refm, t_ = _ref_moment(x, w, order), F(case["tol"])
                if abs(abs(refm) - t_) > F(1, 10 ** 6):
                    want = F(0) if abs(refm) <= t_ else refm
                    if not _close(obs["moment_tol"]["v"], want):
                        out.append(_fail("moment_is_textbook", "measures.moment", "value-with-tolerance", dict(got=obs["moment_tol"]["v"], want=float(want), tol=case["tol"])))
            sd = obs["std"]["v"]
            if sd is None or sd < 0 or not _close(F(sd) ** 2, _ref_moment(x, w, 2)):
                out.append(_fail("std_is_textbook", "measures.std", "value", dict(got=sd)))
            chk("spread", max(_fx(x)) - min(_fx(x)))
        # expectation / ess_* : points with |w| <= tol (resp. w <= tol) are ignored
        ww = _wts(x, w)
        keep_e = [i for i in range(len(x))] if w is None else [i for i in range(len(x)) if abs(ww[i]) > F(tol)]
        keep_s = [i for i in range(len(x))] if w is None else [i for i in range(len(x)) if ww[i] > F(tol)]
        We = sum(ww[i] for i in keep_e)
        if keep_e and We != 0:
            e = sum(fx[i] * ww[i] for i in keep_e) / We
            if not _close(obs["expectation"]["v"], e):
                out.append(_fail("expectation_is_textbook", "measures.expectation", "value",
                                 dict(got=obs["expectation"], want=float(e))))
            if order >= 2:
                em = sum(ww[i] * (fx[i] - e) ** order for i in keep_e) / We
                if not _close(obs["expected_moment"]["v"], em):
                    out.append(_fail("expected_moment_is_textbook", "measures._expected_moment", "value",
                                     dict(got=obs["expected_moment"], want=float(em))))
        if keep_s:
            vals = [fx[i] for i in keep_s]
            for name, ref in (("ess_minimum", min(vals)), ("ess_maximum", max(vals)), ("ess_ptp", max(vals) - min(vals))):
                if not _close(obs[name]["v"], ref):
                    out.append(_fail(name + "_ignores_zero_weight", "measures." + name, "value",
                                     dict(got=obs[name], want=float(ref))))
        if w is not None:
            if obs["support"]["v"] != [x[i] for i in keep_s]:
                out.append(_fail("support", "measures.support", "value", obs["support"]))
            if obs["support_index"]["v"] != [float(i) for i in keep_s]:
                out.append(_fail("support", "measures.support_index", "value", obs["support_index"]))
    elif k == "impose":
        x, w, t, wh = case["x"], case["w"], F(case["t"]), case["which"]
        st = _ref_stats(x, w)
        y = obs["y"]["v"]
        site = "measures.impose_" + wh
        if st is None:
            return out                                   # mean undefined (no samples / zero total weight)
        if wh in ("variance", "std"):
            base, tgt = st["var"], (t if wh == "variance" else t * t)
            defined = (base != 0 and tgt >= 0) or (base == 0 and tgt == 0)
        elif wh == "spread":
            base, tgt = st["spread"], t
            defined = base != 0 and tgt >= 0
        else:
            tgt, defined = t, True
        if not defined:
            return out                                   # degenerate: the code answers nan; outside the quantifier
        if y is None or len(y) != len(x):
            return [_fail("impose_%s_hits" % wh, site, "no-finite-answer", obs["y"])]
        sy = _ref_stats(y, w)
        sc = max(abs(F(v)) for v in y) ** 2
        if wh == "mean":
            if not _close(sy["mean"], tgt):
                out.append(_fail("impose_mean_hits", site, "target", dict(got=float(sy["mean"]), want=float(tgt))))
            if not _close(sy["spread"], st["spread"]):
                out.append(_fail("impose_mean_keeps_spread", site, "spread", dict(got=float(sy["spread"]), want=float(st["spread"]))))
            if not _close(sy["var"], st["var"], sc * F(1, 10**6)):
                out.append(_fail("impose_mean_keeps_variance", site, "variance", dict(got=float(sy["var"]), want=float(st["var"]))))
        else:
            got = sy["var"] if wh in ("variance", "std") else sy["spread"]
            if not _close(got, tgt, sc * F(1, 10**6)):
                out.append(_fail("impose_%s_hits" % wh, site, "target", dict(got=float(got), want=float(tgt))))
            if not _close(sy["mean"], st["mean"]):
                out.append(_fail("impose_%s_keeps_mean" % wh, site, "mean", dict(got=float(sy["mean"]), want=float(st["mean"]))))
    elif k == "weights":
        wh, w, r = case["which"], _fx(case["w"]), obs["r"]["v"]
        A, S = sum(abs(v) for v in w), sum(w)
        if wh in ("normalize", "impose_sum", "weight_norm"):
            mass = F(case["mass"])
            site = "measures." + ("impose_weight_norm" if wh == "weight_norm" else wh)
            zs = case["zsum"] and wh != "weight_norm"
            if A == 0 or not w:
                return out
            if zs and mass == 0:
                tgt = F(0)                                # counterbalanced: total 0
            elif S == 0 or (wh == "weight_norm" and mass == 0):
                return out                                # cannot be scaled to a non-zero total / mean undefined under zero weights
            else:
                tgt = mass
            if wh == "weight_norm":
                mu = _ref_mean(case["x"], case["w"])
                if r is None or len(r) != 2 or len(r[1]) != len(w):
                    return [_fail("impose_weight_norm_hits", site, "no-finite-answer", obs["r"])]
                y, wt = r
                if not _close(sum(_fx(wt)), tgt):
                    out.append(_fail("impose_weight_norm_hits", site, "target", dict(got=float(sum(_fx(wt))), want=float(tgt))))
                if tgt != 0 and not _close(_ref_mean(y, wt), mu):
                    out.append(_fail("impose_weight_norm_keeps_mean", site, "mean", dict(got=y, want=float(mu))))
            else:
                if r is None or len(r) != len(w):
                    return [_fail("normalize_hits", site, "no-finite-answer", obs["r"])]
                if not _close(sum(_fx(r)), tgt):
                    out.append(_fail("normalize_hits", site, "target", dict(got=float(sum(_fx(r))), want=float(tgt))))
        elif A != 0:
            if r is None or len(r) != len(w):
                return [_fail("normalize_lp_hits", "measures.normalize", "no-finite-answer", obs["r"])]
            got = sum(abs(v) for v in _fx(r)) if wh == "l1" else sum(v * v for v in _fx(r))
            if not _close(got, 1):
                out.append(_fail("normalize_lp_hits", "measures.normalize", "target-" + wh, dict(got=float(got))))
    elif k == "surgery":
        wh, x, w = case["which"], case["x"], _fx(case["w"])
        n, r = len(w), obs["r"]["v"]
        mu, W = _ref_mean(x, case["w"]), sum(w)
        site = "measures.impose_" + wh
        if mu is None or W == 0:
            return out
        if wh in ("support", "unweighted"):
            ix = case["index"]
            if ix is None:
                des = set(range(n)) if wh == "support" else set()
            else:
                des = set(_norm_idx(n, i) for i in ix)
            zero = [i for i in range(n) if (i not in des) == (wh == "support")]     # designated to become zero
            rest = [i for i in range(n) if i not in zero]
            S = sum(w[i] for i in rest)
            replaced = wh == "unweighted" and not case["nullable"] and S == 0 and rest
            if (S == 0 or sum(abs(w[i]) for i in rest) == 0) and not replaced:
                return out                                # nothing left to carry the weight: undefined
            if r is None or len(r) != 2 or len(r[0]) != n or len(r[1]) != n:
                return [_fail("impose_%s_defined" % wh, site, "no-finite-answer", obs["r"])]
            y, wt = r[0], _fx(r[1])
            if any(wt[i] != 0 for i in zero) or (not replaced and any((wt[i] == 0) != (w[i] == 0) for i in rest)) \
               or (replaced and any(wt[i] == 0 for i in rest)):
                out.append(_fail("impose_%s_zeroes_exactly" % wh, site, "zero-set", dict(weights=r[1], zero=zero)))
            if not _close(sum(wt), W):
                out.append(_fail("impose_%s_keeps_total_weight" % wh, site, "total", dict(got=float(sum(wt)), want=float(W))))
            if not _close(_ref_mean(y, wt), mu):
                out.append(_fail("impose_%s_keeps_weighted_mean" % wh, site, "mean", dict(y=y, w=r[1], want=float(mu))))
        else:
            raw = obs["order"]
            if any(not (-n <= i < n) for p in raw for i in p):
                return out                                # IndexError expected / not modelled
            pairs = [(_norm_idx(n, i), _norm_idx(n, j)) for i, j in raw]
            comp, cyc = _components(n, pairs)
            if r is None or len(r) != 2 or len(r[0]) != n or len(r[1]) != n:
                return [_fail("impose_collapse_defined", site, "no-finite-answer", obs["r"])]
            y, wt = r[0], _fx(r[1])
            touched = set(i for p in pairs for i in p)
            if not _close(sum(wt), W):
                out.append(_fail("impose_collapse_keeps_total_weight", site, "total",
                                 dict(pairs=raw, got=float(sum(wt)), want=float(W))))
            # every connected component of the pair graph keeps its weight, carried by at most one of its points
            for c in set(comp):
                mem = [i for i in range(n) if comp[i] == c]
                if not _close(sum(wt[i] for i in mem), sum(w[i] for i in mem)):
                    out.append(_fail("impose_collapse_moves_weight_within_pairs", site, "component", dict(pairs=raw, w=r[1])))
                    break
                if len(mem) > 1 and sum(1 for i in mem if wt[i] != 0) > 1:
                    out.append(_fail("impose_collapse_zeroes_exactly", site, "pair-not-collapsed", dict(pairs=raw, w=r[1])))
                    break
            if any(wt[i] != w[i] for i in range(n) if i not in touched):
                out.append(_fail("impose_collapse_zeroes_exactly", site, "untouched-weight-changed", dict(pairs=raw, w=r[1])))
            if sum(wt) != 0 and not _close(_ref_mean(y, wt), mu):
                out.append(_fail("impose_collapse_keeps_weighted_mean", site, "mean", dict(y=y, w=r[1], want=float(mu))))
    elif k == "norms" and case["which"] == "Lnorm2d":
        r, p, ax = obs["r"].get("v"), case["p"], case["axis"]
        rows = [[abs(F(t)) for t in row] for row in case["v"]]
        groups = [[t for row in rows for t in row]] if ax is None else ([list(col) for col in zip(*rows)] if ax == 0 else rows)
        def nrm(g):
            if p == 0: return float(sum(1 for t in g if t != 0))
            if p == "inf": return float(max(g))
            if p == 1: return float(sum(g))
            return float(sum(float(t) ** p for t in g)) ** (1.0 / p)
        want = [nrm(g) for g in groups]
        if r is None or len(r) != len(want) or any(not _close(a, F(b)) for a, b in zip(r, want)):
            out.append(_fail("Lnorm_is_textbook", "distance.Lnorm", "value-2d", dict(v=case["v"], p=p, axis=ax, got=obs["r"], want=want)))
    elif k == "norms":
        r = obs["r"]["v"]
        if case["which"] == "Lnorm":
            v, p = _fx(case["v"]), case["p"]
            site = "distance.Lnorm"
            if not v and p in ("inf", "-inf"):
                return out
            if p == 0:
                ok = r is not None and F(r) == sum(1 for t in v if t != 0)
            elif p == "inf":
                ok = r is not None and F(r) == max(abs(t) for t in v)
            elif p == "-inf":
                ok = r is not None and F(r) == min(abs(t) for t in v)
            elif p == 1:
                ok = _close(r, sum(abs(t) for t in v))
            elif isinstance(p, int):
                # exact: the p-th power of the answer is the sum of the p-th powers
                ok = r is not None and r >= 0 and _close(F(r) ** p, sum(abs(t) ** p for t in v), F(p) * sum(abs(t) ** p for t in v))
            else:
                ref = sum(abs(float(t)) ** p for t in v) ** (1.0 / p)
                ok = _close(r, F(ref))
            if not ok:
                out.append(_fail("Lnorm_is_textbook", site, "value", dict(v=case["v"], p=p, got=obs["r"])))
        else:
            a, b, m = _fx(case["a"]), _fx(case["b"]), case["metric"]
            d = [abs(s - t) for s, t in zip(a, b)] if case["pair"] else [abs(s - t) for s in a for t in b]
            site = "distance." + m
            if not d:
                return out
            if m == "chebyshev":
                ok = r is not None and F(r) == max(d)
            elif m == "hamming":
                ok = r is not None and F(r) == sum(1 for t in d if t != 0)
            elif m == "manhattan":
                ok = _close(r, sum(d))
            elif m == "euclidean":
                ok = r is not None and r >= 0 and _close(F(r) ** 2, sum(t * t for t in d))
            else:
                ok = _close(r, F(sum(float(t) ** 3 for t in d) ** (1.0 / 3)))
            if not ok:
                out.append(_fail(m + "_is_textbook", site, "value", dict(got=obs["r"], d=[float(t) for t in d])))
    elif k == "order":
        wh, x, w, t, kk, clip = case["which"], case["x"], case["w"], F(case["t"]), case["k"], case["clip"]
        r = obs["r"]["v"]
        site = "measures." + wh
        W = sum(_wts(x, w))
        if W == 0 or any(v < 0 for v in _wts(x, w)):
            return out
        def _ties(vals):
            return len(set(vals)) < len(vals)
        if wh in ("mad", "impose_mad", "impose_median"):
            # ties among the absolute deviations: their order under numpy's unstable argsort is unspecified
            m0 = _ref_median(x, w)
            if _ties([abs(F(a) - m0) for a in x]):
                return out
            if wh != "mad" and obs["r"]["v"] is not None:
                m1 = _ref_median(obs["r"]["v"], w)
                if _ties([abs(F(a) - m1) for a in obs["r"]["v"]]):
                    return out
        if wh == "median":
            if not _close(r, _ref_median(x, w)):
                out.append(_fail("median_value", site, "value", dict(got=obs["r"], want=float(_ref_median(x, w)))))
        elif wh == "mad":
            if not _close(r, _ref_mad(x, w)):
                out.append(_fail("mad_value", site, "value", dict(got=obs["r"], want=float(_ref_mad(x, w)))))
        elif wh == "impose_median":
            if r is None or not _close(_ref_median(r, w), t):
                out.append(_fail("impose_median_hits", site, "target", obs["r"]))
            elif not _close(_ref_mad(r, w), _ref_mad(x, w)) or not _close(max(_fx(r)) - min(_fx(r)), max(_fx(x)) - min(_fx(x))):
                out.append(_fail("impose_median_keeps_mad_and_spread", site, "kept", obs["r"]))
        elif wh == "impose_mad":
            if _ref_mad(x, w) != 0 and t >= 0:
                if r is None or not _close(_ref_mad(r, w), t):
                    out.append(_fail("impose_mad_hits", site, "target", obs["r"]))
                elif not _close(_ref_median(r, w), _ref_median(x, w)):
                    out.append(_fail("impose_mad_keeps_median", site, "median", obs["r"]))
        else:
            tm, tv = _ref_tmean(x, w, kk, clip), _ref_tvar(x, w, kk, clip)
            if tm is None:
                return out
            if wh == "tmean":
                if not _close(r, tm):
                    out.append(_fail("tmean_value", site, "value", dict(got=obs["r"], want=float(tm))))
            elif wh == "tvariance":
                if not _close(r, tv):
                    out.append(_fail("tvariance_value", site, "value", dict(got=obs["r"], want=float(tv))))
            elif wh == "tstd":
                if r is None or r < 0 or not _close(F(r) ** 2, tv):
                    out.append(_fail("tstd_value", site, "value", dict(got=obs["r"], want=float(tv))))
            elif wh == "impose_tmean":
                if r is None or not _close(_ref_tmean(r, w, kk, clip), t):
                    out.append(_fail("impose_tmean_hits", site, "target", obs["r"]))
                elif not _close(_ref_tvar(r, w, kk, clip), tv):
                    out.append(_fail("impose_tmean_keeps_tvariance", site, "tvariance", obs["r"]))
            else:
                tgt = t if wh == "impose_tvariance" else t * t
                if tv != 0 and tgt >= 0:
                    sc = 0 if r is None else max(abs(F(v)) for v in r) ** 2 * F(1, 10**6)
                    if r is None or not _close(_ref_tvar(r, w, kk, clip), tgt, sc):
                        out.append(_fail(wh + "_hits", site, "target", obs["r"]))
                    elif not _close(_ref_tmean(r, w, kk, clip), tm):
                        out.append(_fail(wh + "_keeps_tmean", site, "tmean", obs["r"]))
    elif k == "moment":
        x, w, t, order, skew = case["x"], case["w"], F(case["t"]), case["order"], case["skew"]
        r = obs["r"]["v"]
        mu = _ref_mean(x, w)
        if mu is None:
            return out
        sk = (order % 2 == 1) if skew is None else skew
        base = _ref_moment([v * v for v in x] if sk else x, w, order)
        if base == 0 or (order % 2 == 0 and t < 0):
            return out
        if r is None or len(r) != len(x):
            return [_fail("impose_moment_hits", "measures.impose_moment", "no-finite-answer", obs["r"])]
        sc = max(abs(F(v)) for v in r) ** order * F(1, 10**5)
        if not _close(_ref_moment(r, w, order), t, sc):
            out.append(_fail("impose_moment_hits", "measures.impose_moment", "target",
                             dict(got=float(_ref_moment(r, w, order)), want=float(t))))
        if not _close(_ref_mean(r, w), mu, sc):
            out.append(_fail("impose_moment_keeps_mean", "measures.impose_moment", "mean",
                             dict(got=float(_ref_mean(r, w)), want=float(mu))))
    return out


# ------------------------------------------------------------------ Coq side

def coq_preamble():
    return r"""
From Coq Require Import Qabs.
From MV Require Import Common.Num Pure.Measures Pure.Median.
Open Scope Q_scope.
Definition qclose (a b : Q) : bool := Qle_bool (Qabs (a - b)) ((1 # 1000000000) * (1 + Qabs b)).
Definition qcmp (ex : bool) (a b : Q) : bool := if ex then Qeq_bool a b else qclose a b.
Definition oq (ex : bool) (m e : option Q) : bool :=
  match m, e with Some a, Some b => qcmp ex a b | None, None => true | _, _ => false end.
Definition ql (ex : bool) (a b : list Q) : bool :=
  (Nat.eqb (length a) (length b) && forallb (fun p => qcmp ex (fst p) (snd p)) (combine a b))%bool.
Definition oql (ex : bool) (m e : option (list Q)) : bool :=
  match m, e with Some a, Some b => ql ex a b | None, None => true | _, _ => false end.
Definition oqll (ex : bool) (m e : option (list Q * list Q)) : bool :=
  match m, e with Some a, Some b => (ql ex (fst a) (fst b) && ql ex (snd a) (snd b))%bool | None, None => true | _, _ => false end.
Definition natl_eq (a b : list nat) : bool :=
  (Nat.eqb (length a) (length b) && forallb (fun p => Nat.eqb (fst p) (snd p)) (combine a b))%bool.
Definition poly (a b c t : Q) : Q := a * t * t + b * t + c.
Definition SQ := Qsqrt_approx.
"""


def _ql(xs):
    return "(%s : list Q)" % lst(xs, qlit)


def _ow(w):
    return "(None : option (list Q))" if w is None else "(Some %s)" % _ql(w)


def _oq(v):
    return "(%s : option Q)" % opt(v, qlit)


def _oql(v):
    return "(%s : option (list Q))" % ("None" if v is None else "(Some %s)" % _ql(v))


def _oqll(v):
    if v is None:
        return "(None : option (list Q * list Q))"
    return "(Some (%s, %s))" % (_ql(v[0]), _ql(v[1]))


def _zl(ix):
    return "(%s : list Z)" % lst(ix, zlit)


def coq_terms(case, obs):
    if "__exception__" in obs:
        return []
    k = case["kind"]
    T = []
    ex = blit(bool(case.get("exact")))
    if k in ("impose", "weights", "surgery") and not case["w"] and case["w"] is not None:
        return []        # empty weighted input: "a list of nan" of length 0 is [] -- nothing to compare
    if k == "stats":
        x, w, tol, order = _ql(case["x"]), _ow(case["w"]), qlit(case["tol"]), natlit(case["order"])
        f = "(poly %s %s %s)" % tuple(qlit(c) for c in case["f"])
        # with tol > 0 the kept weights need not sum to a power of two: tolerance there
        ex_t = ex if case["tol"] == 0 else "false"
        T.append("oq %s (mean NumQ %s %s) %s" % (ex, x, w, _oq(obs["mean"]["v"])))
        T.append("oq %s (variance NumQ %s %s) %s" % (ex, x, w, _oq(obs["variance"]["v"])))
        T.append("oq %s (moment NumQ %s %s %s) %s" % (ex, x, w, order, _oq(obs["moment"]["v"])))
        T.append("oq false (std NumQ SQ %s %s) %s" % (x, w, _oq(obs["std"]["v"])))
        T.append("oq true (spread NumQ %s) %s" % (x, _oq(obs["spread"]["v"])))
        T.append("oq %s (expectation NumQ %s %s %s %s) %s" % (ex_t, f, x, w, tol, _oq(obs["expectation"]["v"])))
        T.append("oq false (expected_moment NumQ %s %s %s %s %s) %s" % (f, x, w, order, tol, _oq(obs["expected_moment"]["v"])))
        for name in ("ess_minimum", "ess_maximum", "ess_ptp"):
            T.append("oq true (%s NumQ %s %s %s %s) %s" % (name, f, x, w, tol, _oq(obs[name]["v"])))
        if case["w"] is not None and obs["support"]["v"] is not None:
            T.append("ql true (support NumQ %s %s %s) %s" % (x, _ql(case["w"]), tol, _ql(obs["support"]["v"])))
            T.append("natl_eq (support_index NumQ %s %s) %s" % (_ql(case["w"]), tol, lst([int(i) for i in obs["support_index"]["v"]], natlit)))
    elif k == "impose":
        x, w, t = _ql(case["x"]), _ow(case["w"]), qlit(case["t"])
        wh = case["which"]
        fn = {"mean": "impose_mean NumQ", "variance": "impose_variance NumQ SQ", "std": "impose_std NumQ SQ",
              "spread": "impose_spread NumQ"}[wh]
        T.append("oql %s (%s %s %s %s) %s" % (ex, fn, t, x, w, _oql(obs["y"]["v"])))
    elif k == "weights":
        wh, w = case["which"], _ql(case["w"])
        r = obs["r"]["v"]
        if wh in ("normalize", "impose_sum") and sum(_fx(case["w"])) == 0 and any(v != 0 for v in case["w"]):
            # weights that sum to zero cannot be scaled to a total (outside the claim); whether the implementation notices the zero sum
            # depends on the rounding of weights / sum(abs(weights)) in binary64, which the exact-rational model does not follow
            pass
        elif wh in ("normalize", "impose_sum"):
            fn = "normalize NumQ %s %s %s %s" % (w, qlit(case["mass"]), blit(case["zsum"]), qlit(case["zmass"])) if wh == "normalize" \
                else "impose_sum NumQ %s %s %s %s" % (qlit(case["mass"]), w, blit(case["zsum"]), qlit(case["zmass"]))
            T.append("oql %s (%s) %s" % (ex, fn, _oql(r)))
        elif wh == "l1":
            T.append("oql %s (Some (normalize_l1 NumQ %s)) %s" % (ex, w, _oql(r)))
        elif wh == "l2":
            T.append("oql false (Some (normalize_l2 NumQ SQ %s)) %s" % (w, _oql(r)))
        else:
            T.append("oqll %s (impose_weight_norm NumQ %s %s %s) %s" % (ex, _ql(case["x"]), w, qlit(case["mass"]), _oqll(r)))
    elif k == "surgery":
        wh, x, w = case["which"], _ql(case["x"]), _ql(case["w"])
        r = obs["r"]["v"]
        if wh in ("support", "unweighted"):
            ix = "(None : option (list Z))" if case["index"] is None else "(Some %s)" % _zl(case["index"])
            if wh == "support":
                T.append("oqll false (impose_support NumQ %s %s %s) %s" % (ix, x, w, _oqll(r)))
            else:
                T.append("oqll false (impose_unweighted NumQ %s %s %s %s) %s" % (ix, x, w, blit(case["nullable"]), _oqll(r)))
        else:
            n = len(case["w"])
            if any(i < -n for p in obs["order"] for i in p):
                return []
            ps = "(%s : list (Z * Z))" % lst(["(%s, %s)" % (zlit(i), zlit(j)) for i, j in obs["order"]])
            T.append("oqll false (impose_collapse NumQ %s %s %s) %s" % (ps, x, w, _oqll(r)))
    elif k == "norms" and case["which"] == "Lnorm2d":
        pass      # oracle only
    elif k == "norms":
        r = obs["r"]["v"]
        if case["which"] == "Lnorm" and case.get("tiny"):
            pass      # entries at the edge of the float range: judged by the exact-rational oracle only
        elif case["which"] == "Lnorm":
            v, p = _ql(case["v"]), case["p"]
            if p == 0:
                T.append("oq true (Some (Lnorm0 NumQ %s)) %s" % (v, _oq(r)))
            elif p == 1:
                T.append("oq true (Some (Lnorm1 NumQ %s)) %s" % (v, _oq(r)))
            elif p == 2:
                T.append("oq false (Some (Lnorm2 NumQ SQ %s)) %s" % (v, _oq(r)))
            elif p == "inf":
                T.append("oq true (LnormInf NumQ %s) %s" % (v, _oq(r)))
        else:
            a, b, m = _ql(case["a"]), _ql(case["b"]), case["metric"]
            if obs["r"].get("error") and len(case["a"]) and len(case["b"]):
                return []                      # numpy broadcasting errors are not modelled
            d = "(absdiff_pair NumQ %s %s)" % (a, b) if case["pair"] else "(absdiff_all NumQ %s %s)" % (a, b)
            if m == "chebyshev":
                T.append("oq true (chebyshev_d NumQ %s) %s" % (d, _oq(r)))
            elif m == "manhattan" and (case["a"] and case["b"]):
                T.append("oq true (Some (manhattan_d NumQ %s)) %s" % (d, _oq(r)))
            elif m == "hamming" and (case["a"] and case["b"]):
                T.append("oq true (Some (hamming_d NumQ %s)) %s" % (d, _oq(r)))
            elif m == "euclidean" and (case["a"] and case["b"]):
                T.append("oq false (Some (euclidean_d NumQ SQ %s)) %s" % (d, _oq(r)))
    elif k == "order" and case["w"] is None and case["which"] in ("median", "impose_median"):
        # the unweighted order statistics are modelled (Pure/Median.v); the weighted ones stay oracle-only
        x = _ql(case["x"])
        if case["which"] == "median":
            T.append("oq false (median_u NumQ %s) %s" % (x, _oq(obs["r"]["v"])))
        else:
            T.append("oql false (impose_median_u NumQ %s %s) %s" % (qlit(case["t"]), x, _oql(obs["r"]["v"])))
    return T


def coq_debug(case, obs, k):
    ts = coq_terms(case, obs)
    t = ts[k]
    # print the model's value: strip the comparison wrapper "oq.. ex (model) expected"
    depth, start = 0, t.index("(")
    for i in range(start, len(t)):
        if t[i] == "(":
            depth += 1
        elif t[i] == ")":
            depth -= 1
            if depth == 0:
                return t[start:i + 1]
    return t


def classify(case, obs):
    k = case["kind"]
    tags = ["kind:" + k]
    wh = case.get("which") or case.get("metric")
    if wh:
        tags.append("%s:%s" % (k, wh))
    x = case.get("x", case.get("v", case.get("a", case.get("w", []))))
    w = case.get("w")
    tags.append("n:%d" % len(x))
    if "w" in case:
        tags.append("weights:" + ("none" if w is None else "all-zero" if w and not any(w) else "some-zero" if w and not all(w) else "positive"))
    if "exact" in case:
        tags.append("compare:" + ("exact-Q" if case["exact"] else "1e-9"))
    for key in ("y", "r"):
        if key in obs and isinstance(obs[key], dict):
            tags.append("answer:" + ("finite" if obs[key]["v"] is not None else "error:" + obs[key]["error"] if obs[key].get("error") else "nan/inf"))
    if k == "norms" and case["which"] == "Lnorm":
        tags.append("p:%s" % case["p"])
    # decision sites reached with equality (so that < vs <= mutations are visible)
    if k == "stats" and w is not None and case["tol"] > 0 and any(abs(v) == case["tol"] for v in w):
        tags.append("tie:weight==tol")
    if k == "stats" and w is not None and any(v == 0 for v in w):
        tags.append("tie:weight==0")
    if k == "order":
        xs, ws = _ref_sorted(case["x"], case["w"])
        c, half = F(0), sum(ws) / 2
        for b in ws:
            c += b
            if c == half and half != 0:
                tags.append("tie:cumulative-weight==half")
                break
    if k == "surgery" and wh != "collapse":
        ix, n = case["index"], len(case["w"])
        tags.append("index:" + ("none" if ix is None else "empty" if not ix else
                                "out-of-range" if any(not (-n <= i < n) for i in ix) else
                                "negative" if any(i < 0 for i in ix) else "plain"))
    if k == "impose" and wh != "mean":
        st = _ref_stats(case["x"], case["w"])
        if st is not None:
            base = st["var"] if wh in ("variance", "std") else st["spread"]
            tags.append("degenerate:" + ("zero-base" if base == 0 else "negative-target" if case["t"] < 0 else "no"))
    if k == "surgery" and wh == "collapse":
        n = len(case["w"])
        ok = all(-n <= i < n for p in case["pairs"] for i in p)
        if ok and n:
            _, cyc = _components(n, [(_norm_idx(n, i), _norm_idx(n, j)) for i, j in case["pairs"]])
            tags.append("pairs:" + ("cyclic" if cyc else "acyclic"))
    nontrivial = len(x) >= 2 and len(set(x)) >= 2 and (w is None or "w" not in case or any(w))
    return json.dumps(case, sort_keys=True), nontrivial, tags


def shrink(case):
    # drop one position (samples and weights together), fix up indices
    for key in ("x", "v", "a"):
        if key in case and len(case[key]) > 1:
            n = len(case[key])
            for i in range(n):
                c = dict(case)
                for k2 in ("x", "w", "v", "a", "b"):
                    if isinstance(case.get(k2), list) and len(case[k2]) == n:
                        c[k2] = case[k2][:i] + case[k2][i + 1:]
                if c.get("index"):
                    c["index"] = [j for j in case["index"] if -(n - 1) <= j < n - 1]
                if "pairs" in c:
                    c["pairs"] = [p for p in case["pairs"] if all(-(n - 1) <= j < n - 1 for j in p)]
                c["exact"] = False
                yield c
            break
    if case.get("pairs") and len(case["pairs"]) > 1:
        for i in range(len(case["pairs"])):
            yield dict(case, pairs=case["pairs"][:i] + case["pairs"][i + 1:])
